/-
  C17 — Expiry removes only event keys, wholly, and only after the TTL.
  Model: `expireStep` (scanner.compactIfExpired) inside the worker loop, `timeoutRev`
  (scanner.getTimeoutRevision over the compaction marks) with a model clock, `createHasTTL`
  (backend.create). The event-key tests are DEFINED through facts regenerated from the source
  (`Generated.eventsMatchScanner`, `eventsMatchTxn`, `eventsPrefixShape`, `eventsPattern`): if the code
  goes back to a substring match these theorems stop checking.
-/
import KB.Lemmas.Expire
namespace KB.C17
open KB Generated

/-- The events resource directory directly under the configured prefix: `<prefix>/events/`. -/
def eventsDir (pfx : Bytes) : Bytes := pfx ++ [47, 101, 118, 101, 110, 116, 115, 47]

/-- Only event keys: whatever expiry removes lies in the events directory (engine without native TTL). -/
theorem only_event_keys (c : WCfg) (r : Rec) (acts : List Act) (h : expireStep c r = some acts) :
    hasPrefix r.key c.eventsPfx = true ∧ c.eventsPfx ≠ [] := by
  unfold expireStep at h
  rw [isEventKey_eq] at h
  by_cases h1 : (c.supportTTL || c.timeout == 0) = true
  · rw [if_pos h1] at h; exact absurd h (by simp)
  · rw [if_neg h1] at h
    by_cases h2 : (decide (c.eventsPfx.length > 0) && hasPrefix r.key c.eventsPfx) = true
    · simp only [Bool.and_eq_true, decide_eq_true_eq] at h2
      refine ⟨h2.2, ?_⟩
      intro he; rw [he] at h2; simp at h2
    · rw [if_neg h2] at h; exact absurd h (by simp)

/-- ... and the directory the backend configures is exactly `<prefix>/events/`. -/
theorem events_prefix_is_dir (c : Cfg) : eventsPrefixOf c = eventsDir c.pfx := by
  rw [eventsPrefixOf_eq]; rfl

/-- Engines with native TTL: the TTL is passed on create exactly for keys in the events directory. -/
theorem ttl_only_for_event_keys (c : Cfg) (key : Bytes) :
    createHasTTL c key = true ↔ hasPrefix key (eventsDir c.pfx) = true := by
  rw [createHasTTL_eq]; exact Iff.rfl

/-- A pod in a namespace called `events` is not an Event: `/registry/pods/events/p1` never expires. -/
theorem lookalike_never_expires :
    let pfx : Bytes := [47, 114, 101, 103, 105, 115, 116, 114, 121]               -- "/registry"
    let key : Bytes := pfx ++ [47, 112, 111, 100, 115, 47, 101, 118, 101, 110, 116, 115, 47, 112, 49]  -- "/pods/events/p1"
    ∀ (cw : WCfg) (r : Rec), cw.eventsPfx = eventsDir pfx → r.key = key → expireStep cw r = none := by
  intro pfx key cw r hpfx hkey
  have hk : hasPrefix r.key cw.eventsPfx = false := by
    rw [hpfx, hkey]; decide
  unfold expireStep
  rw [isEventKey_eq, hk]
  simp

/-- The timeout revision is the revision of a compaction mark that is at least TTL old. -/
theorem timeout_rev_old (c : Cfg) (marks : List (Nat × Nat)) (now : Nat) (T : Nat)
    (h : (timeoutRev c marks now).1 = T) (hT : T ≠ 0) : ∃ t, (T, t) ∈ marks ∧ c.ttl ≤ now - t := by
  unfold timeoutRev at h
  by_cases hs : c.q.supportTTL = true
  · rw [if_pos hs] at h; exact absurd h.symm hT
  · rw [if_neg hs] at h
    simp only at h
    cases hl : (marks.takeWhile (fun m => decide (now - m.2 ≥ c.ttl))).getLast? with
    | none => rw [hl] at h; exact absurd h.symm hT
    | some x =>
      rw [hl] at h
      simp only [Option.map_some, Option.getD_some] at h
      have hmem := mem_takeWhile_imp' (List.mem_of_getLast? hl)
      refine ⟨x.2, ?_, ?_⟩
      · rw [← h]; exact hmem.1
      · simpa using hmem.2

/-- Never before the TTL: a record expires only if its (index) revision is at or below the timeout
revision — i.e. at or below a revision that was already committed when a mark at least TTL old was
taken; a key whose newest change is younger than that survives. -/
theorem young_survive (c : WCfg) (r : Rec) (acts : List Act) (h : expireStep c r = some acts)
    (hnp : acts ≠ [.panic]) :
    (r.rev = 0 → fromBE (r.val.take 8) ≤ c.timeout) ∧ (r.rev ≠ 0 → r.rev ≤ c.timeout) := by
  unfold expireStep at h
  by_cases h1 : (c.supportTTL || c.timeout == 0) = true
  · rw [if_pos h1] at h; exact absurd h (by simp)
  · rw [if_neg h1] at h
    by_cases h2 : isEventKey c r.key = true
    · rw [if_pos h2] at h
      by_cases h3 : (r.rev == 0) = true
      · rw [if_pos h3] at h
        have hr : r.rev = 0 := by simpa using h3
        refine ⟨fun _ => ?_, fun hne => absurd hr hne⟩
        by_cases h4 : r.val.length < 8
        · rw [if_pos h4] at h
          exact absurd (Option.some.inj h).symm hnp
        · rw [if_neg h4] at h
          by_cases h5 : fromBE (r.val.take 8) ≤ c.timeout
          · exact h5
          · rw [if_neg h5] at h; exact absurd h (by simp)
      · rw [if_neg h3] at h
        have hr : r.rev ≠ 0 := by simpa using h3
        refine ⟨fun h0 => absurd h0 hr, fun _ => ?_⟩
        by_cases h5 : r.rev ≤ c.timeout
        · exact h5
        · rw [if_neg h5] at h; exact absurd h (by simp)
    · rw [if_neg h2] at h; exact absurd h (by simp)

/-- Wholly: for an event key whose index record says "newest change at m ≤ timeout" and all of whose
versions are ≤ m, one pass issues a delete for the index record and for every version. -/
theorem expire_whole (c : WCfg) (hc : c.supportTTL = false) (hT : c.timeout ≠ 0)
    (r : Rec) (hk : isEventKey c r.key = true) (m : Nat)
    (hidx : r.rev = 0 → 8 ≤ r.val.length ∧ fromBE (r.val.take 8) = m) (hver : r.rev ≠ 0 → r.rev ≤ m)
    (hm : m ≤ c.timeout) :
    (r.rev = 0 → expireStep c r = some [.delcur r.ik r.val r.key]) ∧
    (r.rev ≠ 0 → expireStep c r = some [.del r.ik r.key]) := by
  have h1 : ¬ (c.supportTTL || c.timeout == 0) = true := by
    simp [hc, hT]
  constructor
  · intro hr
    obtain ⟨hl, hv⟩ := hidx hr
    unfold expireStep
    rw [if_neg h1, if_pos hk, if_pos (by simp [hr]), if_neg (by omega), if_pos (by omega)]
  · intro hr
    have := hver hr
    unfold expireStep
    rw [if_neg h1, if_pos hk, if_neg (by simp [hr]), if_pos (by omega)]

/-- Expired records produce no read result and no other action: the worker `continue`s. -/
theorem expired_not_emitted (c : WCfg) (p : Prev) (r : Rec) (acts : List Act) (h : expireStep c r = some acts) :
    workerStep c p r = (acts, p) := by
  unfold workerStep
  rw [h]

end KB.C17

#print axioms KB.C17.only_event_keys
#print axioms KB.C17.events_prefix_is_dir
#print axioms KB.C17.ttl_only_for_event_keys
#print axioms KB.C17.lookalike_never_expires
#print axioms KB.C17.timeout_rev_old
#print axioms KB.C17.young_survive
#print axioms KB.C17.expire_whole
#print axioms KB.C17.expired_not_emitted
