/-
  C02 (lagging allocator) — a key's history never goes backwards, WHATEVER the revision allocator hands out.

  `C02Store.per_key_increasing` assumes `C02.StoreOK`: the allocator starts at or above everything stored (that a new
  leader does so is C15). Here the allocator is arbitrary: `dealt` / `committed` of the initial state may be far below
  the revisions the store already holds (a deposed leader that has not noticed yet, an engine clock that lags). What
  protects a key then are the LOCAL guards of the write path:
    * `backend.deal`: an update / guarded delete dealt `rev ≤ expected` is refused (`ErrRevisionDriftBack`),
    * `backend.delete`: refused when `rev ≤ modRev` of the version it read,
    * `naiveCreator`: a deletion record is overwritten only when `prevRev < rev`,
    * `retry.overwrite`: NO explicit guard — it is safe because the revision it repairs was dealt earlier by the
      same monotone allocator (the queue is in-memory and empty at start); `repair_queue_must_start_empty` below shows
      what a pre-filled queue would do.
  Model: KB.Sys, all interleavings, all fault placements, any number of requests, the two-step repair loop.
  Helper lemmas: KB.Lemmas.SysLag.
-/
import KB.Lemmas.SysLag
namespace KB.C02Lag
open KB Generated KB.SysStore KB.SysLag

/-- Initial states: empty control state and ghost logs (as `C04.Init` / `C02.Init`), but NOTHING about `dealt`
and `committed` — neither their relation to the stored revisions nor to each other. -/
def LagInit (g : G) : Prop :=
  g.slots = [] ∧ g.clients = [] ∧ g.retryQ = [] ∧ g.retryPc = none ∧ g.hist = [] ∧ g.wlog = []

instance (g : G) : Decidable (LagInit g) := by unfold LagInit; infer_instance

theorem ctl_init {g0 : G} (h0 : LagInit g0) : Ctl g0 := by
  obtain ⟨hs, hc, hq, hp, _⟩ := h0
  exact ⟨by simp [hc], by simp [hs], by simp [hq], by simp [hp]⟩

theorem lagG_init {g0 : G} (h0 : LagInit g0) (hwf : KeyWF g0.store) : LagG g0 g0 := by
  obtain ⟨_, _, _, _, hh, hw⟩ := h0
  exact ⟨by rw [hw]; exact Lag.init hwf, by rw [hh, hw]; rfl⟩

theorem linv {g0 g : G} (h0 : LagInit g0) (hwf : KeyWF g0.store) (hr : Reachable g0 g) (hb : g.dealt < 2 ^ 64) :
    Ctl g ∧ LagG g0 g := by
  obtain ⟨s, rfl⟩ := hr
  exact LInv.run hwf s g0 (ctl_init h0) (lagG_init h0 hwf) hb

/-! ### the property -/

/-- **No applied write ever lands at or below a revision its key already has — whatever the allocator hands out.**
From any well-formed store and any allocator value, along every run (every interleaving of requests, sequencer and
repair loop, every fault placement): per key, the revisions of the batches the engine applied strictly increase,
and each of them is strictly greater than every revision the key had in the initial store (index value and
versions). `hb`: the allocator has not left the 8-byte range (past it revisions wrap: `SysStore.index_agrees_needs_bound`). -/
theorem lagging_allocator_key_history_increasing {g0 g : G} (h0 : LagInit g0) (hwf : KeyWF g0.store)
    (hr : Reachable g0 g) (hb : g.dealt < 2 ^ 64) (k : Bytes) :
    ((g.hist.filter (fun w => w.key == k)).map (·.rev)).Pairwise (· < ·) ∧
    ∀ w ∈ g.hist, w.key = k → ∀ r, StoredRev g0.store k r → r < w.rev := by
  obtain ⟨_, hl⟩ := linv h0 hwf hr hb
  constructor
  · have := hl.lag.inc k
    rw [hl.hist, List.filter_map, List.map_map]
    exact this
  · intro w hw hk r hs
    rw [hl.hist] at hw
    obtain ⟨x, hx, rfl⟩ := List.mem_map.mp hw
    have hk' : x.key = k := hk
    exact hl.lag.above x hx r (by rw [hk']; exact hs)

/-- the same on the log that also records the condition each batch was committed under -/
theorem lagging_allocator_wlog_increasing {g0 g : G} (h0 : LagInit g0) (hwf : KeyWF g0.store)
    (hr : Reachable g0 g) (hb : g.dealt < 2 ^ 64) (k : Bytes) :
    ((g.wlog.filter (fun w => w.key == k)).map (·.rev)).Pairwise (· < ·) ∧
    (∀ w ∈ g.wlog, w.key = k → ∀ r, StoredRev g0.store k r → r < w.rev) ∧
    (∀ w ∈ g.wlog, w.key = k → ∃ m t, topOf g.store k = some (m, t) ∧ w.rev ≤ m) := by
  obtain ⟨_, hl⟩ := linv h0 hwf hr hb
  refine ⟨hl.lag.inc k, ?_, ?_⟩
  · intro w hw hk r hs
    exact hl.lag.above w hw r (by rw [hk]; exact hs)
  · intro w hw hk
    have := hl.lag.top w hw
    rwa [hk] at this

/-- **`KeyWF` is an invariant**: in every reachable store the index record of a key names its newest version (and
a key without index record has no version). -/
theorem lagging_allocator_store_wf {g0 g : G} (h0 : LagInit g0) (hwf : KeyWF g0.store)
    (hr : Reachable g0 g) (hb : g.dealt < 2 ^ 64) : KeyWF g.store :=
  (linv h0 hwf hr hb).2.lag.wf

/-- ... and the index revision of a key never decreases, nor is the record ever removed by the write path. -/
theorem lagging_allocator_index_monotone {g0 g : G} (h0 : LagInit g0) (hwf : KeyWF g0.store)
    (hr : Reachable g0 g) (hb : g.dealt < 2 ^ 64) (k : Bytes) (m0 : Nat) (t0 : Bool)
    (h : topOf g0.store k = some (m0, t0)) : ∃ m t, topOf g.store k = some (m, t) ∧ m0 ≤ m :=
  (linv h0 hwf hr hb).2.lag.mono k m0 t0 h

/-- Requests over the documented alphabet keep the store over the alphabet (the part of "decodes to sorted records
over the alphabet" that depends on what clients send; `KeyWF` itself does not). -/
theorem lagging_allocator_store_alpha {g0 : G} (h0 : LagInit g0) (hal : StoreAlpha g0.store) (s : List Action)
    (hs : ∀ a ∈ s, ActAlpha a) : StoreAlpha (run g0 s).store := by
  obtain ⟨hsl, hcl, hq, hp, _⟩ := h0
  have hA : AlphaInv g0 := ⟨by simp [hcl], by simp [hsl], by simp [hq], hal, by simp [hp]⟩
  exact (hA.run s hs).st

/-- In particular a point read returns the version the index names: for every reachable state of a run over the
alphabet, `getInternal` of a key with index record `iv` returns the version at the revision `iv` parses to. -/
theorem lagging_allocator_read_newest {g0 : G} (h0 : LagInit g0) (hwf : KeyWF g0.store) (hal : StoreAlpha g0.store)
    (s : List Action) (hs : ∀ a ∈ s, ActAlpha a) (hb : (run g0 s).dealt < 2 ^ 64) (k : Bytes) (hka : Alphabet k)
    (iv : Bytes) (hi : (run g0 s).store.get (idxKey k) = some iv) :
    ∃ m t val, parseRevision iv = some (m, t) ∧
      getInternal (run g0 s).cfg (run g0 s).store k 0 = some (val, m) ∧ (t = true → val = tombstone) :=
  (lagging_allocator_store_wf h0 hwf ⟨s, rfl⟩ hb).read_newest _ (lagging_allocator_store_alpha h0 hal s hs) hka hi

/-! ### the two guards at work -/

theorem find_setClient (l : List Client) (c c' : Client) (hid : c'.id = c.id)
    (h : l.find? (fun x => x.id == c.id) = some c) :
    (l.map (fun x => if x.id == c'.id then c' else x)).find? (fun x => x.id == c.id) = some c' := by
  rw [hid]
  induction l with
  | nil => simp at h
  | cons x xs ih =>
    simp only [List.map_cons, List.find?_cons] at h ⊢
    by_cases hx : x.id = c.id
    · simp [hx, hid]
    · have hx' : (x.id == c.id) = false := by simpa using hx
      rw [hx'] at h
      simp only [hx', Bool.false_eq_true, if_false]
      exact ih h

theorem client_setClient (g : G) (c c' : Client) (hid : c'.id = c.id) (h : g.client c.id = some c) :
    (g.setClient c').client c.id = some c' := find_setClient g.clients c c' hid h

/-- **The drift guard of `deal`.** In ANY state (in particular in every state reachable from a lagging initial
state): an update conditioned on revision `m` that is dealt a revision `≤ m` finishes in its first step with
`ErrRevisionDriftBack`; store and history are untouched. (When `m` is the key's current revision the engine's CAS
would have let it through: `cas_alone_admits_stale_write`.) `hopen`: `Deal` hands out a revision at all (since /repo
624b477 it refuses while the sequencer's window is full: `C04.window_full_is_refused_not_panicked`). -/
theorem lagging_update_refused (g : G) {c : Client} (hc : g.client c.id = some c) {key val : Bytes} {m : Nat}
    (hpc : c.pc = .start) (hk : c.kind = .update key val m) (hopen : g.windowFull = false) (hlag : g.dealt + 1 ≤ m)
    (f : Fault) :
    (act g (.step c.id f)).store = g.store ∧ (act g (.step c.id f)).hist = g.hist ∧
    (act g (.step c.id f)).wlog = g.wlog ∧ (act g (.step c.id f)).client c.id = none ∧
    (act g (.step c.id f)).done = g.done ++
      [{ id := c.id, kind := c.kind, res := .error .drift, rev := g.dealt + 1, beginDealt := c.beginDealt,
         endDealt := g.dealt + 1 }] := by
  rw [act_step_of g c.id f c hc]
  obtain ⟨id, kind, pc, bd⟩ := c
  simp only at hpc hk
  subst hpc hk
  have e0 : (m == 0) = false := by simp; omega
  have hopen' : windowFullAt g.cfg g.dealt g.committed = false := hopen
  simp only [stepClient, stepClientCore, dealSite, G.windowFull, hopen', Bool.and_false, e0, hlag, if_true,
    Bool.false_eq_true, if_false]
  refine ⟨by simp, by simp, by simp, ?_, by simp [G.finish]⟩
  simp only [G.client, G.finish, List.find?_eq_none, List.mem_filter]
  intro x hx
  simpa using hx.2

/-- **The `rev ≤ modRev` guard of `delete`.** In a well-formed store over the alphabet (every reachable store of a
run over the alphabet is: `lagging_allocator_store_wf`, `lagging_allocator_store_alpha`), an unconditional delete
of a live key whose index names revision `m`: its read returns `m`; dealt a revision `≤ m` it finishes with an
error; store and history are untouched. -/
theorem lagging_delete_refused (g : G) (hwf : KeyWF g.store) (hal : StoreAlpha g.store) {c : Client}
    (hc : g.client c.id = some c) {key : Bytes} (hka : Alphabet key) (hpc : c.pc = .start)
    (hk : c.kind = .delete key 0) {iv v : Bytes} {m : Nat} {t : Bool}
    (hidx : g.store.get (idxKey key) = some iv) (hp : parseRevision iv = some (m, t))
    (hv : g.store.get (encode key m) = some v) (hlive : isTomb v = false) (hopen : g.windowFull = false)
    (hlag : g.dealt + 1 ≤ m) (f1 f2 : Fault) :
    (run g [.step c.id f1, .step c.id f2]).store = g.store ∧
    (run g [.step c.id f1, .step c.id f2]).hist = g.hist ∧
    (run g [.step c.id f1, .step c.id f2]).wlog = g.wlog ∧
    (run g [.step c.id f1, .step c.id f2]).done = g.done ++
      [{ id := c.id, kind := c.kind, res := .error .other, rev := g.dealt + 1, beginDealt := c.beginDealt,
         endDealt := g.dealt + 1 }] := by
  -- the read returns the version the index names
  obtain ⟨m', t', val, hp', hget, _⟩ := hwf.read_newest g.cfg hal hka hidx
  rw [hp] at hp'
  simp only [Option.some.injEq, Prod.mk.injEq] at hp'
  obtain ⟨rfl, rfl⟩ := hp'
  obtain ⟨m0, t0, hp0, hm0, hmb, ⟨val0, hval0, _⟩, habove⟩ := hwf.idx key iv hidx
  rw [hp] at hp0
  simp only [Option.some.injEq, Prod.mk.injEq] at hp0
  obtain ⟨rfl, rfl⟩ := hp0
  have hget' : getInternal g.cfg g.store key 0 = some (v, m) :=
    getInternal_newest g.cfg hwf.sorted hal hm0 hmb hka hv habove
  have hfound : bget g.cfg g.store key 0 = .found v m := by simp [bget, hget', hlive]
  show (act (act g (.step c.id f1)) (.step c.id f2)).store = _ ∧ (act (act g (.step c.id f1)) (.step c.id f2)).hist = _ ∧
    (act (act g (.step c.id f1)) (.step c.id f2)).wlog = _ ∧ (act (act g (.step c.id f1)) (.step c.id f2)).done = _
  rw [act_step_of g c.id f1 c hc]
  obtain ⟨id, kind, pc, bd⟩ := c
  dsimp only at hpc hk hc ⊢
  subst hpc hk
  have h1 : stepClient g ⟨id, .delete key 0, .start, bd⟩ f1 =
      g.setClient ⟨id, .delete key 0, .deleteDeal (some (v, m)), bd⟩ := by
    simp only [stepClient, stepClientCore, dealSite, Bool.false_and, Bool.false_eq_true, if_false, hfound]
  rw [h1, act_step_of _ id f2 _ (client_setClient g ⟨id, .delete key 0, .start, bd⟩
    ⟨id, .delete key 0, .deleteDeal (some (v, m)), bd⟩ rfl hc)]
  have hle : g.dealt + 1 ≤ m := hlag
  have hopen' : windowFullAt g.cfg g.dealt g.committed = false := hopen
  have hopen2 : (g.setClient ⟨id, .delete key 0, .deleteDeal (some (v, m)), bd⟩).windowFull = false := hopen'
  simp only [stepClient, stepClientCore, dealSite, hopen2, Bool.and_false, G.setClient_dealt, hle, Nat.lt_irrefl,
    decide_false, Bool.false_and, Bool.false_eq_true, if_false, if_true, gt_iff_lt]
  refine ⟨by simp, by simp, by simp, by simp [G.finish]⟩

/-- the same for the states of a run over the alphabet from a lagging initial state -/
theorem lagging_delete_refused_reachable {g0 : G} (h0 : LagInit g0) (hwf : KeyWF g0.store)
    (hal : StoreAlpha g0.store) (s : List Action) (hs : ∀ a ∈ s, ActAlpha a) (hb : (run g0 s).dealt < 2 ^ 64)
    {c : Client} (hc : (run g0 s).client c.id = some c) {key : Bytes} (hka : Alphabet key) (hpc : c.pc = .start)
    (hk : c.kind = .delete key 0) {iv v : Bytes} {m : Nat} {t : Bool}
    (hidx : (run g0 s).store.get (idxKey key) = some iv) (hp : parseRevision iv = some (m, t))
    (hv : (run g0 s).store.get (encode key m) = some v) (hlive : isTomb v = false)
    (hopen : (run g0 s).windowFull = false) (hlag : (run g0 s).dealt + 1 ≤ m) (f1 f2 : Fault) :
    (run (run g0 s) [.step c.id f1, .step c.id f2]).store = (run g0 s).store ∧
    (run (run g0 s) [.step c.id f1, .step c.id f2]).hist = (run g0 s).hist ∧
    (run (run g0 s) [.step c.id f1, .step c.id f2]).wlog = (run g0 s).wlog ∧
    (run (run g0 s) [.step c.id f1, .step c.id f2]).done = (run g0 s).done ++
      [{ id := c.id, kind := c.kind, res := .error .other, rev := (run g0 s).dealt + 1, beginDealt := c.beginDealt,
         endDealt := (run g0 s).dealt + 1 }] :=
  lagging_delete_refused (run g0 s) (lagging_allocator_store_wf h0 hwf ⟨s, rfl⟩ hb)
    (lagging_allocator_store_alpha h0 hal s hs) hc hka hpc hk hidx hp hv hlive hopen hlag f1 f2

/-! ### each guard is needed -/

/-- The engine's compare-and-swap alone does not order revisions: when the index of `k` is `be8 m`, the batch of an
update conditioned on `m` commits for EVERY new revision `r` — also `r ≤ m`. -/
theorem cas_alone_admits_stale_write (q : Quirks) (st : Store) (k v : Bytes) (m r : Nat)
    (hidx : st.get (idxKey k) = some (be8 m)) :
    commit q st [.cas (idxKey k) (be8 r) (be8 m), .put (encode k r) v] =
      .ok ((st.put (idxKey k) (be8 r)).put (encode k r) v) :=
  (commit_cas_put ..).mpr ⟨hidx, rfl⟩

/-- with `r = m` it rewrites the version at `m` in place: one revision, two values -/
theorem cas_alone_rewrites_in_place (q : Quirks) (st : Store) (k v : Bytes) (m : Nat)
    (hidx : st.get (idxKey k) = some (be8 m)) :
    ∃ st', commit q st [.cas (idxKey k) (be8 m) (be8 m), .put (encode k m) v] = .ok st' ∧
      st'.get (encode k m) = some v :=
  ⟨_, cas_alone_admits_stale_write q st k v m m hidx, by rw [SysStore.Store.get_put]; simp⟩

/-- with `r < m` it leaves the index naming `r` although the version at `m` is still there (and newer) -/
theorem cas_alone_lands_below (q : Quirks) (st : Store) (k v old : Bytes) (m r : Nat) (h0 : 0 < r) (hlt : r < m)
    (hm : m < 2 ^ 64) (hidx : st.get (idxKey k) = some (be8 m)) (hver : st.get (encode k m) = some old) :
    ∃ st', commit q st [.cas (idxKey k) (be8 r) (be8 m), .put (encode k r) v] = .ok st' ∧
      topOf st' k = some (r, false) ∧ st'.get (encode k m) = some old := by
  refine ⟨_, cas_alone_admits_stale_write q st k v m r hidx, ?_, ?_⟩
  · have := topOf_wstore (store := st) (key := k) (rev := r) (new := be8 r) (v := v) h0 (by omega) k
    unfold wstore at this
    rw [this, if_pos rfl]
    exact parse_be8 (by omega)
  · have := wstore_get_ver (store := st) (key := k) (rev := r) (new := be8 r) (v := v) (by omega) k m (by omega) hm
    unfold wstore at this
    rw [this, if_neg (by omega)]
    exact hver

/-- `stepClient` with the drift check removed from `deal` (seeded bug: `rev ≤ prevRevision` no longer refused);
every other arm is `stepClient`. -/
def stepClientNoDrift (g : G) (c : Client) (f : Fault) : G :=
  match c.pc, c.kind with
  | .start, .update _ _ exp =>
    let rev := g.dealt + 1
    let g := { g with dealt := rev }
    if exp == 0 then g.setClient { c with pc := .createCommit rev }
    else g.setClient { c with pc := .updateCommit rev }
  | .deleteDeal (some (oldVal, modRev)), .delete key exp =>
    let rev := g.dealt + 1
    let g := { g with dealt := rev }
    let inval := mkW rev modRev false .delete key oldVal
    if exp > 0 && exp != modRev then
      (g.notify inval).setClient { c with pc := .readLatest rev (some (key, oldVal, modRev)) }
    else if rev ≤ modRev then (g.notify inval).finish c (.error .other) rev
    else g.setClient { c with pc := .deleteCommit rev oldVal modRev }
  | _, _ => stepClient g c f

/-- `stepClient` with the `newRevision <= modRevision` check removed from `delete` (seeded bug). -/
def stepClientNoDeleteGuard (g : G) (c : Client) (f : Fault) : G :=
  match c.pc, c.kind with
  | .deleteDeal (some (oldVal, modRev)), .delete key exp =>
    let rev := g.dealt + 1
    let g := { g with dealt := rev }
    let inval := mkW rev modRev false .delete key oldVal
    if exp > 0 && rev ≤ exp then (g.notify inval).finish c (.error .drift) rev
    else if exp > 0 && exp != modRev then
      (g.notify inval).setClient { c with pc := .readLatest rev (some (key, oldVal, modRev)) }
    else g.setClient { c with pc := .deleteCommit rev oldVal modRev }
  | _, _ => stepClient g c f

/-- `createSawIndex` with the creator's `prevRevision < revision` check removed: any deletion record is overwritten. -/
def createSawIndexNoGuard (g : G) (c : Client) (key val : Bytes) (rev : Nat) (old : Bytes) : G :=
  match parseRevision old with
  | none => finishCreate g c key val rev .err
  | some (_, tomb) =>
    if tomb then g.setClient { c with pc := .createOver rev old 0 }
    else finishCreate g c key val rev (.conflict none none)

/-- `stepClient` with that creator (the two arms that look at the old index value). -/
def stepClientNoCreatorGuard (g : G) (c : Client) (f : Fault) : G :=
  match c.pc, c.kind with
  | .createCommit rev, k =>
    let (key, val) := match k with
      | .create k v => (k, v)
      | .update k v _ => (k, v)
      | .delete k _ => (k, [])
    let (r, st) := doCommit g.cfg g.store (createOps key val rev) f
    let g := { g with store := st }
    let g := if applied r f then g.logWrite key rev (some val) else g
    match r with
    | .conflict idx cv =>
      if idx == some 0 then createSawIndexNoGuard g c key val rev (cv.getD [])
      else g.setClient { c with pc := .createReread rev }
    | r => finishCreate g c key val rev r
  | .createReread rev, k =>
    let (key, val) := match k with
      | .create k v => (k, v)
      | .update k v _ => (k, v)
      | .delete k _ => (k, [])
    match g.store.get (idxKey key) with
    | some old => createSawIndexNoGuard g c key val rev old
    | none => g.setClient { c with pc := .createRetry rev }
  | _, _ => stepClient g c f

/-- `act` / `run` over a replaced client step -/
def actWith (sc : G → Client → Fault → G) (g : G) : Action → G
  | .step id f =>
    match g.client id with
    | none => g
    | some c => sc g c f
  | a => act g a

def runWith (sc : G → Client → Fault → G) (g : G) (sched : List Action) : G := sched.foldl (actWith sc) g

/-- (with the real step it is `run`) -/
theorem runWith_stepClient (g : G) (s : List Action) : runWith stepClient g s = run g s := by
  unfold runWith run
  congr 1
  funext g a
  cases a <;> rfl

/-! concrete lagging state: `/a` live at revision 5, `/b` live at revision 7, allocator at 3 -/

def ka : Bytes := [47, 97]
def kb : Bytes := [47, 98]
def kc : Bytes := [47, 99]

def lagStore : Store :=
  [(idxKey ka, be8 5), (encode ka 5, [1]), (idxKey kb, be8 7), (encode kb 7, [2])]

def exLag : G := { store := lagStore, dealt := 3, committed := 3 }

theorem exLag_wf : KeyWF exLag.store := KeyWF.of_check (by decide) (by decide)

theorem exLag_alpha : StoreAlpha exLag.store := by
  intro kv hkv
  simp only [exLag, lagStore, List.mem_cons, List.mem_nil_iff, or_false] at hkv
  rcases hkv with rfl | rfl | rfl | rfl
  · exact ⟨ka, 0, rfl, by decide⟩
  · exact ⟨ka, 5, rfl, by decide⟩
  · exact ⟨kb, 0, rfl, by decide⟩
  · exact ⟨kb, 7, rfl, by decide⟩

def updA : List Action := [.begin 1 (.update ka [9] 5), .step 1 .none, .step 1 .none]
def delA : List Action := [.begin 1 (.delete ka 0), .step 1 .none, .step 1 .none, .step 1 .none]

/-- **Without the drift guard the history of `/a` goes backwards.** From the lagging state an update of `/a`
conditioned on its current revision 5 is dealt revision 4; without the guard its batch commits (the CAS only compares
the index with 5), the client is told `ok 4`, the applied write is at 4 < 5, the index now names 4 although version 5
is still the newest — and reads keep returning the OLD value at 5. With the guard (`run`) the same schedule is
refused and changes nothing. -/
theorem drift_guard_needed :
    LagInit exLag ∧ exLag.store.get (encode ka 5) = some [1] ∧
    (let g := runWith stepClientNoDrift exLag updA
     g.done.map (·.res) = [.ok 4] ∧ g.hist = [⟨ka, 4, some [9]⟩] ∧ topOf g.store ka = some (4, false) ∧
     g.store.get (encode ka 5) = some [1] ∧ bget g.cfg g.store ka 0 = .found [1] 5) ∧
    (let g := run exLag updA
     g.done.map (·.res) = [.error .drift] ∧ g.hist = [] ∧ g.store = exLag.store) := by
  decide

/-- the same with the allocator at 4: the update is dealt exactly 5 and REWRITES revision 5 in place (value `[1]`
at revision 5 becomes `[9]` at revision 5) -/
theorem drift_guard_needed_in_place :
    (let g := runWith stepClientNoDrift { exLag with dealt := 4, committed := 4 } updA
     g.done.map (·.res) = [.ok 5] ∧ g.hist = [⟨ka, 5, some [9]⟩] ∧ g.store.get (encode ka 5) = some [9]) ∧
    (let g := run { exLag with dealt := 4, committed := 4 } updA
     g.done.map (·.res) = [.error .drift] ∧ g.store = exLag.store) := by
  decide

/-- **Without the `rev ≤ modRev` guard of `delete`.** An unconditional delete of `/a` reads version 5, is dealt 4;
without the guard its batch commits: the client is told `ok 4`, the index says "deleted at 4", yet the newest version
is still the live one at 5 and reads keep returning it. With the guard: refused, nothing changes. -/
theorem delete_guard_needed :
    LagInit exLag ∧
    (let g := runWith stepClientNoDeleteGuard exLag delA
     g.done.map (·.res) = [.ok 4] ∧ g.hist = [⟨ka, 4, none⟩] ∧ topOf g.store ka = some (4, true) ∧
     bget g.cfg g.store ka 0 = .found [1] 5) ∧
    (let g := run exLag delA
     g.done.map (·.res) = [.error .other] ∧ g.hist = [] ∧ g.store = exLag.store) := by
  decide

/-- `/a` deleted at revision 5, allocator at 3 -/
def exLagDel : G :=
  { store := [(idxKey ka, be8 5 ++ [0]), (encode ka 5, tombstone)], dealt := 3, committed := 3 }

theorem exLagDel_wf : KeyWF exLagDel.store := KeyWF.of_check (by decide) (by decide)

def creA : List Action := [.begin 1 (.create ka [9]), .step 1 .none, .step 1 .none, .step 1 .none]

/-- **Without the creator's `prevRev < rev` guard.** A create of the deleted key is dealt 4 < 5; without the guard it
overwrites the deletion record: `ok 4`, but the newest version is still the tombstone at 5 — the key it just created
reads as not found. With the guard the create is refused and changes nothing: with an ERROR since /repo 42e5238 (the
key is absent, the condition "absent" did not fail; before that fix - `creatorTombAboveIsCf` - the answer was a
failed condition: the old observation (i)). -/
theorem creator_guard_needed :
    LagInit exLagDel ∧
    (let g := runWith stepClientNoCreatorGuard exLagDel creA
     g.done.map (·.res) = [.ok 4] ∧ g.hist = [⟨ka, 4, some [9]⟩] ∧ topOf g.store ka = some (4, false) ∧
     bget g.cfg g.store ka 0 = .notFound 5) ∧
    (let g := run exLagDel creA
     g.done.map (·.res) = [.error .other] ∧ g.hist = [] ∧ g.store = exLagDel.store ∧
     g.slots.map (fun w => (w.rev, w.valid, w.uncertain)) = [(4, false, false)]) ∧
    (let g := run { exLagDel with cfg := { creatorTombAboveIsCf := true } } creA
     g.done.map (·.res) = [.condFailed 4 none] ∧ g.hist = [] ∧ g.store = exLagDel.store) := by
  decide

/-- **The repair loop has no guard of its own**: `overwrite` deals a fresh revision and CASes `prev → new` without
comparing them. It is safe only because `prev` was dealt earlier by the same allocator — i.e. because the repair
queue starts empty (`LagInit`). Started with a queued revision the allocator has not reached (5, allocator at 3) the
rewrite lands at 4 < 5. -/
theorem repair_queue_must_start_empty :
    (let g0 : G := { exLag with retryQ := [mkW 5 0 false .create ka [1] true] }
     let g := run g0 [.retryRead, .retryCommit .none]
     KeyWF g0.store ∧ g.hist = [⟨ka, 4, some [1]⟩] ∧ topOf g.store ka = some (4, false) ∧
       g.store.get (encode ka 5) = some [1]) :=
  ⟨exLag_wf, by decide, by decide, by decide⟩

/-- **`KeyWF.noidx` is needed** (a key without index record has no versions). The write path keeps it; compaction —
not part of KB.Sys — removes the index record of a deleted key BEFORE its versions, so a compaction that fails
half-way can leave versions without index record. On such a store a create (put-if-absent on the index) from a lagging
allocator lands below the orphan version: here `/a` has an orphan tombstone at 5, the create is told `ok 4`, and the key
reads as not found. -/
theorem index_less_versions_excluded :
    (let g0 : G := { store := [(encode ka 5, tombstone)], dealt := 3, committed := 3 }
     let g := run g0 [.begin 1 (.create ka [9]), .step 1 .none, .step 1 .none]
     LagInit g0 ∧ g.done.map (·.res) = [.ok 4] ∧ g.hist = [⟨ka, 4, some [9]⟩] ∧
       g.store.get (encode ka 5) = some tombstone ∧ bget g.cfg g.store ka 0 = .notFound 5) := by
  decide

/-! ### non-vacuity -/

/-- a run from the lagging state: create of a new key (revision 4), update of `/b`@7 dealt 5 (refused), delete of `/b`
dealt 6 (refused), update of `/b`@7 dealt 7 (refused: it would rewrite 7 in place), update of `/b`@7 dealt 8: applied -/
def lagSched : List Action :=
  [ .begin 1 (.create kc [3]), .step 1 .none, .step 1 .none,
    .begin 2 (.update kb [8] 7), .step 2 .none,
    .begin 3 (.delete kb 0), .step 3 .none, .step 3 .none,
    .begin 4 (.update kb [8] 7), .step 4 .none,
    .begin 5 (.update kb [8] 7), .step 5 .none, .step 5 .none ]

example : LagInit exLag ∧ exLag.dealt = 3 ∧ topOf exLag.store ka = some (5, false) ∧
    topOf exLag.store kb = some (7, false) := by decide

example : KeyWF exLag.store ∧ StoreAlpha exLag.store := ⟨exLag_wf, exLag_alpha⟩

example : Reachable exLag (run exLag lagSched) := ⟨lagSched, rfl⟩

example :
    (run exLag lagSched).done.map (·.res) =
      [.ok 4, .error .drift, .error .other, .error .drift, .ok 8] ∧
    (run exLag lagSched).hist = [⟨kc, 4, some [3]⟩, ⟨kb, 8, some [8]⟩] ∧
    (run exLag lagSched).dealt = 8 ∧
    topOf (run exLag lagSched).store kb = some (8, false) ∧
    topOf (run exLag lagSched).store ka = some (5, false) ∧
    bget (run exLag lagSched).cfg (run exLag lagSched).store kb 0 = .found [8] 8 := by
  decide

/-- the theorem instantiated on that run: the applied write of `/b` (revision 8) is above the stored 7 -/
example : ∀ w ∈ (run exLag lagSched).hist, w.key = kb → 7 < w.rev := by
  intro w hw hk
  have h := (lagging_allocator_key_history_increasing (g0 := exLag) (by decide) exLag_wf ⟨lagSched, rfl⟩
    (by decide) kb).2 w hw hk 7
  exact h (.inl ⟨false, by decide⟩)

end KB.C02Lag
