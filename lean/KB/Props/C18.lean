/-
  C18 — Only the leader writes and streams; followers read at its revision or fail.

  Model: KB.Server (role decision of a handler from its guard record; follower read-sync LTS).
  Table: KB.Generated.handlerGuards, regenerated from /repo's go/ast on every check run
  (harness/cmd/kbextract/guards.go).

  Part 1 (`role_table` and its readable corollaries) is a finite statement over the regenerated table ⊗
  roles ⊗ proxy ⊗ leader behaviour, decided by evaluation.

  Part 2: the full statement `follower_read_fresh` ("a follower read is served at a revision ≥ the leader's
  committed revision when the read began") is FALSE in the model of the code as it is — and in the code, see
  known_findings.json — for ONE remaining reason, with a decided witness trace:
    * `joined_fetch_is_stale`: single-flight sharing hands a read the result of a fetch the leader answered
      before the read began.
  The second reason the code used to have is repaired in /repo (db7d4ff: `tso.Commit` only raises the
  committed revision) and the model follows (`asIs.monotoneSet = true`):
    * `late_set_lowers_revision` is now a statement about `beforeFix` (the plain store let the delayed store
      of an older fetch lower the read revision under a read that had fetched a newer one), kept as the
      witness of the repaired defect;
    * `late_set_does_not_lower`: for the code as it is, no step lowers the follower's read revision, and every
      served read that did not join an already-answered fetch is fresh — under any interleaving.  The late
      join is the ONLY remaining source of staleness (`stale_read_joined_late`).
  Proved besides: `follower_read_fresh_partial` (non-overlapping follower reads), `fetched_value_fresh`
  (what a read stores is fresh unless it joined an already-answered fetch), `follower_read_fresh_fixed`
  (with the proposed repair on top the full statement holds; each switch alone does not give it), and
  `served_only_after_own_sync` / `unreachable_leader_read_fails` (a read whose sync failed is never served).

  Part 3: the forward path of a write transaction (`forward`): `forward_at_most_once` (one execution per client
  request, a lost answer is reported as Unavailable), `forward_definite_answer_truthful`, and the decided
  witnesses of what a re-send on Unavailable does (`resend_reports_failed_for_applied_write`, `…_update`).
-/
import KB.Server
import KB.Lemmas.Server
import KB.Generated.HandlerGuards
namespace KB.C18
open KB.Server KB.Generated

set_option linter.unusedSimpArgs false

/-! ## Part 1 — the role table -/

def proxies : List Bool := [false, true]
def behaviours : List LeaderBehaviour := [.ok, .down, .err]

/-- The check of one row, evaluated by `decide` in `role_table`. -/
def rowOk (g : HandlerGuard) : Bool :=
  match g.kind with
  | .write | .watch =>
      g.firstGuard == .isLeader && !g.touchesBackendBeforeGuard && !g.unguardedBackend &&
      (!g.rpc || (proxies.all fun p => behaviours.all fun lb =>
          (outcome g .follower p lb == .forwarded || outcome g .follower p lb == .unavailable) &&
          !backendAccess g .follower p lb))
  | .read =>
      g.firstGuard == .syncRead && !g.touchesBackendBeforeGuard && !g.unguardedBackend && g.returnsGuardError &&
      proxies.all fun p => [LeaderBehaviour.down, .err].all fun lb =>
          outcome g .follower p lb == .syncError && !backendAccess g .follower p lb
  | .other => g.backendCalls.isEmpty

/-- Every handler of both APIs, as extracted from the current source: write and watch handlers test
`IsLeader` before any data access to the backend, all their backend calls are on the leader side, and on a
follower they forward or answer unavailable; read handlers call `SyncReadRevision` first, return its error
and touch the backend only after it succeeded; the remaining handlers never touch the backend.  The
extractor resolved everything. -/
theorem role_table : handlerGuards.all rowOk = true ∧ handlerGuardsUnresolved = [] := by decide

theorem row_ok {g : HandlerGuard} (hg : g ∈ handlerGuards) : rowOk g = true :=
  List.all_eq_true.mp role_table.1 g hg

/-- A node that is not leader never applies a write and never serves a watch from its own history: for
every write/watch RPC of the table, whatever the proxy setting and the leader's behaviour, the request is
forwarded or refused as unavailable, and no data method of the local backend is reachable. -/
theorem follower_never_writes_or_streams {g : HandlerGuard} (hg : g ∈ handlerGuards)
    (hk : g.kind = .write ∨ g.kind = .watch) (hr : g.rpc = true) (p : Bool) (lb : LeaderBehaviour) :
    (outcome g .follower p lb = .forwarded ∨ outcome g .follower p lb = .unavailable) ∧
    backendAccess g .follower p lb = false := by
  have h := row_ok hg
  have key : (proxies.all fun p => behaviours.all fun lb =>
      (outcome g .follower p lb == .forwarded || outcome g .follower p lb == .unavailable) &&
      !backendAccess g .follower p lb) = true := by
    unfold rowOk at h
    rcases hk with hk | hk <;> simp [hk, hr] at h <;> simpa using h.2
  have hp : p ∈ proxies := by cases p <;> simp [proxies]
  have hl : lb ∈ behaviours := by cases lb <;> simp [behaviours]
  have := List.all_eq_true.mp (List.all_eq_true.mp key p hp) lb hl
  simpa using this

/-- Background write loops (brain `compactLoop`) and every write/watch handler keep all backend data calls
on the leader side of an `IsLeader` test that comes first. -/
theorem writes_are_leader_side {g : HandlerGuard} (hg : g ∈ handlerGuards)
    (hk : g.kind = .write ∨ g.kind = .watch) :
    g.firstGuard = .isLeader ∧ g.touchesBackendBeforeGuard = false ∧ g.unguardedBackend = false := by
  have h := row_ok hg
  unfold rowOk at h
  rcases hk with hk | hk <;> simp [hk] at h <;> exact ⟨h.1.1.1, h.1.1.2, h.1.2⟩

/-- A follower answers a read only after the sync: every read handler calls `SyncReadRevision` before any
backend data access, and if the leader is down or answers with an error the read fails with that error
and the backend is not read. -/
theorem follower_read_syncs_first {g : HandlerGuard} (hg : g ∈ handlerGuards) (hk : g.kind = .read) :
    g.firstGuard = .syncRead ∧ g.touchesBackendBeforeGuard = false ∧ g.unguardedBackend = false ∧
    ∀ (p : Bool) (lb : LeaderBehaviour), lb ≠ .ok →
      outcome g .follower p lb = .syncError ∧ backendAccess g .follower p lb = false := by
  have h := row_ok hg
  unfold rowOk at h
  simp [hk, proxies] at h
  refine ⟨h.1.1.1.1, h.1.1.1.2, h.1.1.2, ?_⟩
  intro p lb hlb
  cases p <;> cases lb <;> simp_all

/-- Handlers of kind `other` (lease / cluster stubs, etcd Compact, Put, DeleteRange) never touch the backend. -/
theorem stubs_do_not_touch_backend {g : HandlerGuard} (hg : g ∈ handlerGuards) (hk : g.kind = .other)
    (r : Role) (p : Bool) (lb : LeaderBehaviour) : backendAccess g r p lb = false := by
  have h := row_ok hg
  unfold rowOk at h
  simp [hk] at h
  simp [backendAccess, h]

/-- The leader serves everything itself. -/
theorem leader_serves (g : HandlerGuard) (p : Bool) (lb : LeaderBehaviour) :
    outcome g .leader p lb = .servedLocally := rfl

-- the hypotheses of the corollaries are satisfiable: the table has rows of every kind
example : ∃ g ∈ handlerGuards, g.kind = .write ∧ g.rpc = true := by decide
example : ∃ g ∈ handlerGuards, g.kind = .watch ∧ g.rpc = true := by decide
example : ∃ g ∈ handlerGuards, g.kind = .read := by decide
example : ∃ g ∈ handlerGuards, g.kind = .other := by decide
-- and both follower exits occur
example : ∃ g ∈ handlerGuards, outcome g .follower true .ok = .forwarded := by decide
example : ∃ g ∈ handlerGuards, outcome g .follower false .ok = .unavailable := by decide

/-! ## Part 2 — follower reads -/

/-- THE FULL STATEMENT (false for the code as it is, see `follower_read_fresh_false`): in every reachable
state every served follower read was served at a revision ≥ the leader's committed revision when that
read began. -/
def follower_read_fresh : Prop := ∀ s, Reachable asIs s → Fresh s

/-- Witness 1 (single-flight): read 0 starts a fetch, the leader answers 10, then commits 11; read 1 begins
(leader at 11), joins the fetch in flight and is served at 10. -/
def staleJoinTrace : List Step :=
  [.readBegin 0, .fetchStart 0, .leaderAnswer .ok, .leaderCommit, .readBegin 1, .fetchJoin 1, .fetchReply,
   .setRev 0, .setRev 1, .readServe 1]

theorem joined_fetch_is_stale :
    (run asIs (init 10) staleJoinTrace).map (fun s => ((s.reads 1).phase, (s.reads 1).beginRev, (s.reads 1).late))
      = some (.served 10, 11, true) := by decide

/-- The schedule of the repaired defect: read 0 fetches 10 and is delayed before `SetCurrentRevision`; the
leader commits 11; read 1 begins, runs its OWN fetch (11), stores 11; read 0's delayed store (10) follows;
read 1 is served. -/
def lateSetTrace : List Step :=
  [.readBegin 0, .fetchStart 0, .leaderAnswer .ok, .fetchReply, .leaderCommit, .readBegin 1, .fetchStart 1,
   .leaderAnswer .ok, .fetchReply, .setRev 1, .setRev 0, .readServe 1]

/-- Witness of the REPAIRED defect (the code before db7d4ff, `beforeFix`: `SetCurrentRevision` a plain store):
read 0's delayed store puts 10 back; read 1 is served at 10 although what it fetched itself was fresh. -/
theorem late_set_lowers_revision :
    (run beforeFix (init 10) lateSetTrace).map
        (fun s => ((s.reads 1).phase, (s.reads 1).beginRev, (s.reads 1).late, (s.reads 1).fetched))
      = some (.served 10, 11, false, some 11) := by decide

/-- The same schedule on the code as it is: the delayed store of 10 is ignored, read 1 is served at 11. -/
theorem late_set_schedule_fresh_now :
    (run asIs (init 10) lateSetTrace).map
        (fun s => ((s.reads 1).phase, (s.reads 1).beginRev, (s.reads 1).late, (s.reads 1).fetched, s.followerRev))
      = some (.served 11, 11, false, some 11, 11) := by decide

theorem follower_read_fresh_false : ¬ follower_read_fresh := by
  intro h
  have hw := joined_fetch_is_stale
  cases hrun : run asIs (init 10) staleJoinTrace with
  | none => simp [hrun] at hw
  | some s =>
    simp [hrun] at hw
    have hf := h s ⟨10, staleJoinTrace, hrun⟩ 1 10 hw.1
    omega

/-- Each switch alone is not enough: the monotone store — which is what the code has now, `asIs` — does not
help a read that joined a stale fetch … -/
theorem monotone_set_alone_insufficient :
    asIs = { monotoneSet := true, retryLateJoin := false } ∧
    (run asIs (init 10) staleJoinTrace).map
        (fun s => ((s.reads 1).phase, (s.reads 1).beginRev)) = some (.served 10, 11) := by decide

/-- … and refusing stale joins would not have helped against the delayed plain store of the old code. -/
theorem retry_alone_insufficient :
    (run { monotoneSet := false, retryLateJoin := true } (init 10) lateSetTrace).map
        (fun s => ((s.reads 1).phase, (s.reads 1).beginRev)) = some (.served 10, 11) := by decide

/-! ### the repaired half: the follower's read revision never goes back -/

/-- No step of the code as it is lowers the follower's read revision (from ANY state, reachable or not). -/
theorem follower_rev_never_decreases {s s' : State} {st : Step} (h : step asIs s st = some s') :
    s.followerRev ≤ s'.followerRev :=
  followerRev_step_mono rfl h

/-- … hence along every execution. -/
theorem follower_rev_never_decreases_run {s s' : State} {tr : List Step} (h : run asIs s tr = some s') :
    s.followerRev ≤ s'.followerRev :=
  followerRev_run_mono rfl h

/-- The follower's read revision is ≥ every value any read has stored so far, and a read is served at a
revision ≥ the one it stored itself. -/
theorem read_revision_covers_stored {s : State} (hs : Reachable asIs s) (r w : Nat)
    (hw : (s.reads r).fetched = some w) :
    w ≤ s.followerRev ∧ ∀ v, (s.reads r).phase = .served v → w ≤ v :=
  ⟨(invAsIs_reachable s hs).stored_le r w hw, fun v hv => (invAsIs_reachable s hs).served_ge r v w hv hw⟩

/-- THE FULL STATEMENT RESTRICTED TO READS THAT DID THEIR OWN FETCH, any interleaving: in every reachable
state of the code as it is, every served read that did not join a fetch the leader had already answered
(`late = false`: it started the fetch itself or joined one still unanswered) was served at a revision ≥ the
leader's committed revision when it began. -/
theorem own_fetch_read_fresh : ∀ s, Reachable asIs s → FreshOwn s :=
  fun s hs => (invAsIs_reachable s hs).freshOwn

/-- `late-set-lowers-revision` is repaired: (1) from every reachable state, no step lowers the follower's
read revision; (2) in every reachable state every served read with `late = false` is fresh — a delayed store
of an older answer can no longer put a read that fetched a fresh revision below it. -/
theorem late_set_does_not_lower :
    (∀ s s' st, Reachable asIs s → step asIs s st = some s' → s.followerRev ≤ s'.followerRev) ∧
    (∀ s, Reachable asIs s → ∀ r v, (s.reads r).phase = .served v → (s.reads r).late = false →
      (s.reads r).beginRev ≤ v) :=
  ⟨fun _ _ _ _ h => follower_rev_never_decreases h, own_fetch_read_fresh⟩

/-- The late join is the ONLY remaining source of staleness: a read served below the leader's committed
revision at its begin joined a fetch the leader had already answered. -/
theorem stale_read_joined_late {s : State} (hs : Reachable asIs s) (r v : Nat)
    (hv : (s.reads r).phase = .served v) (hst : v < (s.reads r).beginRev) : (s.reads r).late = true := by
  cases hl : (s.reads r).late with
  | true => rfl
  | false => have := own_fetch_read_fresh s hs r v hv hl; omega

-- the hypotheses are satisfiable: a reachable state with a served read that ran its own fetch while another
-- read's store was delayed (the late-set schedule) …
example : ∃ s, Reachable asIs s ∧ (s.reads 1).phase = .served 11 ∧ (s.reads 1).late = false ∧
    (s.reads 1).beginRev = 11 := by
  cases hrun : run asIs (init 10) lateSetTrace with
  | none => have := late_set_schedule_fresh_now; simp [hrun] at this
  | some s =>
    have := late_set_schedule_fresh_now
    simp [hrun] at this
    exact ⟨s, ⟨10, lateSetTrace, hrun⟩, this.1, this.2.2.1, this.2.1⟩
-- … and one with a stale served read (the stale-join schedule)
example : ∃ s, Reachable asIs s ∧ (s.reads 1).phase = .served 10 ∧ 10 < (s.reads 1).beginRev := by
  cases hrun : run asIs (init 10) staleJoinTrace with
  | none => have := joined_fetch_is_stale; simp [hrun] at this
  | some s =>
    have := joined_fetch_is_stale
    simp [hrun] at this
    exact ⟨s, ⟨10, staleJoinTrace, hrun⟩, this.1, by omega⟩

/-! ### what does hold for the code as it is -/

/-- What a read itself stores is fresh, unless it joined a fetch the leader had already answered: the value
a read passes to `SetCurrentRevision` is ≥ the leader's committed revision when the read began. -/
theorem fetched_value_fresh {s : State} (hs : Reachable asIs s) (r v : Nat)
    (hv : (s.reads r).fetched = some v) (hl : (s.reads r).late = false) : (s.reads r).beginRev ≤ v :=
  (invAsIs_reachable s hs).own r v hv hl

/-- A read is served only after its own sync succeeded … -/
theorem served_only_after_own_sync {s : State} (hs : Reachable asIs s) (r v : Nat)
    (hv : (s.reads r).phase = .served v) : ∃ w, (s.reads r).fetched = some w := by
  have := (invAsIs_reachable s hs).fetched r (Or.inr ⟨v, hv⟩)
  cases hf : (s.reads r).fetched with
  | none => exact absurd hf this
  | some w => exact ⟨w, rfl⟩

/-- … and a read whose fetch failed (leader unreachable or answering with an error) can only fail: whatever
happens next it stays in `got none` / `failed` — it is never served — and its own next step returns the error
without storing anything (the follower's read revision is untouched). -/
theorem unreachable_leader_read_fails {vt : Variant} {s s' : State} {st : Step} (r : Nat)
    (h : step vt s st = some s')
    (hp : (s.reads r).phase = .got none ∨ (s.reads r).phase = .failed) :
    ((s'.reads r).phase = .got none ∨ (s'.reads r).phase = .failed) ∧
    (st = .setRev r → (s'.reads r).phase = .failed ∧ s'.followerRev = s.followerRev) := by
  cases st with
  | leaderCommit => simp only [step] at h; simp at h; subst h; simpa using hp
  | readBegin q =>
    simp only [step] at h
    split at h <;> simp at h
    subst h; simp only [upd]; grind
  | fetchStart q =>
    simp only [step] at h
    split at h <;> simp at h
    subst h; simp only [upd]; grind
  | fetchJoin q =>
    simp only [step] at h
    split at h <;> simp at h
    all_goals (subst h; simp only [upd]; grind)
  | leaderAnswer b =>
    simp only [step] at h
    split at h <;> simp at h
    subst h; simpa using hp
  | fetchReply =>
    simp only [step] at h
    split at h <;> simp at h
    subst h; simp only [deliver]; grind
  | setRev q =>
    simp only [step] at h
    split at h <;> simp at h
    all_goals (subst h; simp only [upd]; grind)
  | readServe q =>
    simp only [step] at h
    split at h <;> simp at h
    subst h; simp only [upd]; grind

-- such a state is reachable: the leader is down, the read fails
example : (run asIs (init 10) [.readBegin 0, .fetchStart 0, .leaderAnswer .down, .fetchReply, .setRev 0]).map
    (fun s => ((s.reads 0).phase, s.followerRev)) = some (.failed, 10) := by decide

/-- PARTIAL VERSION: when follower reads do not overlap (a read begins only when no other read is between
its begin and its end), every served read is fresh.  Single-flight never shares. -/
theorem follower_read_fresh_partial : ∀ s, ReachableSeq asIs s → Fresh s := by
  intro s hs
  exact (invSeq_reachable s hs).served

-- the hypothesis is satisfiable with a served read and an advancing leader
example : ∃ s, ReachableSeq asIs s ∧ (s.reads 0).phase = .served 11 ∧ (s.reads 0).beginRev = 11 := by
  have h0 : ReachableSeq asIs (init 10) := .init 10
  have h1 := ReachableSeq.other (s' := _) .leaderCommit h0 (by intro r; simp) rfl
  have h2 := ReachableSeq.begin (s' := _) 0 h1 (by intro i; simp [init, active]) rfl
  have h3 := ReachableSeq.other (s' := _) (.fetchStart 0) h2 (by intro r; simp) rfl
  have h4 := ReachableSeq.other (s' := _) (.leaderAnswer .ok) h3 (by intro r; simp) rfl
  have h5 := ReachableSeq.other (s' := _) .fetchReply h4 (by intro r; simp) rfl
  have h6 := ReachableSeq.other (s' := _) (.setRev 0) h5 (by intro r; simp) rfl
  have h7 := ReachableSeq.other (s' := _) (.readServe 0) h6 (by intro r; simp) rfl
  exact ⟨_, h7, by decide, by decide⟩

/-! ### the proposed repair -/

/-- With the proposed repair on top of the code as it is (a joiner of a fetch that was already answered
discards the result and fetches again; the follower's read revision only ever rises — that half is in /repo
since db7d4ff) the FULL statement holds, under any interleaving. -/
theorem follower_read_fresh_fixed : ∀ s, Reachable fixed s → Fresh s := by
  intro s hs
  exact (invFixed_reachable s hs).served

-- … and the repaired system still serves reads (the stale-join schedule ends with read 1 served at 11)
example : (run fixed (init 10) [.readBegin 0, .fetchStart 0, .leaderAnswer .ok, .leaderCommit, .readBegin 1,
    .fetchJoin 1, .fetchReply, .fetchStart 1, .leaderAnswer .ok, .fetchReply, .setRev 1, .setRev 0,
    .readServe 1]).map (fun s => ((s.reads 1).phase, (s.reads 1).beginRev)) = some (.served 11, 11) := by decide

/-! ## Part 3 — forwarded write transactions -/

/-- THE LAW of the forward path (code as it is): a forwarded transaction is executed exactly once per client
request — never twice — and when its answer is lost the client is answered Unavailable (outcome unknown). -/
theorem forward_at_most_once (st : Store) (k : Nat) (sh : TxnShape) (lost : Bool) :
    (forward false st k sh lost).executions = 1 ∧
    (lost = true → (forward false st k sh lost).answer = .unavailable) := by
  cases lost <;> simp [forward]

/-- A definite answer is truthful: "condition failed" is only answered for a transaction that left the store
unchanged, "succeeded" only for one whose write took effect. -/
theorem forward_definite_answer_truthful (st : Store) (k : Nat) (sh : TxnShape) (lost : Bool) :
    ((forward false st k sh lost).answer = .failed →
        (forward false st k sh lost).applied = false ∧ (forward false st k sh lost).store = st) ∧
    ((forward false st k sh lost).answer = .ok → (forward false st k sh lost).applied = true) := by
  have hfail : (execTxn st k sh).2 = false → (execTxn st k sh).1 = st := by
    cases sh with
    | create => simp only [execTxn]; cases st.modRev k <;> simp
    | update g => simp only [execTxn]; by_cases h : st.modRev k = some g <;> simp [h]
  cases lost
  · cases h2 : (execTxn st k sh).2
    · simp [forward, h2, hfail h2]
    · simp [forward, h2]
  · simp [forward]

/-- Why the forward path must not send the transaction again on Unavailable: the leader had executed the
create, its answer was lost; the second execution finds the key the first one wrote and the client is told
definitively that its condition FAILED although its write took effect (two executions for one request). -/
theorem resend_reports_failed_for_applied_write :
    (let r := forward true { rev := 1000 } 1 .create true
     (r.answer, r.executions, r.applied, r.store.modRev 1)) = (.failed, 2, true, some 1001) := by decide

/-- … the same for a guarded update (the first execution moves the key's revision past the guard). -/
theorem resend_reports_failed_for_applied_update :
    (let st := (execTxn { rev := 1000 } 1 .create).1
     let r := forward true st 1 (.update 1001) true
     (r.answer, r.executions, r.applied, r.store.modRev 1)) = (.failed, 2, true, some 1002) := by decide

-- the lost-answer case of the law on the same inputs: Unavailable, one execution, the write is there
example : (let r := forward false { rev := 1000 } 1 .create true
     (r.answer, r.executions, r.applied, r.store.modRev 1)) = (.unavailable, 1, true, some 1001) := by decide

end KB.C18
