/-
  C07 (ranges) — "Keys outside the configured compaction ranges are not touched", for all prefix /
  skipped-prefix configurations.

  Model: `KB.compactRanges` / `KB.compactBorders` (KB.Backend) = `getCompactBorders` of
  /repo/pkg/backend/compact.go after fix 3b0f3bc: the directory of the key prefix `[p/, PrefixEnd(p/))`
  minus the union of the skipped directories (clipped to the prefix directory, sorted by start).

  The raw-key theorems need NO hypothesis on the bytes: a directory `p/` ends in `'/' = 47 < 0xff`, so
  `PrefixEnd(p/)` is `p` followed by `'0'` and the `noPrefixEnd` sentinel is unreachable — also for the
  empty prefix and for prefixes made of 0xff bytes (`KB.Ranges.dir_exact`, `prefixEnd_snoc47`).
  The internal-key (border) forms need what the coder order lemmas need: prefix, skipped prefixes and
  key over the alphabet (every byte above the split byte `'$'`) and revisions below 2^64.
-/
import KB.Lemmas.Ranges
import KB.Props.C10
import KB.Str
namespace KB.C07Ranges
open KB KB.Ranges Generated

/-! ### 1. the ranges are non-empty, ascending, pairwise disjoint and inside the prefix directory -/

theorem ranges_sorted_disjoint (c : Cfg) :
    (∀ r ∈ compactRanges c, blt r.1 r.2 = true) ∧
    (compactRanges c).Pairwise (fun a b => ble a.2 b.1 = true) ∧
    (∀ r ∈ compactRanges c,
      ble (dirOf c.pfx).1 r.1 = true ∧ ble r.2 (dirOf c.pfx).2 = true) := by
  have hb := sub_bounds (spansOf_wf c) (withSlash c.pfx)
  refine ⟨fun r hr => (hb r hr).2.1, sub_pairwise (spansOf_wf c) _, fun r hr => ?_⟩
  exact ⟨(hb r hr).1, (hb r hr).2.2⟩

/-- consecutive ranges: `end_i ≤ start_{i+1}` -/
theorem ranges_ascending (c : Cfg) (i : Nat) (h : i + 1 < (compactRanges c).length) :
    ble ((compactRanges c)[i]).2 ((compactRanges c)[i + 1]).1 = true :=
  List.pairwise_iff_getElem.mp (ranges_sorted_disjoint c).2.1 i (i + 1) (by omega) h (by omega)

/-- two different ranges share no key -/
theorem ranges_pairwise_disjoint (c : Cfg) (i j : Nat) (hi : i < (compactRanges c).length)
    (hj : j < (compactRanges c).length) (hij : i ≠ j) (k : Bytes) :
    ¬ ((ble ((compactRanges c)[i]).1 k = true ∧ blt k ((compactRanges c)[i]).2 = true) ∧
       (ble ((compactRanges c)[j]).1 k = true ∧ blt k ((compactRanges c)[j]).2 = true)) := by
  have hp := List.pairwise_iff_getElem.mp (ranges_sorted_disjoint c).2.1
  rintro ⟨h1, h2⟩
  rcases Nat.lt_or_gt_of_ne hij with h | h
  · have := hp i j hi hj h; border
  · have := hp j i hj hi h; border

/-- every key of a range is under the directory of the prefix -/
theorem range_keys_under_prefix (c : Cfg) {r : Bytes × Bytes} (hr : r ∈ compactRanges c) {k : Bytes}
    (hk : ble r.1 k = true ∧ blt k r.2 = true) : hasPrefix k (withSlash c.pfx) = true :=
  ((key_in_range_iff c k).mp ⟨r, hr, hk⟩).1

/-! ### 2. keys under a skipped directory are in no range -/

theorem skipped_key_in_no_range (c : Cfg) {k sp : Bytes} (hsp : sp ∈ c.skipped)
    (hk : hasPrefix k (withSlash sp) = true) :
    ∀ r ∈ compactRanges c, ¬ (ble r.1 k = true ∧ blt k r.2 = true) := by
  intro r hr hin
  have := ((key_in_range_iff c k).mp ⟨r, hr, hin⟩).2 sp hsp
  rw [hk] at this; cases this

/-! ### 3. keys outside the prefix directory are in no range -/

theorem foreign_key_in_no_range (c : Cfg) {k : Bytes} (hk : hasPrefix k (withSlash c.pfx) = false) :
    ∀ r ∈ compactRanges c, ¬ (ble r.1 k = true ∧ blt k r.2 = true) := by
  intro r hr hin
  have := ((key_in_range_iff c k).mp ⟨r, hr, hin⟩).1
  rw [hk] at this; cases this

/-! ### 4. completeness: every other key of the prefix directory is in exactly one range -/

theorem unskipped_key_in_exactly_one_range (c : Cfg) {k : Bytes}
    (hk : hasPrefix k (withSlash c.pfx) = true)
    (hns : ∀ sp ∈ c.skipped, hasPrefix k (withSlash sp) = false) :
    ((compactRanges c).filter (fun r => ble r.1 k && blt k r.2)).length = 1 ∧
    ∃ r ∈ compactRanges c, (ble r.1 k = true ∧ blt k r.2 = true) ∧
      ∀ r' ∈ compactRanges c, (ble r'.1 k = true ∧ blt k r'.2 = true) → r' = r := by
  obtain ⟨r, hr, hin⟩ := (key_in_range_iff c k).mpr ⟨hk, hns⟩
  have hpw := (ranges_sorted_disjoint c).2.1
  refine ⟨?_, r, hr, hin, fun r' hr' hin' => unique_of_pairwise hpw hr hr' hin hin'⟩
  have h1 := count_le_one hpw k
  have h2 := count_pos_of_mem hr hin
  omega

/-- 2–4 in one statement: the ranges hold exactly the keys under the prefix directory that are under
no skipped directory. -/
theorem key_in_some_range_iff (c : Cfg) (k : Bytes) :
    (∃ r ∈ compactRanges c, ble r.1 k = true ∧ blt k r.2 = true) ↔
      (hasPrefix k (withSlash c.pfx) = true ∧
        ∀ sp ∈ c.skipped, hasPrefix k (withSlash sp) = false) :=
  key_in_range_iff c k

/-- The Go code sorts the clipped skipped directories with `sort.Slice`, which is not stable; the model
uses one particular (insertion) sort. Properties 1–4 hold for every ordering by start. -/
theorem any_sort_order (c : Cfg) {spans : List (Bytes × Bytes)} (hs : IsSpanSort c spans) :
    let rs := subtractSpans (dirOf c.pfx).1 (dirOf c.pfx).2 spans
    (∀ r ∈ rs, blt r.1 r.2 = true) ∧
    rs.Pairwise (fun a b => ble a.2 b.1 = true) ∧
    (∀ r ∈ rs, ble (dirOf c.pfx).1 r.1 = true ∧ ble r.2 (dirOf c.pfx).2 = true) ∧
    ∀ k, (∃ r ∈ rs, ble r.1 k = true ∧ blt k r.2 = true) ↔
      (hasPrefix k (withSlash c.pfx) = true ∧
        ∀ sp ∈ c.skipped, hasPrefix k (withSlash sp) = false) := by
  have hb := sub_bounds hs.wf (withSlash c.pfx)
  exact ⟨fun r hr => (hb r hr).2.1, sub_pairwise hs.wf _,
    fun r hr => ⟨(hb r hr).1, (hb r hr).2.2⟩, key_in_sub_iff hs⟩

/-! ### the same on internal keys: the border pairs consumed by `doCompact` -/

/-- A configuration over the documented alphabet. -/
def CfgAlphabet (c : Cfg) : Prop := Alphabet c.pfx ∧ ∀ sp ∈ c.skipped, Alphabet sp

instance (c : Cfg) : Decidable (CfgAlphabet c) := by unfold CfgAlphabet; infer_instance

/-- The record `encode k rev` lies between the borders of a range iff the raw key lies in the range. -/
theorem record_between_borders_iff {c : Cfg} (hc : CfgAlphabet c) {r : Bytes × Bytes}
    (hr : r ∈ compactRanges c) {k : Bytes} (hk : Alphabet k) {rev : Nat} (hrev : rev < 2 ^ 64) :
    (ble (encode r.1 0) (encode k rev) = true ∧ blt (encode k rev) (encode r.2 0) = true) ↔
      (ble r.1 k = true ∧ blt k r.2 = true) :=
  have ha := ranges_alphabet hc.1 hc.2 r hr
  C10.range_bounds_exact ha.1 ha.2 hk hrev

theorem mem_border_pairs {c : Cfg} {b : Bytes × Bytes} :
    b ∈ pairs (compactBorders c) ↔ ∃ r ∈ compactRanges c, b = (encode r.1 0, encode r.2 0) := by
  rw [pairs_compactBorders, List.mem_map]
  constructor
  · rintro ⟨r, hr, rfl⟩; exact ⟨r, hr, rfl⟩
  · rintro ⟨r, hr, rfl⟩; exact ⟨r, hr, rfl⟩

/-- 2, second form: no record (any revision) of a key under a skipped directory lies between a pair
of borders — the scan `[start, end)` that `scanner.Compact` runs for that pair never sees it. -/
theorem skipped_record_between_no_borders {c : Cfg} (hc : CfgAlphabet c) {k sp : Bytes}
    (hsp : sp ∈ c.skipped) (hk : hasPrefix k (withSlash sp) = true) (hka : Alphabet k)
    {rev : Nat} (hrev : rev < 2 ^ 64) :
    ∀ b ∈ pairs (compactBorders c),
      ¬ (ble b.1 (encode k rev) = true ∧ blt (encode k rev) b.2 = true) := by
  intro b hb hin
  obtain ⟨r, hr, rfl⟩ := mem_border_pairs.mp hb
  exact skipped_key_in_no_range c hsp hk r hr ((record_between_borders_iff hc hr hka hrev).mp hin)

/-- 3 on internal keys. -/
theorem foreign_record_between_no_borders {c : Cfg} (hc : CfgAlphabet c) {k : Bytes}
    (hk : hasPrefix k (withSlash c.pfx) = false) (hka : Alphabet k) {rev : Nat} (hrev : rev < 2 ^ 64) :
    ∀ b ∈ pairs (compactBorders c),
      ¬ (ble b.1 (encode k rev) = true ∧ blt (encode k rev) b.2 = true) := by
  intro b hb hin
  obtain ⟨r, hr, rfl⟩ := mem_border_pairs.mp hb
  exact foreign_key_in_no_range c hk r hr ((record_between_borders_iff hc hr hka hrev).mp hin)

/-- 4 on internal keys: every record of a key that is to be compacted lies between exactly one pair
of borders. -/
theorem unskipped_record_between_exactly_one_pair {c : Cfg} (hc : CfgAlphabet c) {k : Bytes}
    (hk : hasPrefix k (withSlash c.pfx) = true)
    (hns : ∀ sp ∈ c.skipped, hasPrefix k (withSlash sp) = false) (hka : Alphabet k)
    {rev : Nat} (hrev : rev < 2 ^ 64) :
    ((pairs (compactBorders c)).filter
      (fun b => ble b.1 (encode k rev) && blt (encode k rev) b.2)).length = 1 := by
  rw [pairs_compactBorders, List.filter_map, List.length_map,
    ← (unskipped_key_in_exactly_one_range c hk hns).1]
  congr 1
  apply List.filter_congr
  intro r hr
  have := record_between_borders_iff hc hr hka hrev
  simp only [Function.comp]
  rw [Bool.eq_iff_iff]
  simpa using this

/-! ### 5. the old algorithm compacted skipped directories

`getCompactBorders` before fix 3b0f3bc: the borders `encode p/ 0`, `encode PrefixEnd(p/) 0` of the
prefix and of every skipped prefix, sorted into ONE list, consumed pairwise. -/

def oldCompactBorders (c : Cfg) : List Bytes :=
  (((c.pfx :: c.skipped).map withSlash).flatMap
    (fun p => [encode p 0, encode (prefixEnd p) 0])).foldr insertBytes []

/-- the same on raw keys -/
def oldCompactRanges (c : Cfg) : List (Bytes × Bytes) :=
  pairs ((((c.pfx :: c.skipped).map withSlash).flatMap (fun p => [p, prefixEnd p])).foldr insertBytes [])

def cfgNested : Cfg := { pfx := b!"/r", skipped := [b!"/r/a", b!"/r/a/b"] }
def cfgDuplicate : Cfg := { pfx := b!"/r", skipped := [b!"/r/a", b!"/r/a"] }
def cfgForeign : Cfg := { pfx := b!"/r", skipped := [b!"/q"] }
def cfgParent : Cfg := { pfx := b!"/r/a", skipped := [b!"/r"] }

/-- some pair of `l` encloses `x` -/
def enclosed (l : List (Bytes × Bytes)) (x : Bytes) : Bool := l.any (fun b => ble b.1 x && blt x b.2)

theorem old_ranges_nested :
    oldCompactRanges cfgNested =
      [(b!"/r/", b!"/r/a/"), (b!"/r/a/b/", b!"/r/a/b0"), (b!"/r/a0", b!"/r0")] := by decide

theorem old_ranges_duplicate :
    oldCompactRanges cfgDuplicate =
      [(b!"/r/", b!"/r/a/"), (b!"/r/a/", b!"/r/a0"), (b!"/r/a0", b!"/r0")] := by decide

theorem old_ranges_foreign :
    oldCompactRanges cfgForeign = [(b!"/q/", b!"/q0"), (b!"/r/", b!"/r0")] := by decide

theorem old_ranges_parent :
    oldCompactRanges cfgParent = [(b!"/r/", b!"/r/a/"), (b!"/r/a0", b!"/r0")] := by decide

/-- Witness. Nested skipped prefixes `/r/a`, `/r/a/b`: the key `/r/a/b/k` (under both skipped
directories) lies inside an old range and its record inside an old border pair. Duplicate `/r/a`,
`/r/a`: the whole skipped directory `/r/a/` is an old range. Foreign `/q`: the old algorithm compacts
the directory `/q/` outside the prefix `/r`. Parent `/r` of the prefix `/r/a`: the old algorithm
compacts `/r/b/k` (outside the prefix) and leaves out the prefix directory itself. The ranges of
`compactRanges` enclose none of these keys. -/
theorem old_algorithm_compacts_skipped :
    -- nested
    (enclosed (oldCompactRanges cfgNested) b!"/r/a/b/k" = true ∧
     enclosed (pairs (oldCompactBorders cfgNested)) (encode b!"/r/a/b/k" 7) = true ∧
     enclosed (compactRanges cfgNested) b!"/r/a/b/k" = false ∧
     enclosed (pairs (compactBorders cfgNested)) (encode b!"/r/a/b/k" 7) = false) ∧
    -- duplicate
    (enclosed (oldCompactRanges cfgDuplicate) b!"/r/a/b/k" = true ∧
     enclosed (pairs (oldCompactBorders cfgDuplicate)) (encode b!"/r/a/b/k" 7) = true ∧
     enclosed (compactRanges cfgDuplicate) b!"/r/a/b/k" = false ∧
     enclosed (pairs (compactBorders cfgDuplicate)) (encode b!"/r/a/b/k" 7) = false) ∧
    -- foreign
    (enclosed (oldCompactRanges cfgForeign) b!"/q/k" = true ∧
     enclosed (pairs (oldCompactBorders cfgForeign)) (encode b!"/q/k" 7) = true ∧
     enclosed (compactRanges cfgForeign) b!"/q/k" = false ∧
     enclosed (pairs (compactBorders cfgForeign)) (encode b!"/q/k" 7) = false) ∧
    -- skipped parent of the prefix
    (enclosed (oldCompactRanges cfgParent) b!"/r/b/k" = true ∧
     enclosed (pairs (oldCompactBorders cfgParent)) (encode b!"/r/b/k" 7) = true ∧
     enclosed (oldCompactRanges cfgParent) b!"/r/a/k" = false ∧
     enclosed (compactRanges cfgParent) b!"/r/b/k" = false ∧
     enclosed (pairs (compactBorders cfgParent)) (encode b!"/r/b/k" 7) = false) := by
  decide

/-- The witnesses are instances of the general theorems (hypotheses satisfiable). -/
example : b!"/r/a/b" ∈ cfgNested.skipped ∧ hasPrefix b!"/r/a/b/k" (withSlash b!"/r/a/b") = true ∧
    CfgAlphabet cfgNested ∧ Alphabet b!"/r/a/b/k" := by decide
example : hasPrefix b!"/q/k" (withSlash cfgForeign.pfx) = false ∧ CfgAlphabet cfgForeign := by decide

/-- For every revision, not just the decided one: the records of `/r/a/b/k` are inside the second old
border pair. -/
theorem old_algorithm_compacts_skipped_all_revisions (rev : Nat) (hrev : rev < 2 ^ 64) :
    (encode b!"/r/a/b/" 0, encode b!"/r/a/b0" 0) ∈ pairs (oldCompactBorders cfgNested) ∧
    ble (encode b!"/r/a/b/" 0) (encode b!"/r/a/b/k" rev) = true ∧
    blt (encode b!"/r/a/b/k" rev) (encode b!"/r/a/b0" 0) = true := by
  refine ⟨by decide, ?_⟩
  exact (C10.range_bounds_exact (a := b!"/r/a/b/") (b := b!"/r/a/b0") (k := b!"/r/a/b/k")
    (by decide) (by decide) (by decide) hrev).mpr (by decide)

/-! ### 6. non-vacuity: concrete configurations -/

/-- no skipped prefix: the whole directory -/
example : compactRanges { pfx := b!"/r" } = [(b!"/r/", b!"/r0")] := by decide
/-- single -/
example : compactRanges { pfx := b!"/r", skipped := [b!"/r/a"] } =
    [(b!"/r/", b!"/r/a/"), (b!"/r/a0", b!"/r0")] := by decide
/-- trailing slashes change nothing -/
example : compactRanges { pfx := b!"/r/", skipped := [b!"/r/a/"] } =
    [(b!"/r/", b!"/r/a/"), (b!"/r/a0", b!"/r0")] := by decide
/-- nested, either order -/
example : compactRanges cfgNested = [(b!"/r/", b!"/r/a/"), (b!"/r/a0", b!"/r0")] := by decide
example : compactRanges { pfx := b!"/r", skipped := [b!"/r/a/b", b!"/r/a"] } =
    [(b!"/r/", b!"/r/a/"), (b!"/r/a0", b!"/r0")] := by decide
/-- duplicate -/
example : compactRanges cfgDuplicate = [(b!"/r/", b!"/r/a/"), (b!"/r/a0", b!"/r0")] := by decide
/-- siblings, unsorted in the configuration -/
example : compactRanges { pfx := b!"/r", skipped := [b!"/r/c", b!"/r/a"] } =
    [(b!"/r/", b!"/r/a/"), (b!"/r/a0", b!"/r/c/"), (b!"/r/c0", b!"/r0")] := by decide
/-- foreign, below and above the prefix, mixed with a real one -/
example : compactRanges cfgForeign = [(b!"/r/", b!"/r0")] := by decide
example : compactRanges { pfx := b!"/r", skipped := [b!"/s", b!"/r/a", b!"/q"] } =
    [(b!"/r/", b!"/r/a/"), (b!"/r/a0", b!"/r0")] := by decide
/-- a sibling whose name extends the prefix name is foreign (`/r` vs `/rr`) -/
example : compactRanges { pfx := b!"/r", skipped := [b!"/rr"] } = [(b!"/r/", b!"/r0")] := by decide
/-- the skipped prefix is the prefix itself, or a parent of it: nothing is compacted -/
example : compactRanges { pfx := b!"/r", skipped := [b!"/r"] } = [] := by decide
example : compactRanges cfgParent = [] := by decide
example : compactRanges { pfx := b!"/r/a", skipped := [b!""] } = [] := by decide
/-- the key `/r/a0` lies between the skipped directories `/r/a/` and `/r/a0/` and is compacted -/
example : compactRanges { pfx := b!"/r", skipped := [b!"/r/a", b!"/r/a0"] } =
    [(b!"/r/", b!"/r/a/"), (b!"/r/a0", b!"/r/a0/"), (b!"/r/a00", b!"/r0")] := by decide
/-- the empty prefix is the directory `/`; prefixes of 0xff bytes have a proper end -/
example : compactRanges { pfx := b!"" } = [(b!"/", b!"0")] := by decide
example : compactRanges { pfx := [255, 255], skipped := [[255, 255, 47, 255]] } =
    [([255, 255, 47], [255, 255, 47, 255, 47]), ([255, 255, 47, 255, 48], [255, 255, 48])] := by decide
/-- borders: two per range -/
example : compactBorders { pfx := b!"/r", skipped := [b!"/r/a", b!"/r/a/b"] } =
    [encode b!"/r/" 0, encode b!"/r/a/" 0, encode b!"/r/a0" 0, encode b!"/r0" 0] := by decide

/-- exactly-one on concrete keys: `/r/ab/x` is a sibling of the skipped `/r/a`, `/r/z` lies after every
skipped directory, `/r/a/x` is skipped -/
example :
    let c : Cfg := { pfx := b!"/r", skipped := [b!"/r/c", b!"/r/a", b!"/r/a/b", b!"/q"] }
    ((compactRanges c).filter (fun r => ble r.1 b!"/r/ab/x" && blt b!"/r/ab/x" r.2)).length = 1 ∧
    ((compactRanges c).filter (fun r => ble r.1 b!"/r/z" && blt b!"/r/z" r.2)).length = 1 ∧
    ((compactRanges c).filter (fun r => ble r.1 b!"/r/a/x" && blt b!"/r/a/x" r.2)).length = 0 ∧
    ((compactRanges c).filter (fun r => ble r.1 b!"/q/x" && blt b!"/q/x" r.2)).length = 0 := by
  decide

end KB.C07Ranges
