/-
  Order facts for C09 — statement-order / call-count facts regenerated from the source
  (harness/cmd/kbextract/order.go → KB/Generated/OrderFacts.lean). The models are atomic where the code is
  sequential; these `decide`d theorems are the tie for exactly those places: a reordering in the source
  stops them from checking.
-/
import KB.Generated.OrderFacts
namespace KB.OrderC09
open KB.Generated

/-- C09 / C06: the sequencer queues an unknown-outcome write BEFORE it commits that revision (and commits
it exactly once in that branch, never earlier): compaction, which is clamped to the committed revision
and below the oldest queued one, can therefore never pass an unresolved write. -/
theorem sequencer_enqueues_before_commit :
    seqAppendBeforeCommit = true ∧ seqCommitsInInvalidBranch = 1 := by decide

/-- C09: the retry step has its four early `return true` exits (not due / read failed / repair outcome
unknown / repair failed with a storage error) before the head is popped. -/
theorem retry_keeps_head_unless_resolved : retryEarlyReturnsBeforePop = 4 := by decide

/-- C09: the repair waits `RetryInterval` for EVERY entry it examines (the age test sits inside `retry()`, which takes one head
per call, in front of the read): an unknown-outcome commit that lands late - after the answer, within the interval - is found
landed when its entry is looked at, also when an older entry ahead of it has just become due. (The fault oracle of the models
decides "applied / not applied" at the answer; this fact is what makes that a faithful abstraction of an engine whose commit may
still land shortly afterwards.) -/
theorem retry_waits_for_every_entry : retryWaitsForEveryEntry = true := by decide

/-- C09: `Compact` samples the read revision before it asks the retry queue for its oldest unresolved revision.
Together with `seqAppendBeforeCommit` (the sequencer queues an unknown-outcome write before it advances the read
revision) this is why the cap is never missed: a revision the compactor sees as readable has its unresolved
writes already queued when the compactor looks at the queue (the model's compaction step reads both atomically). -/
theorem compact_samples_revision_before_queue : compactSamplesRevisionBeforeQueue = true := by decide

/-- C09: the TiKV adapter classifies as "outcome unknown" (→ reported uncertain, queued for repair) the commit whose
answer was lost (`ErrResultUndetermined`), timeouts and cancellations; the model's fault oracle `uncApplied` /
`uncNotApplied` is what these errors are mapped to. -/
theorem tikv_unknown_outcomes_classified :
    "ErrResultUndetermined" ∈ tikvUncertainErrors ∧ "DeadlineExceeded" ∈ tikvUncertainErrors ∧
    "Canceled" ∈ tikvUncertainErrors ∧ "ErrTiKVServerTimeout" ∈ tikvUncertainErrors := by decide

end KB.OrderC09
