/-
  KB.Backend — executable model of pkg/backend (txn.go, creator/naive.go, range.go, compact.go,
  backend.go, tso/tso.go, retry/retry.go) over the reference engine, request by request
  (sequential semantics: one request runs to completion; the sequencer, hub and forwarders are eager).
  The interleaving semantics of the same steps is in KB.Sys.
-/
import KB.Scan
namespace KB
open Generated

inductive Verb where
  | create | put | delete
  deriving Repr, DecidableEq

/-- Error classes a client can distinguish (harness maps Go errors onto the same enum). -/
inductive Err where
  | uncertain     -- matches storage.ErrUncertainResult
  | drift         -- backend.ErrRevisionDriftBack
  | notFound      -- storage.ErrKeyNotFound surfacing as an RPC error
  | unavailable
  | belowFloor    -- scan refused: revision below compaction floor
  | invalid       -- request validation
  | other
  deriving Repr, DecidableEq

/-- common.WatchEvent as stored in the slot array. -/
structure WEvent where
  rev : Nat
  prevRev : Nat
  valid : Bool
  verb : Verb
  key : Bytes
  val : Bytes
  uncertain : Bool := false
  deriving Repr, DecidableEq

/-- proto.Event -/
structure Event where
  verb : Verb
  rev : Nat
  key : Bytes
  val : Bytes
  kvRev : Nat
  deriving Repr, DecidableEq

/-- What the engine does with one `Commit`. -/
inductive Fault where
  | none
  | err            -- plain error, not applied
  | uncApplied     -- applied, reported `ErrUncertainResult`
  | uncNotApplied  -- not applied, reported `ErrUncertainResult`
  deriving Repr, DecidableEq

structure Cfg where
  q : Quirks := {}
  pfx : Bytes := []                 -- Config.Prefix
  skipped : List Bytes := []        -- Config.SkippedPrefixes
  cacheSize : Nat := historyCapacity
  splits : List Bytes := []         -- engine region borders (tikv)
  etcdCompat : Bool := true
  ttl : Nat := 3600000              -- scanner TTL in model-clock units
  shuffle : Bool := false           -- the engine hands its partitions over in reversed order (harness wrapper)
  creatorNoReeval : Bool := false   -- refutations only: the creator as it was BEFORE fix eb6d1d1 (KB.Sys `createRecheck`)
  creatorTombAboveIsCf : Bool := false -- refutations only: BEFORE fix 42e5238 a deletion record at / above the create's revision was a failed condition
  ringLen : Nat := watchersChanCapacity -- slots of the sequencer's ring = tso.MaxInFlight (KB.Sys: `G.windowFull`)
  dealUnguarded : Bool := false     -- refutations only: `tso.Deal` BEFORE fix 624b477 (never refuses)
  deriving Repr

structure Watcher where
  id : Nat
  pfx : Bytes
  start : Nat
  subQ : List (List Event) := []     -- hub → processEvents channel (cap watchBuffer)
  outQ : List (List Event) := []     -- processEvents → client channel (cap resultChanLength)
  subClosed : Bool := false          -- hub closed the subscription
  outClosed : Bool := false
  deriving Repr

structure Ring where
  cap : Nat
  s : Nat := 0
  e : Nat := 0
  arr : List (Option Event)
  deriving Repr

structure BState where
  store : Store := []
  dealt : Nat := 0
  committed : Nat := 0
  ring : Ring
  watchers : List Watcher := []
  retryQ : List WEvent := []
  marks : List (Nat × Nat) := []    -- compaction marks (revision, time)
  now : Nat := 0
  deriving Repr

def be8 (r : Nat) : Bytes := be64 r
def idxKey (k : Bytes) : Bytes := encode k 0
def compactKeyOf (c : Cfg) : Bytes := c.pfx ++ [47] ++ compactKeyName

/-- `getEventsPrefix(prefix)`: `<prefix>/events/` (shape regenerated as `Generated.eventsPrefixShape`). -/
def eventsPrefixOf (c : Cfg) : Bytes :=
  if eventsPrefixShape == "prefix+events" then c.pfx ++ eventsPattern else eventsPattern

/-- Is a create of `key` given the events TTL? (`backend.create`, regenerated `Generated.eventsMatchTxn`) -/
def createHasTTL (c : Cfg) (key : Bytes) : Bool :=
  if eventsMatchTxn == "HasPrefix:getEventsPrefix" then hasPrefix key (eventsPrefixOf c)
  else containsSub key eventsPattern

/-! ### engine access with faults -/

inductive CommitRes where
  | ok
  | conflict (idx : Option Nat) (val : Option Bytes)
  | notFound
  | uncertain
  | err
  deriving Repr, DecidableEq

def CommitRes.isCas : CommitRes → Bool
  | .conflict _ _ => true
  | _ => false

def doCommit (c : Cfg) (st : Store) (ops : List BOp) (f : Fault) : CommitRes × Store :=
  match commit c.q st ops with
  | .error (.conflict i v) => (.conflict i v, st)
  | .error .notFound => (.notFound, st)
  | .ok st' =>
    match f with
    | .none => (.ok, st')
    | .err => (.err, st)
    | .uncApplied => (.uncertain, st')
    | .uncNotApplied => (.uncertain, st)

def nextFault : List Fault → Fault × List Fault
  | [] => (.none, [])
  | f :: fs => (f, fs)

/-! ### reads -/

/-- `getInternalVal`: descending point lookup, first hit, then decode-and-compare. -/
def getInternal (c : Cfg) (st : Store) (key : Bytes) (rev : Nat) : Option (Bytes × Nat) :=
  let r := if rev == 0 then 2 ^ 64 - 1 else rev
  match iterate c.q st (encode key r) (encode key 0) 1 with
  | [] => none
  | (ik, v) :: _ =>
    match decode ik with
    | .ok k m => if m == 0 || k != key then none else some (v, m)
    | _ => none

/-- `get`: tombstone ⇒ not found, but the mod revision is still reported. -/
inductive GetRes where
  | found (val : Bytes) (modRev : Nat)
  | notFound (modRev : Nat)
  deriving Repr, DecidableEq

def bget (c : Cfg) (st : Store) (key : Bytes) (rev : Nat) : GetRes :=
  match getInternal c st key rev with
  | none => .notFound 0
  | some (v, m) => if isTomb v then .notFound m else .found v m

/-! ### sequencer (eager) -/

def Ring.new (cap : Nat) : Ring := { cap := cap, arr := List.replicate cap none }

def Ring.add (r : Ring) (e : Event) : Ring :=
  let arr := r.arr.set (r.e % r.cap) (some e)
  let s := if r.e == r.s + r.cap then r.s + 1 else r.s
  { r with arr := arr, s := s, e := r.e + 1 }

def Ring.at (r : Ring) (i : Nat) : Option Event := (r.arr.getD (i % r.cap) none)

inductive FindRet where
  | empty
  | high
  | low (oldest : Nat)
  | events (newest : Nat) (evs : List Event)
  deriving Repr

def Ring.window (r : Ring) : List Event :=
  (List.range (r.e - r.s)).filterMap (fun i => r.at (r.s + i))

def Ring.find (r : Ring) (rev : Nat) : FindRet :=
  if r.e == 0 then .empty else
  match r.at (r.e - 1), r.at r.s with
  | some newest, some oldest =>
    if rev > newest.rev then .high
    else if rev < oldest.rev then .low oldest.rev
    else .events newest.rev (r.window.dropWhile (fun e => e.rev < rev))
  | _, _ => .empty

def mkEvent (w : WEvent) : Event :=
  { verb := w.verb, rev := w.rev, key := w.key, val := w.val,
    kvRev := if w.verb == .delete then w.prevRev else w.rev }

def filterEvents (pfx : Bytes) (from_ : Nat) (evs : List Event) : List Event :=
  (evs.dropWhile (fun e => e.rev < from_)).filter (fun e => hasPrefix e.key pfx)

/-- hub fan-out of one batch to one subscriber (non-blocking send, drop when full). -/
def Watcher.offer (w : Watcher) (batch : List Event) : Watcher :=
  if w.subClosed then w
  else if w.subQ.length < watchBuffer then { w with subQ := w.subQ ++ [batch] }
  else { w with subClosed := true }

/-- processEvents: forward while the output channel has room. -/
def Watcher.pump (w : Watcher) : Nat → Watcher
  | 0 => w
  | fuel + 1 =>
    match w.subQ with
    | [] => if w.subClosed && !w.outClosed then { w with outClosed := true } else w
    | b :: rest =>
      let evs := filterEvents w.pfx w.start b
      if evs.isEmpty then Watcher.pump { w with subQ := rest } fuel
      else if w.outQ.length < resultChanLength then
        Watcher.pump { w with subQ := rest, outQ := w.outQ ++ [evs] } fuel
      else w

/-- The sequencer consumes one notification (slot `committed + 1`). -/
def sequence (s : BState) (w : WEvent) : BState :=
  if !w.valid then
    let rq := if w.uncertain then s.retryQ ++ [w] else s.retryQ
    { s with retryQ := rq, committed := w.rev, dealt := max s.dealt w.rev }
  else
    let e := mkEvent w
    let ws := s.watchers.map (fun x => (x.offer [e]).pump (watchBuffer + 2))
    { s with committed := w.rev, dealt := max s.dealt w.rev, ring := s.ring.add e, watchers := ws }

/-! ### writes -/

inductive WriteRes where
  | ok (rev : Nat)
  | condFailed (hdr : Nat) (kv : Option (Bytes × Bytes × Nat))
  | notFound (hdr : Nat)            -- delete of a missing key: Succeeded=false, no kv
  | error (e : Err)
  deriving Repr, DecidableEq

/-- What the creator answers when the record it looked at does not let it write: a deletion record at or above its own
revision is a plain error since fix 42e5238 (the key IS absent, the condition did not fail; `creatorTombAboveIsCf` = the
code before); a live record is a failed condition. -/
def tombAbove (c : Cfg) (tomb : Bool) : CommitRes :=
  if tomb && !c.creatorTombAboveIsCf then .err else .conflict none none

theorem tombAbove_ne_ok (c : Cfg) (tomb : Bool) : tombAbove c tomb ≠ .ok := by
  unfold tombAbove; split <;> simp

theorem tombAbove_cases (c : Cfg) (tomb : Bool) :
    (tombAbove c tomb = .err ∧ tomb = true ∧ c.creatorTombAboveIsCf = false) ∨
    (tombAbove c tomb = .conflict none none ∧ (tomb = false ∨ c.creatorTombAboveIsCf = true)) := by
  unfold tombAbove
  cases tomb <;> cases c.creatorTombAboveIsCf <;> simp

/-- `naiveCreator.CreateWithTTL`. Returns the commit-level outcome and the new store. -/
def creatorCreate (c : Cfg) (st : Store) (key val : Bytes) (rev : Nat) (fs : List Fault) :
    CommitRes × Store × List Fault :=
  let ops1 := [BOp.pine (idxKey key) (be8 rev), BOp.put (encode key rev) val]
  let (f1, fs') := nextFault fs
  let (r1, st) := doCommit c st ops1 f1
  match r1 with
  | .conflict idx cv =>
    -- a fault directive is consumed only by a commit whose conditions hold: still pending here
    -- old index value: from the conflict when Idx == 0, else re-read
    let oldRev? : Except CommitRes Bytes :=
      if idx == some 0 then .ok (cv.getD [])
      else match st.get (idxKey key) with
        | some v => .ok v
        | none => .error .ok   -- marker: re-create
    match oldRev? with
    | .error _ =>
      let (f2, fs) := nextFault fs
      let (r2, st) := doCommit c st ops1 f2
      (r2, st, fs)
    | .ok old =>
      match parseRevision old with
      | none => (.err, st, fs)
      | some (prevRev, tomb) =>
        if tomb && prevRev < rev then
          let (f2, fs) := nextFault fs
          let (r2, st) := doCommit c st [BOp.cas (idxKey key) (be8 rev) old, BOp.put (encode key rev) val] f2
          (r2, st, fs)
        else (tombAbove c tomb, st, fs)
  | r => (r, st, fs')

/-- The loop of `CreateWithTTL` since fix eb6d1d1, from the compare-and-swap numbered `attempt` on, against the
deletion record `old` (`fuel` = compare-and-swaps left, 4 in all). After a compare-and-swap that failed its condition
the record is read again: gone -> put-if-absent again; still a deletion below `rev` -> next round against it;
anything else, or `attempt >= 3` -> failed condition. Sequential semantics: nothing runs between the storage calls. -/
def creatorOverLoop (c : Cfg) (ops1 : List BOp) (key val : Bytes) (rev : Nat) :
    Nat → Nat → Store → Bytes → List Fault → CommitRes × Store × List Fault
  | 0, _, st, _, fs => (.conflict none none, st, fs)
  | fuel + 1, attempt, st, old, fs =>
    let (f2, fs') := nextFault fs
    let (r2, st') := doCommit c st [BOp.cas (idxKey key) (be8 rev) old, BOp.put (encode key rev) val] f2
    match r2 with
    | .conflict i cv =>
      -- (a fault directive is consumed only by a commit whose conditions hold: still pending here)
      match st'.get (idxKey key) with
      | none =>
        let (f3, fs) := nextFault fs
        let (r3, st3) := doCommit c st' ops1 f3
        (r3, st3, fs)
      | some cur =>
        if attempt ≥ 3 then (.conflict i cv, st', fs)
        else match parseRevision cur with
          | none => (.conflict i cv, st', fs)
          | some (p, tomb) =>
            if tomb && p < rev then creatorOverLoop c ops1 key val rev fuel (attempt + 1) st' cur fs
            else (tombAbove c tomb, st', fs)
    | r => (r, st', fs')

/-- `naiveCreator.CreateWithTTL` as it is since fix eb6d1d1 (the compare-and-swap over a deletion record is the
re-evaluation loop `creatorOverLoop`). Run alone it IS `creatorCreate` (`KB.CreatorLoop.creatorCreateNow_eq`: the
first compare-and-swap is made against the record just read, so it cannot fail its condition and the loop body is
never entered a second time); the loop matters only under interleaving - KB.Sys `Pc.createOver` / `Pc.createRecheck`. -/
def creatorCreateNow (c : Cfg) (st : Store) (key val : Bytes) (rev : Nat) (fs : List Fault) :
    CommitRes × Store × List Fault :=
  let ops1 := [BOp.pine (idxKey key) (be8 rev), BOp.put (encode key rev) val]
  let (f1, fs') := nextFault fs
  let (r1, st) := doCommit c st ops1 f1
  match r1 with
  | .conflict idx cv =>
    let oldRev? : Except CommitRes Bytes :=
      if idx == some 0 then .ok (cv.getD [])
      else match st.get (idxKey key) with
        | some v => .ok v
        | none => .error .ok
    match oldRev? with
    | .error _ =>
      let (f2, fs) := nextFault fs
      let (r2, st) := doCommit c st ops1 f2
      (r2, st, fs)
    | .ok old =>
      match parseRevision old with
      | none => (.err, st, fs)
      | some (prevRev, tomb) =>
        if tomb && prevRev < rev then creatorOverLoop c ops1 key val rev 4 0 st old fs
        else (tombAbove c tomb, st, fs)
  | r => (r, st, fs')

def commitErr (r : CommitRes) : Err :=
  match r with
  | .uncertain => .uncertain
  | .notFound => .notFound
  | _ => .other

def latestKv (c : Cfg) (st : Store) (key : Bytes) : Option (Bytes × Bytes × Nat) × Nat :=
  match bget c st key 0 with
  | .found v m => (some (key, v, m), m)
  | .notFound m => (none, m)

/-- `Backend.Create`. -/
def doCreate (c : Cfg) (s : BState) (key val : Bytes) (fs : List Fault) : WriteRes × BState :=
  let rev := s.dealt + 1
  let s := { s with dealt := rev }
  let (r, st, _) := creatorCreate c s.store key val rev fs
  let s := { s with store := st }
  let w : WEvent := { rev := rev, prevRev := 0, valid := r == .ok, verb := .create, key := key,
                      val := val, uncertain := r == .uncertain }
  let s := sequence s w
  match r with
  | .ok => (.ok rev, s)
  | .conflict _ _ => (.condFailed rev none, s)
  | r => (.error (commitErr r), s)

/-- `Backend.Update`. -/
def doUpdate (c : Cfg) (s : BState) (key val : Bytes) (exp : Nat) (fs : List Fault) : WriteRes × BState :=
  let rev := s.dealt + 1
  let s := { s with dealt := rev }
  if exp == 0 then
    let (r, st, _) := creatorCreate c s.store key val rev fs
    let s := { s with store := st }
    let w : WEvent := { rev := rev, prevRev := 0, valid := r == .ok, verb := .create, key := key,
                        val := val, uncertain := r == .uncertain }
    let s := sequence s w
    match r with
    | .ok => (.ok rev, s)
    | .conflict _ _ =>
      match bget c s.store key 0 with
      | .found v m => (.condFailed (max rev m) (some (key, v, m)), s)
      | .notFound _ => (.condFailed rev none, s)
    | r => (.error (commitErr r), s)
  else if rev ≤ exp then
    -- revision drift: the dealt revision is reported as invalid, the client gets an error
    let w : WEvent := { rev := rev, prevRev := exp, valid := false, verb := .put, key := key, val := val }
    (.error .drift, sequence s w)
  else
    let (f, _) := nextFault fs
    let (r, st) := doCommit c s.store [BOp.cas (idxKey key) (be8 rev) (be8 exp), BOp.put (encode key rev) val] f
    let s := { s with store := st }
    let w : WEvent := { rev := rev, prevRev := exp, valid := r == .ok, verb := .put, key := key,
                        val := val, uncertain := r == .uncertain }
    let s := sequence s w
    match r with
    | .ok => (.ok rev, s)
    | .conflict _ _ =>
      match bget c s.store key 0 with
      | .found v m => (.condFailed (max rev m) (some (key, v, m)), s)
      | .notFound _ => (.condFailed rev none, s)
    | r => (.error (commitErr r), s)

/-- `Backend.Delete`. -/
def doDelete (c : Cfg) (s : BState) (key : Bytes) (exp : Nat) (fs : List Fault) : WriteRes × BState :=
  match bget c s.store key 0 with
  | .notFound _ =>
    let rev := s.dealt + 1
    let s := { s with dealt := rev }
    let w : WEvent := { rev := rev, prevRev := 0, valid := false, verb := .delete, key := key, val := [] }
    (.notFound rev, sequence s w)
  | .found oldVal modRev =>
    let rev := s.dealt + 1
    let s := { s with dealt := rev }
    let inval : WEvent := { rev := rev, prevRev := modRev, valid := false, verb := .delete, key := key, val := oldVal }
    if exp > 0 && rev ≤ exp then (.error .drift, sequence s inval)
    else if exp > 0 && exp != modRev then
      let s := sequence s inval
      match bget c s.store key 0 with
      | .found v m => (.condFailed (max rev m) (some (key, v, m)), s)
      | .notFound _ => (.condFailed rev (some (key, oldVal, modRev)), s)
    else if rev ≤ modRev then (.error .other, sequence s inval)
    else
      let (f, _) := nextFault fs
      let (r, st) := doCommit c s.store
        [BOp.cas (idxKey key) (be8 rev ++ [0]) (be8 modRev), BOp.put (encode key rev) tombstone] f
      let s := { s with store := st }
      let w : WEvent := { inval with valid := r == .ok, uncertain := r == .uncertain }
      let s := sequence s w
      match r with
      | .ok => (.ok rev, s)
      | .conflict _ _ =>
        match bget c s.store key 0 with
        | .found v m => (.condFailed (max rev m) (some (key, v, m)), s)
        | .notFound _ => (.condFailed rev (some (key, oldVal, modRev)), s)
      | r => (.error (commitErr r), s)


/-! ### async retry of uncertain writes (retry/retry.go) -/

/-- One `retry()` of the head of the retry queue (sequential setting: the dispatcher's notification
is sequenced eagerly). The head is popped only when the rewrite succeeded or failed its condition. -/
def doRetry (c : Cfg) (s : BState) (f : Fault) : BState :=
  match s.retryQ with
  | [] => s
  | w :: rest =>
    match getInternal c s.store w.key 0 with
    | none => { s with retryQ := rest }
    | some (val, modRev) =>
      if val.length == 0 || modRev != w.rev then { s with retryQ := rest }
      else
        let rev := s.dealt + 1
        let s := { s with dealt := rev }
        let flag : Bytes := if isTomb val then [0] else []
        let (r, st) := doCommit c s.store
          [BOp.cas (idxKey w.key) (be8 rev ++ flag) (be8 w.rev ++ flag), BOp.put (encode w.key rev) val] f
        let keep := !(r == .ok || r.isCas)   -- unknown outcome or a storage error: still unrepaired
        let s := { s with store := st, retryQ := if keep then w :: rest else rest }
        sequence s { w with rev := rev, valid := r == .ok, uncertain := r == .uncertain }

/-! ### range reads -/

/-- `checkCompactRace(compact = false)`. -/
def floorOf (c : Cfg) (st : Store) : Nat :=
  match st.get (compactKeyOf c) with
  | none => 0
  | some v => fromBE (v.take 8)

def belowFloor (c : Cfg) (st : Store) (rev : Nat) : Bool := floorOf c st > rev

inductive ScanRes (α : Type) where
  | ok (a : α)
  | error (e : Err)
  | panic
  deriving Repr

/-- The partitions a scan of `[start, end)` (internal keys) runs over, after adjustment. -/
def scanPartitions (c : Cfg) (start stop : Bytes) : Option (List (Bytes × Bytes)) :=
  adjustBorders none (sortParts (partitions c.splits start stop))

/-- Per-partition worker outputs of an unlimited, non-compacting scan. -/
def scanParts (c : Cfg) (st : Store) (start stop : Bytes) (rev : Nat) :
    ScanRes (List (List (Bytes × Bytes × Nat))) :=
  if belowFloor c st rev then .error .belowFloor else
  match scanPartitions c start stop with
  | none => .panic
  | some parts =>
    let outs := parts.map (fun p =>
      match decodeRecs (iterate c.q st p.1 p.2 0) with
      | none => none
      | some recs =>
        let acts := workerActs { R := rev, supportTTL := c.q.supportTTL } recs
        if hasPanic acts then none else some (emitsOf acts))
    if outs.any Option.isNone then .panic else .ok (outs.filterMap id)

/-- `rangeWithLimit`: a single worker over the whole range, stops after `lim` results. -/
def scanLimited (c : Cfg) (st : Store) (start stop : Bytes) (rev lim : Nat) :
    ScanRes (List (Bytes × Bytes × Nat)) :=
  if belowFloor c st rev then .error .belowFloor else
  match decodeRecs (iterate c.q st start stop 0) with
  | none => .panic
  | some recs => .ok ((emitsOf (workerActs { R := rev, supportTTL := c.q.supportTTL } recs)).take lim)

structure ListRes where
  hdr : Nat
  more : Bool
  kvs : List (Bytes × Bytes × Nat)
  deriving Repr

/-- header of a range response: the committed revision, raised to the newest kv returned -/
def hdrOf (committed : Nat) (kvs : List (Bytes × Bytes × Nat)) : Nat :=
  kvs.foldl (fun h kv => max h kv.2.2) committed

/-! The range bounds of `List` / `Count` / `GetPartitions` are encoded by `encodeBound` (KB.Coder: the model of
`backend.encodeRangeBound`, range.go, /repo 146f0bb). -/

/-- `Backend.List`. -/
def doList (c : Cfg) (s : BState) (key stop : Bytes) (rev limit : Nat) : ScanRes ListRes :=
  if stop.isEmpty then .error .invalid else
  let reqRev := if rev == 0 then s.committed else rev
  if cmp key stop != .lt then .error .invalid else
  if limit > 0 then
    match scanLimited c s.store (encodeBound key) (encodeBound stop) reqRev (limit + 1) with
    | .ok kvs => .ok { hdr := hdrOf s.committed (kvs.take limit), more := kvs.length > limit, kvs := kvs.take limit }
    | .error e => .error e
    | .panic => .panic
  else
    match scanParts c s.store (encodeBound key) (encodeBound stop) reqRev with
    | .ok outs => .ok { hdr := hdrOf s.committed outs.flatten, more := false, kvs := outs.flatten }
    | .error e => .error e
    | .panic => .panic

/-- `Backend.Count`. -/
def doCount (c : Cfg) (s : BState) (key stop : Bytes) : ScanRes (Nat × Nat) :=
  if !c.etcdCompat then .ok (s.committed, 0) else
  match scanParts c s.store (encodeBound key) (encodeBound stop) s.committed with
  | .ok outs => .ok (s.committed, outs.flatten.length)
  | .error e => .error e
  | .panic => .panic

/-- `Backend.Get`. -/
def doGet (c : Cfg) (s : BState) (key : Bytes) (rev : Nat) : Nat × Option (Bytes × Bytes × Nat) :=
  match bget c s.store key rev with
  | .notFound m => (max s.committed m, none)   -- a deletion above the committed revision raises the header
  | .found v m => (max s.committed m, some (key, v, m))

/-- `alignPartitionBorder`: an object key with a non-zero revision is moved back to the index key of
its raw key; anything else (and anything shorter than magic + split + revision) is left alone. -/
def alignBorder (b : Bytes) : Bytes :=
  if b.length < 13 then b else
  match decode b with
  | .ok k r => if r != 0 then encode k 0 else b
  | _ => b

/-- `GetPartitions`: the advertised partition keys (engine borders aligned to raw keys). -/
def doPartitions (c : Cfg) (key stop : Bytes) : List Bytes :=
  let ps := partitions c.splits (encodeBound key) (encodeBound stop)
  -- the engine may hand its partitions over in any order (`shuffle`): they are advertised in key order
  let ps := sortParts (if c.shuffle then ps.reverse else ps)
  (ps.mapIdx (fun i p => if i == 0 then p.1 else alignBorder p.1)) ++ (ps.getLast?.map (·.2)).toList

/-- `ListByStream(startKey, endKey, rev)` on internal keys: data batches (header revision, kvs)
then exactly one terminator. -/
structure StreamRes where
  batches : List (Nat × List (Bytes × Bytes × Nat))
  endHdr : Nat
  endErr : Option Err
  deriving Repr

def chunk (n : Nat) (l : List α) : List (List α) :=
  if h : n = 0 ∨ l = [] then (if l = [] then [] else [l]) else
  l.take n :: chunk n (l.drop n)
termination_by l.length
decreasing_by
  simp only [List.length_drop]
  have : l.length ≠ 0 := by intro h'; exact h (.inr (List.length_eq_zero_iff.mp h'))
  omega

def doStream (c : Cfg) (s : BState) (start stop : Bytes) (rev : Nat) : ScanRes StreamRes :=
  let r := if rev == 0 then s.committed else rev
  match scanParts c s.store start stop r with
  | .ok outs =>
    -- every forked receiver flushes its own batches (≤ rangeStreamBatch each) with the read revision
    .ok { batches := (outs.map (chunk rangeStreamBatch)).flatten.map (fun b => (r, b)), endHdr := r, endErr := none }
  | .error e => .ok { batches := [], endHdr := r, endErr := some e }
  | .panic => .panic

/-! ### compaction -/

/-- `getCompactBorders`: sorted internal keys of prefix and skipped prefixes with their ends. -/
def withSlash (p : Bytes) : Bytes := if p.getLast? == some 47 then p else p ++ [47]

def insertBytes (b : Bytes) : List Bytes → List Bytes
  | [] => [b]
  | x :: xs => if blt b x then b :: x :: xs else x :: insertBytes b xs

/-- the directory of a prefix: `[p/, prefixEnd p/)` -/
def dirOf (p : Bytes) : Bytes × Bytes := (withSlash p, prefixEnd (withSlash p))

/-- a skipped directory clipped to `[lo, hi)`; `none` when nothing of it lies inside -/
def clipSpan (lo hi : Bytes) (p : Bytes) : Option (Bytes × Bytes) :=
  let (s, e) := dirOf p
  let s := if blt s lo then lo else s
  let e := if blt hi e then hi else e
  if blt s e then some (s, e) else none

def insertSpan (x : Bytes × Bytes) : List (Bytes × Bytes) → List (Bytes × Bytes)
  | [] => [x]
  | y :: ys => if blt x.1 y.1 then x :: y :: ys else y :: insertSpan x ys

/-- `[cur, hi)` minus the union of the spans (sorted by start) -/
def subtractSpans (cur hi : Bytes) : List (Bytes × Bytes) → List (Bytes × Bytes)
  | [] => if blt cur hi then [(cur, hi)] else []
  | (s, e) :: rest =>
    (if blt cur s then [(cur, s)] else []) ++ subtractSpans (if blt cur e then e else cur) hi rest

/-- the raw-key ranges a compaction visits: the directory of the prefix minus the union of the skipped
directories (nested, duplicate and foreign skipped prefixes included) -/
def compactRanges (c : Cfg) : List (Bytes × Bytes) :=
  let (lo, hi) := dirOf c.pfx
  let spans := (c.skipped.filterMap (clipSpan lo hi)).foldr insertSpan []
  subtractSpans lo hi spans

/-- `getCompactBorders`: the internal-key borders, `[start₀, end₀, start₁, end₁, …]`. -/
def compactBorders (c : Cfg) : List Bytes :=
  (compactRanges c).flatMap (fun r => [encode r.1 0, encode r.2 0])

def pairs : List α → List (α × α)
  | a :: b :: rest => (a, b) :: pairs rest
  | _ => []

/-- `getTimeoutRevision`: pop marks older than the TTL, answer the newest popped revision. -/
def timeoutRev (c : Cfg) (marks : List (Nat × Nat)) (now : Nat) : Nat × List (Nat × Nat) :=
  if c.q.supportTTL then (0, marks) else
  let old := marks.takeWhile (fun m => now - m.2 ≥ c.ttl)
  ((old.getLast?.map (·.1)).getD 0, marks.drop old.length)

/-- `scanner.Compact` over one border pair with a delete-failure mask; returns the state after. -/
def compactRange (c : Cfg) (s : BState) (start stop : Bytes) (rev : Nat)
    (mask : Nat → DelOutcome) (calls : Nat) : BState × Nat × Bool :=
  let marks := s.marks ++ [(rev, s.now)]
  -- checkCompactRace(compact = true): the record is raised, never lowered
  let cur := floorOf c s.store
  let store := if s.store.get (compactKeyOf c) == none || cur < rev then s.store.put (compactKeyOf c) (be8 rev) else s.store
  match scanPartitions c start stop with
  | none => ({ s with marks := marks, store := store }, calls, true)
  | some parts =>
    let (t, marks) := timeoutRev c marks s.now
    let init : CompState × Bool := ({ store := store, calls := calls }, false)
    let (cs, pan) := parts.foldl (fun (acc : CompState × Bool) p =>
      match decodeRecs (iterate c.q store p.1 p.2 0) with
      | none => (acc.1, true)
      | some recs =>
        let res := passRun { R := rev, compact := true, timeout := t, supportTTL := c.q.supportTTL,
                             eventsPfx := eventsPrefixOf c } mask acc.1 recs
        (res.2, acc.2 || hasPanic res.1)) init
    ({ s with marks := marks, store := cs.store }, cs.calls, pan)

/-- `Backend.Compact`. The mask indexes delete calls across the whole compaction. -/
def doCompact (c : Cfg) (s : BState) (rev : Nat) (mask : Nat → DelOutcome) : ScanRes Nat × BState :=
  let cur := s.committed
  let rev := if rev == 0 || rev > cur then cur else rev
  let rev := match s.retryQ.head? with
    | some w => min (w.rev - 1) rev
    | none => rev
  -- setCompactRecord: raise by CAS / put-if-absent; an older request leaves the record alone
  let stored := s.store.get (compactKeyOf c)
  let store :=
    match stored with
    | some v => if v.length > 0 && fromBE (v.take 8) > rev then s.store else s.store.put (compactKeyOf c) (be8 rev)
    | none => s.store.put (compactKeyOf c) (be8 rev)
  let s := { s with store := store }
  let (s, _, pan) := (pairs (compactBorders c)).foldl (fun (acc : BState × Nat × Bool) b =>
      let (s', calls, p) := compactRange c acc.1 b.1 b.2 rev mask acc.2.1
      (s', calls, acc.2.2 || p)) (s, 0, false)
  (if pan then .panic else .ok rev, s)


/-- The engine calls (plain delete, compare-and-delete, expiry batch) a compaction makes, in order — same traversal
as `doCompact`/`compactRange`, collecting `CompState.trace` (used by the driver's `dellog`). -/
def compactTrace (c : Cfg) (s : BState) (rev : Nat) (mask : Nat → DelOutcome) : List DelCall :=
  let cur := s.committed
  let rev := if rev == 0 || rev > cur then cur else rev
  let rev := match s.retryQ.head? with
    | some w => min (w.rev - 1) rev
    | none => rev
  let step (acc : BState × Nat × List DelCall) (b : Bytes × Bytes) : BState × Nat × List DelCall :=
    let s := acc.1
    let marks := s.marks ++ [(rev, s.now)]
    let curF := floorOf c s.store
    let store := if s.store.get (compactKeyOf c) == none || curF < rev then s.store.put (compactKeyOf c) (be8 rev) else s.store
    match scanPartitions c b.1 b.2 with
    | none => ({ s with marks := marks, store := store }, acc.2.1, acc.2.2)
    | some parts =>
      let (t, marks) := timeoutRev c marks s.now
      let init : CompState := { store := store, calls := acc.2.1 }
      let cs := parts.foldl (fun (st : CompState) p =>
        match decodeRecs (iterate c.q store p.1 p.2 0) with
        | none => st
        | some recs =>
          (passRun { R := rev, compact := true, timeout := t, supportTTL := c.q.supportTTL,
                     eventsPfx := eventsPrefixOf c } mask st recs).2) init
      ({ s with marks := marks, store := cs.store }, cs.calls, acc.2.2 ++ cs.trace)
  let stored := s.store.get (compactKeyOf c)
  let store0 :=
    match stored with
    | some v => if v.length > 0 && fromBE (v.take 8) > rev then s.store else s.store.put (compactKeyOf c) (be8 rev)
    | none => s.store.put (compactKeyOf c) (be8 rev)
  ((pairs (compactBorders c)).foldl step ({ s with store := store0 }, 0, [])).2.2

end KB
