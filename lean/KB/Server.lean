/-
  KB.Server — the role layer of a kubebrain node (pkg/server/etcd, pkg/server/brain,
  pkg/server/service/revision).  Core-only.

  Part 1: the role decision of one RPC handler.  A handler is summarised by its *guard record*
  (`HandlerGuard`, one row of `KB.Generated.handlerGuards`, regenerated from the go/ast of /repo by
  harness/cmd/kbextract/guards.go); `outcome` says what a node does with a request given its role, whether
  the etcd proxy is enabled and how the leader behaves.

  Part 2: the follower read-sync LTS (`revisionSyncer.SyncReadRevision`): the leader's committed revision
  advances; a follower read fetches it through a single-flight group (`flight.Do("get_revision", …)`),
  stores it with `SetCurrentRevision` (`tso.Commit`: since /repo commit db7d4ff a compare-and-swap loop that
  only ever RAISES the committed revision; before it a plain store) and then reads its backend at whatever
  the read revision is at that moment.  The model is AS THE CODE IS (`asIs` = monotone store, single-flight
  results shared with late joiners); `beforeFix` is the code before db7d4ff (kept for the witness of the
  repaired defect); the remaining repair proposed in proposed-fixes/C18-*.diff is the other switch of
  `Variant`, so that its effect is a theorem too.

  Part 3: a follower forwarding a write transaction to the leader through the etcd proxy (`etcdProxy.Txn`):
  the transaction is sent ONCE; when the call ends with `codes.Unavailable` (which grpc reports both when the
  peer refuses and when the answer is lost after the leader executed the request) that error is passed to the
  client.  `forward` has the re-send as a switch so that why it must not be done is a theorem.
-/
namespace KB.Server

/-! ## Part 1 — handler guard records and the role decision -/

inductive Api | etcd | brain
  deriving DecidableEq, Repr

/-- What a handler does to the backend, derived from the data methods it calls on `.backend`:
`write` = Create/Update/Delete/Compact, `watch` = Watch, `read` = Get/List/Count/GetPartitions/ListByStream,
`other` = none of them (stubs). -/
inductive Kind | read | write | watch | other
  deriving DecidableEq, Repr

/-- The first role-related call in the handler body (source order, helpers inlined). -/
inductive Guard | syncRead | isLeader | proxy | none
  deriving DecidableEq, Repr

inductive ProxyCond | always | proxyOn | proxyOff
  deriving DecidableEq, Repr

/-- A role-dependent exit on the non-leader side of an `IsLeader` test: forwarding to the leader
(`peers.Txn` / `peers.Watch`) or returning `codes.Unavailable`. -/
inductive FAct | forward | reject
  deriving DecidableEq, Repr

structure HandlerGuard where
  api : Api
  /-- Go method name; `Watch/List`, `Watch/Watch` are the two goroutines an etcd watch-create request starts
  (negative start revision = range stream, otherwise a watch). -/
  handler : String
  /-- invocable as an RPC (false: background loop such as brain `compactLoop`) -/
  rpc : Bool
  kind : Kind
  firstGuard : Guard
  /-- a data method of `.backend` is called before the first guard (source order) -/
  touchesBackendBeforeGuard : Bool
  /-- the failing side of the first guard leaves the handler (return) handing the guard's error on -/
  returnsGuardError : Bool
  /-- some data call on `.backend` is NOT confined to the success side of the guard: for `isLeader` guards a
  call not on the leader-only side of an `IsLeader` test, for `syncRead` guards a call not after the
  `if err := SyncReadRevision(); err != nil { …return }` statement -/
  unguardedBackend : Bool
  /-- exits on the non-leader side, in source order, each with the proxy condition it is under -/
  followerActions : List (FAct × ProxyCond)
  /-- data methods called on `.backend` (source order, helpers inlined) -/
  backendCalls : List String
  /-- request-shape conjuncts of the first guard's condition (source text), e.g. `isPureWatchRequest(r)` -/
  guardDataConds : List String
  /-- every `return` of the handler returns a non-nil error (unsupported stubs) -/
  alwaysErrors : Bool
  deriving Repr

inductive Role | leader | follower
  deriving DecidableEq, Repr

/-- How the leader behaves towards this node while the request is handled. -/
inductive LeaderBehaviour | ok | down | err
  deriving DecidableEq, Repr

inductive Outcome | servedLocally | forwarded | unavailable | syncError
  deriving DecidableEq, Repr

def ProxyCond.holds : ProxyCond → Bool → Bool
  | .always, _ => true
  | .proxyOn, p => p
  | .proxyOff, p => !p

/-- The first exit on the non-leader side whose proxy condition holds. -/
def followerExit : List (FAct × ProxyCond) → Bool → Option FAct
  | [], _ => none
  | (a, c) :: rest, p => if c.holds p then some a else followerExit rest p

/-- The role decision of a handler (for requests whose shape satisfies `guardDataConds`). -/
def outcome (g : HandlerGuard) (role : Role) (proxy : Bool) (lb : LeaderBehaviour) : Outcome :=
  match role with
  | .leader => .servedLocally
  | .follower =>
    match g.firstGuard with
    | .syncRead =>
      match lb with
      | .ok => .servedLocally
      | _ => if g.returnsGuardError then .syncError else .servedLocally
    | .isLeader | .proxy =>
      match followerExit g.followerActions proxy with
      | some .forward => .forwarded
      | some .reject => .unavailable
      | none => .servedLocally
    | .none => .servedLocally

/-- Can a data method of the local backend be reached while handling the request?  (Conservative: `true`
whenever the record does not exclude it.) -/
def backendAccess (g : HandlerGuard) (role : Role) (proxy : Bool) (lb : LeaderBehaviour) : Bool :=
  !g.backendCalls.isEmpty &&
  (g.touchesBackendBeforeGuard ||
    match role with
    | .leader => true
    | .follower =>
      match g.firstGuard with
      | .syncRead =>
        (match outcome g .follower proxy lb with
         | .servedLocally => true
         | _ => g.unguardedBackend)
      | .isLeader | .proxy => g.unguardedBackend
      | .none => true)

/-! ## Part 2 — the follower read-sync LTS -/

/-- Where a follower read is in `SyncReadRevision` / its handler. -/
inductive Phase
  /-- not begun -/
  | idle
  /-- handler entered; before `flight.Do` -/
  | begun
  /-- inside `flight.Do`: the owner runs the HTTP GET, a joiner waits on the call's WaitGroup -/
  | waiting
  /-- `flight.Do` returned (`none` = error); before `backend.SetCurrentRevision` -/
  | got (v : Option Nat)
  /-- `SetCurrentRevision` done, `SyncReadRevision` returned nil; before the backend read -/
  | synced
  /-- the backend read ran at this read revision -/
  | served (rev : Nat)
  /-- `SyncReadRevision` returned an error, the handler returned it; no backend read -/
  | failed
  deriving DecidableEq, Repr

structure Read where
  phase : Phase := .idle
  /-- ghost: the leader's committed revision when the read began -/
  beginRev : Nat := 0
  /-- ghost: the read joined a fetch the leader had already answered -/
  late : Bool := false
  /-- ghost: the revision this read's own `SetCurrentRevision` stored -/
  fetched : Option Nat := none
  deriving DecidableEq, Repr

/-- The single-flight group: at most one outstanding call. -/
inductive Flight
  | none
  /-- GET /status outstanding, the leader has not produced its answer -/
  | pending
  /-- the leader's handler has run: the reply value is fixed (`none` = refused / unreachable) but has
  not been delivered to the waiting readers yet -/
  | answered (v : Option Nat)
  deriving DecidableEq, Repr

structure State where
  leaderRev : Nat
  followerRev : Nat
  flight : Flight := .none
  reads : Nat → Read := fun _ => {}

inductive Step
  /-- the leader commits a write: its committed revision advances by one -/
  | leaderCommit
  /-- read `r` enters its handler on the follower -/
  | readBegin (r : Nat)
  /-- `r` calls `flight.Do` and the group is empty: it becomes the owner and sends GET /status -/
  | fetchStart (r : Nat)
  /-- `r` calls `flight.Do` while a call is in the group: it waits for that call's result -/
  | fetchJoin (r : Nat)
  /-- the leader's /status handler runs: publishes its committed revision (`ok`), refuses (`err`, e.g. it is
  no longer leader) or cannot be reached (`down`) -/
  | leaderAnswer (b : LeaderBehaviour)
  /-- the owner's function returns: the call leaves the group and every waiter receives its value -/
  | fetchReply
  /-- `r` executes `backend.SetCurrentRevision(v)` -/
  | setRev (r : Nat)
  /-- `r`'s handler reads the backend at the follower's current read revision -/
  | readServe (r : Nat)
  deriving DecidableEq, Repr

/-- The code as it is, the code as it was, and the proposed repair, as switches. -/
structure Variant where
  /-- `SetCurrentRevision` on the follower only ever raises the read revision (`tso.Commit` since db7d4ff) -/
  monotoneSet : Bool
  /-- a reader that joined a fetch which had started before the reader called in discards that result and
  calls `flight.Do` again (generation check) -/
  retryLateJoin : Bool
  deriving DecidableEq, Repr

/-- The code as it is NOW: `naiveTSO.Commit` raises the committed revision with a compare-and-swap loop and
ignores older values (db7d4ff); a reader that joins an already answered fetch still uses its result. -/
def asIs : Variant := { monotoneSet := true, retryLateJoin := false }
/-- The code before db7d4ff (`SetCurrentRevision` = `atomic.StoreUint64`): historical, for the witness of the
repaired defect `late-set-lowers-revision`. -/
def beforeFix : Variant := { monotoneSet := false, retryLateJoin := false }
/-- The code as it is plus the proposed generation check around `flight.Do`. -/
def fixed : Variant := { monotoneSet := true, retryLateJoin := true }

def upd (f : Nat → Read) (r : Nat) (x : Read) : Nat → Read := fun i => if i = r then x else f i

/-- What a waiter becomes when the call completes with value `v`. -/
def deliver (vt : Variant) (v : Option Nat) (x : Read) : Read :=
  match x.phase with
  | .waiting =>
    if vt.retryLateJoin && x.late then { x with phase := .begun, late := false }
    else { x with phase := .got v }
  | _ => x

def step (vt : Variant) (s : State) : Step → Option State
  | .leaderCommit => some { s with leaderRev := s.leaderRev + 1 }
  | .readBegin r =>
    match (s.reads r).phase with
    | .idle => some { s with reads := upd s.reads r { phase := .begun, beginRev := s.leaderRev } }
    | _ => none
  | .fetchStart r =>
    match (s.reads r).phase, s.flight with
    | .begun, .none => some { s with flight := .pending, reads := upd s.reads r { s.reads r with phase := .waiting, late := false } }
    | _, _ => none
  | .fetchJoin r =>
    match (s.reads r).phase, s.flight with
    | .begun, .pending => some { s with reads := upd s.reads r { s.reads r with phase := .waiting, late := false } }
    | .begun, .answered _ => some { s with reads := upd s.reads r { s.reads r with phase := .waiting, late := true } }
    | _, _ => none
  | .leaderAnswer b =>
    match s.flight with
    | .pending => some { s with flight := .answered (match b with | .ok => some s.leaderRev | _ => none) }
    | _ => none
  | .fetchReply =>
    match s.flight with
    | .answered v => some { s with flight := .none, reads := fun i => deliver vt v (s.reads i) }
    | _ => none
  | .setRev r =>
    match (s.reads r).phase with
    | .got (some v) =>
      some { s with followerRev := if vt.monotoneSet then max s.followerRev v else v,
                    reads := upd s.reads r { s.reads r with phase := .synced, fetched := some v } }
    | .got none => some { s with reads := upd s.reads r { s.reads r with phase := .failed } }
    | _ => none
  | .readServe r =>
    match (s.reads r).phase with
    | .synced => some { s with reads := upd s.reads r { s.reads r with phase := .served s.followerRev } }
    | _ => none

def run (vt : Variant) : State → List Step → Option State
  | s, [] => some s
  | s, st :: rest =>
    match step vt s st with
    | some s' => run vt s' rest
    | none => none

def init (n : Nat) : State := { leaderRev := n, followerRev := n }

/-- States of the (variant of the) system reachable from a follower and leader both at revision `n`. -/
def Reachable (vt : Variant) (s : State) : Prop := ∃ n tr, run vt (init n) tr = some s

/-- Every read that has been served was served at a revision not below the leader's committed revision
when that read began. -/
def Fresh (s : State) : Prop := ∀ r v, (s.reads r).phase = .served v → (s.reads r).beginRev ≤ v

/-- `Fresh` for the reads that ran (or joined in time) their OWN fetch: every served read that did not join
a fetch the leader had already answered (`late = false`) was served at a revision not below the leader's
committed revision when it began. -/
def FreshOwn (s : State) : Prop :=
  ∀ r v, (s.reads r).phase = .served v → (s.reads r).late = false → (s.reads r).beginRev ≤ v

/-- No read other than `r` is between its begin and its end. -/
def active (x : Read) : Bool :=
  match x.phase with
  | .idle | .served _ | .failed => false
  | _ => true

/-- Executions in which follower reads do not overlap: a read begins only when no other read is active. -/
inductive ReachableSeq (vt : Variant) : State → Prop
  | init (n : Nat) : ReachableSeq vt (KB.Server.init n)
  | begin {s s' : State} (r : Nat) : ReachableSeq vt s → (∀ i, active (s.reads i) = false) →
      step vt s (.readBegin r) = some s' → ReachableSeq vt s'
  | other {s s' : State} (st : Step) : ReachableSeq vt s → (∀ r, st ≠ .readBegin r) →
      step vt s st = some s' → ReachableSeq vt s'

/-! ## Part 3 — forwarding a write transaction (`etcd.RPCServer.Txn` on a follower → `etcdProxy.Txn`) -/

/-- The leader's store as far as a guarded single-key transaction sees it: the mod revision of every key
(`none` = absent) and the revision counter. -/
structure Store where
  modRev : Nat → Option Nat := fun _ => none
  rev : Nat

inductive TxnShape
  /-- `If(mod(k) = 0) Then(Put k v)` -/
  | create
  /-- `If(mod(k) = g) Then(Put k v) Else(Get k)` -/
  | update (g : Nat)
  deriving DecidableEq, Repr

/-- ONE execution of the transaction on the leader: the store afterwards and whether the condition held (the
write took effect). -/
def execTxn (st : Store) (k : Nat) : TxnShape → Store × Bool
  | .create =>
    match st.modRev k with
    | none => ({ modRev := fun i => if i = k then some (st.rev + 1) else st.modRev i, rev := st.rev + 1 }, true)
    | some _ => (st, false)
  | .update g =>
    if st.modRev k = some g then
      ({ modRev := fun i => if i = k then some (st.rev + 1) else st.modRev i, rev := st.rev + 1 }, true)
    else (st, false)

/-- What the follower tells its client. -/
inductive FwdAnswer | ok | failed | unavailable
  deriving DecidableEq, Repr

structure FwdResult where
  answer : FwdAnswer
  /-- how many times the leader executed the transaction for this ONE client request -/
  executions : Nat
  store : Store
  /-- the client's write took effect -/
  applied : Bool

/-- One client request forwarded by a follower.  `lost`: the leader executes the transaction but its answer
does not arrive — the forwarded call ends with `codes.Unavailable`.  THE LAW (`resend = false`, the code as
it is): a forwarded transaction is executed at most once per client request, and an Unavailable from the
forward path is passed to the client.  `resend = true`: forward once more on Unavailable. -/
def forward (resend : Bool) (st : Store) (k : Nat) (sh : TxnShape) (lost : Bool) : FwdResult :=
  let r1 := execTxn st k sh
  if lost then
    if resend then
      let r2 := execTxn r1.1 k sh
      { answer := if r2.2 then .ok else .failed, executions := 2, store := r2.1, applied := r1.2 || r2.2 }
    else { answer := .unavailable, executions := 1, store := r1.1, applied := r1.2 }
  else { answer := if r1.2 then .ok else .failed, executions := 1, store := r1.1, applied := r1.2 }

end KB.Server
