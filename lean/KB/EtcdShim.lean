/-
  KB.EtcdShim — executable model of the etcd-facing endpoint: request classification
  (pkg/server/etcd/kv.go: Txn, Range, isCreate / isDelete / isUpdate / isCompact) and response shaping
  (pkg/server/etcd/backendshim.go: Create / Delete / Update / Get / List / Count / GetPartitions / Watch)
  over the sequential backend model (KB.Backend).  The code is modelled AS IT IS (after the repair of the
  recognisers, /repo commits 4c41c58, — the compaction probe — 2870609 and — `prev_kv` on the delete op — c09cadc): the recognisers look at exactly the fields the Go recognisers look
  at; every field etcd semantics depend on (op keys, range_end, put flags, range options …) is present in
  the request types, and is ignored here exactly where the Go code still ignores it (Range options).

  Assumed (not modelled): this node is the leader and `SyncReadRevision` succeeds (the harness runs the
  production peer service over an election stub that says so); the request deadline has not passed;
  a `Compare.target_union` of the kind named by `Compare.target` (any other kind reads as 0 both in
  kubebrain — `GetModRevision()` — and in etcd); revisions in responses are below 2^63 (the
  `int64(uint64)` cast of response headers is the identity there).
-/
import KB.Backend
namespace KB.Etcd
open KB

deriving instance DecidableEq for Except

/-- `uint64(x)` for an `int64` x (backendshim.go: `Revision: uint64(revision)`). -/
def toU64 (i : Int) : Nat := (i % (2 ^ 64 : Int)).toNat

/-! ### requests (etcdserverpb) -/

inductive CmpTarget where
  | version | create | mod | value | lease
  deriving Repr, DecidableEq

inductive CmpResult where
  | equal | greater | less | notEqual
  deriving Repr, DecidableEq

/-- etcdserverpb.Compare: `int` is the integer of target_union (mod / version / create / lease),
`val` the bytes of a value compare. -/
structure Compare where
  target : CmpTarget := .mod
  result : CmpResult := .equal
  key : Bytes := []
  int : Int := 0
  val : Bytes := []
  rangeEnd : Bytes := []
  deriving Repr, DecidableEq

structure PutReq where
  key : Bytes := []
  val : Bytes := []
  lease : Int := 0
  prevKv : Bool := false
  ignoreValue : Bool := false
  ignoreLease : Bool := false
  deriving Repr, DecidableEq

/-- etcdserverpb.RangeRequest. `sortDesc` = SortOrder DESCEND on the key target (other sort targets
are not modelled). -/
structure RangeReq where
  key : Bytes := []
  rangeEnd : Bytes := []
  limit : Int := 0
  revision : Int := 0
  countOnly : Bool := false
  keysOnly : Bool := false
  serializable : Bool := false
  sortDesc : Bool := false
  minMod : Int := 0
  maxMod : Int := 0
  minCreate : Int := 0
  maxCreate : Int := 0
  deriving Repr, DecidableEq

structure DelReq where
  key : Bytes := []
  rangeEnd : Bytes := []
  prevKv : Bool := false
  deriving Repr, DecidableEq

/-- etcdserverpb.RequestOp: the three leaf requests, a nested transaction (contents never looked
at by the shim) and the empty `oneof`. -/
inductive Op where
  | put (p : PutReq)
  | range (r : RangeReq)
  | del (d : DelReq)
  | nested
  | empty
  deriving Repr, DecidableEq

structure TxnReq where
  compare : List Compare := []
  success : List Op := []
  failure : List Op := []
  deriving Repr, DecidableEq

/-! ### responses: the observable projection -/

/-- mvccpb.KeyValue projected on (key, value, mod revision). -/
abbrev KV := Bytes × Bytes × Nat

inductive RespOp where
  | put (hdr : Nat)
  | range (hdr : Nat) (kvs : List KV) (count : Nat) (more : Bool)
  | del (hdr : Nat) (deleted : Nat)
  deriving Repr, DecidableEq

/-- etcdserverpb.TxnResponse. `wrote` is bookkeeping of the models (not on the wire): a write was
committed by this transaction, i.e. `hdr` is the modification revision it was given. -/
structure TxnResp where
  ok : Bool
  hdr : Nat
  resps : List RespOp
  wrote : Bool
  deriving Repr, DecidableEq

structure RangeResp where
  hdr : Nat
  kvs : List KV
  count : Nat
  more : Bool
  deriving Repr, DecidableEq

inductive EErr where
  | unsupported          -- "unsupported transaction"
  | field                -- "<field> is unsupported" (put flags in the create shape)
  | backend (e : Err)    -- error of the backend call
  | panic
  deriving Repr, DecidableEq

/-- What the property compares of a transaction response: the success flag, the modification
revision given to the write (if one was committed), and the answers to the reads the client asked
for — for every range op of the executed branch the key-values of the response at the same position
(`none` when there is no range response there). -/
structure TxnObs where
  ok : Bool
  writeRev : Option Nat
  reads : List (Option (List KV))
  deriving Repr, DecidableEq

def RespOp.kvs? : RespOp → Option (List KV)
  | .range _ kvs _ _ => some kvs
  | _ => none

def readsOf : List Op → List RespOp → List (Option (List KV))
  | [], _ => []
  | .range _ :: ops, r :: rs => r.kvs? :: readsOf ops rs
  | .range _ :: ops, [] => none :: readsOf ops []
  | _ :: ops, _ :: rs => readsOf ops rs
  | _ :: ops, [] => readsOf ops []

def TxnResp.obs (t : TxnReq) (r : TxnResp) : TxnObs :=
  { ok := r.ok, writeRev := if r.wrote then some r.hdr else none,
    reads := readsOf (if r.ok then t.success else t.failure) r.resps }

/-! ### the recognisers of kv.go (after commits 4c41c58, 2870609, c09cadc: they accept only the shapes they execute) -/

/-- `isModCompareOn(c, key)`: `ModRevision(key) == x` on the single key `key` -/
def Compare.isModOn (c : Compare) (key : Bytes) : Bool :=
  c.target == .mod && c.result == .equal && c.rangeEnd.isEmpty && c.key == key

/-- `isPlainGet(op, key)`: a point read of `key` at the current revision (limit, sort order and
`serializable` are not looked at: they cannot change the answer of a point read) -/
def RangeReq.isPlainGet (r : RangeReq) (key : Bytes) : Bool :=
  r.key == key && r.rangeEnd.isEmpty && r.revision == 0 && !r.countOnly && !r.keysOnly &&
  r.minMod == 0 && r.maxMod == 0 && r.minCreate == 0 && r.maxCreate == 0

/-- `isCreate`: one compare `mod(put.key) = 0`, no failure op, one success op that is a put. -/
def isCreate (t : TxnReq) : Option PutReq :=
  match t.compare, t.failure, t.success with
  | [c], [], [.put p] => if c.isModOn p.key && c.int == 0 then some p else none
  | _, _, _ => none

/-- `pointDelete(op)`: the delete op deletes exactly one key (empty `range_end`) and does NOT ask for `prev_kv`
(/repo c09cadc: the supported delete shapes are answered with a range response, `prev_kv` would have to come back
in a delete response) -/
def DelReq.isPoint (d : DelReq) : Bool := d.rangeEnd.isEmpty && !d.prevKv

/-- `isDelete` → (expected revision, key, guarded): (a) no compare, no failure op, success =
[plain Get k, point delete k]; (b) one compare `mod(k) = rev` with `rev > 0`, failure = [plain Get k],
success = [point delete k] (`pointDelete`: empty `range_end`, no `prev_kv` — /repo c09cadc; before: `isDeleteOld`). -/
def isDelete (t : TxnReq) : Option (Int × Bytes × Bool) :=
  match t.compare, t.failure, t.success with
  | [], [], [.range g, .del d] =>
    if d.isPoint && g.isPlainGet d.key then some (0, d.key, false) else none
  | [c], [.range g], [.del d] =>
    if d.isPoint && c.isModOn d.key && decide (c.int > 0) && g.isPlainGet d.key
    then some (c.int, d.key, true) else none
  | _, _, _ => none

/-- `isDelete` BEFORE /repo c09cadc (kept for the refutation `KB.C16.old_delete_prev_kv_executed`): `pointDelete`
looked only at `range_end`, so both delete shapes were recognised — and executed as the plain delete, answered with
a range response — also when the delete op asked for `prev_kv`. -/
def isDeleteOld (t : TxnReq) : Option (Int × Bytes × Bool) :=
  match t.compare, t.failure, t.success with
  | [], [], [.range g, .del d] =>
    if d.rangeEnd.isEmpty && g.isPlainGet d.key then some (0, d.key, false) else none
  | [c], [.range g], [.del d] =>
    if d.rangeEnd.isEmpty && c.isModOn d.key && decide (c.int > 0) && g.isPlainGet d.key
    then some (c.int, d.key, true) else none
  | _, _, _ => none

/-- `isUpdate`: one compare `mod(put.key) = rev`, success = [put without flags], failure =
[plain Get put.key]. -/
def isUpdate (t : TxnReq) : Option (Int × Bytes × Bytes × Int) :=
  match t.compare, t.failure, t.success with
  | [c], [.range g], [.put p] =>
    if c.isModOn p.key && !p.prevKv && !p.ignoreValue && !p.ignoreLease && g.isPlainGet p.key
    then some (c.int, p.key, p.val, p.lease) else none
  | _, _, _ => none

/-- "compact_rev_key" -/
def compactRevKey : Bytes := [99, 111, 109, 112, 97, 99, 116, 95, 114, 101, 118, 95, 107, 101, 121]

/-- `isCompact` (after /repo 2870609: as strict as the other recognisers): one compare
`Version(compact_rev_key) == n` without `range_end`, success = [ONE put on that key, without prev_kv /
ignore_value / ignore_lease], failure = [ONE plain Get (`isPlainGet`) of that key] — the transaction
kube-apiserver's compactor sends (k8s.io/apiserver/pkg/storage/etcd3/compact.go). Anything else is not the
compaction probe and falls through to "unsupported transaction". -/
def isCompact (t : TxnReq) : Bool :=
  match t.compare, t.failure, t.success with
  | [c], [.range g], [.put p] =>
    c.target == .version && c.result == .equal && c.rangeEnd.isEmpty && c.key == compactRevKey &&
    p.key == c.key && !p.prevKv && !p.ignoreValue && !p.ignoreLease && g.isPlainGet c.key
  | _, _, _ => false

/-- `isCompact` BEFORE /repo 2870609 (kept for the refutation `KB.C16.old_probe_recogniser_swallowed_put`): only
the compare and the KIND of the two operations were looked at — `If(Version(compact_rev_key) = n).Then(Put <any
key>).Else(Range <any key or range>)` was answered with the canned probe answer: neither rejected nor executed. -/
def isCompactOld (t : TxnReq) : Bool :=
  match t.compare, t.failure, t.success with
  | [c], [.range _], [.put _] => c.target == .version && c.result == .equal && c.key == compactRevKey
  | _, _, _ => false

/-- The backend call a transaction is turned into (`RPCServer.Txn`, in the order of its `if` chain). -/
inductive Shape where
  | create (p : PutReq)
  | delete (rev : Int) (key : Bytes) (guarded : Bool)
  | update (rev : Int) (key val : Bytes) (lease : Int)
  | compact
  | unsupported
  deriving Repr, DecidableEq

def classify (t : TxnReq) : Shape :=
  match isCreate t with
  | some p => .create p
  | none =>
    match isDelete t with
    | some (rev, key, guarded) => .delete rev key guarded
    | none =>
      match isUpdate t with
      | some (rev, key, val, lease) => .update rev key val lease
      | none => if isCompact t then .compact else .unsupported

/-- the `if` chain of `RPCServer.Txn` BEFORE /repo 2870609 (the lax probe recogniser `isCompactOld`); only for
the refutation -/
def classifyOld (t : TxnReq) : Shape :=
  match isCreate t with
  | some p => .create p
  | none =>
    match isDelete t with
    | some (rev, key, guarded) => .delete rev key guarded
    | none =>
      match isUpdate t with
      | some (rev, key, val, lease) => .update rev key val lease
      | none => if isCompactOld t then .compact else .unsupported

/-- the `if` chain of `RPCServer.Txn` BEFORE /repo c09cadc (`isDeleteOld`: a delete op with `prev_kv` was a point
delete); only for the refutation -/
def classifyOld2 (t : TxnReq) : Shape :=
  match isCreate t with
  | some p => .create p
  | none =>
    match isDeleteOld t with
    | some (rev, key, guarded) => .delete rev key guarded
    | none =>
      match isUpdate t with
      | some (rev, key, val, lease) => .update rev key val lease
      | none => if isCompact t then .compact else .unsupported

/-! ### response shaping of backendshim.go -/

/-- the live key-value of `key` (what `backend.get(key, 0)` answers) -/
def curKv (c : Cfg) (s : BState) (key : Bytes) : Option KV := (latestKv c s.store key).1

/-! #### the backend's answer, and the shaping as a function of it

`RPCServer.Txn` = recognise the shape, make ONE backend write call (or none), shape its answer.
The two halves are separated here: `backendCall` (which call, with which arguments), `runCall` (the call
on the sequential backend model) and `shapeTxn` (backendshim.go `Create / Delete / Update` after their
backend call, plus the unguarded-delete fix-up of kv.go) — `shapeTxn` is a function of the backend's
ANSWER alone, so it also says how an answer that only a race produces is presented to the client. -/

/-- What `backend.Create / Update / Delete` hand back (pkg/backend/txn.go): the proto response
(`Succeeded`, `Header.Revision`, `Kv` — a `CreateResponse` has no `Kv`) or an error. Every answer the
backend can give, sequentially or under a race:
create `resp true rev none` | `resp false rev none` (exists);
update `resp true rev none` | `resp false (max rev mod) (some current)` | `resp false rev none` (gone);
delete `resp true rev (some old)` | `resp false rev none` (missing) | `resp false (max rev mod) (some current)`
(stale expectation or LOST RACE) | `resp false rev (some old)` (vanished between the read and the commit);
all: `error`. -/
inductive BAns where
  | resp (succeeded : Bool) (hdr : Nat) (kv : Option KV)
  | error (e : Err)
  deriving Repr, DecidableEq

/-- The backend write call a recognised transaction is turned into, with the arguments backendshim.go
builds (`uint64(revision)`). -/
inductive BCall where
  | create (key val : Bytes) (lease : Int)
  | delete (key : Bytes) (rev : Nat)
  | update (key val : Bytes) (rev : Nat) (lease : Int)
  deriving Repr, DecidableEq

/-- `none`: no backend call is made (create shape with put flags: refused before the call; the
compactor's transaction; an unsupported transaction). -/
def backendCall : Shape → Option BCall
  | .create p => if p.ignoreLease || p.ignoreValue || p.prevKv then none else some (.create p.key p.val p.lease)
  | .delete rev key _ => some (.delete key (toU64 rev))
  | .update rev key val lease => some (.update key val (toU64 rev) lease)
  | .compact => none
  | .unsupported => none

/-- the proto response of a backend write in terms of the model's `WriteRes`; `old` = the key-value a
successful call reports (delete: the deleted one; create / update: none) -/
def ansOfWrite (old : Option KV) : WriteRes → BAns
  | .ok rev => .resp true rev old
  | .condFailed hdr kv => .resp false hdr kv
  | .notFound hdr => .resp false hdr none
  | .error e => .error e

/-- `backend.Create` / `backend.Update` refuse a write without a value BEFORE a revision is dealt
(pkg/backend/txn.go `errEmptyValue`, /repo f2a549c: every engine alike — TiKV cannot store an empty value,
on the other engines a key holding it reads as absent in point reads while range reads list it). -/
def BCall.emptyValue : BCall → Bool
  | .create _ val _ => val.isEmpty
  | .update _ val _ _ => val.isEmpty
  | .delete _ _ => false

/-- the call on the sequential backend model: refused without touching the state when it carries no value -/
def runCall (c : Cfg) (s : BState) (call : BCall) : BAns × BState :=
  if call.emptyValue then (.error .other, s) else
  match call with
  | .create key val _ => let (r, s') := doCreate c s key val []; (ansOfWrite none r, s')
  | .delete key rev => let (r, s') := doDelete c s key rev []; (ansOfWrite (curKv c s key) r, s')
  | .update key val rev _ => let (r, s') := doUpdate c s key val rev []; (ansOfWrite none r, s')

/-- backendShim.Create after its backend call: `[ResponsePut]` in both outcomes -/
def shapeCreate : BAns → Except EErr TxnResp
  | .resp ok hdr _ => .ok { ok := ok, hdr := hdr, resps := [.put hdr], wrote := ok }
  | .error e => .error (.backend e)

/-- backendShim.Delete after its backend call: `[ResponseRange{kv}]` in every outcome -/
def shapeDelete : BAns → Except EErr TxnResp
  | .resp ok hdr kv => .ok { ok := ok, hdr := hdr, resps := [.range hdr kv.toList 0 false], wrote := ok }
  | .error e => .error (.backend e)

/-- backendShim.Update after its backend call: `[ResponsePut]` / `[ResponseRange{current kv}]` -/
def shapeUpdate : BAns → Except EErr TxnResp
  | .resp true hdr _ => .ok { ok := true, hdr := hdr, resps := [.put hdr], wrote := true }
  | .resp false hdr kv => .ok { ok := false, hdr := hdr, resps := [.range hdr kv.toList 0 false], wrote := false }
  | .error e => .error (.backend e)

/-- `RPCServer.compact`: a canned "failed" answer, nothing is executed. -/
def compactResp : TxnResp :=
  { ok := false, hdr := 0, resps := [.range 0 [([], [], 0)] 1 false], wrote := false }

/-- kv.go, Txn: a transaction without compares always takes its success branch — the unguarded delete
of a missing key (`Succeeded = false`, one range response without key-values) is answered
`Succeeded = true`; a lost race (current kv in the response) stays `false`. -/
def unguardedFlag (r : TxnResp) : TxnResp :=
  match r.ok, r.resps with
  | false, [.range _ [] _ _] => { r with ok := true }
  | _, _ => r

/-- The response `RPCServer.Txn` builds for a transaction of shape `sh` from the backend's answer `a`
(`a` is not looked at when `backendCall sh = none`). -/
def shapeTxn (sh : Shape) (a : BAns) : Except EErr TxnResp :=
  match sh with
  | .create p => if p.ignoreLease || p.ignoreValue || p.prevKv then .error .field else shapeCreate a
  | .delete _ _ true => shapeDelete a
  | .delete _ _ false =>
    match shapeDelete a with
    | .ok r => .ok (unguardedFlag r)
    | .error e => .error e
  | .update _ _ _ _ => shapeUpdate a
  | .compact => .ok compactResp
  | .unsupported => .error .unsupported

/-- `RPCServer.Txn` on the leader: classify, call the backend (if the shape has a call), shape the answer. -/
def shimTxn (c : Cfg) (s : BState) (t : TxnReq) : Except EErr TxnResp × BState :=
  match backendCall (classify t) with
  | some call => let (a, s') := runCall c s call; (shapeTxn (classify t) a, s')
  | none => (shapeTxn (classify t) (.error .other), s)

/-- `RPCServer.Txn` BEFORE /repo 2870609 (`classifyOld`); only for the refutation -/
def shimTxnOld (c : Cfg) (s : BState) (t : TxnReq) : Except EErr TxnResp × BState :=
  match backendCall (classifyOld t) with
  | some call => let (a, s') := runCall c s call; (shapeTxn (classifyOld t) a, s')
  | none => (shapeTxn (classifyOld t) (.error .other), s)

/-- `RPCServer.Txn` BEFORE /repo c09cadc (`classifyOld2`); only for the refutation -/
def shimTxnOld2 (c : Cfg) (s : BState) (t : TxnReq) : Except EErr TxnResp × BState :=
  match backendCall (classifyOld2 t) with
  | some call => let (a, s') := runCall c s call; (shapeTxn (classifyOld2 t) a, s')
  | none => (shapeTxn (classifyOld2 t) (.error .other), s)

/-! the three backendshim methods on the model (used by the lemmas; `shimTxn_cases` in KB.Lemmas.Etcd
shows `shimTxn` is their `if` chain) -/

def shimCreate (c : Cfg) (s : BState) (p : PutReq) : Except EErr TxnResp × BState :=
  if p.ignoreLease || p.ignoreValue || p.prevKv then (.error .field, s)
  else let (a, s') := runCall c s (.create p.key p.val p.lease); (shapeCreate a, s')

def shimDelete (c : Cfg) (s : BState) (rev : Int) (key : Bytes) : Except EErr TxnResp × BState :=
  let (a, s') := runCall c s (.delete key (toU64 rev)); (shapeDelete a, s')

def shimUpdate (c : Cfg) (s : BState) (rev : Int) (key val : Bytes) : Except EErr TxnResp × BState :=
  let (a, s') := runCall c s (.update key val (toU64 rev) 0); (shapeUpdate a, s')

/-! ### Range -/

/-- `GetPartitionMagic` (kv.go): the value is REGENERATED from /repo (`Generated.partitionMagic`; pinned to 1888 by
`KB.C16.magic_guard_as_in_source`) -/
def getPartitionMagic : Int := (Generated.partitionMagic : Nat)

def liftScan {α : Type} : ScanRes α → Except EErr α
  | .ok a => .ok a
  | .error e => .error (.backend e)
  | .panic => .error .panic

/-- The GUARD of the partition-listing branch of `RPCServer.Range` (kv.go, /repo e617587):
`r.Revision == GetPartitionMagic && r.Limit == 0 && !r.CountOnly` — the request of a kubebrain-aware client for the
partition borders carries neither a limit nor `count_only`; a page of a paginated list (`limit > 0`; `Limit` is an
int64: a NEGATIVE limit is not 0 either) or a count at an explicit revision that happens to be the magic is an
ordinary read. The conjuncts are regenerated from the source (`Generated.partitionMagicGuard`,
`KB.C16.magic_guard_as_in_source`, `KB.C16.range_dispatch_as_in_source`). -/
def magicGuard (r : RangeReq) : Bool := r.revision == getPartitionMagic && r.limit == 0 && !r.countOnly

/-- the guard BEFORE /repo e617587: the revision alone; only for the refutation -/
def magicGuardOld (r : RangeReq) : Bool := r.revision == getPartitionMagic

/-- `backendShim.GetPartitions`: the partition borders of the engine as key-values (internal keys, no value, mod
revision 0), `Count` = number of partitions + 1, no more — whatever the history is. -/
def partitionListing (c : Cfg) (s : BState) (r : RangeReq) : RangeResp :=
  { hdr := s.committed, kvs := (doPartitions c r.key r.rangeEnd).map (fun k => (k, [], 0)),
    count := (partitions c.splits (encodeBound r.key) (encodeBound r.rangeEnd)).length + 1, more := false }

/-- `RPCServer.Range`: empty `range_end` ⇒ Get; else `magicGuard` (revision 1888, NO limit, NOT `count_only` —
/repo e617587; before: revision 1888 alone, `shimRangeOld`) ⇒ partition listing; else `count_only` ⇒ Count; else List.
Options not named here are not looked at.
`backendShim.Count` (/repo 5f2847c): a count at an explicit revision (`revision > 0`) is the size of the
range read `backend.List` answers at THAT revision (no limit) — so it is refused below the compaction floor
and with the bounds List refuses; only revision 0 goes to `backend.Count` (current revision, bounds unchecked). -/
def shimRange (c : Cfg) (s : BState) (r : RangeReq) : Except EErr RangeResp :=
  if r.rangeEnd.isEmpty then
    let (hdr, kv) := doGet c s r.key (toU64 r.revision)
    .ok { hdr := hdr, kvs := kv.toList, count := if kv.isSome then 1 else 0, more := false }
  else if magicGuard r then
    .ok (partitionListing c s r)
  else if r.countOnly then
    if r.revision > 0 then
      match liftScan (doList c s r.key r.rangeEnd (toU64 r.revision) 0) with
      | .ok res => .ok { hdr := res.hdr, kvs := [], count := res.kvs.length, more := false }
      | .error e => .error e
    else
    match liftScan (doCount c s r.key r.rangeEnd) with
    | .ok (hdr, n) => .ok { hdr := hdr, kvs := [], count := n, more := false }
    | .error e => .error e
  else
    match liftScan (doList c s r.key r.rangeEnd (toU64 r.revision) r.limit.toNat) with
    | .ok res => .ok { hdr := res.hdr, kvs := res.kvs, count := res.kvs.length + (if res.more then 1 else 0),
                       more := res.more }
    | .error e => .error e

/-- `RPCServer.Range` BEFORE /repo e617587 (`magicGuardOld`: the magic revision was tested before limit and
`count_only` were looked at); only for the refutation `KB.C16.old_magic_swallowed_page_two` -/
def shimRangeOld (c : Cfg) (s : BState) (r : RangeReq) : Except EErr RangeResp :=
  if r.rangeEnd.isEmpty then
    let (hdr, kv) := doGet c s r.key (toU64 r.revision)
    .ok { hdr := hdr, kvs := kv.toList, count := if kv.isSome then 1 else 0, more := false }
  else if magicGuardOld r then
    .ok (partitionListing c s r)
  else if r.countOnly then
    if r.revision > 0 then
      match liftScan (doList c s r.key r.rangeEnd (toU64 r.revision) 0) with
      | .ok res => .ok { hdr := res.hdr, kvs := [], count := res.kvs.length, more := false }
      | .error e => .error e
    else
    match liftScan (doCount c s r.key r.rangeEnd) with
    | .ok (hdr, n) => .ok { hdr := hdr, kvs := [], count := n, more := false }
    | .error e => .error e
  else
    match liftScan (doList c s r.key r.rangeEnd (toU64 r.revision) r.limit.toNat) with
    | .ok res => .ok { hdr := res.hdr, kvs := res.kvs, count := res.kvs.length + (if res.more then 1 else 0),
                       more := res.more }
    | .error e => .error e

/-- which branch of `RPCServer.Range` answers a request (the `methodTag` of kv.go) -/
inductive RangeBranch where
  | get | partitions | count | list
  deriving Repr, DecidableEq

/-- the backendshim method a branch calls -/
def RangeBranch.method : RangeBranch → String
  | .get => "Get"
  | .partitions => "GetPartitions"
  | .count => "Count"
  | .list => "List"

/-- the `if` chain of `RPCServer.Range` alone -/
def rangeBranch (r : RangeReq) : RangeBranch :=
  if r.rangeEnd.isEmpty then .get
  else if magicGuard r then .partitions
  else if r.countOnly then .count
  else .list

/-- `RPCServer.Range` WITHOUT the in-band partition protocol (what an etcd-only endpoint would dispatch to):
Get / Count / List by `range_end` and `count_only` alone. `KB.C16.partition_listing_only_for_plain_unlimited`: outside
the partition-listing branch `shimRange` IS this function. -/
def shimRangePlain (c : Cfg) (s : BState) (r : RangeReq) : Except EErr RangeResp :=
  if r.rangeEnd.isEmpty then
    let (hdr, kv) := doGet c s r.key (toU64 r.revision)
    .ok { hdr := hdr, kvs := kv.toList, count := if kv.isSome then 1 else 0, more := false }
  else if r.countOnly then
    if r.revision > 0 then
      match liftScan (doList c s r.key r.rangeEnd (toU64 r.revision) 0) with
      | .ok res => .ok { hdr := res.hdr, kvs := [], count := res.kvs.length, more := false }
      | .error e => .error e
    else
    match liftScan (doCount c s r.key r.rangeEnd) with
    | .ok (hdr, n) => .ok { hdr := hdr, kvs := [], count := n, more := false }
    | .error e => .error e
  else
    match liftScan (doList c s r.key r.rangeEnd (toU64 r.revision) r.limit.toNat) with
    | .ok res => .ok { hdr := res.hdr, kvs := res.kvs, count := res.kvs.length + (if res.more then 1 else 0),
                       more := res.more }
    | .error e => .error e

/-! #### the regenerated dispatch table read as a program

`Generated.rangeDispatch` is the `if` / `else if` chain of `RPCServer.Range` as the extractor finds it in kv.go: rows
(conjuncts of the guard, backend method). `dispatchBy` runs such a table on a request; an atom this model does not
know makes it answer `none` (so a guard with a new conjunct, an `||`, another field … breaks
`KB.C16.range_dispatch_as_in_source` instead of being ignored). -/

def atomHolds (a : String) (r : RangeReq) : Option Bool :=
  if a = "len(RangeEnd)==0" then some r.rangeEnd.isEmpty
  else if a = "Revision==GetPartitionMagic" then some (r.revision == getPartitionMagic)
  else if a = "Limit==0" then some (r.limit == 0)
  else if a = "!CountOnly" then some (!r.countOnly)
  else if a = "CountOnly" then some r.countOnly
  else none

def guardHolds : List String → RangeReq → Option Bool
  | [], _ => some true
  | a :: rest, r =>
    match atomHolds a r, guardHolds rest r with
    | some x, some y => some (x && y)
    | _, _ => none

def dispatchBy : List (List String × String) → RangeReq → Option String
  | [], _ => none
  | (g, m) :: rest, r =>
    match guardHolds g r with
    | some true => some m
    | some false => dispatchBy rest r
    | none => none

/-! ### Watch events (backendShim.Watch) -/

structure WEv where
  isDelete : Bool
  kv : KV
  prev : Option KV
  deriving Repr, DecidableEq

/-- CREATE / PUT ⇒ PUT with the new key-value; DELETE ⇒ DELETE carrying key and deletion revision,
and the previous key-value (value and mod revision before the delete). -/
def shimEvent (e : Event) : WEv :=
  match e.verb with
  | .delete => { isDelete := true, kv := (e.key, [], e.rev), prev := some (e.key, e.val, e.kvRev) }
  | _ => { isDelete := false, kv := (e.key, e.val, e.kvRev), prev := none }

/-- `isPureWatchRequest`: the key starts with "/" -/
def isPureWatch (key : Bytes) : Bool := key.head? == some 47

/-- What `watcher.Start` does with a watch-create request after the unconditional `created` answer
(watch.go): a NEGATIVE start revision is the range-stream shape (`watcher.List`), anything else a watch. -/
inductive WatchCreate where
  /-- cancelled at once (`compact_revision = 1`), the backend is not called -/
  | refused
  /-- `backend.ListByStream(key, range_end, -start_revision)` -/
  | rangeStream (key stop : Bytes) (rev : Nat)
  /-- `backend.Watch(key, start_revision)` (a prefix watch) -/
  | watch (pfx : Bytes) (rev : Nat)
  deriving Repr, DecidableEq

/-- `watcher.Start` → `List` / `Watch`: the range-stream shape needs BOTH borders (/repo 5b8c053: as the
native RangeStream; before, an empty `range_end` was handed to `ListByStream`, and on a multi-region TiKV
engine every partition was clipped to the empty end — a slice-bounds panic in a goroutine nothing recovers);
a watch needs a key starting with "/". -/
def watchCreate (key stop : Bytes) (startRev : Int) : WatchCreate :=
  if startRev < 0 then
    if key.isEmpty || stop.isEmpty then .refused else .rangeStream key stop (toU64 (-startRev))
  else if !isPureWatch key then .refused
  else .watch key (toU64 startRev)

end KB.Etcd
