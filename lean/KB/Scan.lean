/-
  KB.Scan — model of the scanner worker loop (pkg/backend/scanner/scanner.go, `worker.run`),
  its compaction side effects (`compactKey` / `compactCurrent` / `compactIfExpired`), partition border
  adjustment (`adjustPartitionsBorders`) and the receivers (receiver.go).
-/
import KB.Coder
import KB.Engine
namespace KB
open Generated

/-- A decoded record as the worker sees it: raw user key, revision, value and the internal key. -/
structure Rec where
  key : Bytes
  rev : Nat
  val : Bytes
  ik  : Bytes
  deriving Repr, DecidableEq

/-- Decode what an iterator yields. `Decode` errors — since /repo 5ace897 also a key too short to be an
internal key — are skipped by the worker (`continue`). `none` stood for the index-out-of-range of the old
`Decode` on a short key; it is never the answer any more (`KB.decodeRecs_total`). -/
def decodeRecs : List (Bytes × Bytes) → Option (List Rec)
  | [] => some []
  | (ik, v) :: rest =>
    match decode ik with
    | .panic => none
    | .err => decodeRecs rest
    | .ok k r => (decodeRecs rest).map (fun l => { key := k, rev := r, val := v, ik := ik } :: l)

structure WCfg where
  /-- read / compact revision -/
  R : Nat
  compact : Bool := false
  /-- `timeoutRevision`; 0 disables expiry -/
  timeout : Nat := 0
  supportTTL : Bool := true
  /-- `workerConfig.eventsPrefix`: the directory whose keys expire -/
  eventsPfx : Bytes := []
  deriving Repr

inductive Act where
  | emit (k v : Bytes) (r : Nat)
  /-- `compactKey`: unconditional `Del(ik)` for raw key `raw` -/
  | del (ik raw : Bytes)
  /-- `compactCurrent`: compare-and-delete of `(ik, v)` for raw key `raw` -/
  | delcur (ik v raw : Bytes)
  /-- `expireEvent` (since /repo 74218cc): ONE write batch for the expired Event `raw` — the compare-and-delete of
  its revision record `(ik, v)` (the iterator stands on it) and a plain delete of every key in `vers` (the versions
  of `raw` the pass's snapshot shows). Executed by `runExpire` / `runAct`, all or nothing. -/
  | expire (ik v : Bytes) (vers : List Bytes) (raw : Bytes)
  | panic
  deriving Repr, DecidableEq

/-- `(prevUserKey, prevRevision, prevValue)`; Go starts with `nil, 0, nil`. -/
structure Prev where
  key : Bytes := []
  rev : Nat := 0
  val : Bytes := []
  deriving Repr, DecidableEq

def isTomb (v : Bytes) : Bool := v == tombstone
/-- The event-key test of `compactIfExpired`, as the source has it now (regenerated fact
`Generated.eventsMatchScanner`): anchored at the configured events directory, or — the pre-fix
code — any key that merely contains the pattern. -/
def isEventKey (c : WCfg) (k : Bytes) : Bool :=
  if eventsMatchScanner == "HasPrefix:eventsPrefix" then c.eventsPfx.length > 0 && hasPrefix k c.eventsPfx
  else containsSub k eventsPattern

/-- The emission rule shared by the key-change branch and the EOF branch. -/
def emitPrev (p : Prev) : List Act :=
  if p.rev > 0 && !isTomb p.val then [.emit p.key p.val p.rev] else []

/-- What `compactIfExpired` (scanner.go) decides for the record under the iterator, given the event key the worker
remembers in `liveEventRawKey` (`live`) and the one in `goneEventRawKey` (`gone`; Go starts both with `nil`, and
`bytes.Equal(x, nil)` holds exactly for the empty `x`, so `[]` is `nil`). -/
inductive Expiry where
  /-- `return false, nil` without touching anything: the engine has native ttl or `timeoutRevision == 0`,
  not a key under `eventsPrefix`, a version above the timeout revision, or a version of the remembered live
  event key (`revision <= w.timeoutRevision && !bytes.Equal(rawKey, w.liveEventRawKey)` is false) -/
  | no
  /-- revision record whose revision is ABOVE the timeout revision: the newest change of this Event is
  younger than the ttl — `w.liveEventRawKey = rawKey`, then `return false, nil` -/
  | noLive
  /-- revision record at or below the timeout revision: `expireEvent` (one write batch: compare-and-delete of the
  record + deletes of the versions at the snapshot); `w.liveEventRawKey = rawKey` when it returns an error,
  `w.goneEventRawKey = rawKey` when it does not; `return true, err` (the worker `continue`s) -/
  | idx
  /-- a version (any revision) of the event key in `goneEventRawKey`: removed together with its revision record a
  moment ago, the snapshot iterated on still shows it — `return true, nil`, no call -/
  | gone
  /-- version at or below the timeout revision of a key that is neither the gone nor the remembered live one:
  `compactKey`; `return true, …` -/
  | ver
  /-- `value[:8]` of a revision record shorter than 8 bytes -/
  | panic
  deriving Repr, DecidableEq

def expiry (c : WCfg) (live gone : Bytes) (r : Rec) : Expiry :=
  if c.supportTTL || c.timeout == 0 then .no
  else if isEventKey c r.key then
    if r.rev == 0 then
      if r.val.length < 8 then .panic
      else if fromBE (r.val.take 8) ≤ c.timeout then .idx else .noLive
    else if r.key == gone then .gone
    else if r.rev ≤ c.timeout && r.key != live then .ver else .no
  else .no

/-- What `expireEvent` collects for the raw key `k`: the keys an iterator over
`[EncodeObjectKey(k, 1), EncodeObjectKey(k, MaxUint64))` yields at the pass's snapshot (`w.tso`). `snap` is the decoded
snapshot the worker iterates over; over the documented alphabet (no byte of a raw key at or below the split byte) the
internal keys in that range are exactly the records of raw key `k` with a revision `1 ≤ n < 2^64 - 1`
(`KB.encode_cmp`). (Outside the alphabet a record of ANOTHER raw key `k$…` can lie in that byte range: not modelled,
like everything else outside C10's alphabet.) -/
def versionsOf (k : Bytes) (snap : List Rec) : List Bytes :=
  (snap.filter (fun w => w.key == k && w.rev != 0 && decide (w.rev < 2 ^ 64 - 1))).map (·.ik)

/-- `compactIfExpired` as the worker loop sees it: `some acts` = expired (the call it makes — none for a version of
the gone key; the worker `continue`s), `none` = not expired (the ordinary rules of the loop body apply to the
record). -/
def expireStep (c : WCfg) (live gone : Bytes) (snap : List Rec) (r : Rec) : Option (List Act) :=
  match expiry c live gone r with
  | .panic => some [.panic]
  | .idx => some [.expire r.ik r.val (versionsOf r.key snap) r.key]
  | .gone => some []
  | .ver => some [.del r.ik r.key]
  | .noLive => none
  | .no => none

/-- The loop body BELOW the `compactIfExpired` call (scanner.go:476-520), i.e. one iteration for a record that is
not expired: the actions it performs and the new `prev`. -/
def workerStep (c : WCfg) (p : Prev) (r : Rec) : List Act × Prev :=
  if r.rev > c.R then ([], p)
  else
    let a1 : List Act :=
      if r.key != p.key then emitPrev p
      else if c.compact && p.rev > 0 then [.del (encode p.key p.rev) p.key] else []
    let a2 : List Act := if c.compact && isTomb r.val then [.del r.ik r.key] else []
    if c.compact && r.rev == 0 && r.val.length == scannerRevisionValueLengthWithDeletionFlag then
      if fromBE (r.val.take 8) > c.R then (a1 ++ a2, p)   -- `continue` without updating prev
      else (a1 ++ a2 ++ [.delcur r.ik r.val r.key], ⟨r.key, r.rev, r.val⟩)
    else (a1 ++ a2, ⟨r.key, r.rev, r.val⟩)

/-- The loop of a worker whose `compactIfExpired` always answers "not expired" without remembering anything: every
range read (`timeoutRevision` is 0 unless `compact`, scanner.go:259-262), every compaction on an engine with native
ttl, every compaction before the first mark is older than the ttl. There the actions are a function of the records
alone. (`passLoop_expiry_off` ties it to the general loop `passLoop` below.) -/
def workerLoop (c : WCfg) : Prev → List Rec → List Act
  | p, [] => emitPrev p
  | p, r :: rs => (workerStep c p r).1 ++ workerLoop c (workerStep c p r).2 rs

/-- All actions of one worker over the records of its partition, in order (expiry off, see `workerLoop`). -/
def workerActs (c : WCfg) (recs : List Rec) : List Act := workerLoop c {} recs

def emitsOf : List Act → List (Bytes × Bytes × Nat)
  | [] => []
  | .emit k v r :: rest => (k, v, r) :: emitsOf rest
  | _ :: rest => emitsOf rest

def hasPanic (acts : List Act) : Bool := acts.contains .panic

/-- Unlimited read of one partition: the emitted kvs. -/
def scanRecs (R : Nat) (recs : List Rec) : List (Bytes × Bytes × Nat) :=
  emitsOf (workerActs { R := R } recs)

/-! ### compaction side effects -/

inductive DelOutcome where
  | ok          -- the delete is applied
  | fail        -- non-CAS error: not applied, raw key remembered in `lastCompactFailedRawKey`
  | failCas     -- error matching ErrCASFailed: not applied; remembered by `compactKey` (plain delete),
                -- not remembered by `compactCurrent` (compare-and-delete: the key was written again)
  deriving Repr, DecidableEq

/-- one engine call of the compaction pass, as the ghost delete-call log records it -/
inductive DelCall where
  /-- `store.Del(ik)` -/
  | del (ik : Bytes)
  /-- `store.DelCurrent(iter)` with the iterator on `ik` -/
  | delcur (ik : Bytes)
  /-- the `Commit` of the expiry batch: compare-and-delete of the revision record `ik` + `n` version deletes -/
  | expire (ik : Bytes) (n : Nat)
  deriving Repr, DecidableEq

structure CompState where
  store : Store
  lastFailed : Bytes := []
  calls : Nat := 0
  /-- ghost: the engine calls made so far, in order -/
  trace : List DelCall := []
  deriving Repr

/-- Execute the single-record delete actions in order against the live store. `mask i` is the outcome the
engine gives to the `i`-th *call* of the pass (skipped actions make no call). A compare-and-delete whose
value no longer matches is a CAS failure whatever the mask says. A failed plain delete (`compactKey`)
always remembers its raw key; a compare-and-delete (`compactCurrent`, through `updateSkippedRawKey`)
does so only for errors outside the failed-condition class. (The expiry batch `Act.expire` is executed by
`runExpire`; `runAct` is both.) -/
def runDelete (mask : Nat → DelOutcome) (st : CompState) : Act → CompState
  | .del ik raw =>
    if st.lastFailed.length > 0 && st.lastFailed == raw then st
    else match mask st.calls with
      | .ok => { st with store := st.store.erase ik, calls := st.calls + 1, trace := st.trace ++ [.del ik] }
      | .fail => { st with lastFailed := raw, calls := st.calls + 1, trace := st.trace ++ [.del ik] }
      -- `compactKey` remembers the raw key on ANY error, the failed-condition class included
      | .failCas => { st with lastFailed := raw, calls := st.calls + 1, trace := st.trace ++ [.del ik] }
  | .delcur ik v raw =>
    if st.lastFailed.length > 0 && st.lastFailed == raw then st
    else match mask st.calls with
      | .ok => if st.store.get ik = some v then { st with store := st.store.erase ik, calls := st.calls + 1, trace := st.trace ++ [.delcur ik] }
               else { st with calls := st.calls + 1, trace := st.trace ++ [.delcur ik] }
      | .fail => { st with lastFailed := raw, calls := st.calls + 1, trace := st.trace ++ [.delcur ik] }
      | .failCas => { st with calls := st.calls + 1, trace := st.trace ++ [.delcur ik] }
  | _ => st

def runDeletes (mask : Nat → DelOutcome) (st : CompState) (acts : List Act) : CompState :=
  acts.foldl (runDelete mask) st

/-! ### the expiry batch (`worker.expireEvent`, /repo 74218cc) -/

/-- the write batch `expireEvent` builds: `batch.DelCurrent(iter)` on the revision record, then `batch.Del(key)` for
every version collected at the snapshot -/
def expireOps (ik v : Bytes) (vers : List Bytes) : List BOp := .delcur ik v :: vers.map .del

/-- `expireEvent` for the raw key `raw`: nothing at all when `raw` is the skipped key (`isSkippedRawKey`); otherwise
ONE engine call, `batch.Commit` (`KB.commit`: all or nothing) — `mask` says what the engine answers to it: `.fail` = a
plain error, nothing applied, the raw key is remembered in `lastCompactFailedRawKey` (`updateSkippedRawKey`);
`.failCas` = an error of the failed-condition class (a write conflict), nothing applied, not remembered; `.ok` = the
batch is evaluated: when the revision record is no longer `(ik, v)` the compare-and-delete's condition fails — a
failed-condition error, nothing applied — and otherwise the record and all of `vers` go in one step. -/
def runExpire (mask : Nat → DelOutcome) (st : CompState) (ik v : Bytes) (vers : List Bytes) (raw : Bytes) : CompState :=
  if st.lastFailed.length > 0 && st.lastFailed == raw then st
  else match mask st.calls with
    | .ok =>
      match commit {} st.store (expireOps ik v vers) with
      | .ok s' => { st with store := s', calls := st.calls + 1, trace := st.trace ++ [.expire ik vers.length] }
      | .error _ => { st with calls := st.calls + 1, trace := st.trace ++ [.expire ik vers.length] }
    | .fail => { st with lastFailed := raw, calls := st.calls + 1, trace := st.trace ++ [.expire ik vers.length] }
    | .failCas => { st with calls := st.calls + 1, trace := st.trace ++ [.expire ik vers.length] }

/-- `expireEvent` returns an error: it made the call (the key is not the skipped one) and the call did not remove
the Event — the engine says so (`mask`), or the revision record under the iterator changed. -/
def expireErr (mask : Nat → DelOutcome) (st : CompState) (ik v raw : Bytes) : Bool :=
  !(st.lastFailed.length > 0 && st.lastFailed == raw) &&
    (mask st.calls != .ok || st.store.get ik != some v)

/-- execution of any action of the pass: the expiry batch, or a single-record delete -/
def runAct (mask : Nat → DelOutcome) (st : CompState) : Act → CompState
  | .expire ik v vers raw => runExpire mask st ik v vers raw
  | a => runDelete mask st a

def runActs (mask : Nat → DelOutcome) (st : CompState) (acts : List Act) : CompState :=
  acts.foldl (runAct mask) st

/-! ### the worker loop with expiry (engines without native ttl: the ttl pass rides on the compaction)

With a timeout revision the actions are no longer a function of the records alone: whether the versions of an
expired Event are skipped (the Event went as a whole) or left to the ordinary rules depends on the OUTCOME of the
expiry batch (`goneEventRawKey` / `liveEventRawKey`), so the loop is modelled as it runs — record by record, every
call executed against the live store before the next record is looked at. -/

/-- The worker loop (`worker.run`, scanner.go) with its side effects: `snap` = the decoded records of the snapshot
the worker iterates over (the versions `expireEvent` collects come from it), `p` = `prevUserKey/Revision/Value`,
`live` = `w.liveEventRawKey`, `gone` = `w.goneEventRawKey`, `st` = live store, `w.lastCompactFailedRawKey`, number of
calls made. Answers the actions performed, in order, and the state after the last record. -/
def passLoop (c : WCfg) (mask : Nat → DelOutcome) (snap : List Rec) :
    Prev → Bytes → Bytes → CompState → List Rec → List Act × CompState
  | p, _, _, st, [] => (emitPrev p, st)
  | p, live, gone, st, r :: rs =>
    match expiry c live gone r with
    | .panic =>
      let res := passLoop c mask snap p live gone st rs
      (.panic :: res.1, res.2)
    | .idx =>
      -- `err = w.expireEvent(iter, rawKey, rev); if err != nil { w.liveEventRawKey = rawKey } else
      -- { w.goneEventRawKey = rawKey }; return true, err`
      let a := Act.expire r.ik r.val (versionsOf r.key snap) r.key
      let err := expireErr mask st r.ik r.val r.key
      let res := passLoop c mask snap p (if err then r.key else live) (if err then gone else r.key)
        (runAct mask st a) rs
      (a :: res.1, res.2)
    | .gone =>
      -- `return true, nil`: the worker `continue`s, no call, `prev` unchanged
      passLoop c mask snap p live gone st rs
    | .ver =>
      -- `return true, w.compactKey(iter.Key(), rawKey, revision)`
      let res := passLoop c mask snap p live gone (runDelete mask st (.del r.ik r.key)) rs
      (.del r.ik r.key :: res.1, res.2)
    | .noLive =>
      -- `w.liveEventRawKey = rawKey`, then the ordinary rules
      let s := workerStep c p r
      let res := passLoop c mask snap s.2 r.key gone (runDeletes mask st s.1) rs
      (s.1 ++ res.1, res.2)
    | .no =>
      let s := workerStep c p r
      let res := passLoop c mask snap s.2 live gone (runDeletes mask st s.1) rs
      (s.1 ++ res.1, res.2)

/-! ### the ttl pass as it was between 8442634 and "fix: the ttl pass removes an expired Event in one write batch"
(74218cc), kept for the refutation `KB.C07Atomic.old_pass_interrupted_leaves_orphan_versions`: the revision record of
an expired Event was compare-and-deleted on its own (`compactCurrent`) and each version plain-deleted one loop
iteration later each (`compactKey`) — separate engine calls, any of which can fail or never happen. -/

inductive ExpiryOld where
  | no | noLive | idx | ver | panic
  deriving Repr, DecidableEq

def expiryOld (c : WCfg) (live : Bytes) (r : Rec) : ExpiryOld :=
  if c.supportTTL || c.timeout == 0 then .no
  else if isEventKey c r.key then
    if r.rev == 0 then
      if r.val.length < 8 then .panic
      else if fromBE (r.val.take 8) ≤ c.timeout then .idx else .noLive
    else if r.rev ≤ c.timeout && r.key != live then .ver else .no
  else .no

/-- `compactCurrent` returned an error (the pre-74218cc pass remembered the key as live then) -/
def delcurErr (mask : Nat → DelOutcome) (st : CompState) (ik v raw : Bytes) : Bool :=
  !(st.lastFailed.length > 0 && st.lastFailed == raw) &&
    (mask st.calls != .ok || st.store.get ik != some v)

def passLoopOld (c : WCfg) (mask : Nat → DelOutcome) : Prev → Bytes → CompState → List Rec → List Act × CompState
  | p, _, st, [] => (emitPrev p, st)
  | p, live, st, r :: rs =>
    match expiryOld c live r with
    | .panic =>
      let res := passLoopOld c mask p live st rs
      (.panic :: res.1, res.2)
    | .idx =>
      let live' := if delcurErr mask st r.ik r.val r.key then r.key else live
      let res := passLoopOld c mask p live' (runDelete mask st (.delcur r.ik r.val r.key)) rs
      (.delcur r.ik r.val r.key :: res.1, res.2)
    | .ver =>
      let res := passLoopOld c mask p live (runDelete mask st (.del r.ik r.key)) rs
      (.del r.ik r.key :: res.1, res.2)
    | .noLive =>
      let s := workerStep c p r
      let res := passLoopOld c mask s.2 r.key (runDeletes mask st s.1) rs
      (s.1 ++ res.1, res.2)
    | .no =>
      let s := workerStep c p r
      let res := passLoopOld c mask s.2 live (runDeletes mask st s.1) rs
      (s.1 ++ res.1, res.2)

def passRunOld (c : WCfg) (mask : Nat → DelOutcome) (st : CompState) (recs : List Rec) : List Act × CompState :=
  passLoopOld c mask {} [] { st with lastFailed := [] } recs

/-- One worker over the records of its partition (`newWorker`: nothing remembered yet); the records are its
snapshot. Which loop the source has is a regenerated fact (`Generated.expiryCallShape`, kbextract: "batch" =
`compactIfExpired` calls `expireEvent`, which makes one `BeginBatchWrite … DelCurrent … Del* … Commit` and no single
delete call): if the code goes back to the per-record calls the model follows it — and the theorems of
`KB.Props.C07Expire` / `C07Atomic`, which are about the batch, stop checking. -/
def passRun (c : WCfg) (mask : Nat → DelOutcome) (st : CompState) (recs : List Rec) : List Act × CompState :=
  if expiryCallShape == "batch" then passLoop c mask recs {} [] [] { st with lastFailed := [] } recs
  else passLoopOld c mask {} [] { st with lastFailed := [] } recs

/-! ### the ttl pass as it was before "fix: the ttl pass spares the versions of an Event whose revision record is
not expired" (8442634; kept for the refutation `KB.C07Expire.old_ttl_pass_removes_live_version`): every record of an event key
at or below the timeout revision expired on its own, whatever the key's revision record said and whatever became of
the compare-and-delete of that record; the actions were a function of the records. -/

def expireStepOld (c : WCfg) (r : Rec) : Option (List Act) :=
  if c.supportTTL || c.timeout == 0 then none
  else if isEventKey c r.key then
    if r.rev == 0 then
      if r.val.length < 8 then some [.panic]
      else if fromBE (r.val.take 8) ≤ c.timeout then some [.delcur r.ik r.val r.key] else none
    else if r.rev ≤ c.timeout then some [.del r.ik r.key] else none
  else none

def workerStepOld (c : WCfg) (p : Prev) (r : Rec) : List Act × Prev :=
  match expireStepOld c r with
  | some acts => (acts, p)
  | none => workerStep c p r

def workerLoopOld (c : WCfg) : Prev → List Rec → List Act
  | p, [] => emitPrev p
  | p, r :: rs => (workerStepOld c p r).1 ++ workerLoopOld c (workerStepOld c p r).2 rs

def workerActsOld (c : WCfg) (recs : List Rec) : List Act := workerLoopOld c {} recs

/-! ### partitions -/

/-- `adjustPartitionsBorders` on partitions already sorted by start: start := previous end;
end := index key of the same raw key when the end decodes with a non-zero revision
(all but the last partition). A border that does not decode — since /repo 5ace897 also one too short to be an
internal key, e.g. a client-supplied range end clipped into a region — is left alone. `none` stood for the
index-out-of-range of the old `Decode` on a short border; it is never the answer any more
(`KB.adjustBorders_total`). -/
def adjustBorders : Option Bytes → List (Bytes × Bytes) → Option (List (Bytes × Bytes))
  | _, [] => some []
  | prevEnd, [(s, e)] => some [(prevEnd.getD s, e)]
  | prevEnd, (s, e) :: rest =>
    match decode e with
    | .panic => none
    | .ok k r =>
      let e' := if r != 0 then encode k 0 else e
      (adjustBorders (some e') rest).map (fun l => (prevEnd.getD s, e') :: l)
    | .err => (adjustBorders (some e) rest).map (fun l => (prevEnd.getD s, e) :: l)

/-- insertion sort by start (`sort.Slice` with `bytes.Compare(Start) < 0`; order of equal starts
is unspecified in Go — partitions of one scan have distinct starts). -/
def insertPart (p : Bytes × Bytes) : List (Bytes × Bytes) → List (Bytes × Bytes)
  | [] => [p]
  | q :: rest => if blt p.1 q.1 then p :: q :: rest else q :: insertPart p rest

def sortParts (ps : List (Bytes × Bytes)) : List (Bytes × Bytes) := ps.foldr insertPart []

end KB
