import KB.Str
/-
  KB.Metrics — model of pkg/metrics/prometheus/prometheus.go (the production metrics client) as far as
  PANICS are concerned, and the static consistency predicate on the table of emission call sites.

  The Go code (prometheus.go:76-94, 164-236):
    EmitX(name, value, labels...) :=
      vec := xVecMap[name]                       -- three maps (counter / gauge / histogram), keyed by the RAW name
      if vec == nil:
        vec = prometheus.NewXVec(Opts{Name: formatName(name)}, globalLabelNames ++ names(labels))
        registerer.MustRegister(vec)             -- PANICS on: invalid metric / label name, duplicate label
                                                 -- name, "le" label on a histogram, or a descriptor with the
                                                 -- same fully-qualified (formatted) name already registered
                                                 -- (any kind, any labels — a second registration of a name
                                                 -- is always an error in client_golang v1.12.1)
        xVecMap[name] = vec
      vec.With(labelsToMap(labels)).Add/Set/Observe    -- PANICS unless the label-name SET of this call equals
                                                       -- the label names the vector was created with
  so: the first emission of a name fixes kind and label set; every later emission of the same formatted
  name must come with the same raw name, the same kind and the same label-name set.
  `formatName` replaces '.' by '_'.

  In addition `With` panics when a label VALUE is not valid UTF-8 (labels.go validateValuesInLabels).
  `emit` below is that state machine (`none` = panic); `Consistent` / `WellNamed` are the static
  conditions on a table of sites under which no sequence of emissions drawn from the table panics
  (`consistent_no_panic`, proved in KB.Props.C20Metrics by induction on the sequence).
  NOT modelled: concurrency inside the client (its maps are guarded by RW mutexes with a double check;
  C19's concern), the other collectors of the default registry
  (go_*, process_*, grpc_server_*, promhttp_*: `WellNamed` requires that no emitted name carries
  one of these prefixes).
-/
namespace KB.Metrics
open KB

inductive Kind | counter | gauge | histogram
  deriving DecidableEq, Repr

/-- One metric emission call site (one resolved variant of it). -/
structure Site where
  file : String
  line : Nat
  kind : Kind
  /-- the raw name passed to EmitCounter/EmitGauge/EmitHistogram, after constant folding -/
  name : Name
  /-- label names of the tags passed, sorted -/
  labelNames : List Name
  /-- labels whose VALUE is unsanitised run-time data (not a constant, not a formatted bool / integer, not
  wrapped in strings.ToValidUTF8) -/
  dynamicLabels : List Name
  /-- labels whose run-time value is passed through strings.ToValidUTF8 (valid UTF-8 by construction) -/
  sanitisedLabels : List Name
  /-- the call passes a `tags...` slice (its contents were resolved statically) -/
  spreads : Bool
  /-- "direct", or the callers through which name / labels were resolved -/
  via : String
  /-- "label=<Go source expression>" for every dynamic label -/
  dynamicValues : String
  deriving Repr

/-- prometheus.go `formatName`: strings.Replace(name, ".", "_", -1)   ('.' = 46, '_' = 95) -/
def formatName (s : Name) : Name := s.map (fun c => if c = 46 then 95 else c)

def isAlpha (c : Nat) : Bool := (97 ≤ c && c ≤ 122) || (65 ≤ c && c ≤ 90)
def isDigit (c : Nat) : Bool := 48 ≤ c && c ≤ 57

/-- prometheus/common model.IsValidMetricName: `[a-zA-Z_:][a-zA-Z0-9_:]*`   ('_' = 95, ':' = 58) -/
def validPromNameB : Name → Bool
  | [] => false
  | c :: cs => (isAlpha c || c == 95 || c == 58) &&
      cs.all (fun d => isAlpha d || isDigit d || d == 95 || d == 58)

def ValidPromName (s : Name) : Prop := validPromNameB s = true

/-- client_golang checkLabelName: `[a-zA-Z_][a-zA-Z0-9_]*` and not starting with "__" -/
def validLabelB : Name → Bool
  | [] => false
  | c :: cs => (isAlpha c || c == 95) && cs.all (fun d => isAlpha d || isDigit d || d == 95) &&
      !(c == 95 && cs.head? == some 95)

def ValidLabel (s : Name) : Prop := validLabelB s = true

/-- names owned by the other collectors registered in the default registry -/
def reservedPrefixes : List Name := [b!"go_", b!"process_", b!"grpc_", b!"promhttp_"]

def hasReservedPrefix (s : Name) : Bool := reservedPrefixes.any (fun p => p.isPrefixOf s)

/-- the label names a vector for site `s` is created with / the label-name set of a call at `s` -/
def fullLabels (global : List Name) (s : Site) : List Name := global ++ s.labelNames

/-- everything `NewXVec` + `MustRegister` check about a single site's descriptor -/
def wellNamedB (global : List Name) (s : Site) : Bool :=
  validPromNameB (formatName s.name) && !hasReservedPrefix (formatName s.name) &&
  (fullLabels global s).all validLabelB && decide (fullLabels global s).Nodup &&
  !(s.kind == .histogram && (fullLabels global s).contains b!"le")

/-- sites `a` and `b` agree on everything the registry keys on -/
def agreeB (a b : Site) : Bool := a.name == b.name && a.kind == b.kind && a.labelNames == b.labelNames

/-- boolean consistency check: every site agrees with the FIRST site of the table that has the same
formatted name (linear scan per site; equivalent to pairwise agreement, see `consistent_of_check`) -/
def consistentB (sites : List Site) : Bool :=
  sites.all (fun s =>
    match sites.find? (fun f => formatName f.name == formatName s.name) with
    | some f => agreeB f s
    | none => false)

/-- The consistency predicate: two sites with the same formatted name have the same raw name, the same
kind and the same label-name list. -/
def Consistent (sites : List Site) : Prop :=
  ∀ a ∈ sites, ∀ b ∈ sites, formatName a.name = formatName b.name →
    a.name = b.name ∧ a.kind = b.kind ∧ a.labelNames = b.labelNames

def WellNamed (global : List Name) (sites : List Site) : Prop :=
  ∀ s ∈ sites, wellNamedB global s = true

/-- the pairs of sites violating consistency (for witnesses) -/
def conflicts (sites : List Site) : List (Site × Site) :=
  sites.flatMap (fun a => (sites.filter (fun b =>
    formatName a.name == formatName b.name && !agreeB a b)).map (fun b => (a, b)))

/-! ### the registry state machine -/

/-- a vector held in one of the wrapper's three maps -/
structure Vec where
  kind : Kind
  name : Name              -- raw name (the map key)
  labels : List Name       -- label names the vector was created with
  deriving Repr

structure Registry where
  vecs : List Vec
  /-- fully-qualified names registered in the Prometheus registry -/
  fq : List Name
  deriving Repr

def Registry.empty : Registry := ⟨[], []⟩

def sameSet (a b : List Name) : Bool := a.all (b.contains ·) && b.all (a.contains ·)

/-- one emission of site `s` whose label values are all valid UTF-8; `none` = the client panics -/
def emitSite (global : List Name) (r : Registry) (s : Site) : Option Registry :=
  match r.vecs.find? (fun v => v.kind == s.kind && v.name == s.name) with
  | some v =>
      -- vec.With(labelsToMap(labels)): cardinality and membership check of the label map
      if sameSet v.labels (fullLabels global s) then some r else none
  | none =>
      -- NewXVec + MustRegister
      if wellNamedB global s && !(r.fq.contains (formatName s.name)) then
        some { vecs := ⟨s.kind, s.name, fullLabels global s⟩ :: r.vecs, fq := formatName s.name :: r.fq }
      else none

/-- One dynamic emission: the executed site and whether all label values passed are valid UTF-8
(`vec.With` → validateValuesInLabels panics on a value that is not). -/
structure Emission where
  site : Site
  valuesValid : Bool
  deriving Repr

/-- one emission; `none` = the client panics. The value check happens in `With`, i.e. after a possible
registration — either way the call panics. -/
def emit (global : List Name) (r : Registry) (e : Emission) : Option Registry :=
  if e.valuesValid then emitSite global r e.site else none

/-- a sequence of emissions from a given registry state -/
def run (global : List Name) : Registry → List Emission → Option Registry
  | r, [] => some r
  | r, e :: rest => match emit global r e with
      | some r' => run global r' rest
      | none => none

/-- transcript of a sequence of emissions, for the differential run against the real client
(`kbharness -suite metrics`): "ok" per emission up to the first panic, then "PANIC" and stop -/
def replay (global : List Name) : Registry → List Emission → List String
  | _, [] => []
  | r, e :: rest => match emit global r e with
      | some r' => "ok" :: replay global r' rest
      | none => ["PANIC"]

/-- an emission given by kind / name / labels only (differential runs) -/
def mkEmission (k : Kind) (name : Name) (labels : List Name) (valuesValid : Bool) : Emission :=
  ⟨⟨"", 0, k, name, labels, [], [], false, "", ""⟩, valuesValid⟩

/-- An emission the program can perform: it executes a site of the table, and where every label value
of the site is static or sanitised (a UTF-8 constant, a formatted bool / integer, or wrapped in
strings.ToValidUTF8 — classified by the extractor) the
values are valid. Nothing is assumed about run-time label data. -/
def Admissible (sites : List Site) (e : Emission) : Prop :=
  e.site ∈ sites ∧ (e.site.dynamicLabels = [] → e.valuesValid = true)

end KB.Metrics
