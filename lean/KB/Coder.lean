/-
  KB.Coder — model of pkg/backend/coder (normal.go, rev.go) and backend.PrefixEnd (util.go).
  Constants come from the regenerated `KB.Generated.Consts`.
-/
import KB.Bytes
import KB.Generated.Consts
namespace KB
open Generated

/-- `EncodeObjectKey(userKey, revision)`: magic ++ key ++ split ++ be64 rev. -/
def encode (k : Bytes) (r : Nat) : Bytes := magic ++ (k ++ splitByte :: be64 r)

/-- `backend.encodeRangeBound` (pkg/backend/range.go, /repo 146f0bb): how `List`, `Count` and `GetPartitions`
translate a raw range bound into the internal key space. A bound of the form `K ++ [0]` — what etcd clients
send for "just after K": the continue key of a paginated list, the end of a single-key range — is encoded
just after the last possible version of `K` (`EncodeObjectKey(K, MaxUint64) ++ [0]`), because the plain
encoding `encode (K ++ [0]) 0` sorts BEFORE the versions of `K` (byte 0 is smaller than the split byte:
`KB.C10.old_bound_encoding_defect`). Every other bound is the index key of the raw bound, as before. -/
def encodeBound (raw : Bytes) : Bytes :=
  if raw.getLast? = some 0 then encode raw.dropLast (2 ^ 64 - 1) ++ [0] else encode raw 0

/-- Result of `Decode`; `panic` marks the inputs on which the Go code indexes out of range. -/
inductive Dec where
  | ok (k : Bytes) (r : Nat)
  | err
  | panic
  deriving Repr, DecidableEq

/-- `Decode(internalKey)` with the Go slice-bound behaviour made explicit. -/
def decode (ik : Bytes) : Dec :=
  if ik.length < magic.length then .panic
  else if ik.take magic.length != magic then .err
  else if ik.length < 9 then .panic
  else if ik.getD (ik.length - 9) 0 != splitByte then .err
  else if ik.length - 9 < magic.length then .panic
  else .ok ((ik.drop magic.length).take (ik.length - 9 - magic.length)) (fromBE (ik.drop (ik.length - 8)))

/-- `coder.ParseRevision`: 8 bytes = live, 9 bytes = deleted, anything else = error. -/
def parseRevision (b : Bytes) : Option (Nat × Bool) :=
  if b.length = revisionValueLength then some (fromBE (b.take 8), false)
  else if b.length = revisionValueLengthWithDeletionFlag then some (fromBE (b.take 8), true)
  else none

def prefixEndAux : Bytes → Option Bytes
  | [] => none
  | b :: bs =>
    match prefixEndAux bs with
    | some e => some (b :: e)
    | none => if b < 255 then some [b + 1] else none

/-- `backend.PrefixEnd`. -/
def prefixEnd (p : Bytes) : Bytes := (prefixEndAux p).getD noPrefixEnd

end KB
