/-
  KB.Coder — model of pkg/backend/coder (normal.go, rev.go) and backend.PrefixEnd (util.go).
  Constants come from the regenerated `KB.Generated.Consts`.
-/
import KB.Bytes
import KB.Generated.Consts
namespace KB
open Generated

/-- `EncodeObjectKey(userKey, revision)`: magic ++ key ++ split ++ be64 rev. -/
def encode (k : Bytes) (r : Nat) : Bytes := magic ++ (k ++ splitByte :: be64 r)

/-- The loop of `backend.encodeRangeBound` (pkg/backend/range.go, /repo 23c8b93): `some P` = the raw bound has a
byte at or below the key/revision separator (`keyRevisionSeparator`, regenerated as `rangeBoundSeparator`), `P`
being what stands in front of the FIRST such byte (`raw[:i]`); `none` = no such byte. -/
def cutLow : Bytes → Option Bytes
  | [] => none
  | c :: rest => if c ≤ rangeBoundSeparator then some [] else (cutLow rest).map (c :: ·)

/-- `backend.encodeRangeBound` (pkg/backend/range.go, /repo 23c8b93): how `List`, `Count` and `GetPartitions`
translate a raw range bound into the internal key space. Keys never contain a byte at or below the byte that
separates key and revision; bounds may: `K ++ [0]` is what etcd clients send for "just after K" (the continue
key of a paginated list, the end of a single-key range), and ANY bound `P ++ c :: rest` with `c` at or below the
separator lies, in raw byte order, after `P` and before every longer key starting with `P`. Such a bound is
encoded just after the last possible version of `P` (`EncodeObjectKey(P, MaxUint64) ++ [0]`), because the plain
encoding `encode (P ++ c :: rest) 0` sorts BEFORE (or among) the versions of `P`
(`KB.C10.old_bound_encoding_defect`, `KB.C10.bound_146f0bb_defect`). A bound without such a byte is the index
key of the raw bound, as before. -/
def encodeBound (raw : Bytes) : Bytes :=
  match cutLow raw with
  | some P => encode P (2 ^ 64 - 1) ++ [0]
  | none => encode raw 0

/-- `backend.encodeRangeBound` as it was from /repo 146f0bb up to 23c8b93: only ONE trailing zero byte was
recognised. Kept for the refutations (`KB.C10.bound_146f0bb_defect`). -/
def encodeBoundOld (raw : Bytes) : Bytes :=
  if raw.getLast? = some 0 then encode raw.dropLast (2 ^ 64 - 1) ++ [0] else encode raw 0

/-- ... and before 146f0bb: the index key of the raw bound, whatever its bytes
(`KB.C10.old_bound_encoding_defect`). -/
def encodeBoundOldest (raw : Bytes) : Bytes := encode raw 0

/-- Result of `Decode`. `panic` marked the inputs on which the Go code indexed out of range (keys shorter than
magic + split byte + revision); since /repo 5ace897 `Decode` reports those as errors and the constructor is
unreachable (`KB.decode_never_panics`) — it stays in the type because the consumers match on it. -/
inductive Dec where
  | ok (k : Bytes) (r : Nat)
  | err
  | panic
  deriving Repr, DecidableEq

/-- the shortest internal key: magic, split byte, 8 revision bytes (`len(magicBytes)+1+8`) -/
def minKeyLength : Nat := magic.length + 1 + 8

/-- `Decode(internalKey)` (pkg/backend/coder/normal.go, /repo 5ace897): a key too short to hold magic, split
byte and revision is an error, like a wrong magic number or split byte. -/
def decode (ik : Bytes) : Dec :=
  if ik.length < minKeyLength then .err
  else if ik.take magic.length != magic then .err
  else if ik.getD (ik.length - 9) 0 != splitByte then .err
  else .ok ((ik.drop magic.length).take (ik.length - 9 - magic.length)) (fromBE (ik.drop (ik.length - 8)))

/-- `Decode` before /repo 5ace897, with the Go slice-bound behaviour made explicit: `panic` on the inputs on
which the code indexed out of range. Kept for the refutation (`KB.C10.old_decode_panics`). -/
def decodeOld (ik : Bytes) : Dec :=
  if ik.length < magic.length then .panic
  else if ik.take magic.length != magic then .err
  else if ik.length < 9 then .panic
  else if ik.getD (ik.length - 9) 0 != splitByte then .err
  else if ik.length - 9 < magic.length then .panic
  else .ok ((ik.drop magic.length).take (ik.length - 9 - magic.length)) (fromBE (ik.drop (ik.length - 8)))

/-- `coder.ParseRevision`: 8 bytes = live, 9 bytes = deleted, anything else = error. -/
def parseRevision (b : Bytes) : Option (Nat × Bool) :=
  if b.length = revisionValueLength then some (fromBE (b.take 8), false)
  else if b.length = revisionValueLengthWithDeletionFlag then some (fromBE (b.take 8), true)
  else none

def prefixEndAux : Bytes → Option Bytes
  | [] => none
  | b :: bs =>
    match prefixEndAux bs with
    | some e => some (b :: e)
    | none => if b < 255 then some [b + 1] else none

/-- `backend.PrefixEnd`. -/
def prefixEnd (p : Bytes) : Bytes := (prefixEndAux p).getD noPrefixEnd

end KB
