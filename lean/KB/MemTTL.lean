/-
  KB.MemTTL — the TTL mechanism of the in-memory engine (pkg/storage/memkv).

  Go code modelled (as it is after commit 8c76399):
    batch.go  Commit        for k, v := range b.cache { … }            → `applyWrite`, `commitWrites`
    batch.go  asyncRemove   expireAt[k] = now+ttl; time.AfterFunc(ttl, closure)
    batch.go  the closure   if d, ok := expireAt[k]; ok && d.Equal(deadline) { skl.Remove(k); delete(expireAt, k) }
                                                                        → `fire`
    skiplist.go store.expireAt  "deadline of the keys whose CURRENT value was written with a ttl"
  and, for the refutation, the mechanism BEFORE that commit: the closure was `_ = b.store.del(key)`
  (an unconditional delete by key name)                                 → `fireOld`.

  Time is an abstract `Nat` clock (`now`); the engine suite of the driver maps one unit to one millisecond.
  A timer armed with deadline `d` is ENABLED from `now ≥ d` on (time.AfterFunc never runs early) and fires at
  some later step chosen by the environment (`Op.fire i`): every theorem holds for all firing orders and delays.

  The conditions of a batch (PutIfNotExist / CAS / DelCurrent) are KB.Engine's business (`KB.commit`); a batch
  whose conditions fail returns before the loop and has no effect at all, so only the batches that pass reach
  this model, as the list of their (key, write) pairs in program order.
-/
import KB.Engine
namespace KB.MemTTL
open KB

/-- what `b.cache[k]` holds for a key at Commit: the LAST operation of the batch on that key -/
inductive Write where
  | put (val : Bytes) (ttl : Nat)     -- Put / PutIfNotExist / CAS: `cacheVal{val, ttl}`; ttl 0 = no ttl
  | del                               -- Del / DelCurrent: `cacheVal{isDeleted: true}`
  deriving Repr, DecidableEq

/-! ### association lists keyed by byte strings (Go maps `expireAt`, `b.cache`) -/

def alookup {α : Type} : List (Bytes × α) → Bytes → Option α
  | [], _ => none
  | (k, v) :: rest, key => if k = key then some v else alookup rest key

/-- `delete(m, key)` -/
def aerase {α : Type} (l : List (Bytes × α)) (key : Bytes) : List (Bytes × α) :=
  l.filter (fun kv => !(kv.1 == key))

/-- `m[key] = v` -/
def aset {α : Type} (l : List (Bytes × α)) (key : Bytes) (v : α) : List (Bytes × α) :=
  (key, v) :: aerase l key

structure State where
  /-- the skip list -/
  store : Store := []
  /-- `store.expireAt`: key ↦ deadline of the key's CURRENT value (absent: current value has no ttl / no value) -/
  expireAt : List (Bytes × Nat) := []
  /-- the armed `time.AfterFunc` timers: (key, deadline captured by the closure) -/
  timers : List (Bytes × Nat) := []
  now : Nat := 0
  deriving Repr, DecidableEq

/-- One iteration of Commit's loop `for k, v := range b.cache`. -/
def applyWrite (s : State) (kw : Bytes × Write) : State :=
  match kw.2 with
  | .del =>
    -- b.store.skl.Remove(keyBytes); delete(b.store.expireAt, k)
    { s with store := s.store.erase kw.1, expireAt := aerase s.expireAt kw.1 }
  | .put v ttl =>
    if ttl = 0 then
      -- delete(b.store.expireAt, k); b.store.skl.Set(keyBytes, v.val)
      { s with store := s.store.put kw.1 v, expireAt := aerase s.expireAt kw.1 }
    else
      -- asyncRemove: s.expireAt[key] = deadline; time.AfterFunc(…); then b.store.skl.Set(keyBytes, v.val)
      { s with store := s.store.put kw.1 v, expireAt := aset s.expireAt kw.1 (s.now + ttl),
               timers := s.timers ++ [(kw.1, s.now + ttl)] }

/-- `b.cache` when Commit runs: one entry per key, the last operation on it (a Go map: later operations of the
batch overwrite earlier ones on the same key; the iteration order over distinct keys is immaterial). -/
def mkCache : List (Bytes × Write) → List (Bytes × Write)
  | [] => []
  | (k, w) :: rest => if rest.any (fun kw => kw.1 == k) then mkCache rest else (k, w) :: mkCache rest

/-- the last write of a batch on `k` (`none`: the batch does not touch `k`) -/
def lastWrite : List (Bytes × Write) → Bytes → Option Write
  | [], _ => none
  | (k', w) :: rest, k =>
    match lastWrite rest k with
    | some w' => some w'
    | none => if k' = k then some w else none

/-- `Commit` of a batch whose conditions hold (`b.err == nil`). -/
def commitWrites (s : State) (ws : List (Bytes × Write)) : State := (mkCache ws).foldl applyWrite s

/-- The closure handed to `time.AfterFunc` for the `i`-th armed timer, as it is NOW: enabled only once its
deadline has come; removes the key only if the deadline the store remembers for the key's current value is
still the timer's own; the timer is gone afterwards either way. -/
def fire (s : State) (i : Nat) : State :=
  match s.timers[i]? with
  | none => s
  | some (k, d) =>
    if s.now < d then s            -- not enabled yet
    else if alookup s.expireAt k = some d then
      { s with store := s.store.erase k, expireAt := aerase s.expireAt k, timers := s.timers.eraseIdx i }
    else { s with timers := s.timers.eraseIdx i }

/-- The closure BEFORE commit 8c76399: `_ = b.store.del(key)` — an unconditional delete of whatever the key
holds when the timer of some earlier write fires. -/
def fireOld (s : State) (i : Nat) : State :=
  match s.timers[i]? with
  | none => s
  | some (k, d) =>
    if s.now < d then s
    else { s with store := s.store.erase k, expireAt := aerase s.expireAt k, timers := s.timers.eraseIdx i }

inductive Op where
  | commit (ws : List (Bytes × Write))
  | advance (dt : Nat)
  | fire (i : Nat)
  deriving Repr, DecidableEq

def step (s : State) : Op → State
  | .commit ws => commitWrites s ws
  | .advance dt => { s with now := s.now + dt }
  | .fire i => fire s i

/-- the same history under the pre-fix mechanism -/
def stepOld (s : State) : Op → State
  | .commit ws => commitWrites s ws
  | .advance dt => { s with now := s.now + dt }
  | .fire i => fireOld s i

def runFrom (s : State) (ops : List Op) : State := ops.foldl step s
def run (ops : List Op) : State := runFrom {} ops
def runOld (ops : List Op) : State := ops.foldl stepOld {}

/-- does the op write `k` (a batch that puts or deletes it)? -/
def Op.writes (k : Bytes) : Op → Bool
  | .commit ws => ws.any (fun kw => kw.1 == k)
  | _ => false

/-- the write a batch operation leaves in `b.cache` (`ttl` = the ttl handed to Put / PutIfNotExist / CAS) -/
def writeOf (ttl : Nat) : BOp → Bytes × Write
  | .pine k v => (k, .put v ttl)
  | .cas k new _ => (k, .put new ttl)
  | .put k v => (k, .put v ttl)
  | .del k => (k, .del)
  | .delcur k _ => (k, .del)

/-- Every timer whose deadline has come fires (highest index first, so that the indices of the others stay
valid). The driver runs this before every operation of a script: real timers fire "soon after" their deadline
and the scripts keep ≥ 250 ms between every operation and every deadline. -/
def fireDue (s : State) : State :=
  (List.range s.timers.length).reverse.foldl (fun s i => step s (.fire i)) s

end KB.MemTTL
