package main

// genLockTable — C19.  Emits KB/Generated/LockTable.lean: every syntactic access to the tracked shared
// locations (struct fields, see `lockSpecs`) with the locks held at that point.
//
// The analysis is LEXICAL (go/ast, no type checker) and fails closed (`lockTableUnresolved`):
//  * locations: a selector `X.f` whose base `X` resolves (receiver / parameter / local built from a
//    composite literal or a same-package constructor / field chain through struct declarations) to the
//    tracked struct type. Composite-literal initialisation (`&T{f: v}`) is not an access (object not yet
//    shared). A selector with a tracked field name whose base cannot be typed is reported as unresolved.
//  * access kind: assignment / IncDec / delete / copy-destination / mutating container method = write;
//    everything else = read. mode atomic: `atomic.XxxT(&X.f, …)` and `X.f[i].Load/Store/…` (atomic.Value).
//  * locks: `B.Lock/RLock/Unlock/RUnlock()` where B is a sync.Mutex/RWMutex field (lock "pkg.T.mu") or a value
//    whose struct type embeds one (lock "pkg.T.RWMutex"). A statement walker keeps the held set:
//    straight-line code; `defer B.Unlock()` keeps B held to the end; branches are walked separately and joined
//    by intersection (a branch ending in return/break/continue/goto/panic does not take part); loops are walked
//    until the held set at the loop head is stable; a deferred closure runs with the locks that are held at the
//    `defer` statement and never unlocked by the rest of the body; `go` closures and callback closures start
//    with NO lock; closures invoked on the spot and closures passed to sort.Search/Slice run with the current set.
//  * helpers: an EXPORTED function or method is entered with no lock (it can be called from anywhere). The locks
//    held on entry to an UNEXPORTED function are the intersection, over every call of a function of that name
//    in its package (methods are matched by name only, which over-approximates the callers), of the locks
//    held at the call; `go f()` and deferred calls contribute none; a function nobody calls is entered with
//    none. Propagation is transitive (memoised, recursion cut).
//  * a bool parameter used as `if flag { X.Lock() }` (WatcherHub.DeleteWatcher(sub, lock)) splits the function
//    into two variants, fed by the calls in the program that pass the literal `true` / `false` (other calls
//    feed both); for these variants the callers' locks are inherited even though the function is exported:
//    `lock=false` is the function's contract "the caller holds the lock", checked against every such call.
//  * `&X.f` (address taken, other than as the operand of a sync/atomic call) is recorded as an unprotected
//    write: the location can then not pass the discipline.
//  * PROTOCOL memkv batch (modelled explicitly, structural facts checked here, see `lockTableProtocols`):
//    store.BeginBatchWrite locks store.mu and returns a *batch without unlocking; `&batch{…}` appears nowhere
//    else; batch.Commit's first statement is `defer b.store.mu.Unlock()`; no other batch method touches the
//    mutex. Hence every method of `batch` runs with memkv.store.mu held exclusively — PROVIDED the caller uses
//    a batch in one goroutine and never after Commit (assumed; it is what storage.BatchWrite documents).
//  * singleflight: the closure of `X.flight.Do("k", func…)` runs with the pseudo lock "T.flight#k" held
//    exclusively (at most one execution per key at a time, executions ordered by the group's mutex — the
//    semantics of golang.org/x/sync/singleflight, trusted).
//  * threadConfined: (a) accesses through a local variable that holds an object constructed in the same function
//    (`r := &T{…}`), before any `go` statement of that function ("pre-publication"); (b) fields of scanner.worker:
//    checked that `newWorker` is only called as `w := newWorker(…)` into a function-local variable that is only
//    used as a method receiver, and that no worker method starts a goroutine (the worker never leaves the
//    goroutine that created it).
// NOT handled (→ trusted / out of scope): pointers derived from a location and used later (skiplist elements,
// queue nodes — in the code at hand they are used inside the same critical section), aliasing of owner
// objects (lock and location are assumed to belong to the same instance; the base expressions are recorded in
// `note`), channels / WaitGroup / Once edges, locks of third-party packages.

import (
	"fmt"
	"go/ast"
	"go/token"
	"sort"
	"strings"
)

type locSpec struct {
	dir, typ, field string
	kind            string // scalar | skiplist | list | map | slice | atomicslots
	worker          bool   // confinement to be established by the worker check
}

func (s *locSpec) leanName(pr *program) string {
	return pr.pkgs[s.dir].name + "." + s.typ + "." + s.field
}

var lockSpecs = []*locSpec{
	{dir: "pkg/storage/memkv", typ: "store", field: "skl", kind: "skiplist"},
	{dir: "pkg/backend", typ: "Ring", field: "s", kind: "scalar"},
	{dir: "pkg/backend", typ: "Ring", field: "e", kind: "scalar"},
	{dir: "pkg/backend", typ: "Ring", field: "arr", kind: "slice"},
	{dir: "pkg/backend", typ: "WatcherHub", field: "subs", kind: "map"},
	{dir: "pkg/backend", typ: "backend", field: "watchEventsRingBuffer", kind: "atomicslots"},
	{dir: "pkg/backend/retry", typ: "eventQueue", field: "queueSize", kind: "scalar"},
	{dir: "pkg/backend/retry", typ: "eventQueue", field: "head", kind: "scalar"},
	{dir: "pkg/backend/retry", typ: "eventQueue", field: "tail", kind: "scalar"},
	{dir: "pkg/backend/retry", typ: "eventNode", field: "next", kind: "scalar"},
	{dir: "pkg/backend/tso", typ: "naiveTSO", field: "committedRevision", kind: "scalar"},
	{dir: "pkg/backend/tso", typ: "naiveTSO", field: "dealRevision", kind: "scalar"},
	{dir: "pkg/backend/scanner", typ: "compactRecordQueue", field: "list", kind: "list"},
	{dir: "pkg/backend/scanner", typ: "scanner", field: "compactHistories", kind: "scalar"},
	{dir: "pkg/backend/scanner", typ: "worker", field: "lastCompactFailedRawKey", kind: "scalar", worker: true},
	{dir: "pkg/server/service/leader", typ: "leaderElection", field: "leader", kind: "scalar"},
	{dir: "pkg/backend/election", typ: "resourceLock", field: "record", kind: "scalar"},
	{dir: "pkg/backend/election", typ: "resourceLock", field: "tso", kind: "scalar"},
	{dir: "pkg/server/service/revision", typ: "revisionSyncer", field: "schema", kind: "scalar"},
	{dir: "pkg/server/service/revision", typ: "revisionSyncer", field: "enableTLS", kind: "scalar"},
	{dir: "pkg/server/service/revision", typ: "revisionSyncer", field: "httpClient", kind: "scalar"},
	{dir: "pkg/metrics/prometheus", typ: "prometheusWrapper", field: "counterVecMap", kind: "map"},
	{dir: "pkg/metrics/prometheus", typ: "prometheusWrapper", field: "gaugeVecMap", kind: "map"},
	{dir: "pkg/metrics/prometheus", typ: "prometheusWrapper", field: "histogramVecMap", kind: "map"},
	{dir: "pkg/server/etcd", typ: "watcher", field: "watches", kind: "map"},
	// the follower's etcd proxy: its background loop follows the leader, the forwarding handlers read the address
	// (client / err / closed are written by that loop only, under the lock; the loop's own unlocked reads of them are
	// reads by the single writer and are not tracked)
	{dir: "pkg/server/service/etcdproxy", typ: "etcdProxy", field: "curLeader", kind: "scalar"},
}

var containerWrites = map[string]map[string]bool{
	"skiplist": {"Set": true, "Remove": true, "RemoveElement": true, "RemoveFront": true, "RemoveBack": true, "Init": true, "SetMaxLevel": true},
	"list": {"PushBack": true, "PushFront": true, "Remove": true, "Init": true, "InsertBefore": true, "InsertAfter": true,
		"MoveToFront": true, "MoveToBack": true, "MoveBefore": true, "MoveAfter": true, "PushBackList": true, "PushFrontList": true},
}
var containerReads = map[string]map[string]bool{
	"skiplist": {"Get": true, "Find": true, "FindNext": true, "Front": true, "Back": true, "Len": true, "GetValue": true, "MustGetValue": true, "MaxLevel": true},
	"list":     {"Front": true, "Back": true, "Len": true},
}

// the memkv batch protocol
const (
	protoDir      = "pkg/storage/memkv"
	protoType     = "batch"
	protoLock     = "memkv.store.mu"
	protoBegin    = "BeginBatchWrite"
	protoEnd      = "Commit"
	protoLockText = "store.mu"
)

type tref struct {
	p    *pkgInfo
	name string
}

type hold struct {
	write bool
	base  string
	via   string // lexical | protocol | singleflight | callers
}

type hstate struct {
	held     map[string]hold
	released map[string]bool
}

func newState() hstate { return hstate{held: map[string]hold{}, released: map[string]bool{}} }

func (s hstate) clone() hstate {
	n := newState()
	for k, v := range s.held {
		n.held[k] = v
	}
	for k := range s.released {
		n.released[k] = true
	}
	return n
}

func meet(a, b hstate) hstate {
	n := newState()
	for k, v := range a.held {
		if w, ok := b.held[k]; ok {
			n.held[k] = hold{write: v.write && w.write, base: v.base, via: v.via}
		}
	}
	for k := range a.released {
		n.released[k] = true
	}
	for k := range b.released {
		n.released[k] = true
	}
	return n
}

func sameState(a, b hstate) bool {
	if len(a.held) != len(b.held) || len(a.released) != len(b.released) {
		return false
	}
	for k, v := range a.held {
		if w, ok := b.held[k]; !ok || w.write != v.write {
			return false
		}
	}
	for k := range a.released {
		if !b.released[k] {
			return false
		}
	}
	return true
}

type rawAccess struct {
	pos      token.Pos
	spec     *locSpec
	write    bool
	atomic   bool
	st       hstate
	detached bool
	base     string
	confined string
	label    string
}

type callEdge struct {
	pos      token.Pos
	name     string
	method   bool
	qual     *pkgInfo // package named by the qualifier of a pkg.F(...) call
	st       hstate
	detached bool
	isGo     bool
	boolArgs []int8
	from     *fnVariant
}

type fnVariant struct {
	fi       *funcInfo
	flag     *ast.Object // the bool parameter this variant fixes (nil = none)
	flagIdx  int
	flagVal  bool
	accesses []*rawAccess
	calls    []*callEdge
	entry    map[string]hold
	state    int // 0 new, 1 in progress, 2 done
}

func (v *fnVariant) label() string {
	if v.flag == nil {
		return v.fi.qual()
	}
	return fmt.Sprintf("%s[%s=%v]", v.fi.qual(), v.flag.Name, v.flagVal)
}

type la struct {
	pr          *program
	mxh         *mx
	specs       map[string][]*locSpec // by field name
	unresolved  []string
	variants    map[*funcInfo][]*fnVariant
	edgesByName map[string][]*callEdge
	protocols   []string
	workerOK    string
	protoOK     bool
}

func (a *la) unres(pos token.Pos, format string, args ...interface{}) {
	p := a.pr.pos(pos)
	rel := strings.TrimPrefix(p.Filename, repo+"/")
	a.unresolved = append(a.unresolved, fmt.Sprintf("%s:%d %s", rel, p.Line, fmt.Sprintf(format, args...)))
}

// ---------------------------------------------------------------- lexical typing

func (a *la) structField(t tref, name string, depth int) (ast.Expr, *pkgInfo, bool) {
	st, ok := t.p.structs[t.name]
	if !ok || depth > 3 {
		return nil, nil, false
	}
	for _, f := range st.Fields.List {
		for _, n := range f.Names {
			if n.Name == name {
				return f.Type, t.p, true
			}
		}
	}
	for _, f := range st.Fields.List { // promoted through an embedded struct of the same package
		if len(f.Names) == 0 {
			if id, ok := f.Type.(*ast.Ident); ok {
				if e, p, ok := a.structField(tref{t.p, id.Name}, name, depth+1); ok {
					return e, p, true
				}
			}
		}
	}
	return nil, nil, false
}

func (a *la) typeFromExpr(te ast.Expr, p *pkgInfo) (tref, bool) {
	switch x := te.(type) {
	case *ast.StarExpr:
		return a.typeFromExpr(x.X, p)
	case *ast.ParenExpr:
		return a.typeFromExpr(x.X, p)
	case *ast.Ident:
		if _, ok := p.structs[x.Name]; ok {
			return tref{p, x.Name}, true
		}
	case *ast.SelectorExpr:
		if id, ok := x.X.(*ast.Ident); ok {
			if q := a.mxh.pkgByImport(p, te.Pos(), id.Name); q != nil {
				if _, ok := q.structs[x.Sel.Name]; ok {
					return tref{q, x.Sel.Name}, true
				}
			}
		}
	}
	return tref{}, false
}

func (a *la) typeOfExpr(e ast.Expr, p *pkgInfo, depth int) (tref, bool) {
	if depth > 6 {
		return tref{}, false
	}
	switch x := e.(type) {
	case *ast.ParenExpr:
		return a.typeOfExpr(x.X, p, depth+1)
	case *ast.StarExpr:
		return a.typeOfExpr(x.X, p, depth+1)
	case *ast.UnaryExpr:
		if x.Op == token.AND {
			return a.typeOfExpr(x.X, p, depth+1)
		}
	case *ast.CompositeLit:
		if x.Type != nil {
			return a.typeFromExpr(x.Type, p)
		}
	case *ast.CallExpr:
		if id, ok := x.Fun.(*ast.Ident); ok {
			if id.Name == "new" && len(x.Args) == 1 {
				return a.typeFromExpr(x.Args[0], p)
			}
			for _, fi := range p.funcs[id.Name] {
				if fi.recv == "" && fi.fd.Type.Results != nil && len(fi.fd.Type.Results.List) >= 1 {
					return a.typeFromExpr(fi.fd.Type.Results.List[0].Type, p)
				}
			}
		}
	case *ast.Ident:
		if x.Obj == nil {
			return tref{}, false
		}
		switch d := x.Obj.Decl.(type) {
		case *ast.Field:
			return a.typeFromExpr(d.Type, p)
		case *ast.ValueSpec:
			if d.Type != nil {
				return a.typeFromExpr(d.Type, p)
			}
			for i, n := range d.Names {
				if n.Obj == x.Obj && i < len(d.Values) {
					return a.typeOfExpr(d.Values[i], p, depth+1)
				}
			}
		case *ast.AssignStmt:
			for i, l := range d.Lhs {
				if li, ok := l.(*ast.Ident); ok && li.Obj == x.Obj && len(d.Lhs) == len(d.Rhs) {
					return a.typeOfExpr(d.Rhs[i], p, depth+1)
				}
			}
		}
	case *ast.SelectorExpr:
		t, ok := a.typeOfExpr(x.X, p, depth+1)
		if !ok {
			return tref{}, false
		}
		ft, fp, ok := a.structField(t, x.Sel.Name, 0)
		if !ok {
			return tref{}, false
		}
		return a.typeFromExpr(ft, fp)
	}
	return tref{}, false
}

func isSyncMutexType(e ast.Expr) (string, bool) {
	if se, ok := e.(*ast.SelectorExpr); ok {
		if id, ok := se.X.(*ast.Ident); ok && id.Name == "sync" && (se.Sel.Name == "Mutex" || se.Sel.Name == "RWMutex") {
			return se.Sel.Name, true
		}
	}
	return "", false
}

// lockOf resolves the receiver expression of a Lock/Unlock call to a lock name.
func (a *la) lockOf(b ast.Expr, p *pkgInfo) (name string, base string) {
	if se, ok := b.(*ast.SelectorExpr); ok {
		if t, ok := a.typeOfExpr(se.X, p, 0); ok {
			if ft, _, ok := a.structField(t, se.Sel.Name, 0); ok {
				if _, ok := isSyncMutexType(ft); ok {
					return t.p.name + "." + t.name + "." + se.Sel.Name, a.mxh.srcText(se.X)
				}
			}
		}
	}
	if t, ok := a.typeOfExpr(b, p, 0); ok {
		if st, ok := t.p.structs[t.name]; ok {
			for _, f := range st.Fields.List {
				if len(f.Names) == 0 {
					if m, ok := isSyncMutexType(f.Type); ok {
						return t.p.name + "." + t.name + "." + m, a.mxh.srcText(b)
					}
				}
			}
		}
	}
	return "?" + a.mxh.srcText(b), a.mxh.srcText(b)
}

// lockCall recognises B.Lock() / B.RLock() / B.Unlock() / B.RUnlock().
func lockCall(e ast.Expr) (recv ast.Expr, op string, ok bool) {
	c, isCall := e.(*ast.CallExpr)
	if !isCall || len(c.Args) != 0 {
		return nil, "", false
	}
	se, isSel := c.Fun.(*ast.SelectorExpr)
	if !isSel {
		return nil, "", false
	}
	switch se.Sel.Name {
	case "Lock", "RLock", "Unlock", "RUnlock":
		return se.X, se.Sel.Name, true
	}
	return nil, "", false
}

// ---------------------------------------------------------------- the statement walker

type walker struct {
	a        *la
	v        *fnVariant
	p        *pkgInfo
	detached bool
	label    string
	unlocked map[string]bool // lock names unlocked anywhere in the non-deferred body (for deferred closures)
	goSeen   token.Pos       // position of the first go statement of the function (NoPos = none)
	nested   bool            // inside a loop body or a closure (an access here may run after later statements)
}

func (w *walker) applyLock(recv ast.Expr, op string, st hstate) {
	name, base := w.a.lockOf(recv, w.p)
	switch op {
	case "Lock":
		st.held[name] = hold{write: true, base: base, via: "lexical"}
		delete(st.released, name)
	case "RLock":
		st.held[name] = hold{write: false, base: base, via: "lexical"}
		delete(st.released, name)
	case "Unlock", "RUnlock":
		if _, ok := st.held[name]; ok {
			delete(st.held, name)
		} else {
			st.released[name] = true
		}
	}
}

func terminates(s ast.Stmt) bool {
	switch t := s.(type) {
	case *ast.ReturnStmt, *ast.BranchStmt:
		return true
	case *ast.ExprStmt:
		if c, ok := t.X.(*ast.CallExpr); ok {
			if id, ok := c.Fun.(*ast.Ident); ok && id.Name == "panic" {
				return true
			}
		}
	}
	return false
}

// walkStmts returns the state after the list and whether control cannot fall out of it.
func (w *walker) walkStmts(stmts []ast.Stmt, st hstate) (hstate, bool) {
	for _, s := range stmts {
		var term bool
		st, term = w.walkStmt(s, st)
		if term {
			return st, true
		}
	}
	return st, false
}

func (w *walker) walkStmt(s ast.Stmt, st hstate) (hstate, bool) {
	switch t := s.(type) {
	case nil:
		return st, false
	case *ast.BlockStmt:
		return w.walkStmts(t.List, st)
	case *ast.LabeledStmt:
		return w.walkStmt(t.Stmt, st)
	case *ast.ExprStmt:
		if recv, op, ok := lockCall(t.X); ok {
			w.applyLock(recv, op, st)
			return st, false
		}
		w.scanExpr(t.X, st)
		return st, terminates(s)
	case *ast.DeferStmt:
		if _, _, ok := lockCall(t.Call); ok {
			return st, false // deferred unlock: the lock stays held until the function returns
		}
		if fl, ok := t.Call.Fun.(*ast.FuncLit); ok {
			for _, arg := range t.Call.Args {
				w.scanExpr(arg, st)
			}
			ds := st.clone()
			for k := range ds.held {
				if w.unlocked[k] {
					delete(ds.held, k)
				}
			}
			sub := *w
			sub.nested = true
			sub.label = w.label + "$defer"
			sub.walkStmts(fl.Body.List, ds)
			return st, false
		}
		for _, arg := range t.Call.Args {
			w.scanExpr(arg, st)
		}
		w.recordCall(t.Call, newState(), true, false)
		return st, false
	case *ast.GoStmt:
		if w.goSeen == token.NoPos {
			w.goSeen = t.Pos()
		}
		for _, arg := range t.Call.Args {
			w.scanExpr(arg, st)
		}
		if fl, ok := t.Call.Fun.(*ast.FuncLit); ok {
			sub := *w
			sub.detached = true
			sub.nested = true
			sub.label = w.label + "$go"
			sub.walkStmts(fl.Body.List, newState())
			return st, false
		}
		if se, ok := t.Call.Fun.(*ast.SelectorExpr); ok {
			w.scanExpr(se.X, st)
		}
		w.recordCall(t.Call, newState(), true, true)
		return st, false
	case *ast.ReturnStmt:
		for _, r := range t.Results {
			w.scanExpr(r, st)
		}
		return st, true
	case *ast.BranchStmt:
		return st, true
	case *ast.AssignStmt:
		for _, r := range t.Rhs {
			w.scanExpr(r, st)
		}
		for _, l := range t.Lhs {
			w.scanLhs(l, st, t.Tok != token.DEFINE)
		}
		return st, false
	case *ast.IncDecStmt:
		w.scanLhs(t.X, st, true)
		return st, false
	case *ast.SendStmt:
		w.scanExpr(t.Chan, st)
		w.scanExpr(t.Value, st)
		return st, false
	case *ast.DeclStmt:
		if gd, ok := t.Decl.(*ast.GenDecl); ok {
			for _, sp := range gd.Specs {
				if vs, ok := sp.(*ast.ValueSpec); ok {
					for _, v := range vs.Values {
						w.scanExpr(v, st)
					}
				}
			}
		}
		return st, false
	case *ast.IfStmt:
		st, _ = w.walkStmt(t.Init, st)
		// flag-guarded branch of a function variant
		if w.v.flag != nil {
			cond := t.Cond
			neg := false
			if u, ok := cond.(*ast.UnaryExpr); ok && u.Op == token.NOT {
				cond, neg = u.X, true
			}
			if id, ok := cond.(*ast.Ident); ok && id.Obj == w.v.flag {
				if w.v.flagVal != neg {
					return w.walkStmts(t.Body.List, st)
				}
				if t.Else != nil {
					return w.walkStmt(t.Else, st)
				}
				return st, false
			}
		}
		w.scanExpr(t.Cond, st)
		b, bt := w.walkStmts(t.Body.List, st.clone())
		var outs []hstate
		if !bt {
			outs = append(outs, b)
		}
		if t.Else != nil {
			e, et := w.walkStmt(t.Else, st.clone())
			if !et {
				outs = append(outs, e)
			}
		} else {
			outs = append(outs, st)
		}
		if len(outs) == 0 {
			return st, true
		}
		res := outs[0]
		for _, o := range outs[1:] {
			res = meet(res, o)
		}
		return res, false
	case *ast.ForStmt:
		st, _ = w.walkStmt(t.Init, st)
		head := st
		for i := 0; i < 4; i++ {
			if t.Cond != nil {
				w.scanExpr(t.Cond, head)
			}
			lw := *w
			lw.nested = true
			b, bt := lw.walkStmts(t.Body.List, head.clone())
			if t.Post != nil {
				b, _ = w.walkStmt(t.Post, b)
			}
			next := head
			if !bt {
				next = meet(head, b)
			}
			if sameState(next, head) {
				break
			}
			head = next
		}
		return head, false
	case *ast.RangeStmt:
		w.scanExpr(t.X, st)
		head := st
		for i := 0; i < 4; i++ {
			lw := *w
			lw.nested = true
			b, bt := lw.walkStmts(t.Body.List, head.clone())
			next := head
			if !bt {
				next = meet(head, b)
			}
			if sameState(next, head) {
				break
			}
			head = next
		}
		return head, false
	case *ast.SwitchStmt:
		st, _ = w.walkStmt(t.Init, st)
		if t.Tag != nil {
			w.scanExpr(t.Tag, st)
		}
		return w.walkClauses(t.Body, st, false)
	case *ast.TypeSwitchStmt:
		st, _ = w.walkStmt(t.Init, st)
		st, _ = w.walkStmt(t.Assign, st)
		return w.walkClauses(t.Body, st, false)
	case *ast.SelectStmt:
		return w.walkClauses(t.Body, st, true)
	}
	return st, false
}

func (w *walker) walkClauses(body *ast.BlockStmt, st hstate, isSelect bool) (hstate, bool) {
	var outs []hstate
	hasDefault := false
	for _, c := range body.List {
		var list []ast.Stmt
		cs := st.clone()
		switch cc := c.(type) {
		case *ast.CaseClause:
			if cc.List == nil {
				hasDefault = true
			}
			for _, e := range cc.List {
				w.scanExpr(e, st)
			}
			list = cc.Body
		case *ast.CommClause:
			if cc.Comm == nil {
				hasDefault = true
			} else {
				cs, _ = w.walkStmt(cc.Comm, cs)
			}
			list = cc.Body
		}
		o, term := w.walkStmts(list, cs)
		if !term {
			outs = append(outs, o)
		}
	}
	if !isSelect && !hasDefault {
		// switch without default: the "no case taken" path keeps the incoming state
		outs = append(outs, st)
	}
	if len(outs) == 0 {
		return st, true
	}
	res := outs[0]
	for _, o := range outs[1:] {
		res = meet(res, o)
	}
	return res, false
}

// scanLhs handles an assignment target.
func (w *walker) scanLhs(l ast.Expr, st hstate, isWrite bool) {
	switch x := l.(type) {
	case *ast.SelectorExpr:
		if spec, base, ok := w.match(x); ok {
			w.record(x, spec, isWrite, false, st, base)
			w.scanExpr(x.X, st)
			return
		}
		// X.f.g = v : read of X.f
		w.scanExpr(x.X, st)
	case *ast.IndexExpr:
		if se, ok := x.X.(*ast.SelectorExpr); ok {
			if spec, base, ok := w.match(se); ok {
				w.record(se, spec, isWrite, false, st, base)
				w.scanExpr(se.X, st)
				w.scanExpr(x.Index, st)
				return
			}
		}
		w.scanExpr(x.X, st)
		w.scanExpr(x.Index, st)
	case *ast.StarExpr:
		w.scanExpr(x.X, st)
	case *ast.ParenExpr:
		w.scanLhs(x.X, st, isWrite)
	case *ast.Ident:
	default:
		w.scanExpr(l, st)
	}
}

// match decides whether a selector denotes a tracked location.
func (w *walker) match(se *ast.SelectorExpr) (*locSpec, string, bool) {
	specs := w.a.specs[se.Sel.Name]
	if len(specs) == 0 {
		return nil, "", false
	}
	if id, ok := se.X.(*ast.Ident); ok && id.Obj == nil {
		if sf := w.a.mxh.fileOf(w.p, se.Pos()); sf != nil && sf.imports[id.Name] != "" {
			return nil, "", false // pkg.Name
		}
	}
	t, ok := w.a.typeOfExpr(se.X, w.p, 0)
	if ok {
		for _, s := range specs {
			if s.dir == t.p.dir && s.typ == t.name {
				return s, w.a.mxh.srcText(se.X), true
			}
		}
		// promoted field of an embedded tracked struct
		for _, s := range specs {
			if s.dir == t.p.dir {
				if _, _, ok := w.a.structField(t, se.Sel.Name, 0); ok {
					if st, ok2 := t.p.structs[t.name]; ok2 {
						direct := false
						for _, f := range st.Fields.List {
							for _, n := range f.Names {
								if n.Name == se.Sel.Name {
									direct = true
								}
							}
						}
						if !direct {
							for _, f := range st.Fields.List {
								if len(f.Names) == 0 {
									if id, ok := f.Type.(*ast.Ident); ok && id.Name == s.typ {
										return s, w.a.mxh.srcText(se.X), true
									}
								}
							}
						}
					}
				}
			}
		}
		return nil, "", false
	}
	for _, s := range specs {
		if s.dir == w.p.dir {
			w.a.unres(se.Pos(), "selector .%s in %s: base %q cannot be typed lexically (tracked field name of %s.%s)",
				se.Sel.Name, w.label, w.a.mxh.srcText(se.X), s.typ, s.field)
			break
		}
	}
	return nil, "", false
}

func (w *walker) record(se *ast.SelectorExpr, spec *locSpec, write, atomic bool, st hstate, base string) {
	ra := &rawAccess{pos: se.Pos(), spec: spec, write: write, atomic: atomic, st: st.clone(), detached: w.detached, base: base, label: w.label}
	// pre-publication: the base is a local variable holding an object constructed in this function, the access is
	// not in a loop / closure, and the variable has not been handed to anything before (argument, method
	// receiver, closure, go statement, assignment to something else)
	if id, ok := se.X.(*ast.Ident); ok && id.Obj != nil && !w.detached && !w.nested {
		if as, ok := id.Obj.Decl.(*ast.AssignStmt); ok && as.Tok == token.DEFINE {
			for i, l := range as.Lhs {
				if li, ok := l.(*ast.Ident); ok && li.Obj == id.Obj && len(as.Lhs) == len(as.Rhs) {
					r := as.Rhs[i]
					if u, ok := r.(*ast.UnaryExpr); ok && u.Op == token.AND {
						r = u.X
					}
					if _, ok := r.(*ast.CompositeLit); ok && (w.goSeen == token.NoPos || se.Pos() < w.goSeen) &&
						!escapesBefore(w.v.fi.fd, id.Obj, li, se.Pos()) {
						ra.confined = "pre-publication: " + id.Name + " is constructed in this function (" + w.label + ") and has not been shared before this access"
					}
				}
			}
		}
	}
	w.v.accesses = append(w.v.accesses, ra)
}

// escapesBefore: is the local variable obj used, lexically before pos, in any way other than a plain field
// access `obj.f` (read or assignment target)? Method calls, arguments, closures, returns … count as escapes.
func escapesBefore(fd *ast.FuncDecl, obj *ast.Object, def *ast.Ident, pos token.Pos) bool {
	esc := false
	var stack []ast.Node
	ast.Inspect(fd.Body, func(n ast.Node) bool {
		if n == nil {
			stack = stack[:len(stack)-1]
			return true
		}
		if id, ok := n.(*ast.Ident); ok && id.Obj == obj && id != def && id.Pos() < pos {
			okUse := false
			if len(stack) >= 1 {
				if se, ok := stack[len(stack)-1].(*ast.SelectorExpr); ok && se.X == ast.Expr(id) {
					okUse = true
					if len(stack) >= 2 {
						if ce, ok := stack[len(stack)-2].(*ast.CallExpr); ok && ce.Fun == ast.Expr(se) {
							okUse = false // method call / call of a function-valued field
						}
						if u, ok := stack[len(stack)-2].(*ast.UnaryExpr); ok && u.Op == token.AND {
							okUse = false // &obj.f
						}
					}
					for _, anc := range stack {
						if _, ok := anc.(*ast.FuncLit); ok {
							okUse = false
						}
					}
				}
			}
			if !okUse {
				esc = true
			}
		}
		stack = append(stack, n)
		return true
	})
	return esc
}

var syncHOF = map[string]bool{"sort.Search": true, "sort.Slice": true, "sort.SliceStable": true, "sort.SearchInts": true}

// scanExpr records the accesses and call edges of an expression (evaluated with state st).
func (w *walker) scanExpr(e ast.Expr, st hstate) {
	if e == nil {
		return
	}
	var stack []ast.Node
	ast.Inspect(e, func(n ast.Node) bool {
		if n == nil {
			stack = stack[:len(stack)-1]
			return true
		}
		parent := func(k int) ast.Node {
			if len(stack) >= k {
				return stack[len(stack)-k]
			}
			return nil
		}
		switch x := n.(type) {
		case *ast.FuncLit:
			w.scanFuncLit(x, parent(1), st)
			return false
		case *ast.CallExpr:
			w.recordCall(x, st, false, false)
		case *ast.SelectorExpr:
			if spec, base, ok := w.match(x); ok {
				w.classify(x, spec, base, parent(1), parent(2), parent(3), st)
			}
		}
		stack = append(stack, n)
		return true
	})
}

func (w *walker) scanFuncLit(fl *ast.FuncLit, parent ast.Node, st hstate) {
	sub := *w
	sub.nested = true
	if c, ok := parent.(*ast.CallExpr); ok {
		if c.Fun == ast.Expr(fl) { // invoked on the spot
			sub.label = w.label + "$inline"
			sub.walkStmts(fl.Body.List, st.clone())
			return
		}
		fn := w.a.mxh.srcText(c.Fun)
		if syncHOF[fn] {
			sub.label = w.label + "$" + fn
			sub.walkStmts(fl.Body.List, st.clone())
			return
		}
		// singleflight: X.flight.Do("key", func() …)
		if se, ok := c.Fun.(*ast.SelectorExpr); ok && se.Sel.Name == "Do" && len(c.Args) == 2 {
			if fs, ok := se.X.(*ast.SelectorExpr); ok {
				if t, ok := w.a.typeOfExpr(fs.X, w.p, 0); ok {
					if ft, _, ok := w.a.structField(t, fs.Sel.Name, 0); ok && w.a.mxh.srcText(ft) == "singleflight.Group" {
						if keys, err := w.a.mxh.strOf(c.Args[0], menv{p: w.p}); err == nil && len(keys) == 1 {
							s2 := st.clone()
							name := t.p.name + "." + t.name + "." + fs.Sel.Name + "#" + keys[0]
							s2.held[name] = hold{write: true, base: w.a.mxh.srcText(fs.X), via: "singleflight"}
							sub.label = w.label + "$singleflight"
							// the closure may run on the goroutine of whichever caller got there first: nothing
							// but the flight key is inherited
							sub.detached = true
							s3 := newState()
							s3.held[name] = s2.held[name]
							sub.walkStmts(fl.Body.List, s3)
							return
						}
					}
				}
			}
		}
	}
	sub.detached = true
	sub.label = w.label + "$callback"
	sub.walkStmts(fl.Body.List, newState())
}

func (w *walker) recordCall(c *ast.CallExpr, st hstate, noInherit bool, isGo bool) {
	e := &callEdge{pos: c.Pos(), st: st.clone(), detached: w.detached || noInherit, isGo: isGo, from: w.v}
	switch f := c.Fun.(type) {
	case *ast.Ident:
		if f.Obj != nil {
			if _, ok := f.Obj.Decl.(*ast.FuncDecl); !ok {
				return // a local function value
			}
		}
		e.name = f.Name
		e.qual = w.p
	case *ast.SelectorExpr:
		e.name = f.Sel.Name
		if id, ok := f.X.(*ast.Ident); ok && id.Obj == nil {
			if q := w.a.mxh.pkgByImport(w.p, c.Pos(), id.Name); q != nil {
				e.qual = q
			} else if sf := w.a.mxh.fileOf(w.p, c.Pos()); sf != nil && sf.imports[id.Name] != "" {
				return // call into a package outside the program
			} else {
				e.method = true
			}
		} else {
			e.method = true
		}
	default:
		return
	}
	for _, arg := range c.Args {
		v := int8(-1)
		if id, ok := arg.(*ast.Ident); ok && id.Obj == nil {
			if id.Name == "true" {
				v = 1
			} else if id.Name == "false" {
				v = 0
			}
		}
		e.boolArgs = append(e.boolArgs, v)
	}
	w.v.calls = append(w.v.calls, e)
}

// classify one mention of a tracked location by its syntactic context.
func (w *walker) classify(se *ast.SelectorExpr, spec *locSpec, base string, p1, p2, p3 ast.Node, st hstate) {
	switch p := p1.(type) {
	case *ast.SelectorExpr:
		if p.X == ast.Expr(se) {
			if c, ok := p2.(*ast.CallExpr); ok && c.Fun == ast.Expr(p) {
				m := p.Sel.Name
				if cw, ok := containerWrites[spec.kind]; ok {
					if cw[m] {
						w.record(se, spec, true, false, st, base)
						return
					}
					if containerReads[spec.kind][m] {
						w.record(se, spec, false, false, st, base)
						return
					}
					w.a.unres(se.Pos(), "method %s on %s.%s (%s) is not classified read/write", m, spec.typ, spec.field, spec.kind)
					return
				}
				// a method of the pointee (own type of the program or a self-synchronised third-party object):
				// the field itself is only read here
				w.record(se, spec, false, false, st, base)
				return
			}
			w.record(se, spec, false, false, st, base) // X.f.g : read of X.f
			return
		}
	case *ast.IndexExpr:
		if p.X == ast.Expr(se) {
			if spec.kind == "atomicslots" {
				if m, ok := p2.(*ast.SelectorExpr); ok && m.X == ast.Expr(p) {
					if c, ok := p3.(*ast.CallExpr); ok && c.Fun == ast.Expr(m) {
						switch m.Sel.Name {
						case "Load":
							w.record(se, spec, false, true, st, base)
							return
						case "Store", "Swap", "CompareAndSwap":
							w.record(se, spec, true, true, st, base)
							return
						}
					}
				}
			}
			w.record(se, spec, false, false, st, base)
			return
		}
	case *ast.UnaryExpr:
		if p.Op == token.AND {
			if c, ok := p2.(*ast.CallExpr); ok {
				fn := w.a.mxh.srcText(c.Fun)
				if strings.HasPrefix(fn, "atomic.") {
					w.record(se, spec, !strings.HasPrefix(fn, "atomic.Load"), true, st, base)
					return
				}
			}
			// the address escapes: whoever holds the pointer may read and write the location at any time, with
			// no lock we know of — recorded as an unprotected write (the location cannot pass the discipline)
			w.record(se, spec, true, false, newState(), base+" (ADDRESS ESCAPES: &"+base+"."+spec.field+")")
			w.v.accesses[len(w.v.accesses)-1].detached = true
			return
		}
	case *ast.CallExpr:
		if id, ok := p.Fun.(*ast.Ident); ok && id.Obj == nil {
			switch id.Name {
			case "delete":
				if len(p.Args) > 0 && p.Args[0] == ast.Expr(se) {
					w.record(se, spec, true, false, st, base)
					return
				}
			case "copy":
				if len(p.Args) > 0 && p.Args[0] == ast.Expr(se) {
					w.record(se, spec, true, false, st, base)
					return
				}
			}
		}
	case *ast.SliceExpr:
		if c, ok := p2.(*ast.CallExpr); ok {
			if id, ok := c.Fun.(*ast.Ident); ok && id.Name == "copy" && id.Obj == nil && len(c.Args) > 0 && c.Args[0] == ast.Expr(p) {
				w.record(se, spec, true, false, st, base)
				return
			}
		}
	}
	w.record(se, spec, false, false, st, base)
}

// ---------------------------------------------------------------- whole-program part

func boolFlagParam(fi *funcInfo) (*ast.Object, int) {
	if fi.fd.Type.Params == nil || fi.fd.Body == nil {
		return nil, 0
	}
	idx := 0
	for _, f := range fi.fd.Type.Params.List {
		n := len(f.Names)
		if n == 0 {
			n = 1
		}
		if id, ok := f.Type.(*ast.Ident); ok && id.Name == "bool" {
			for k, nm := range f.Names {
				used := false
				guardsLock := false
				ast.Inspect(fi.fd.Body, func(x ast.Node) bool {
					if is, ok := x.(*ast.IfStmt); ok {
						c := is.Cond
						if u, ok := c.(*ast.UnaryExpr); ok && u.Op == token.NOT {
							c = u.X
						}
						if ci, ok := c.(*ast.Ident); ok && ci.Obj == nm.Obj {
							used = true
							ast.Inspect(is.Body, func(y ast.Node) bool {
								if es, ok := y.(*ast.ExprStmt); ok {
									if _, _, ok := lockCall(es.X); ok {
										guardsLock = true
									}
								}
								return true
							})
						}
					}
					return true
				})
				if used && guardsLock {
					return nm.Obj, idx + k
				}
			}
		}
		idx += n
	}
	return nil, 0
}

func (a *la) analyseFunc(fi *funcInfo) {
	if fi.fd.Body == nil {
		return
	}
	flag, idx := boolFlagParam(fi)
	var vs []*fnVariant
	if flag != nil {
		vs = []*fnVariant{{fi: fi, flag: flag, flagIdx: idx, flagVal: true}, {fi: fi, flag: flag, flagIdx: idx, flagVal: false}}
	} else {
		vs = []*fnVariant{{fi: fi}}
	}
	unlocked := map[string]bool{}
	var scanUnlocks func(n ast.Node) bool
	scanUnlocks = func(n ast.Node) bool {
		switch t := n.(type) {
		case *ast.FuncLit, *ast.DeferStmt:
			return false
		case *ast.ExprStmt:
			if recv, op, ok := lockCall(t.X); ok && (op == "Unlock" || op == "RUnlock") {
				name, _ := a.lockOf(recv, fi.p)
				unlocked[name] = true
			}
		}
		return true
	}
	ast.Inspect(fi.fd.Body, scanUnlocks)
	for _, v := range vs {
		w := &walker{a: a, v: v, p: fi.p, label: v.label(), unlocked: unlocked}
		w.walkStmts(fi.fd.Body.List, newState())
		a.variants[fi] = append(a.variants[fi], v)
		for _, e := range v.calls {
			a.edgesByName[e.name] = append(a.edgesByName[e.name], e)
		}
	}
}

func (a *la) isProtoMethod(fi *funcInfo) bool {
	return a.protoOK && fi.p.dir == protoDir && fi.recv == protoType
}

func effective(entry map[string]hold, st hstate, detached bool) map[string]hold {
	out := map[string]hold{}
	if !detached {
		for k, v := range entry {
			if !st.released[k] {
				out[k] = v
			}
		}
	}
	for k, v := range st.held {
		out[k] = v
	}
	return out
}

// entryHeld: the locks held whenever the variant is entered.
func (a *la) entryHeld(v *fnVariant) map[string]hold {
	if v.state == 2 {
		return v.entry
	}
	if v.state == 1 {
		return nil // recursion: contributes nothing (nil = top)
	}
	v.state = 1
	fi := v.fi
	name := fi.fd.Name.Name
	exported := ast.IsExported(name)
	var result map[string]hold
	n := 0
	edges := a.edgesByName[name]
	if exported && v.flag == nil {
		// an exported function can be entered from anywhere (other packages, libraries through interfaces,
		// the RPC framework): nothing is assumed to be held. (The variants of a `lock bool` function are the
		// exception: `lock=false` is the function's own contract "the caller holds the lock", which is
		// checked against every call in the program.)
		edges = nil
	}
	for _, e := range edges {
		callerPkg := e.from.fi.p
		if fi.recv != "" {
			if !e.method {
				continue
			}
		} else {
			if e.method || e.qual != fi.p {
				continue
			}
		}
		if !exported && callerPkg != fi.p {
			continue
		}
		if v.flag != nil && v.flagIdx < len(e.boolArgs) {
			if b := e.boolArgs[v.flagIdx]; b >= 0 && (b == 1) != v.flagVal {
				continue
			}
		}
		var ctx map[string]hold
		if e.isGo {
			ctx = map[string]hold{}
		} else {
			var ce map[string]hold
			if !e.detached {
				ce = a.entryHeld(e.from)
				if ce == nil {
					continue // recursive cycle
				}
			}
			ctx = effective(ce, e.st, e.detached)
		}
		n++
		if result == nil {
			result = map[string]hold{}
			for k, h := range ctx {
				result[k] = hold{write: h.write, base: h.base, via: "callers"}
			}
		} else {
			for k, h := range result {
				if c, ok := ctx[k]; ok {
					result[k] = hold{write: h.write && c.write, base: h.base, via: "callers"}
				} else {
					delete(result, k)
				}
			}
		}
	}
	if result == nil {
		result = map[string]hold{}
	}
	if a.isProtoMethod(fi) {
		result[protoLock] = hold{write: true, base: "b.store", via: "protocol"}
	}
	v.entry = result
	v.state = 2
	return result
}

// checkProtocol verifies the structural facts of the memkv batch protocol.
func (a *la) checkProtocol() {
	p := a.pr.pkgs[protoDir]
	if p == nil {
		a.unresolved = append(a.unresolved, "memkv package not found")
		return
	}
	var problems []string
	// (1) &batch{…} only in BeginBatchWrite
	nLit := 0
	for _, sf := range p.files {
		ast.Inspect(sf.f, func(n ast.Node) bool {
			if cl, ok := n.(*ast.CompositeLit); ok && cl.Type != nil && typeName(cl.Type) == protoType {
				nLit++
				fi := p.enclosingFunc(cl.Pos())
				if fi == nil || fi.fd.Name.Name != protoBegin || fi.recv != "store" {
					problems = append(problems, fmt.Sprintf("batch constructed outside store.%s (%s)", protoBegin, a.pr.pos(cl.Pos())))
				}
				okStore := false
				for _, el := range cl.Elts {
					if kv, ok := el.(*ast.KeyValueExpr); ok {
						if k, ok := kv.Key.(*ast.Ident); ok && k.Name == "store" {
							if v, ok := kv.Value.(*ast.Ident); ok && fi != nil && fi.fd.Recv != nil && len(fi.fd.Recv.List[0].Names) == 1 &&
								v.Name == fi.fd.Recv.List[0].Names[0].Name {
								okStore = true
							}
						}
					}
				}
				if !okStore {
					problems = append(problems, "batch.store is not initialised with the receiver of BeginBatchWrite")
				}
			}
			if ce, ok := n.(*ast.CallExpr); ok {
				if id, ok := ce.Fun.(*ast.Ident); ok && id.Name == "new" && len(ce.Args) == 1 && typeName(ce.Args[0]) == protoType {
					problems = append(problems, "new(batch)")
				}
			}
			return true
		})
	}
	if nLit != 1 {
		problems = append(problems, fmt.Sprintf("%d composite literals of batch (want 1)", nLit))
	}
	// (2) BeginBatchWrite: s.mu.Lock() and no unlock
	var begin, end *funcInfo
	for _, fi := range p.funcs[protoBegin] {
		if fi.recv == "store" {
			begin = fi
		}
	}
	for _, fi := range p.funcs[protoEnd] {
		if fi.recv == protoType {
			end = fi
		}
	}
	if begin == nil || end == nil {
		problems = append(problems, "BeginBatchWrite / Commit not found")
	} else {
		locks, unlocks := 0, 0
		ast.Inspect(begin.fd.Body, func(n ast.Node) bool {
			if c, ok := n.(*ast.CallExpr); ok {
				if recv, op, ok := lockCall(c); ok {
					name, _ := a.lockOf(recv, p)
					if name == protoLock && op == "Lock" {
						locks++
					} else {
						unlocks++
					}
				}
			}
			return true
		})
		if locks != 1 || unlocks != 0 {
			problems = append(problems, "BeginBatchWrite does not lock store.mu exactly once without unlocking")
		}
		// (3) Commit: first statement `defer b.store.mu.Unlock()`, nothing else touches the mutex
		okDefer := false
		if len(end.fd.Body.List) > 0 {
			if ds, ok := end.fd.Body.List[0].(*ast.DeferStmt); ok {
				if recv, op, ok := lockCall(ds.Call); ok && op == "Unlock" {
					if name, _ := a.lockOf(recv, p); name == protoLock {
						okDefer = true
					}
				}
			}
		}
		if !okDefer {
			problems = append(problems, "batch.Commit does not start with `defer b.store.mu.Unlock()`")
		}
	}
	// (4) no other batch method touches the mutex; batch.store is never reassigned
	for _, fis := range p.funcs {
		for _, fi := range fis {
			if fi.recv != protoType || fi.fd.Body == nil {
				continue
			}
			ast.Inspect(fi.fd.Body, func(n ast.Node) bool {
				// a closure handed to time.AfterFunc / `go` runs later, on its own goroutine and NOT inside the batch's
				// critical section: it is analysed as a function of its own (entered with no lock) and may take the mutex
				if c, ok := n.(*ast.CallExpr); ok {
					if se, isS := c.Fun.(*ast.SelectorExpr); isS && se.Sel.Name == "AfterFunc" {
						return false
					}
				}
				if _, ok := n.(*ast.GoStmt); ok {
					return false
				}
				if c, ok := n.(*ast.CallExpr); ok {
					if _, _, ok := lockCall(c); ok && fi != end {
						problems = append(problems, "batch."+fi.fd.Name.Name+" locks/unlocks a mutex")
					}
				}
				if as, ok := n.(*ast.AssignStmt); ok {
					for _, l := range as.Lhs {
						if se, ok := l.(*ast.SelectorExpr); ok && se.Sel.Name == "store" {
							problems = append(problems, "batch.store is reassigned in "+fi.fd.Name.Name)
						}
					}
				}
				return true
			})
		}
	}
	if len(problems) > 0 {
		for _, pr := range problems {
			a.unresolved = append(a.unresolved, "memkv batch protocol: "+pr)
		}
		return
	}
	a.protoOK = true
	a.protocols = append(a.protocols,
		"memkv batch: store.BeginBatchWrite locks store.mu once and returns &batch{store: s} without unlocking; this is the only construction of a batch; "+
			"batch.Commit starts with `defer b.store.mu.Unlock()`; no other batch method locks or unlocks; batch.store is never reassigned "+
			"=> every method of batch runs with memkv.store.mu held exclusively (ASSUMED of callers: one goroutine per batch, no use after Commit, Commit at most once)")
}

// checkWorkerConfinement: scanner.worker objects never leave the goroutine that creates them.
func (a *la) checkWorkerConfinement() {
	p := a.pr.pkgs["pkg/backend/scanner"]
	if p == nil {
		return
	}
	var problems []string
	nLit, nCalls := 0, 0
	for _, sf := range p.files {
		var stack []ast.Node
		ast.Inspect(sf.f, func(n ast.Node) bool {
			if n == nil {
				stack = stack[:len(stack)-1]
				return true
			}
			if cl, ok := n.(*ast.CompositeLit); ok && cl.Type != nil && typeName(cl.Type) == "worker" {
				nLit++
				if fi := p.enclosingFunc(cl.Pos()); fi == nil || fi.fd.Name.Name != "newWorker" {
					problems = append(problems, "worker constructed outside newWorker")
				}
			}
			if c, ok := n.(*ast.CallExpr); ok {
				if id, ok := c.Fun.(*ast.Ident); ok && id.Name == "newWorker" {
					nCalls++
					// must be `w := newWorker(...)`: a variable local to the enclosing function / closure body
					var scope ast.Node
					for i := len(stack) - 1; i >= 0 && scope == nil; i-- {
						switch b := stack[i].(type) {
						case *ast.FuncLit:
							scope = b.Body
						case *ast.FuncDecl:
							scope = b.Body
						}
					}
					as, ok := stack[len(stack)-1].(*ast.AssignStmt)
					if scope == nil || !ok || len(as.Lhs) != 1 || as.Tok != token.DEFINE {
						problems = append(problems, fmt.Sprintf("newWorker is not called as `w := newWorker(…)` inside a function body (%s)", a.pr.pos(c.Pos())))
					} else if wid, ok := as.Lhs[0].(*ast.Ident); ok {
						// every other use of w inside the closure is `w.method(...)`
						var st2 []ast.Node
						ast.Inspect(scope, func(m ast.Node) bool {
							if m == nil {
								st2 = st2[:len(st2)-1]
								return true
							}
							if id2, ok := m.(*ast.Ident); ok && id2.Obj == wid.Obj && id2 != wid {
								okUse := false
								if len(st2) >= 2 {
									if se, ok := st2[len(st2)-1].(*ast.SelectorExpr); ok && se.X == ast.Expr(id2) {
										if ce, ok := st2[len(st2)-2].(*ast.CallExpr); ok && ce.Fun == ast.Expr(se) {
											okUse = true
										}
									}
								}
								if !okUse {
									problems = append(problems, fmt.Sprintf("worker variable escapes (%s)", a.pr.pos(id2.Pos())))
								}
							}
							st2 = append(st2, m)
							return true
						})
					}
				}
			}
			stack = append(stack, n)
			return true
		})
	}
	// no method of worker starts a goroutine or stores the receiver
	for _, fis := range p.funcs {
		for _, fi := range fis {
			if fi.recv != "worker" || fi.fd.Body == nil {
				continue
			}
			ast.Inspect(fi.fd.Body, func(n ast.Node) bool {
				if g, ok := n.(*ast.GoStmt); ok {
					problems = append(problems, fmt.Sprintf("worker.%s starts a goroutine (%s)", fi.fd.Name.Name, a.pr.pos(g.Pos())))
				}
				return true
			})
		}
	}
	if nLit != 1 || nCalls == 0 {
		problems = append(problems, fmt.Sprintf("worker: %d literals, %d newWorker calls", nLit, nCalls))
	}
	if len(problems) > 0 {
		for _, pr := range problems {
			a.unresolved = append(a.unresolved, "scanner.worker confinement: "+pr)
		}
		return
	}
	a.workerOK = "worker-local: scanner.worker objects are built only by newWorker, which is only called as `w := newWorker(…)` with w a variable local to the calling function body / per-partition go closure; w is used there only as a method receiver and no worker method starts a goroutine, so a worker never leaves the goroutine that created it (checked by the extractor)"
	a.protocols = append(a.protocols, "scanner.worker: "+a.workerOK)
}

type tableRow struct {
	file          string
	line          int
	fn, field     string
	write, atomic bool
	held, heldW   []string
	confined      bool
	note          string
}

func genLockTable() {
	pr := loadProgram()
	a := &la{pr: pr, mxh: &mx{pr: pr}, specs: map[string][]*locSpec{}, variants: map[*funcInfo][]*fnVariant{}, edgesByName: map[string][]*callEdge{}}
	for _, s := range lockSpecs {
		p := pr.pkgs[s.dir]
		if p == nil {
			a.unresolved = append(a.unresolved, "tracked package missing: "+s.dir)
			continue
		}
		st, ok := p.structs[s.typ]
		has := false
		if ok {
			for _, f := range st.Fields.List {
				for _, n := range f.Names {
					if n.Name == s.field {
						has = true
					}
				}
			}
		}
		if !has {
			a.unresolved = append(a.unresolved, fmt.Sprintf("tracked location %s.%s.%s does not exist any more", s.dir, s.typ, s.field))
			continue
		}
		a.specs[s.field] = append(a.specs[s.field], s)
	}
	a.checkProtocol()
	a.checkWorkerConfinement()
	for _, fi := range pr.funcsSorted() {
		a.analyseFunc(fi)
	}
	var rows []tableRow
	seenLoc := map[string]bool{}
	for _, fi := range pr.funcsSorted() {
		for _, v := range a.variants[fi] {
			if len(v.accesses) == 0 {
				continue
			}
			entry := a.entryHeld(v)
			for _, ra := range v.accesses {
				eff := effective(entry, ra.st, ra.detached)
				row := tableRow{file: fi.file.rel, line: pr.line(ra.pos), fn: ra.label, field: ra.spec.leanName(pr), write: ra.write, atomic: ra.atomic}
				var notes []string
				var names []string
				for k := range eff {
					names = append(names, k)
				}
				sort.Strings(names)
				for _, k := range names {
					h := eff[k]
					row.held = append(row.held, k)
					if h.write {
						row.heldW = append(row.heldW, k)
					}
					mode := "R"
					if h.write {
						mode = "W"
					}
					notes = append(notes, fmt.Sprintf("%s:%s via %s (%s)", k, mode, h.base, h.via))
				}
				if ra.confined != "" {
					row.confined = true
					notes = append(notes, ra.confined)
				}
				if ra.spec.worker && a.workerOK != "" {
					row.confined = true
					notes = append(notes, "worker-local (see lockTableProtocols)")
				}
				notes = append(notes, "location via "+ra.base)
				row.note = strings.Join(notes, "; ")
				rows = append(rows, row)
				seenLoc[row.field] = true
			}
		}
	}
	sort.SliceStable(rows, func(i, j int) bool {
		if rows[i].field != rows[j].field {
			return rows[i].field < rows[j].field
		}
		if rows[i].file != rows[j].file {
			return rows[i].file < rows[j].file
		}
		if rows[i].line != rows[j].line {
			return rows[i].line < rows[j].line
		}
		return rows[i].fn < rows[j].fn
	})
	// identical rows (same position reached through the same variant twice, e.g. loop re-walks) are merged
	var dedup []tableRow
	seen := map[string]bool{}
	for _, r := range rows {
		k := fmt.Sprintf("%s|%d|%s|%s|%v|%v|%s|%s|%v", r.file, r.line, r.fn, r.field, r.write, r.atomic, strings.Join(r.held, ","), strings.Join(r.heldW, ","), r.confined)
		if !seen[k] {
			seen[k] = true
			dedup = append(dedup, r)
		}
	}
	rows = dedup
	var locs []string
	for _, s := range lockSpecs {
		if pr.pkgs[s.dir] != nil {
			locs = append(locs, s.leanName(pr))
			if !seenLoc[s.leanName(pr)] {
				a.unresolved = append(a.unresolved, "tracked location "+s.leanName(pr)+" has no access in the program")
			}
		}
	}
	sort.Strings(a.unresolved)
	a.unresolved = uniq(a.unresolved)

	var sb strings.Builder
	sb.WriteString("-- GENERATED by kbextract (harness/cmd/kbextract/locks.go) from the current /repo tree — do not edit;\n")
	sb.WriteString("-- rewritten on every check run. One entry per syntactic access to a tracked shared location.\n")
	sb.WriteString("import KB.Locks\nnamespace KB.Generated\nopen KB KB.Locks\n\n")
	sb.WriteString("def lockTable : List Access := [\n")
	for i, r := range rows {
		acc, mode := "read", "plain"
		if r.write {
			acc = "write"
		}
		if r.atomic {
			mode = "atomic"
		}
		comma := ","
		if i == len(rows)-1 {
			comma = ""
		}
		fmt.Fprintf(&sb, "  { file := %s, line := %d, func := %s, field := %s, access := .%s, mode := .%s, locksHeld := %s, locksWrite := %s, readLockOnly := %v, threadConfined := %v,\n    note := %s }%s\n",
			leanLit(r.file), r.line, leanLit(r.fn), leanName(r.field), acc, mode, leanNameList(r.held), leanNameList(r.heldW),
			len(r.held) > 0 && len(r.heldW) == 0, r.confined, leanLit(r.note), comma)
	}
	sb.WriteString("]\n\n")
	fmt.Fprintf(&sb, "/-- the locations the extractor tracks -/\ndef lockTableLocations : List Name := %s\n\n", leanNameList(locs))
	fmt.Fprintf(&sb, "/-- protocol / confinement facts established structurally by the extractor -/\ndef lockTableProtocols : List String := %s\n\n", leanLitList(a.protocols))
	fmt.Fprintf(&sb, "def lockTableUnresolved : List String := %s\n", leanLitList(a.unresolved))
	sb.WriteString("end KB.Generated\n")
	writeOut("LockTable.lean", sb.String())
}
