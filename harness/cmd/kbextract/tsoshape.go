package main

// SHAPE facts for the revision allocator pkg/backend/tso/tso.go: they pin exactly what the
// atomic-instruction LTS KB.TsoCas (lean/KB/TsoCas.lean) assumes of the source, so that any rewrite of
// tso.go changes a regenerated definition and stops `KB.C18Cas.source_matches_lts` from checking.
//
//	tsoCommitShape                the top-level statements of naiveTSO.Commit, in order, each normalised to one token:
//	                                raiseLoop:F   for { x := atomic.LoadUint64(&n.F)
//	                                                    if x >= revision || atomic.CompareAndSwapUint64(&n.F, x, revision) { break } }
//	                                store:F       atomic.StoreUint64(&n.F, revision)
//	                                load:F        x := atomic.LoadUint64(&n.F)
//	                                casIfBelow:F  if x < revision { atomic.CompareAndSwapUint64(&n.F, x, revision) }   (x loaded from F just before)
//	                                ?<what>       anything else (also listed in tsoShapeUnresolved)
//	tsoInitShape                  the same for naiveTSO.Init
//	tsoDealShape                  naiveTSO.Deal's body, normalised the same way:
//	                                loop{ … }     for { … } without init / condition / post, around the tokens of its statements
//	                                load:F        x := atomic.LoadUint64(&n.F)
//	                                refuseIfWindowFull:K   if d >= c && d+1-c >= K { return 0, <package-level errors.New var> }
//	                                              (d: the variable loaded from dealRevision, c: the one loaded from committedRevision,
//	                                               K: a package-level constant)
//	                                casIncReturn:F  if atomic.CompareAndSwapUint64(&n.F, d, d+1) { return d + 1, nil }   (F = dealRevision)
//	                                returnAdd1:F  return atomic.AddUint64(&n.F, 1), <named result | nil>   (the routine before 624b477)
//	tsoMaxInFlight                the value of the constant MaxInFlight (the window the LTS is instantiated with; required to
//	                              equal the backend's slot ring KB.Generated.watchersChanCapacity by source_matches_lts)
//	tsoGetIsAtomicLoad            GetRevision's body is `return atomic.LoadUint64(&n.committedRevision)`
//	tsoRegistersOnlyTouchedInTso  the two (unexported) fields are named nowhere in package tso except in their
//	                              declaration (as uint64) and as `&n.F` first argument of a sync/atomic call inside the four
//	                              methods above; no composite literal of naiveTSO sets a field; no `*p = …` assignment,
//	                              no unsafe / reflect import in the package
//	tsoInitCallSites              number of one-argument `.Init(x)` calls in the non-test code of /repo/pkg and /repo/cmd
//	                              (an over-approximation of the calls of TSO.Init: the LTS has no Init step)
//
// Purely syntactic and fail closed: whatever is not recognised is reported in tsoShapeUnresolved.

import (
	"fmt"
	"go/ast"
	"go/token"
	"sort"
	"strings"
)

const (
	tsoDir      = "pkg/backend/tso"
	tsoFile     = "pkg/backend/tso/tso.go"
	tsoType     = "naiveTSO"
	tsoFieldC   = "committedRevision"
	tsoFieldD   = "dealRevision"
	atomicsPath = "sync/atomic"
)

type tsoMethod struct {
	fd     *ast.FuncDecl
	recv   string // receiver variable
	atomic string // local name of sync/atomic in the method's file
	allow  map[*ast.Ident]bool
}

func isIdent(e ast.Expr, name string) bool {
	id, ok := e.(*ast.Ident)
	return ok && name != "" && id.Name == name
}

// atomicCall recognises `<atomic>.<Op>(&<recv>.<field>, args...)` and returns Op, field and the remaining args.
func (m *tsoMethod) atomicCall(e ast.Expr) (op, field string, rest []ast.Expr, ok bool) {
	c, isC := e.(*ast.CallExpr)
	if !isC || len(c.Args) == 0 || c.Ellipsis != token.NoPos {
		return
	}
	se, isS := c.Fun.(*ast.SelectorExpr)
	if !isS || !isIdent(se.X, m.atomic) {
		return
	}
	u, isU := c.Args[0].(*ast.UnaryExpr)
	if !isU || u.Op != token.AND {
		return
	}
	fs, isF := u.X.(*ast.SelectorExpr)
	if !isF || !isIdent(fs.X, m.recv) {
		return
	}
	if fs.Sel.Name != tsoFieldC && fs.Sel.Name != tsoFieldD {
		return
	}
	m.allow[fs.Sel] = true
	return se.Sel.Name, fs.Sel.Name, c.Args[1:], true
}

// shape normalises the top-level statements of a method body whose single parameter is `param`.
func (m *tsoMethod) shape(param string) (toks []string, bad []string) {
	lastLoadVar, lastLoadField := "", ""
	for _, st := range m.fd.Body.List {
		tok := ""
		loadVar, loadField := "", ""
		switch s := st.(type) {
		case *ast.ForStmt:
			if s.Init == nil && s.Cond == nil && s.Post == nil && len(s.Body.List) == 2 {
				as, ok1 := s.Body.List[0].(*ast.AssignStmt)
				is, ok2 := s.Body.List[1].(*ast.IfStmt)
				if ok1 && ok2 && as.Tok == token.DEFINE && len(as.Lhs) == 1 && len(as.Rhs) == 1 &&
					is.Init == nil && is.Else == nil && len(is.Body.List) == 1 {
					x, okx := as.Lhs[0].(*ast.Ident)
					op, f, rest, okc := m.atomicCall(as.Rhs[0])
					br, okb := is.Body.List[0].(*ast.BranchStmt)
					cond, oko := is.Cond.(*ast.BinaryExpr)
					if okx && okc && op == "LoadUint64" && len(rest) == 0 && okb && br.Tok == token.BREAK && br.Label == nil &&
						oko && cond.Op == token.LOR && x.Name != param && x.Name != m.recv && x.Name != "_" {
						ge, okg := cond.X.(*ast.BinaryExpr)
						op2, f2, rest2, okc2 := m.atomicCall(cond.Y)
						if okg && ge.Op == token.GEQ && isIdent(ge.X, x.Name) && isIdent(ge.Y, param) &&
							okc2 && op2 == "CompareAndSwapUint64" && f2 == f && len(rest2) == 2 &&
							isIdent(rest2[0], x.Name) && isIdent(rest2[1], param) {
							tok = "raiseLoop:" + f
						}
					}
				}
			}
		case *ast.ExprStmt:
			if op, f, rest, ok := m.atomicCall(s.X); ok && op == "StoreUint64" && len(rest) == 1 && isIdent(rest[0], param) {
				tok = "store:" + f
			}
		case *ast.AssignStmt:
			if s.Tok == token.DEFINE && len(s.Lhs) == 1 && len(s.Rhs) == 1 {
				x, okx := s.Lhs[0].(*ast.Ident)
				if op, f, rest, ok := m.atomicCall(s.Rhs[0]); ok && okx && op == "LoadUint64" && len(rest) == 0 &&
					x.Name != param && x.Name != m.recv && x.Name != "_" {
					tok = "load:" + f
					loadVar, loadField = x.Name, f
				}
			}
		case *ast.IfStmt:
			if s.Init == nil && s.Else == nil && len(s.Body.List) == 1 {
				cond, okc := s.Cond.(*ast.BinaryExpr)
				es, oke := s.Body.List[0].(*ast.ExprStmt)
				if okc && oke && cond.Op == token.LSS && isIdent(cond.X, lastLoadVar) && isIdent(cond.Y, param) {
					if op, f, rest, ok := m.atomicCall(es.X); ok && op == "CompareAndSwapUint64" && f == lastLoadField &&
						len(rest) == 2 && isIdent(rest[0], lastLoadVar) && isIdent(rest[1], param) {
						tok = "casIfBelow:" + f
					}
				}
			}
		}
		if tok == "" {
			tok = fmt.Sprintf("?%T", st)
			tok = strings.Replace(tok, "*ast.", "", 1)
			bad = append(bad, fmt.Sprintf("tso.go:%s statement %s", m.fd.Name.Name, tok))
		}
		toks = append(toks, tok)
		lastLoadVar, lastLoadField = loadVar, loadField
	}
	return
}

func isIntLit(e ast.Expr, v string) bool {
	lit, ok := e.(*ast.BasicLit)
	return ok && lit.Kind == token.INT && lit.Value == v
}

// isPlusOne recognises `<x> + 1`
func isPlusOne(e ast.Expr, x string) bool {
	be, ok := e.(*ast.BinaryExpr)
	return ok && be.Op == token.ADD && isIdent(be.X, x) && isIntLit(be.Y, "1")
}

// dealShape normalises the body of Deal (see the file comment for the tokens).
func (m *tsoMethod) dealShape(p *pkgInfo) (toks []string, bad []string) {
	unknown := func(st ast.Stmt) {
		tok := strings.Replace(fmt.Sprintf("?%T", st), "*ast.", "", 1)
		toks = append(toks, tok)
		bad = append(bad, "tso.go:Deal statement "+tok)
	}
	if len(m.fd.Body.List) != 1 {
		for _, st := range m.fd.Body.List {
			unknown(st)
		}
		if len(m.fd.Body.List) == 0 {
			bad = append(bad, "tso.go:Deal empty body")
		}
		return
	}
	switch top := m.fd.Body.List[0].(type) {
	case *ast.ReturnStmt:
		// return atomic.AddUint64(&n.dealRevision, 1), err   (err: the named, never assigned error result; or nil)
		if len(top.Results) == 2 {
			op, f, rest, okc := m.atomicCall(top.Results[0])
			errName := ""
			if res := m.fd.Type.Results; res != nil && len(res.List) == 2 && len(res.List[1].Names) == 1 && isIdent(res.List[1].Type, "error") {
				errName = res.List[1].Names[0].Name
			}
			second := isIdent(top.Results[1], "nil") || (errName != "" && errName != "_" && isIdent(top.Results[1], errName))
			if okc && op == "AddUint64" && len(rest) == 1 && isIntLit(rest[0], "1") && second {
				toks = append(toks, "returnAdd1:"+f)
				return
			}
		}
		unknown(top)
	case *ast.ForStmt:
		if top.Init != nil || top.Cond != nil || top.Post != nil {
			unknown(top)
			return
		}
		toks = append(toks, "loop{")
		loaded := map[string]string{} // field -> variable holding its last loaded value
		used := map[string]bool{m.recv: true, "_": true}
		for _, st := range top.Body.List {
			tok := ""
			switch s := st.(type) {
			case *ast.AssignStmt:
				if s.Tok == token.DEFINE && len(s.Lhs) == 1 && len(s.Rhs) == 1 {
					x, okx := s.Lhs[0].(*ast.Ident)
					if op, f, rest, ok := m.atomicCall(s.Rhs[0]); ok && okx && op == "LoadUint64" && len(rest) == 0 && !used[x.Name] {
						tok = "load:" + f
						loaded[f] = x.Name
						used[x.Name] = true
					}
				}
			case *ast.IfStmt:
				if s.Init != nil || s.Else != nil || len(s.Body.List) != 1 {
					break
				}
				rs, okr := s.Body.List[0].(*ast.ReturnStmt)
				if !okr || len(rs.Results) != 2 {
					break
				}
				d, c := loaded[tsoFieldD], loaded[tsoFieldC]
				if cond, ok := s.Cond.(*ast.BinaryExpr); ok && cond.Op == token.LAND && d != "" && c != "" {
					// d >= c && d+1-c >= K  →  return 0, <errors.New var>
					ge, ok1 := cond.X.(*ast.BinaryExpr)
					wk, ok2 := cond.Y.(*ast.BinaryExpr)
					if ok1 && ok2 && ge.Op == token.GEQ && isIdent(ge.X, d) && isIdent(ge.Y, c) && wk.Op == token.GEQ {
						sub, ok3 := wk.X.(*ast.BinaryExpr)
						k, ok4 := wk.Y.(*ast.Ident)
						errV, ok5 := rs.Results[1].(*ast.Ident)
						if ok3 && ok4 && ok5 && sub.Op == token.SUB && isPlusOne(sub.X, d) && isIdent(sub.Y, c) &&
							!p.topIsVar[k.Name] && p.topVals[k.Name] != nil && !used[k.Name] && isIntLit(rs.Results[0], "0") &&
							p.topIsVar[errV.Name] && !used[errV.Name] {
							if call, isC := p.topVals[errV.Name].(*ast.CallExpr); isC && typeName(call.Fun) == "errors.New" {
								tok = "refuseIfWindowFull:" + k.Name
							}
						}
					}
				} else if op, f, rest, okc := m.atomicCall(s.Cond); okc && op == "CompareAndSwapUint64" && f == tsoFieldD && d != "" &&
					len(rest) == 2 && isIdent(rest[0], d) && isPlusOne(rest[1], d) &&
					isPlusOne(rs.Results[0], d) && isIdent(rs.Results[1], "nil") {
					tok = "casIncReturn:" + f
				}
			}
			if tok == "" {
				unknown(st)
				continue
			}
			toks = append(toks, tok)
		}
		toks = append(toks, "}")
	default:
		unknown(top)
	}
	return
}

func genTsoShapeFacts(sb *strings.Builder) {
	var unresolved []string
	pr := loadProgram()
	p := pr.pkgs[tsoDir]
	commitShape, initShape := []string{}, []string{}
	getOK, onlyHere := false, false
	dealShape := []string{}
	maxInFlight := 0
	mentions := 0
	if p == nil {
		unresolved = append(unresolved, "package "+tsoDir+" not found")
	} else {
		onlyHere = true
		// the four methods, all in tso.go
		meth := map[string]*tsoMethod{}
		for _, name := range []string{"GetRevision", "Deal", "Commit", "Init"} {
			var found *tsoMethod
			n := 0
			for _, fi := range p.funcs[name] {
				if fi.recv != tsoType {
					continue
				}
				n++
				m := &tsoMethod{fd: fi.fd, allow: map[*ast.Ident]bool{}}
				if fi.file.rel != tsoFile || fi.fd.Body == nil || len(fi.fd.Recv.List[0].Names) != 1 {
					continue
				}
				if _, ptr := fi.fd.Recv.List[0].Type.(*ast.StarExpr); !ptr {
					continue
				}
				m.recv = fi.fd.Recv.List[0].Names[0].Name
				for local, path := range fi.file.imports {
					if path == atomicsPath {
						m.atomic = local
					}
				}
				if m.atomic == "" || m.atomic == "." || m.atomic == "_" || m.recv == "_" {
					continue
				}
				found = m
			}
			if found == nil || n != 1 {
				unresolved = append(unresolved, "tso.go:"+tsoType+"."+name)
				continue
			}
			meth[name] = found
		}
		oneParam := func(fd *ast.FuncDecl) string {
			if fd.Type.Params == nil || len(fd.Type.Params.List) != 1 || len(fd.Type.Params.List[0].Names) != 1 ||
				!isIdent(fd.Type.Params.List[0].Type, "uint64") {
				return ""
			}
			return fd.Type.Params.List[0].Names[0].Name
		}
		if m := meth["Commit"]; m != nil {
			param := oneParam(m.fd)
			if param == "" || param == "_" || (m.fd.Type.Results != nil && len(m.fd.Type.Results.List) != 0) {
				unresolved = append(unresolved, "tso.go:Commit signature")
			} else {
				var bad []string
				commitShape, bad = m.shape(param)
				unresolved = append(unresolved, bad...)
			}
		}
		if m := meth["Init"]; m != nil {
			param := oneParam(m.fd)
			if param == "" || param == "_" || (m.fd.Type.Results != nil && len(m.fd.Type.Results.List) != 0) {
				unresolved = append(unresolved, "tso.go:Init signature")
			} else {
				var bad []string
				initShape, bad = m.shape(param)
				unresolved = append(unresolved, bad...)
			}
		}
		noParams := func(fd *ast.FuncDecl) bool { return fd.Type.Params == nil || len(fd.Type.Params.List) == 0 }
		if m := meth["Deal"]; m != nil && noParams(m.fd) {
			var bad []string
			dealShape, bad = m.dealShape(p)
			unresolved = append(unresolved, bad...)
		} else if m != nil {
			unresolved = append(unresolved, "tso.go:Deal signature")
		}
		if e, ok := p.topVals["MaxInFlight"]; ok && !p.topIsVar["MaxInFlight"] {
			if n, ok2 := evalInt(e, p.topVals, 0); ok2 && n >= 0 {
				maxInFlight = int(n)
			} else {
				unresolved = append(unresolved, "tso.go: const MaxInFlight value")
			}
		} else {
			unresolved = append(unresolved, "tso.go: const MaxInFlight")
		}
		if m := meth["GetRevision"]; m != nil && noParams(m.fd) && len(m.fd.Body.List) == 1 {
			if rs, ok := m.fd.Body.List[0].(*ast.ReturnStmt); ok && len(rs.Results) == 1 {
				op, f, rest, okc := m.atomicCall(rs.Results[0])
				getOK = okc && op == "LoadUint64" && f == tsoFieldC && len(rest) == 0
			}
		}
		// every atomic access inside the four methods is an allowed mention (their order and kind is pinned by the shapes);
		// nested ones the shape recogniser did not reach are collected here so that the mention count below is exact
		allowed := map[*ast.Ident]bool{}
		for _, m := range meth {
			ast.Inspect(m.fd.Body, func(n ast.Node) bool {
				if e, ok := n.(ast.Expr); ok {
					m.atomicCall(e)
				}
				return true
			})
			for id := range m.allow {
				allowed[id] = true
			}
		}
		// the declaration: two uint64 fields, nothing else, no embedding
		if st := p.structs[tsoType]; st == nil || st.Fields == nil {
			unresolved = append(unresolved, "tso.go: struct "+tsoType)
			onlyHere = false
		} else {
			var names []string
			for _, fl := range st.Fields.List {
				if !isIdent(fl.Type, "uint64") || len(fl.Names) == 0 {
					onlyHere = false
				}
				for _, n := range fl.Names {
					names = append(names, n.Name)
					allowed[n] = true
				}
			}
			sort.Strings(names)
			if strings.Join(names, ",") != tsoFieldC+","+tsoFieldD {
				onlyHere = false
				unresolved = append(unresolved, "tso.go: fields of "+tsoType+" = "+strings.Join(names, ","))
			}
		}
		// every file of the package
		for _, sf := range p.files {
			for _, path := range sf.imports {
				if path == "unsafe" || path == "reflect" {
					onlyHere = false
					unresolved = append(unresolved, sf.rel+": imports "+path)
				}
			}
			ast.Inspect(sf.f, func(n ast.Node) bool {
				switch x := n.(type) {
				case *ast.Ident:
					if x.Name == tsoFieldC || x.Name == tsoFieldD {
						mentions++
						if !allowed[x] {
							onlyHere = false
						}
					}
				case *ast.CompositeLit:
					if len(x.Elts) != 0 && (x.Type == nil || typeName(x.Type) == tsoType) {
						onlyHere = false
					}
				case *ast.AssignStmt:
					for _, l := range x.Lhs {
						if _, isStar := l.(*ast.StarExpr); isStar {
							onlyHere = false
						}
					}
				}
				return true
			})
		}
	}
	// calls of an Init method anywhere in the non-test code
	initCalls := 0
	for _, dir := range pr.dirs {
		for _, sf := range pr.pkgs[dir].files {
			ast.Inspect(sf.f, func(n ast.Node) bool {
				if c, ok := n.(*ast.CallExpr); ok && len(c.Args) == 1 {
					if se, isS := c.Fun.(*ast.SelectorExpr); isS && se.Sel.Name == "Init" {
						initCalls++
					}
				}
				return true
			})
		}
	}
	fmt.Fprintf(sb, "def tsoCommitShape : List String := %s\n", leanStrList(commitShape))
	fmt.Fprintf(sb, "def tsoInitShape : List String := %s\n", leanStrList(initShape))
	fmt.Fprintf(sb, "def tsoDealShape : List String := %s\n", leanStrList(dealShape))
	fmt.Fprintf(sb, "def tsoMaxInFlight : Nat := %d\n", maxInFlight)
	fmt.Fprintf(sb, "def tsoGetIsAtomicLoad : Bool := %v\n", getOK)
	fmt.Fprintf(sb, "def tsoRegistersOnlyTouchedInTso : Bool := %v\n", onlyHere)
	fmt.Fprintf(sb, "def tsoRegisterMentions : Nat := %d\n", mentions)
	fmt.Fprintf(sb, "def tsoInitCallSites : Nat := %d\n", initCalls)
	fmt.Fprintf(sb, "def tsoShapeUnresolved : List String := %s\n", leanStrList(unresolved))
}
