package main

// Re-entrant lock acquisition (C19/C20: a node must not wedge itself).
//
// For every method of a type in /repo/pkg (non-test code) the analysis records which mutex FIELDS OF ITS RECEIVER it
// acquires itself (`recv.f.Lock()` / `recv.f.RLock()`, also through one embedded selector `recv.a.f`). Then, for every
// method, every call `recv.other(...)` that is made WHILE the method holds such a mutex and whose callee acquires the
// SAME receiver mutex is reported:
//
//	lockReentrantCalls : List String     e.g. "election.resourceLock.Describe -> holder under mu"
//
// sync.Mutex is not re-entrant (self-deadlock at once); sync.RWMutex read locks are not either (a writer arriving between
// the two RLocks blocks the second one forever). "While it holds": lexically, from the (R)Lock statement to the matching
// (R)Unlock statement of the same statement list, or to the end of the function when the unlock is deferred. Calls inside
// `go` statements and function literals are not counted (they run elsewhere). Purely syntactic, receiver-based; a method
// value passed around or a call through an interface is not seen (the race/wedge runs of C19/C20 cover those).

import (
	"fmt"
	"go/ast"
	"go/parser"
	"go/token"
	"os"
	"path/filepath"
	"sort"
	"strings"
)

type reMethod struct {
	pkg, typ, name string
	recv           string
	fd             *ast.FuncDecl
	acquires       map[string]bool // receiver mutex paths ("mu", "store.mu") locked directly in the body
}

func recvTypeName(fd *ast.FuncDecl) (recv, typ string) {
	if fd.Recv == nil || len(fd.Recv.List) != 1 || len(fd.Recv.List[0].Names) != 1 {
		return "", ""
	}
	t := fd.Recv.List[0].Type
	if s, ok := t.(*ast.StarExpr); ok {
		t = s.X
	}
	if id, ok := t.(*ast.Ident); ok {
		return fd.Recv.List[0].Names[0].Name, id.Name
	}
	return "", ""
}

// lockOp recognises `<recv>.<path>.(Lock|RLock|Unlock|RUnlock)()` and returns the path and the operation.
func lockOp(e ast.Expr, recv string) (path, op string, ok bool) {
	c, isC := e.(*ast.CallExpr)
	if !isC || len(c.Args) != 0 {
		return
	}
	se, isS := c.Fun.(*ast.SelectorExpr)
	if !isS {
		return
	}
	switch se.Sel.Name {
	case "Lock", "RLock", "Unlock", "RUnlock":
	default:
		return
	}
	var parts []string
	x := se.X
	for {
		switch t := x.(type) {
		case *ast.SelectorExpr:
			parts = append([]string{t.Sel.Name}, parts...)
			x = t.X
			continue
		case *ast.Ident:
			if t.Name != recv || len(parts) == 0 {
				return
			}
			return strings.Join(parts, "."), se.Sel.Name, true
		}
		return
	}
}

func genReentrantFacts(sb *strings.Builder) {
	var methods []*reMethod
	byKey := map[string]*reMethod{}
	root := filepath.Join(repo, "pkg")
	_ = filepath.Walk(root, func(path string, info os.FileInfo, err error) error {
		if err != nil || info.IsDir() || !strings.HasSuffix(path, ".go") || strings.HasSuffix(path, "_test.go") {
			return nil
		}
		fset := token.NewFileSet()
		f, perr := parser.ParseFile(fset, path, nil, 0)
		if perr != nil {
			return nil
		}
		rel, _ := filepath.Rel(repo, filepath.Dir(path))
		for _, d := range f.Decls {
			fd, ok := d.(*ast.FuncDecl)
			if !ok || fd.Body == nil {
				continue
			}
			recv, typ := recvTypeName(fd)
			if recv == "" || recv == "_" {
				continue
			}
			m := &reMethod{pkg: rel, typ: typ, name: fd.Name.Name, recv: recv, fd: fd, acquires: map[string]bool{}}
			ast.Inspect(fd.Body, func(n ast.Node) bool {
				switch n.(type) {
				case *ast.FuncLit, *ast.GoStmt:
					return false
				}
				if e, ok := n.(ast.Expr); ok {
					if p, op, ok := lockOp(e, recv); ok && (op == "Lock" || op == "RLock") {
						m.acquires[p] = true
					}
				}
				return true
			})
			methods = append(methods, m)
			byKey[rel+"|"+typ+"|"+fd.Name.Name] = m
		}
		return nil
	})
	var found []string
	for _, m := range methods {
		// walk statement lists; `held` = receiver mutex paths held at this point (lexically)
		var walk func(list []ast.Stmt, held map[string]bool)
		check := func(n ast.Node, held map[string]bool) {
			if len(held) == 0 {
				return
			}
			ast.Inspect(n, func(q ast.Node) bool {
				switch q.(type) {
				case *ast.FuncLit, *ast.GoStmt, *ast.DeferStmt:
					return false
				}
				c, ok := q.(*ast.CallExpr)
				if !ok {
					return true
				}
				se, isS := c.Fun.(*ast.SelectorExpr)
				if !isS {
					return true
				}
				if id, isI := se.X.(*ast.Ident); isI && id.Name == m.recv {
					if callee := byKey[m.pkg+"|"+m.typ+"|"+se.Sel.Name]; callee != nil {
						for p := range callee.acquires {
							if held[p] {
								found = append(found, fmt.Sprintf("%s.%s.%s -> %s under %s", filepath.Base(m.pkg), m.typ, m.name, callee.name, p))
							}
						}
					}
				}
				return true
			})
		}
		walk = func(list []ast.Stmt, held map[string]bool) {
			cur := map[string]bool{}
			for k := range held {
				cur[k] = true
			}
			for _, st := range list {
				switch t := st.(type) {
				case *ast.ExprStmt:
					if p, op, ok := lockOp(t.X, m.recv); ok {
						if op == "Lock" || op == "RLock" {
							cur[p] = true
						} else {
							delete(cur, p)
						}
						continue
					}
					check(t, cur)
				case *ast.DeferStmt:
					// a deferred unlock keeps the lock to the end of the function: nothing to do
				case *ast.BlockStmt:
					walk(t.List, cur)
				case *ast.IfStmt:
					if t.Init != nil {
						check(t.Init, cur)
					}
					check(t.Cond, cur)
					walk(t.Body.List, cur)
					if t.Else != nil {
						if b, ok := t.Else.(*ast.BlockStmt); ok {
							walk(b.List, cur)
						} else {
							walk([]ast.Stmt{t.Else}, cur)
						}
					}
				case *ast.ForStmt:
					if t.Cond != nil {
						check(t.Cond, cur)
					}
					walk(t.Body.List, cur)
				case *ast.RangeStmt:
					check(t.X, cur)
					walk(t.Body.List, cur)
				case *ast.SwitchStmt:
					if t.Tag != nil {
						check(t.Tag, cur)
					}
					for _, cc := range t.Body.List {
						if c, ok := cc.(*ast.CaseClause); ok {
							walk(c.Body, cur)
						}
					}
				case *ast.SelectStmt:
					for _, cc := range t.Body.List {
						if c, ok := cc.(*ast.CommClause); ok {
							walk(c.Body, cur)
						}
					}
				default:
					check(st, cur)
				}
			}
		}
		walk(m.fd.Body.List, map[string]bool{})
	}
	sort.Strings(found)
	uniq := found[:0]
	for i, f := range found {
		if i == 0 || f != found[i-1] {
			uniq = append(uniq, f)
		}
	}
	qs := make([]string, len(uniq))
	for i, u := range uniq {
		qs[i] = leanStr(u)
	}
	fmt.Fprintf(sb, "/-- calls of a method that acquires a receiver mutex, made while the caller holds that same mutex (reentrant.go) -/\n")
	fmt.Fprintf(sb, "def lockReentrantCalls : List String := [%s]\n", strings.Join(qs, ", "))
	fmt.Fprintf(sb, "def lockReentrantMethodsScanned : Nat := %d\n", len(methods))
}
