package main

func genMetricSites() {}
func genLockTable()   {}
