package main

func genMetricSites()   {}
func genHandlerGuards() {}
func genLockTable()     {}
