package main

// Placeholders; the real extractors are in metrics.go / guards.go / locks.go.
