package main

// genMetricSites — C20 (metrics part).  Emits KB/Generated/MetricSites.lean: one entry per metric
// emission call site (`X.EmitCounter/EmitGauge/EmitHistogram(name, value, tags...)`) of the program
// (/repo/pkg and /repo/cmd, non-test files) and per resolved (name, label-name list) variant of it.
//
// What is resolved, syntactically (go/ast only, fail closed — anything else lands in
// `metricSitesUnresolved` and the Lean theorem requires that list to be empty):
//   name    string literals, constants (same package, any file; other packages of the repo through the
//           import), `+` of those, parameters of the enclosing function (resolved through EVERY caller of
//           that function, transitively up to depth 4; the function must never be used as a value);
//   labels  metrics.Tag(<name>, _), metrics.T{Name: <name>}, package-level tag variables (never
//           reassigned), local variables (ALL their assignments in the function; a `var x metrics.T`
//           without initialiser must be definitely assigned before the call on every branch), calls of
//           same-package functions returning a tag (all return statements), parameters (through callers);
//   values  each label VALUE is classified: compile-time constant (valid UTF-8), strconv.Format*/Itoa
//           (ASCII), sanitised (`strings.ToValidUTF8(x, r)`: any run-time data, valid UTF-8 by construction;
//           the label is listed in `sanitisedLabels`), or dynamic (run-time data; the label is then listed in `dynamicLabels` with the source
//           expression in `dynamicValues`) — client_golang panics on a label value that is not valid UTF-8;
//   spreads `xs...`: slice literals, local slices built by straight-line `append`s at the top level of the
//           function body, struct fields (every composite literal of the owning struct type and every
//           assignment to a field of that name in the package), variadic parameters (through callers).
// Sites inside plain functions that no non-test code of the program references (transitively) are
// listed in `metricSitesDead` instead (at present: prometheus.emitMetrics, the Prometheus→other-client
// re-emitter, reachable only from its unit test); a reference added anywhere makes them unresolved.
// `metricGlobalLabels` has one entry per `prometheus.NewMetrics(...)` call site: the label names that
// the wrapper prepends to every vector.

import (
	"fmt"
	"go/ast"
	"go/printer"
	"go/token"
	"sort"
	"strings"
	"unicode/utf8"
)

type resErr struct {
	need bool // parameters of the outermost frame are needed: expand through its callers
	msg  string
}

func errf(format string, a ...interface{}) *resErr { return &resErr{msg: fmt.Sprintf(format, a...)} }

type mframe struct {
	fi   *funcInfo
	call *ast.CallExpr // the call (located in the next frame's function) that invokes fi; nil = unknown
}

type menv struct {
	p      *pkgInfo
	fi     *funcInfo // nil at package level
	frames []mframe  // frames[0].fi == fi when fi != nil
	cur    map[*ast.Object][][]string
	depth  int
}

type mx struct {
	pr         *program
	unresolved []string
}

const maxResolveDepth = 40

func (x *mx) pkgEnv(p *pkgInfo, depth int) menv { return menv{p: p, depth: depth + 1} }

func isMetricsPkgPath(ip string) bool { return strings.HasSuffix(ip, "/pkg/metrics") }

func (x *mx) fileOf(p *pkgInfo, pos token.Pos) *srcFile {
	for _, sf := range p.files {
		if sf.f.Pos() <= pos && pos < sf.f.End() {
			return sf
		}
	}
	return nil
}

// pkgByImport finds a loaded package by the import bound to `name` in the file containing pos.
func (x *mx) pkgByImport(p *pkgInfo, pos token.Pos, name string) *pkgInfo {
	sf := x.fileOf(p, pos)
	if sf == nil {
		return nil
	}
	ip, ok := sf.imports[name]
	if !ok {
		return nil
	}
	for _, d := range x.pr.dirs {
		if strings.HasSuffix(ip, "/"+d) {
			return x.pr.pkgs[d]
		}
	}
	return nil
}

// localAssignments collects every value assigned to the local variable obj inside fi.
// zero = declared without initialiser; opaque = assigned in a way that is not a plain expression.
func localAssignments(fi *funcInfo, obj *ast.Object) (rhs []ast.Expr, stmts []ast.Node, zero bool, opaque bool) {
	ast.Inspect(fi.fd.Body, func(n ast.Node) bool {
		switch s := n.(type) {
		case *ast.AssignStmt:
			for i, l := range s.Lhs {
				if id, ok := l.(*ast.Ident); ok && id.Obj == obj {
					if len(s.Lhs) == len(s.Rhs) && (s.Tok == token.ASSIGN || s.Tok == token.DEFINE) {
						rhs = append(rhs, s.Rhs[i])
						stmts = append(stmts, s)
					} else {
						opaque = true
					}
				}
			}
		case *ast.ValueSpec:
			for i, nm := range s.Names {
				if nm.Obj == obj {
					if i < len(s.Values) {
						rhs = append(rhs, s.Values[i])
						stmts = append(stmts, s)
					} else if len(s.Values) == 0 {
						zero = true
					} else {
						opaque = true
					}
				}
			}
		case *ast.RangeStmt:
			for _, e := range []ast.Expr{s.Key, s.Value} {
				if id, ok := e.(*ast.Ident); ok && id.Obj == obj {
					opaque = true
				}
			}
		case *ast.UnaryExpr:
			if s.Op == token.AND {
				if id, ok := s.X.(*ast.Ident); ok && id.Obj == obj {
					opaque = true
				}
			}
		case *ast.IncDecStmt:
			if id, ok := s.X.(*ast.Ident); ok && id.Obj == obj {
				opaque = true
			}
		}
		return true
	})
	return
}

// definitelyAssigned: is obj assigned on every path from the start of `stmts` to position pos?
func definitelyAssigned(stmts []ast.Stmt, obj *ast.Object, pos token.Pos) bool {
	for _, s := range stmts {
		if s.Pos() <= pos && pos < s.End() {
			switch t := s.(type) {
			case *ast.BlockStmt:
				return definitelyAssigned(t.List, obj, pos)
			case *ast.IfStmt:
				if t.Body.Pos() <= pos && pos < t.Body.End() {
					return definitelyAssigned(t.Body.List, obj, pos)
				}
				if t.Else != nil && t.Else.Pos() <= pos && pos < t.Else.End() {
					return definitelyAssigned([]ast.Stmt{t.Else}, obj, pos)
				}
				return false
			case *ast.LabeledStmt:
				return definitelyAssigned([]ast.Stmt{t.Stmt}, obj, pos)
			case *ast.ForStmt:
				return definitelyAssigned(t.Body.List, obj, pos)
			case *ast.RangeStmt:
				return definitelyAssigned(t.Body.List, obj, pos)
			default:
				// inside an expression / closure / switch: no claim
				containsLit := false
				ast.Inspect(s, func(n ast.Node) bool {
					if fl, ok := n.(*ast.FuncLit); ok && fl.Pos() <= pos && pos < fl.End() {
						containsLit = true
					}
					return true
				})
				if containsLit {
					return false
				}
				if _, ok := s.(*ast.ExprStmt); ok {
					return false
				}
				if _, ok := s.(*ast.AssignStmt); ok {
					return false
				}
				return false
			}
		}
		if stmtAssigns(s, obj) {
			return true
		}
	}
	return false
}

func stmtAssigns(s ast.Stmt, obj *ast.Object) bool {
	switch t := s.(type) {
	case *ast.AssignStmt:
		if len(t.Lhs) != len(t.Rhs) {
			return false
		}
		for _, l := range t.Lhs {
			if id, ok := l.(*ast.Ident); ok && id.Obj == obj {
				return true
			}
		}
	case *ast.BlockStmt:
		for _, u := range t.List {
			if stmtAssigns(u, obj) {
				return true
			}
		}
	case *ast.IfStmt:
		if t.Else == nil {
			return false
		}
		return stmtAssigns(t.Body, obj) && stmtAssigns(t.Else, obj)
	case *ast.SwitchStmt:
		hasDefault := false
		for _, c := range t.Body.List {
			cc := c.(*ast.CaseClause)
			if cc.List == nil {
				hasDefault = true
			}
			ok := false
			for _, u := range cc.Body {
				if stmtAssigns(u, obj) {
					ok = true
				}
			}
			if !ok {
				return false
			}
		}
		return hasDefault
	}
	return false
}

// pkgVarReassigned: is the package-level variable `name` of p ever assigned / address-taken outside its declaration?
func (x *mx) pkgVarReassigned(p *pkgInfo, name string) bool {
	found := false
	for _, sf := range p.files {
		ast.Inspect(sf.f, func(n ast.Node) bool {
			isTop := func(e ast.Expr) bool {
				id, ok := e.(*ast.Ident)
				if !ok || id.Name != name {
					return false
				}
				if id.Obj == nil {
					return true
				}
				if vs, ok := id.Obj.Decl.(*ast.ValueSpec); ok {
					return p.enclosingFunc(vs.Pos()) == nil
				}
				return false
			}
			switch s := n.(type) {
			case *ast.AssignStmt:
				if s.Tok != token.DEFINE {
					for _, l := range s.Lhs {
						if isTop(l) {
							found = true
						}
						if se, ok := l.(*ast.SelectorExpr); ok && isTop(se.X) {
							found = true
						}
					}
				}
			case *ast.UnaryExpr:
				if s.Op == token.AND && isTop(s.X) {
					found = true
				}
			}
			return true
		})
	}
	return found
}

// envAt returns the environment of frame `level` of env's frame chain.
func envAtLevel(env menv, level int) menv {
	fr := env.frames[level:]
	return menv{p: fr[0].fi.p, fi: fr[0].fi, frames: fr, depth: env.depth + 1}
}

// calleeEnv builds the environment for evaluating inside callee `fi`, invoked by `call` from env.
func calleeEnv(env menv, fi *funcInfo, call *ast.CallExpr) menv {
	frames := append([]mframe{{fi: fi, call: call}}, env.frames...)
	if env.fi == nil {
		// invoked from a package-level initialiser: parameters cannot be traced further than the call itself
		frames = []mframe{{fi: fi, call: call}, {fi: nil}}
	}
	return menv{p: fi.p, fi: fi, frames: frames, depth: env.depth + 1}
}

// paramArgs resolves the parameter obj of env.fi through the call of frame 0.
// Returns the argument expressions, whether they are a spread slice, and the caller environment.
func (x *mx) paramArgs(env menv, obj *ast.Object) (args []ast.Expr, spread bool, variadic bool, cenv menv, err *resErr) {
	idx, vari, ok := paramIndex(env.fi.fd, obj)
	if !ok {
		return nil, false, false, env, errf("%s is a parameter of a closure", obj.Name)
	}
	if len(env.frames) == 0 {
		return nil, false, false, env, errf("no frame for parameter %s", obj.Name)
	}
	call := env.frames[0].call
	if call == nil {
		if len(env.frames) == 1 {
			return nil, false, false, env, &resErr{need: true, msg: "parameter " + obj.Name + " of " + env.fi.qual()}
		}
		return nil, false, false, env, errf("parameter %s of %s: caller unknown", obj.Name, env.fi.qual())
	}
	if len(env.frames) < 2 {
		return nil, false, false, env, errf("parameter %s: caller frame missing", obj.Name)
	}
	var ce menv
	if env.frames[1].fi == nil {
		ce = menv{p: env.p, depth: env.depth + 1}
	} else {
		ce = envAtLevel(env, 1)
	}
	if vari {
		if call.Ellipsis.IsValid() {
			if len(call.Args) != idx+1 {
				return nil, false, true, ce, errf("spread call with unexpected arity")
			}
			return []ast.Expr{call.Args[idx]}, true, true, ce, nil
		}
		if len(call.Args) < idx {
			return nil, false, true, ce, errf("call arity mismatch for %s", env.fi.qual())
		}
		return call.Args[idx:], false, true, ce, nil
	}
	if idx >= len(call.Args) {
		return nil, false, false, ce, errf("call arity mismatch for %s", env.fi.qual())
	}
	return []ast.Expr{call.Args[idx]}, false, false, ce, nil
}

func uniq(xs []string) []string {
	sort.Strings(xs)
	var out []string
	for i, s := range xs {
		if i == 0 || s != xs[i-1] {
			out = append(out, s)
		}
	}
	return out
}

// strOf: the set of constant strings an expression can evaluate to.
func (x *mx) strOf(e ast.Expr, env menv) ([]string, *resErr) {
	if env.depth > maxResolveDepth {
		return nil, errf("resolution too deep")
	}
	env.depth++
	switch t := e.(type) {
	case *ast.BasicLit:
		if t.Kind == token.STRING {
			b, ok := evalBytes(t, nil, 0)
			if ok {
				return []string{string(b)}, nil
			}
		}
		return nil, errf("non-string literal")
	case *ast.ParenExpr:
		return x.strOf(t.X, env)
	case *ast.BinaryExpr:
		if t.Op != token.ADD {
			return nil, errf("unsupported string operator")
		}
		a, err := x.strOf(t.X, env)
		if err != nil {
			return nil, err
		}
		b, err := x.strOf(t.Y, env)
		if err != nil {
			return nil, err
		}
		var out []string
		for _, u := range a {
			for _, v := range b {
				out = append(out, u+v)
			}
		}
		return uniq(out), nil
	case *ast.SelectorExpr:
		if id, ok := t.X.(*ast.Ident); ok && id.Obj == nil {
			if q := x.pkgByImport(env.p, t.Pos(), id.Name); q != nil {
				if v, ok := q.topVals[t.Sel.Name]; ok {
					if q.topIsVar[t.Sel.Name] && x.pkgVarReassigned(q, t.Sel.Name) {
						return nil, errf("%s.%s is reassigned", id.Name, t.Sel.Name)
					}
					return x.strOf(v, x.pkgEnv(q, env.depth))
				}
			}
		}
		return nil, errf("dynamic string (selector)")
	case *ast.Ident:
		return x.identStr(t, env)
	}
	return nil, errf("dynamic string expression")
}

func (x *mx) identStr(id *ast.Ident, env menv) ([]string, *resErr) {
	if id.Obj != nil {
		switch d := id.Obj.Decl.(type) {
		case *ast.Field:
			if env.fi == nil {
				return nil, errf("parameter outside a function")
			}
			args, spread, vari, ce, err := x.paramArgs(env, id.Obj)
			if err != nil {
				return nil, err
			}
			if spread || vari || len(args) != 1 {
				return nil, errf("variadic string parameter")
			}
			return x.strOf(args[0], ce)
		case *ast.ValueSpec:
			if env.p.enclosingFunc(d.Pos()) == nil {
				return x.topStr(env.p, id.Name, env)
			}
		}
		if env.fi == nil {
			return nil, errf("local identifier outside a function")
		}
		rhs, _, zero, opaque := localAssignments(env.fi, id.Obj)
		if opaque || zero || len(rhs) == 0 {
			return nil, errf("local string %s is not a constant", id.Name)
		}
		var out []string
		for _, r := range rhs {
			s, err := x.strOf(r, env)
			if err != nil {
				return nil, err
			}
			out = append(out, s...)
		}
		return uniq(out), nil
	}
	return x.topStr(env.p, id.Name, env)
}

func (x *mx) topStr(p *pkgInfo, name string, env menv) ([]string, *resErr) {
	v, ok := p.topVals[name]
	if !ok {
		return nil, errf("unknown identifier %s", name)
	}
	if p.topIsVar[name] && x.pkgVarReassigned(p, name) {
		return nil, errf("package variable %s is reassigned", name)
	}
	return x.strOf(v, x.pkgEnv(p, env.depth))
}

// A resolved tag is encoded as name + "\x00" + value class, where the value class is "const" (a
// compile-time constant string that is valid UTF-8), "fmt" (strconv.FormatBool/Itoa/FormatInt/FormatUint:
// ASCII by construction), "san" (strings.ToValidUTF8(<anything>, …): run-time data, but valid UTF-8 by
// construction — listed in `sanitisedLabels`) or "dyn:<source text>" (anything else: data only known at run time).
func withVal(names []string, vc string) []string {
	out := make([]string, len(names))
	for i, n := range names {
		out[i] = n + "\x00" + vc
	}
	return out
}

func splitTag(enc string) (name, vc string) {
	if i := strings.IndexByte(enc, 0); i >= 0 {
		return enc[:i], enc[i+1:]
	}
	return enc, "const"
}

func (x *mx) srcText(e ast.Expr) string {
	var sb strings.Builder
	_ = printer.Fprint(&sb, x.pr.fset, e)
	return strings.Join(strings.Fields(sb.String()), " ")
}

// valueClass classifies the VALUE expression of a tag. A parameter is followed through the callers of
// the emitting function itself (one level); further up it counts as dynamic.
func (x *mx) valueClass(e ast.Expr, env menv) (string, *resErr) {
	if c, ok := e.(*ast.CallExpr); ok {
		if se, ok := c.Fun.(*ast.SelectorExpr); ok {
			if id, ok := se.X.(*ast.Ident); ok && id.Name == "strconv" && id.Obj == nil {
				switch se.Sel.Name {
				case "FormatBool", "Itoa", "FormatInt", "FormatUint":
					return "fmt", nil
				}
			}
			if id, ok := se.X.(*ast.Ident); ok && id.Name == "strings" && id.Obj == nil && se.Sel.Name == "ToValidUTF8" {
				return "san", nil // sanitised: valid UTF-8 by construction, whatever the argument is
			}
		}
	}
	vals, err := x.strOf(e, env)
	if err == nil {
		for _, v := range vals {
			if !utf8.ValidString(v) {
				return "dyn:constant that is not valid UTF-8: " + x.srcText(e), nil
			}
		}
		return "const", nil
	}
	if err.need && len(env.frames) <= 1 {
		return "", err
	}
	return "dyn:" + x.srcText(e), nil
}

// isTagCall recognises metrics.Tag(name, value) (or Tag(...) inside package metrics).
func (x *mx) isTagCall(c *ast.CallExpr, env menv) bool {
	switch f := c.Fun.(type) {
	case *ast.SelectorExpr:
		if id, ok := f.X.(*ast.Ident); ok && f.Sel.Name == "Tag" {
			if sf := x.fileOf(env.p, c.Pos()); sf != nil {
				return isMetricsPkgPath(sf.imports[id.Name])
			}
		}
	case *ast.Ident:
		return f.Name == "Tag" && strings.HasSuffix(env.p.dir, "pkg/metrics") && len(c.Args) == 2
	}
	return false
}

func (x *mx) isTagType(e ast.Expr, env menv) bool {
	switch t := e.(type) {
	case *ast.SelectorExpr:
		if id, ok := t.X.(*ast.Ident); ok && t.Sel.Name == "T" {
			if sf := x.fileOf(env.p, e.Pos()); sf != nil {
				return isMetricsPkgPath(sf.imports[id.Name])
			}
		}
	case *ast.Ident:
		return t.Name == "T" && strings.HasSuffix(env.p.dir, "pkg/metrics")
	}
	return false
}

// sameMethodCandidates: functions of package p named `name` (methods when method is true).
func (x *mx) candidates(p *pkgInfo, name string, method bool) []*funcInfo {
	var out []*funcInfo
	for _, fi := range p.funcs[name] {
		if (fi.recv != "") == method {
			out = append(out, fi)
		}
	}
	return out
}

func returnsOf(fd *ast.FuncDecl) (rets []*ast.ReturnStmt) {
	var walk func(n ast.Node) bool
	walk = func(n ast.Node) bool {
		switch t := n.(type) {
		case *ast.FuncLit:
			return false
		case *ast.ReturnStmt:
			rets = append(rets, t)
		}
		return true
	}
	ast.Inspect(fd.Body, walk)
	return
}

// tagOf: the set of label names a metrics.T-valued expression can carry.
func (x *mx) tagOf(e ast.Expr, env menv) ([]string, *resErr) {
	if env.depth > maxResolveDepth {
		return nil, errf("resolution too deep")
	}
	env.depth++
	switch t := e.(type) {
	case *ast.ParenExpr:
		return x.tagOf(t.X, env)
	case *ast.CallExpr:
		if x.isTagCall(t, env) {
			names, err := x.strOf(t.Args[0], env)
			if err != nil {
				return nil, err
			}
			vc, err := x.valueClass(t.Args[1], env)
			if err != nil {
				return nil, err
			}
			return withVal(names, vc), nil
		}
		var cands []*funcInfo
		switch f := t.Fun.(type) {
		case *ast.Ident:
			cands = x.candidates(env.p, f.Name, false)
		case *ast.SelectorExpr:
			if id, ok := f.X.(*ast.Ident); ok && id.Obj == nil && x.pkgByImport(env.p, t.Pos(), id.Name) != nil {
				cands = x.candidates(x.pkgByImport(env.p, t.Pos(), id.Name), f.Sel.Name, false)
			} else {
				cands = x.candidates(env.p, f.Sel.Name, true)
			}
		}
		if len(cands) == 0 {
			return nil, errf("tag produced by an unknown call")
		}
		var out []string
		for _, c := range cands {
			if c.fd.Body == nil || c.fd.Type.Results == nil || len(c.fd.Type.Results.List) != 1 {
				return nil, errf("tag function %s has an unexpected signature", c.qual())
			}
			rets := returnsOf(c.fd)
			if len(rets) == 0 {
				return nil, errf("tag function %s has no return", c.qual())
			}
			ce := calleeEnv(env, c, t)
			for _, r := range rets {
				if len(r.Results) != 1 {
					return nil, errf("tag function %s uses a bare return", c.qual())
				}
				s, err := x.tagOf(r.Results[0], ce)
				if err != nil {
					if err.need {
						err = errf("%s", err.msg)
					}
					return nil, err
				}
				out = append(out, s...)
			}
		}
		return uniq(out), nil
	case *ast.CompositeLit:
		if t.Type != nil && x.isTagType(t.Type, env) {
			var nameE, valE ast.Expr
			for i, el := range t.Elts {
				if kv, ok := el.(*ast.KeyValueExpr); ok {
					if k, ok := kv.Key.(*ast.Ident); ok && k.Name == "Name" {
						nameE = kv.Value
					} else if ok && k.Name == "Value" {
						valE = kv.Value
					}
				} else if i == 0 {
					nameE = el
				} else if i == 1 {
					valE = el
				}
			}
			if nameE == nil {
				return []string{"\x00const"}, nil
			}
			names, err := x.strOf(nameE, env)
			if err != nil {
				return nil, err
			}
			vc := "const"
			if valE != nil {
				if vc, err = x.valueClass(valE, env); err != nil {
					return nil, err
				}
			}
			return withVal(names, vc), nil
		}
		return nil, errf("unexpected composite literal as a tag")
	case *ast.SelectorExpr:
		if id, ok := t.X.(*ast.Ident); ok && id.Obj == nil {
			if q := x.pkgByImport(env.p, t.Pos(), id.Name); q != nil {
				if v, ok := q.topVals[t.Sel.Name]; ok {
					if q.topIsVar[t.Sel.Name] && x.pkgVarReassigned(q, t.Sel.Name) {
						return nil, errf("%s.%s is reassigned", id.Name, t.Sel.Name)
					}
					return x.tagOf(v, x.pkgEnv(q, env.depth))
				}
			}
		}
		return nil, errf("tag read from a field")
	case *ast.Ident:
		id := t
		if id.Obj != nil {
			switch d := id.Obj.Decl.(type) {
			case *ast.Field:
				if env.fi == nil {
					return nil, errf("parameter outside a function")
				}
				args, spread, vari, ce, err := x.paramArgs(env, id.Obj)
				if err != nil {
					return nil, err
				}
				if spread || vari || len(args) != 1 {
					return nil, errf("variadic parameter used as a single tag")
				}
				return x.tagOf(args[0], ce)
			case *ast.ValueSpec:
				if env.p.enclosingFunc(d.Pos()) == nil {
					return x.topTag(env.p, id.Name, env)
				}
			}
			if env.fi == nil {
				return nil, errf("local identifier outside a function")
			}
			rhs, _, zero, opaque := localAssignments(env.fi, id.Obj)
			if opaque {
				return nil, errf("local tag %s is assigned opaquely", id.Name)
			}
			var out []string
			if zero && !definitelyAssigned(env.fi.fd.Body.List, id.Obj, id.Pos()) {
				out = append(out, "\x00const")
			}
			if len(rhs) == 0 && !zero {
				return nil, errf("local tag %s has no assignment", id.Name)
			}
			for _, r := range rhs {
				s, err := x.tagOf(r, env)
				if err != nil {
					return nil, err
				}
				out = append(out, s...)
			}
			return uniq(out), nil
		}
		return x.topTag(env.p, id.Name, env)
	}
	return nil, errf("dynamic tag expression")
}

func (x *mx) topTag(p *pkgInfo, name string, env menv) ([]string, *resErr) {
	v, ok := p.topVals[name]
	if !ok {
		return nil, errf("unknown identifier %s", name)
	}
	if p.topIsVar[name] && x.pkgVarReassigned(p, name) {
		return nil, errf("package variable %s is reassigned", name)
	}
	return x.tagOf(v, x.pkgEnv(p, env.depth))
}

func cross(a [][]string, b [][]string) [][]string {
	var out [][]string
	for _, u := range a {
		for _, v := range b {
			w := append(append([]string{}, u...), v...)
			out = append(out, w)
		}
	}
	return out
}

func singles(names []string) [][]string {
	out := make([][]string, len(names))
	for i, n := range names {
		out[i] = []string{n}
	}
	return out
}

// tagsOf: the set of label-name lists a []metrics.T-valued expression can carry.
func (x *mx) tagsOf(e ast.Expr, env menv) ([][]string, *resErr) {
	if env.depth > maxResolveDepth {
		return nil, errf("resolution too deep")
	}
	env.depth++
	switch t := e.(type) {
	case *ast.ParenExpr:
		return x.tagsOf(t.X, env)
	case *ast.CompositeLit:
		if at, ok := t.Type.(*ast.ArrayType); ok && at.Len == nil && x.isTagType(at.Elt, env) {
			out := [][]string{{}}
			for _, el := range t.Elts {
				var s []string
				var err *resErr
				if cl, ok := el.(*ast.CompositeLit); ok && cl.Type == nil {
					cl2 := *cl
					cl2.Type = at.Elt
					s, err = x.tagOf(&cl2, env)
				} else {
					s, err = x.tagOf(el, env)
				}
				if err != nil {
					return nil, err
				}
				out = cross(out, singles(s))
			}
			return out, nil
		}
		return nil, errf("unexpected composite literal as a tag slice")
	case *ast.CallExpr:
		if f, ok := t.Fun.(*ast.Ident); ok && f.Name == "append" && f.Obj == nil && len(t.Args) >= 1 {
			base, err := x.tagsOf(t.Args[0], env)
			if err != nil {
				return nil, err
			}
			if t.Ellipsis.IsValid() {
				if len(t.Args) != 2 {
					return nil, errf("append with spread and extra arguments")
				}
				more, err := x.tagsOf(t.Args[1], env)
				if err != nil {
					return nil, err
				}
				return cross(base, more), nil
			}
			for _, a := range t.Args[1:] {
				s, err := x.tagOf(a, env)
				if err != nil {
					return nil, err
				}
				base = cross(base, singles(s))
			}
			return base, nil
		}
		if f, ok := t.Fun.(*ast.Ident); ok && f.Name == "make" && f.Obj == nil && len(t.Args) >= 2 {
			if b, ok := t.Args[1].(*ast.BasicLit); ok && b.Value == "0" {
				return [][]string{{}}, nil
			}
			return nil, errf("make with a non-zero length")
		}
		return nil, errf("tag slice produced by a call")
	case *ast.SelectorExpr:
		return x.fieldTags(t, env)
	case *ast.Ident:
		id := t
		if id.Name == "nil" && id.Obj == nil {
			return [][]string{{}}, nil
		}
		if id.Obj == nil {
			return nil, errf("package-level tag slice %s", id.Name)
		}
		if v, ok := env.cur[id.Obj]; ok {
			return v, nil
		}
		if _, ok := id.Obj.Decl.(*ast.Field); ok {
			if env.fi == nil {
				return nil, errf("parameter outside a function")
			}
			args, spread, vari, ce, err := x.paramArgs(env, id.Obj)
			if err != nil {
				return nil, err
			}
			if spread || !vari {
				if len(args) != 1 {
					return nil, errf("bad slice argument")
				}
				return x.tagsOf(args[0], ce)
			}
			out := [][]string{{}}
			for _, a := range args {
				s, err := x.tagOf(a, ce)
				if err != nil {
					return nil, err
				}
				out = cross(out, singles(s))
			}
			return out, nil
		}
		if env.fi == nil {
			return nil, errf("local identifier outside a function")
		}
		return x.localSlice(id, env)
	}
	return nil, errf("dynamic tag slice")
}

// localSlice evaluates a local slice variable built by straight-line assignments that are direct
// children of the function body and precede the use.
func (x *mx) localSlice(id *ast.Ident, env menv) ([][]string, *resErr) {
	rhs, stmts, _, opaque := localAssignments(env.fi, id.Obj)
	if opaque {
		return nil, errf("tag slice %s is assigned opaquely (range/&/multi-value)", id.Name)
	}
	top := map[ast.Node]bool{}
	for _, s := range env.fi.fd.Body.List {
		top[s] = true
		if ds, ok := s.(*ast.DeclStmt); ok {
			if gd, ok := ds.Decl.(*ast.GenDecl); ok {
				for _, sp := range gd.Specs {
					top[sp] = true
				}
			}
		}
	}
	// element writes (tags[i] = …, tags[i].Name = …) make the contents unknown
	elemWrite := false
	ast.Inspect(env.fi.fd.Body, func(n ast.Node) bool {
		if as, ok := n.(*ast.AssignStmt); ok {
			for _, l := range as.Lhs {
				var base ast.Expr = l
				if se, ok := base.(*ast.SelectorExpr); ok {
					base = se.X
				}
				if ie, ok := base.(*ast.IndexExpr); ok {
					if b, ok := ie.X.(*ast.Ident); ok && b.Obj == id.Obj {
						if se, ok := l.(*ast.SelectorExpr); !ok || se.Sel.Name == "Name" {
							elemWrite = true
						}
					}
				}
			}
		}
		return true
	})
	if elemWrite {
		return nil, errf("tag slice %s has element writes", id.Name)
	}
	cur := [][]string{{}}
	env2 := env
	env2.cur = map[*ast.Object][][]string{}
	for k, v := range env.cur {
		env2.cur[k] = v
	}
	for i, r := range rhs {
		if !top[stmts[i]] {
			return nil, errf("tag slice %s is assigned inside a nested block", id.Name)
		}
		if stmts[i].Pos() > id.Pos() {
			continue
		}
		env2.cur[id.Obj] = cur
		v, err := x.tagsOf(r, env2)
		if err != nil {
			return nil, err
		}
		cur = v
	}
	return cur, nil
}

// ownerType determines the struct type name of the base expression of a field selector.
func (x *mx) ownerType(base ast.Expr, env menv) string {
	id, ok := base.(*ast.Ident)
	if !ok || id.Obj == nil {
		return ""
	}
	switch d := id.Obj.Decl.(type) {
	case *ast.Field:
		return typeName(d.Type)
	case *ast.AssignStmt:
		for i, l := range d.Lhs {
			if li, ok := l.(*ast.Ident); ok && li.Obj == id.Obj && i < len(d.Rhs) {
				r := d.Rhs[i]
				if u, ok := r.(*ast.UnaryExpr); ok && u.Op == token.AND {
					r = u.X
				}
				if cl, ok := r.(*ast.CompositeLit); ok && cl.Type != nil {
					return typeName(cl.Type)
				}
			}
		}
	case *ast.ValueSpec:
		if d.Type != nil {
			return typeName(d.Type)
		}
	}
	return ""
}

// fieldTags resolves `X.field` (a []metrics.T struct field) through every composite literal of the
// owning struct type and every assignment to a field of that name in the package.
func (x *mx) fieldTags(sel *ast.SelectorExpr, env menv) ([][]string, *resErr) {
	owner := x.ownerType(sel.X, env)
	st, ok := env.p.structs[owner]
	if owner == "" || !ok {
		return nil, errf("cannot determine the struct owning field %s", sel.Sel.Name)
	}
	has := false
	for _, f := range st.Fields.List {
		for _, n := range f.Names {
			if n.Name == sel.Sel.Name {
				has = true
			}
		}
	}
	if !has {
		return nil, errf("struct %s has no field %s", owner, sel.Sel.Name)
	}
	var out [][]string
	var ferr *resErr
	for _, sf := range env.p.files {
		ast.Inspect(sf.f, func(n ast.Node) bool {
			if ferr != nil {
				return false
			}
			switch t := n.(type) {
			case *ast.CompositeLit:
				if t.Type == nil || typeName(t.Type) != owner {
					return true
				}
				found := false
				for _, el := range t.Elts {
					kv, ok := el.(*ast.KeyValueExpr)
					if !ok {
						ferr = errf("positional composite literal of %s", owner)
						return false
					}
					if k, ok := kv.Key.(*ast.Ident); ok && k.Name == sel.Sel.Name {
						found = true
						fi := env.p.enclosingFunc(t.Pos())
						var e2 menv
						if fi != nil {
							e2 = menv{p: env.p, fi: fi, frames: []mframe{{fi: fi}, {fi: nil}}, depth: env.depth + 1}
						} else {
							e2 = x.pkgEnv(env.p, env.depth)
						}
						v, err := x.tagsOf(kv.Value, e2)
						if err != nil {
							if err.need {
								err = errf("field %s.%s initialised from %s", owner, sel.Sel.Name, err.msg)
							}
							ferr = err
							return false
						}
						out = append(out, v...)
					}
				}
				if !found {
					out = append(out, []string{})
				}
			case *ast.AssignStmt:
				for _, l := range t.Lhs {
					var base ast.Expr = l
					if ie, ok := base.(*ast.IndexExpr); ok {
						base = ie.X
					}
					if se, ok := base.(*ast.SelectorExpr); ok {
						if ie, ok := se.X.(*ast.IndexExpr); ok {
							if s2, ok := ie.X.(*ast.SelectorExpr); ok && s2.Sel.Name == sel.Sel.Name {
								ferr = errf("element of field %s is written", sel.Sel.Name)
								return false
							}
						}
						if se.Sel.Name == sel.Sel.Name {
							ferr = errf("field %s is assigned outside a composite literal (%s)", sel.Sel.Name, x.pr.pos(t.Pos()))
							return false
						}
					}
				}
			case *ast.UnaryExpr:
				if t.Op == token.AND {
					if se, ok := t.X.(*ast.SelectorExpr); ok && se.Sel.Name == sel.Sel.Name {
						ferr = errf("address of field %s is taken", sel.Sel.Name)
						return false
					}
				}
			}
			return true
		})
	}
	if ferr != nil {
		return nil, ferr
	}
	if len(out) == 0 {
		return nil, errf("struct %s is never constructed", owner)
	}
	return out, nil
}

// ---------------------------------------------------------------- callers and liveness

type callSite struct {
	fi   *funcInfo
	call *ast.CallExpr
}

// findCallers: every call of fi in the program (same package when unexported), name based.
// valueUse reports a reference that is not a call (the function escapes as a value).
func (x *mx) findCallers(fi *funcInfo) (calls []callSite, valueUse bool) {
	name := fi.fd.Name.Name
	exported := ast.IsExported(name)
	for _, d := range x.pr.dirs {
		p := x.pr.pkgs[d]
		if !exported && p != fi.p {
			continue
		}
		for _, sf := range p.files {
			funs := map[ast.Expr]bool{}
			ast.Inspect(sf.f, func(n ast.Node) bool {
				if c, ok := n.(*ast.CallExpr); ok {
					funs[c.Fun] = true
					match := false
					switch f := c.Fun.(type) {
					case *ast.Ident:
						match = fi.recv == "" && p == fi.p && f.Name == name && (f.Obj == nil || f.Obj.Decl == ast.Node(fi.fd))
					case *ast.SelectorExpr:
						if f.Sel.Name == name {
							if id, ok := f.X.(*ast.Ident); ok && id.Obj == nil && sf.imports[id.Name] != "" {
								match = fi.recv == "" && strings.HasSuffix(sf.imports[id.Name], "/"+fi.p.dir)
							} else {
								match = fi.recv != "" && p == fi.p
							}
						}
					}
					if match {
						calls = append(calls, callSite{fi: p.enclosingFunc(c.Pos()), call: c})
					}
				}
				return true
			})
			ast.Inspect(sf.f, func(n ast.Node) bool {
				switch t := n.(type) {
				case *ast.SelectorExpr:
					if t.Sel.Name == name && !funs[t] && fi.recv != "" && p == fi.p {
						valueUse = true
					}
				case *ast.Ident:
					if fi.recv == "" && t.Name == name && !funs[t] && t != fi.fd.Name && p == fi.p &&
						(t.Obj != nil && t.Obj.Decl == ast.Node(fi.fd)) {
						valueUse = true
					}
				}
				return true
			})
		}
	}
	return
}

// deadFuncs: plain functions not referenced (by name) from any live code of the program.
func (x *mx) deadFuncs() map[*funcInfo]bool {
	all := x.pr.funcsSorted()
	type ref struct{ in *funcInfo }
	refs := map[string][]ref{} // bare name -> enclosing functions of references
	for _, d := range x.pr.dirs {
		p := x.pr.pkgs[d]
		for _, sf := range p.files {
			declNames := map[*ast.Ident]bool{}
			for _, dcl := range sf.f.Decls {
				if fd, ok := dcl.(*ast.FuncDecl); ok {
					declNames[fd.Name] = true
				}
			}
			ast.Inspect(sf.f, func(n ast.Node) bool {
				if id, ok := n.(*ast.Ident); ok && !declNames[id] {
					refs[id.Name] = append(refs[id.Name], ref{in: p.enclosingFunc(id.Pos())})
				}
				return true
			})
		}
	}
	dead := map[*funcInfo]bool{}
	for changed := true; changed; {
		changed = false
		for _, fi := range all {
			if dead[fi] || fi.recv != "" || fi.fd.Name.Name == "main" || fi.fd.Name.Name == "init" {
				continue
			}
			live := false
			for _, r := range refs[fi.fd.Name.Name] {
				if r.in == nil || (!dead[r.in] && r.in != fi) {
					live = true
					break
				}
			}
			if !live {
				dead[fi] = true
				changed = true
			}
		}
	}
	return dead
}

// ---------------------------------------------------------------- driver

type metricSite struct {
	file   string
	line   int
	kind   string
	name   string
	labels []string
	dyn    []string // label names whose value is only known at run time
	dynSrc []string // "label=<source expression>"
	san    []string // label names whose run-time value is passed through strings.ToValidUTF8
	spread bool
	via    []string
}

func genMetricSites() {
	pr := loadProgram()
	x := &mx{pr: pr}
	dead := x.deadFuncs()
	var sites []*metricSite
	var deadSites []string
	index := map[string]*metricSite{}
	kinds := map[string]string{"EmitCounter": "counter", "EmitGauge": "gauge", "EmitHistogram": "histogram"}
	nCallSites := 0

	for _, fi := range pr.funcsSorted() {
		if fi.fd.Body == nil {
			continue
		}
		var calls []*ast.CallExpr
		ast.Inspect(fi.fd.Body, func(n ast.Node) bool {
			c, ok := n.(*ast.CallExpr)
			if !ok {
				return true
			}
			se, ok := c.Fun.(*ast.SelectorExpr)
			if !ok || kinds[se.Sel.Name] == "" {
				return true
			}
			// gomock recorder: m.EXPECT().EmitGauge(...) is not an emission
			if rc, ok := se.X.(*ast.CallExpr); ok {
				if rs, ok := rc.Fun.(*ast.SelectorExpr); ok && rs.Sel.Name == "EXPECT" {
					return true
				}
			}
			calls = append(calls, c)
			return true
		})
		for _, c := range calls {
			nCallSites++
			pos := pr.pos(c.Pos())
			where := fmt.Sprintf("%s:%d", fi.file.rel, pos.Line)
			kind := kinds[c.Fun.(*ast.SelectorExpr).Sel.Name]
			if dead[fi] {
				deadSites = append(deadSites, fmt.Sprintf("%s %s in %s (function not referenced by non-test code)", where, kind, fi.qual()))
				continue
			}
			if len(c.Args) < 2 {
				x.unresolved = append(x.unresolved, where+" too few arguments")
				continue
			}
			type work struct {
				frames []mframe
				via    []string
			}
			queue := []work{{frames: []mframe{{fi: fi}}}}
			for len(queue) > 0 {
				w := queue[0]
				queue = queue[1:]
				env := menv{p: fi.p, fi: fi, frames: w.frames}
				variants, err := x.evalSite(c, env)
				if err == nil {
					for _, v := range variants {
						key := fmt.Sprintf("%s|%s|%s|%s|%s", where, kind, v.name, strings.Join(v.labels, ","), strings.Join(v.dynSrc, ",")+"|"+strings.Join(v.san, ","))
						s := index[key]
						if s == nil {
							s = &metricSite{file: fi.file.rel, line: pos.Line, kind: kind, name: v.name, labels: v.labels, dyn: v.dyn, dynSrc: v.dynSrc, san: v.san, spread: c.Ellipsis.IsValid()}
							index[key] = s
							sites = append(sites, s)
						}
						if len(w.via) > 0 {
							s.via = append(s.via, strings.Join(w.via, " <- "))
						}
					}
					continue
				}
				if !err.need {
					x.unresolved = append(x.unresolved, where+" "+kind+": "+err.msg)
					continue
				}
				last := w.frames[len(w.frames)-1]
				if len(w.frames) > 4 {
					x.unresolved = append(x.unresolved, where+" "+kind+": call chain too deep at "+last.fi.qual())
					continue
				}
				callers, valueUse := x.findCallers(last.fi)
				if valueUse {
					x.unresolved = append(x.unresolved, where+" "+kind+": helper "+last.fi.qual()+" is used as a value")
					continue
				}
				if len(callers) == 0 {
					x.unresolved = append(x.unresolved, where+" "+kind+": "+err.msg+" has no caller in the program")
					continue
				}
				for _, cs := range callers {
					if cs.fi == nil {
						x.unresolved = append(x.unresolved, where+" "+kind+": helper "+last.fi.qual()+" is called from a package-level initialiser")
						continue
					}
					if dead[cs.fi] {
						continue
					}
					fr := append([]mframe{}, w.frames...)
					fr[len(fr)-1].call = cs.call
					fr = append(fr, mframe{fi: cs.fi})
					via := append(append([]string{}, w.via...), fmt.Sprintf("%s@%s:%d", cs.fi.qual(), cs.fi.file.rel, pr.line(cs.call.Pos())))
					queue = append(queue, work{frames: fr, via: via})
				}
			}
		}
	}

	// global labels: prometheus.NewMetrics(tags...)
	var globals [][]string
	for _, fi := range pr.funcsSorted() {
		if fi.fd.Body == nil {
			continue
		}
		ast.Inspect(fi.fd.Body, func(n ast.Node) bool {
			c, ok := n.(*ast.CallExpr)
			if !ok {
				return true
			}
			se, ok := c.Fun.(*ast.SelectorExpr)
			if !ok || se.Sel.Name != "NewMetrics" {
				return true
			}
			id, ok := se.X.(*ast.Ident)
			if !ok || !strings.HasSuffix(fi.file.imports[id.Name], "/pkg/metrics/prometheus") {
				return true
			}
			where := fmt.Sprintf("%s:%d", fi.file.rel, pr.line(c.Pos()))
			env := menv{p: fi.p, fi: fi, frames: []mframe{{fi: fi}, {fi: nil}}}
			if c.Ellipsis.IsValid() {
				x.unresolved = append(x.unresolved, where+" NewMetrics with a spread argument")
				return true
			}
			out := [][]string{{}}
			for _, a := range c.Args {
				s, err := x.tagOf(a, env)
				if err != nil {
					x.unresolved = append(x.unresolved, where+" NewMetrics global label: "+err.msg)
					return true
				}
				out = cross(out, singles(s))
			}
			for _, g := range out {
				names := make([]string, len(g))
				for i, e := range g {
					names[i], _ = splitTag(e)
				}
				globals = append(globals, names)
			}
			return true
		})
	}

	sort.SliceStable(sites, func(i, j int) bool {
		a, b := sites[i], sites[j]
		if a.file != b.file {
			return a.file < b.file
		}
		if a.line != b.line {
			return a.line < b.line
		}
		if a.name != b.name {
			return a.name < b.name
		}
		return strings.Join(a.labels, ",") < strings.Join(b.labels, ",")
	})
	sort.Strings(x.unresolved)
	sort.Strings(deadSites)

	var sb strings.Builder
	sb.WriteString("-- GENERATED by kbextract (harness/cmd/kbextract/metrics.go) from the current /repo tree — do not edit;\n")
	sb.WriteString("-- rewritten on every check run. One entry per metric emission call site and resolved (name, labels) variant.\n")
	sb.WriteString("import KB.Metrics\nnamespace KB.Generated\nopen KB KB.Metrics\n\n")
	fmt.Fprintf(&sb, "/-- number of syntactic Emit* call sites seen (including dead ones) -/\ndef metricCallSites : Nat := %d\n\n", nCallSites)
	sb.WriteString("def metricSites : List Site := [\n")
	for i, s := range sites {
		via := "direct"
		if len(s.via) > 0 {
			v := uniq(append([]string{}, s.via...))
			if len(v) > 3 {
				v = append(v[:3], fmt.Sprintf("… (%d callers)", len(uniq(append([]string{}, s.via...)))))
			}
			via = strings.Join(v, "; ")
		}
		comma := ","
		if i == len(sites)-1 {
			comma = ""
		}
		fmt.Fprintf(&sb, "  { file := %s, line := %d, kind := .%s, name := %s, labelNames := %s, dynamicLabels := %s, sanitisedLabels := %s, spreads := %v, via := %s, dynamicValues := %s }%s\n",
			leanLit(s.file), s.line, s.kind, leanName(s.name), leanNameList(s.labels), leanNameList(s.dyn), leanNameList(s.san), s.spread, leanLit(via), leanLit(strings.Join(s.dynSrc, "; ")), comma)
	}
	sb.WriteString("]\n\n")
	gl := make([]string, len(globals))
	for i, g := range globals {
		gl[i] = leanNameList(g)
	}
	fmt.Fprintf(&sb, "/-- label names prepended by the wrapper, one list per prometheus.NewMetrics call site -/\ndef metricGlobalLabels : List (List Name) := [%s]\n\n", strings.Join(gl, ", "))
	fmt.Fprintf(&sb, "/-- emission sites in functions that no non-test code references (not part of the program) -/\ndef metricSitesDead : List String := %s\n\n", leanLitList(deadSites))
	fmt.Fprintf(&sb, "def metricSitesUnresolved : List String := %s\n", leanLitList(x.unresolved))
	sb.WriteString("end KB.Generated\n")
	writeOut("MetricSites.lean", sb.String())
}

type siteVariant struct {
	name   string
	labels []string
	dyn    []string
	dynSrc []string
	san    []string
}

// evalSite evaluates one Emit* call under one caller context: all (name, sorted label list) variants.
func (x *mx) evalSite(c *ast.CallExpr, env menv) ([]siteVariant, *resErr) {
	names, err := x.strOf(c.Args[0], env)
	if err != nil {
		return nil, err
	}
	lists := [][]string{{}}
	for i, a := range c.Args[2:] {
		if c.Ellipsis.IsValid() && i == len(c.Args)-3 {
			v, err := x.tagsOf(a, env)
			if err != nil {
				return nil, err
			}
			lists = cross(lists, v)
		} else {
			s, err := x.tagOf(a, env)
			if err != nil {
				return nil, err
			}
			lists = cross(lists, singles(s))
		}
	}
	var out []siteVariant
	seen := map[string]bool{}
	for _, n := range names {
		for _, l := range lists {
			enc := append([]string{}, l...)
			sort.Strings(enc) // label order is irrelevant to Prometheus (With takes a map); duplicates are kept
			k := n + "|" + strings.Join(enc, ",")
			if !seen[k] {
				seen[k] = true
				v := siteVariant{name: n}
				for _, e := range enc {
					ln, vc := splitTag(e)
					v.labels = append(v.labels, ln)
					if vc == "san" {
						v.san = append(v.san, ln)
					}
					if strings.HasPrefix(vc, "dyn:") {
						v.dyn = append(v.dyn, ln)
						v.dynSrc = append(v.dynSrc, ln+"="+strings.TrimPrefix(vc, "dyn:"))
					}
				}
				out = append(out, v)
			}
		}
	}
	return out, nil
}
