package main

// guards.go — the handler guard table (KB/Generated/HandlerGuards.lean) for property C18.
//
// For every RPC handler method of the etcd-compatible server (receiver RPCServer, pkg/server/etcd) and of
// the brain server (receiver Server, pkg/server/brain) the body is walked in source order with the helper
// methods of the same package inlined.  The walk tracks, purely syntactically, on which side of an
// `IsLeader()` test / after which `SyncReadRevision()` statement a piece of code sits, and records where
// the data methods of `.backend` and the forwarding methods of `.peers` are called.  Anything the walk does
// not understand (IsLeader outside an if-condition, `||` around a role test, an alias of `.backend` or
// `.peers`, a follower-side return without codes.Unavailable, an unknown backend method, …) goes to
// `handlerGuardsUnresolved`, which theorem KB.C18.role_table requires to be [].
//
// Trusted: this analysis (DESIGN-C18.md, "trusted base").  It is checked dynamically by the `roles`
// harness suite: every row's predicted outcome and backend calls are compared with the real handlers.

import (
	"bytes"
	"fmt"
	"go/ast"
	"go/parser"
	"go/printer"
	"go/token"
	"os"
	"path/filepath"
	"sort"
	"strings"
)

type gpkg struct {
	fset    *token.FileSet
	methods map[string]map[string]*ast.FuncDecl // receiver type -> method -> decl
	funcs   map[string]*ast.FuncDecl
}

func loadPkg(rel string) *gpkg {
	p := &gpkg{fset: token.NewFileSet(), methods: map[string]map[string]*ast.FuncDecl{}, funcs: map[string]*ast.FuncDecl{}}
	ents, err := os.ReadDir(filepath.Join(repo, rel))
	if err != nil {
		fmt.Fprintf(os.Stderr, "kbextract: cannot read %s: %v\n", rel, err)
		os.Exit(1)
	}
	for _, e := range ents {
		n := e.Name()
		if e.IsDir() || !strings.HasSuffix(n, ".go") || strings.HasSuffix(n, "_test.go") {
			continue
		}
		f, err := parser.ParseFile(p.fset, filepath.Join(repo, rel, n), nil, 0)
		if err != nil {
			fmt.Fprintf(os.Stderr, "kbextract: cannot parse %s/%s: %v\n", rel, n, err)
			os.Exit(1)
		}
		for _, d := range f.Decls {
			fd, ok := d.(*ast.FuncDecl)
			if !ok || fd.Body == nil {
				continue
			}
			if fd.Recv == nil || len(fd.Recv.List) == 0 {
				p.funcs[fd.Name.Name] = fd
				continue
			}
			t := gTypeName(fd.Recv.List[0].Type)
			if t == "" {
				continue
			}
			if p.methods[t] == nil {
				p.methods[t] = map[string]*ast.FuncDecl{}
			}
			p.methods[t][fd.Name.Name] = fd
		}
	}
	return p
}

func gTypeName(e ast.Expr) string {
	switch x := e.(type) {
	case *ast.StarExpr:
		return gTypeName(x.X)
	case *ast.Ident:
		return x.Name
	}
	return ""
}

func (p *gpkg) text(n ast.Node) string {
	var b bytes.Buffer
	_ = printer.Fprint(&b, p.fset, n)
	return strings.Join(strings.Fields(b.String()), " ")
}

const (
	sideAny = iota
	sideLeader
	sideFollower
)
const (
	pcAlways = iota
	pcOn
	pcOff
)

type gctx struct {
	side      int
	pc        int
	synced    bool
	syncFail  bool   // inside the failing branch of `if err := SyncReadRevision(); err != nil`
	errName   string // the error variable of that branch / of a leader-check helper
	unavailOK bool   // returning errName returns a codes.Unavailable error (leader-check helper)
}

type gevent struct {
	kind string // sync | isLeader | forward | backend | reject
	name string
	c    gctx
}

type retInfo struct {
	side    int
	nilErr  bool
	unavail bool
}

type condFact struct {
	text, neg string
	truth     bool
}

type ganalysis struct {
	p          *gpkg
	events     []gevent
	unresolved []string
	where      string

	variant   string
	facts     map[string]bool
	spawns    []string
	pathConds map[string][]condFact
	condStack []condFact

	stack   []string
	checked map[*ast.FuncDecl]bool

	rootRetNil, rootRetErr, rootRetUnknown int

	// the if-statement whose header contains the first guard
	guardSet        bool
	guardReturnsErr bool
	guardDataConds  []string
}

func (a *ganalysis) unres(format string, args ...interface{}) {
	a.unresolved = append(a.unresolved, a.where+": "+fmt.Sprintf(format, args...))
}

var backendBenign = map[string]bool{"GetResourceLock": true, "GetCurrentRevision": true}
var backendKind = map[string]string{
	"Create": "write", "Update": "write", "Delete": "write", "Compact": "write", "SetCurrentRevision": "write",
	"Watch": "watch",
	"Get":   "read", "List": "read", "Count": "read", "GetPartitions": "read", "ListByStream": "read",
}

// fieldCall recognises <x>.<field>.<method>(…) (or <field>.<method>(…)) and returns the method name.
func fieldCall(c *ast.CallExpr, field string) (string, bool) {
	sel, ok := c.Fun.(*ast.SelectorExpr)
	if !ok {
		return "", false
	}
	switch x := sel.X.(type) {
	case *ast.SelectorExpr:
		if x.Sel.Name == field {
			return sel.Sel.Name, true
		}
	case *ast.Ident:
		if x.Name == field {
			return sel.Sel.Name, true
		}
	}
	return "", false
}

func stripParens(e ast.Expr) ast.Expr {
	for {
		p, ok := e.(*ast.ParenExpr)
		if !ok {
			return e
		}
		e = p.X
	}
}

func flattenAnd(e ast.Expr, out []ast.Expr) []ast.Expr {
	e = stripParens(e)
	if b, ok := e.(*ast.BinaryExpr); ok && b.Op == token.LAND {
		out = flattenAnd(b.X, out)
		return flattenAnd(b.Y, out)
	}
	return append(out, e)
}

func (a *ganalysis) negText(e ast.Expr) string {
	e = stripParens(e)
	switch x := e.(type) {
	case *ast.UnaryExpr:
		if x.Op == token.NOT {
			return a.p.text(stripParens(x.X))
		}
	case *ast.BinaryExpr:
		flip := map[token.Token]token.Token{token.LSS: token.GEQ, token.GEQ: token.LSS, token.GTR: token.LEQ,
			token.LEQ: token.GTR, token.EQL: token.NEQ, token.NEQ: token.EQL}
		if op, ok := flip[x.Op]; ok {
			return a.p.text(&ast.BinaryExpr{X: x.X, Op: op, Y: x.Y})
		}
	}
	return "!" + a.p.text(e)
}

type env map[string]string // identifier -> package-local type name

func (a *ganalysis) resolveHelper(c *ast.CallExpr, ev env) (*ast.FuncDecl, string) {
	sel, ok := c.Fun.(*ast.SelectorExpr)
	if !ok {
		return nil, ""
	}
	id, ok := sel.X.(*ast.Ident)
	if !ok {
		return nil, ""
	}
	t, ok := ev[id.Name]
	if !ok {
		return nil, ""
	}
	if fd, ok := a.p.methods[t][sel.Sel.Name]; ok {
		return fd, t + "." + sel.Sel.Name
	}
	return nil, ""
}

func funcEnv(fd *ast.FuncDecl, p *gpkg) env {
	ev := env{}
	add := func(fl *ast.FieldList) {
		if fl == nil {
			return
		}
		for _, f := range fl.List {
			t := gTypeName(f.Type)
			if _, ok := p.methods[t]; ok {
				for _, n := range f.Names {
					ev[n.Name] = t
				}
			}
		}
	}
	add(fd.Recv)
	add(fd.Type.Params)
	return ev
}

// aliasCheck flags every use of `.backend` / `.peers` that is neither the receiver of a method call nor the
// value of a same-named field in a composite literal.
func (a *ganalysis) aliasCheck(body ast.Node) {
	ok := map[ast.Node]bool{}
	ast.Inspect(body, func(n ast.Node) bool {
		switch x := n.(type) {
		case *ast.CallExpr:
			if sel, isSel := x.Fun.(*ast.SelectorExpr); isSel {
				ok[sel.X] = true
			}
		case *ast.KeyValueExpr:
			if k, isID := x.Key.(*ast.Ident); isID {
				if v, isSel := x.Value.(*ast.SelectorExpr); isSel && v.Sel.Name == k.Name {
					ok[x.Value] = true
				}
			}
		}
		return true
	})
	ast.Inspect(body, func(n ast.Node) bool {
		if s, isSel := n.(*ast.SelectorExpr); isSel && (s.Sel.Name == "backend" || s.Sel.Name == "peers") && !ok[n] {
			a.unres("alias of .%s (%s)", s.Sel.Name, a.p.text(s))
		}
		return true
	})
}

func (a *ganalysis) emit(kind, name string, c gctx) {
	a.events = append(a.events, gevent{kind, name, c})
}

func containsUnavailable(n ast.Node) bool {
	found := false
	ast.Inspect(n, func(m ast.Node) bool {
		if s, ok := m.(*ast.SelectorExpr); ok && s.Sel.Name == "Unavailable" {
			if id, ok := s.X.(*ast.Ident); ok && id.Name == "codes" {
				found = true
			}
		}
		return true
	})
	return found
}

func usesIdent(n ast.Node, name string) bool {
	found := false
	ast.Inspect(n, func(m ast.Node) bool {
		if id, ok := m.(*ast.Ident); ok && id.Name == name {
			found = true
		}
		return true
	})
	return found
}

// scan emits the events of the calls inside an expression or simple statement (source order), inlining
// helper methods.  Returns the summaries of the helpers it inlined (by call).
func (a *ganalysis) scan(n ast.Node, c gctx, ev env) map[*ast.CallExpr][]retInfo {
	sums := map[*ast.CallExpr][]retInfo{}
	if n == nil {
		return sums
	}
	ast.Inspect(n, func(m ast.Node) bool {
		call, ok := m.(*ast.CallExpr)
		if !ok {
			return true
		}
		if meth, ok := fieldCall(call, "peers"); ok {
			switch meth {
			case "SyncReadRevision":
				a.emit("sync", meth, c)
			case "IsLeader", "EtcdProxyEnabled":
				a.unres("%s() outside a top-level conjunct of an if-condition", meth)
				if meth == "IsLeader" {
					a.emit("isLeader", meth, c)
				}
			case "Txn", "Watch":
				a.emit("forward", meth, c)
			case "GetLeaderInfo", "GetElectionInfo", "Campaign", "Close":
			default:
				a.unres("unknown peers method %s", meth)
			}
			return true
		}
		if meth, ok := fieldCall(call, "backend"); ok {
			if !backendBenign[meth] {
				if _, known := backendKind[meth]; !known {
					a.unres("unknown backend method %s", meth)
				}
				a.emit("backend", meth, c)
			}
			return true
		}
		if fd, name := a.resolveHelper(call, ev); fd != nil {
			for _, arg := range call.Args {
				for k, v := range a.scan(arg, c, ev) {
					sums[k] = v
				}
			}
			sums[call] = a.inline(fd, name, c, false)
			return false
		}
		return true
	})
	return sums
}

func (a *ganalysis) inline(fd *ast.FuncDecl, name string, c gctx, retLevel bool) []retInfo {
	for _, s := range a.stack {
		if s == name {
			a.unres("recursive helper %s", name)
			return nil
		}
	}
	if len(a.stack) > 8 {
		a.unres("helper nesting too deep at %s", name)
		return nil
	}
	a.stack = append(a.stack, name)
	defer func() { a.stack = a.stack[:len(a.stack)-1] }()
	if a.checked == nil {
		a.checked = map[*ast.FuncDecl]bool{}
	}
	if !a.checked[fd] {
		a.checked[fd] = true
		a.aliasCheck(fd.Body)
	}
	// a helper starts without the caller's error-variable context
	c.errName, c.unavailOK, c.syncFail = "", false, false
	var rets []retInfo
	a.walkBlock(fd.Body.List, c, funcEnv(fd, a.p), retLevel, len(a.stack) == 1, &rets)
	return rets
}

func opposite(c gctx, role, pc int, sync bool) gctx {
	switch role {
	case sideFollower:
		c.side = sideLeader
	case sideLeader:
		c.side = sideFollower
	}
	switch pc {
	case pcOn:
		c.pc = pcOff
	case pcOff:
		c.pc = pcOn
	}
	if sync {
		c.synced = true
	}
	return c
}

func (a *ganalysis) firstGuardIdx() int {
	for i, e := range a.events {
		if e.kind == "sync" || e.kind == "isLeader" || e.kind == "forward" {
			return i
		}
	}
	return -1
}

// walkBlock returns whether the block always leaves the function (ends in return).
func (a *ganalysis) walkBlock(stmts []ast.Stmt, c gctx, ev env, retLevel, root bool, rets *[]retInfo) bool {
	for _, st := range stmts {
		var term bool
		c, term = a.walkStmt(st, c, ev, retLevel, root, rets)
		if term {
			return true
		}
	}
	return false
}

func (a *ganalysis) walkStmt(st ast.Stmt, c gctx, ev env, retLevel, root bool, rets *[]retInfo) (gctx, bool) {
	switch s := st.(type) {
	case *ast.BlockStmt:
		return c, a.walkBlock(s.List, c, ev, retLevel, root, rets)
	case *ast.LabeledStmt:
		return a.walkStmt(s.Stmt, c, ev, retLevel, root, rets)
	case *ast.ReturnStmt:
		before := len(a.events)
		for _, r := range s.Results {
			a.scan(r, c, ev)
		}
		forwarded := false
		for _, e := range a.events[before:] {
			if e.kind == "forward" {
				forwarded = true
			}
		}
		ri := retInfo{side: c.side, nilErr: true, unavail: containsUnavailable(s)}
		if n := len(s.Results); n > 0 {
			last := stripParens(s.Results[n-1])
			if id, ok := last.(*ast.Ident); !ok || id.Name != "nil" {
				ri.nilErr = false
			}
			if id, ok := last.(*ast.Ident); ok && id.Name == c.errName && c.unavailOK {
				ri.unavail = true
			}
		}
		*rets = append(*rets, ri)
		if root {
			// a definite error is one constructed in the return statement itself (fmt.Errorf(…), …)
			definite := false
			if n := len(s.Results); n > 0 {
				_, definite = stripParens(s.Results[n-1]).(*ast.CallExpr)
			}
			switch {
			case ri.nilErr:
				a.rootRetNil++
			case definite:
				a.rootRetErr++
			default:
				a.rootRetUnknown++
			}
		}
		if retLevel && c.side == sideFollower && !forwarded {
			if !ri.unavail {
				a.unres("follower-side return without codes.Unavailable: %s", a.p.text(s))
			}
			a.emit("reject", "", c)
		}
		return c, true
	case *ast.GoStmt:
		if fd, name := a.resolveHelper(s.Call, ev); fd != nil {
			target := fd.Name.Name
			if a.variant == "" {
				a.spawns = append(a.spawns, target)
				a.pathConds[target] = append([]condFact{}, a.condStack...)
			} else if a.variant != target {
				return c, false
			}
			for _, arg := range s.Call.Args {
				a.scan(arg, c, ev)
			}
			a.inline(fd, name, c, true)
			return c, false
		}
		a.scan(s.Call, c, ev)
		return c, false
	case *ast.IfStmt:
		return a.walkIf(s, c, ev, retLevel, root, rets)
	case *ast.ForStmt:
		a.scan(s.Init, c, ev)
		if s.Cond != nil {
			a.scan(s.Cond, c, ev)
		}
		a.scan(s.Post, c, ev)
		a.walkBlock(s.Body.List, c, ev, retLevel, root, rets)
		return c, false
	case *ast.RangeStmt:
		a.scan(s.X, c, ev)
		a.walkBlock(s.Body.List, c, ev, retLevel, root, rets)
		return c, false
	case *ast.SwitchStmt:
		a.scan(s.Init, c, ev)
		if s.Tag != nil {
			a.scan(s.Tag, c, ev)
		}
		a.walkClauses(s.Body, c, ev, retLevel, root, rets)
		return c, false
	case *ast.TypeSwitchStmt:
		a.scan(s.Init, c, ev)
		a.scan(s.Assign, c, ev)
		a.walkClauses(s.Body, c, ev, retLevel, root, rets)
		return c, false
	case *ast.SelectStmt:
		a.walkClauses(s.Body, c, ev, retLevel, root, rets)
		return c, false
	case *ast.AssignStmt:
		// x := &T{…} / T{…}: remember the local's type for helper resolution
		if len(s.Lhs) == 1 && len(s.Rhs) == 1 {
			if id, ok := s.Lhs[0].(*ast.Ident); ok {
				r := s.Rhs[0]
				if u, ok := r.(*ast.UnaryExpr); ok && u.Op == token.AND {
					r = u.X
				}
				if cl, ok := r.(*ast.CompositeLit); ok {
					if t := gTypeName(cl.Type); t != "" {
						if _, ok := a.p.methods[t]; ok {
							ev[id.Name] = t
						}
					}
				}
			}
		}
		a.scan(s, c, ev)
		return c, false
	default:
		a.scan(st, c, ev)
		return c, false
	}
}

func (a *ganalysis) walkClauses(body *ast.BlockStmt, c gctx, ev env, retLevel, root bool, rets *[]retInfo) {
	for _, cl := range body.List {
		switch x := cl.(type) {
		case *ast.CaseClause:
			for _, e := range x.List {
				a.scan(e, c, ev)
			}
			a.walkBlock(x.Body, c, ev, retLevel, root, rets)
		case *ast.CommClause:
			if x.Comm != nil {
				a.walkStmt(x.Comm, c, ev, retLevel, root, rets)
			}
			a.walkBlock(x.Body, c, ev, retLevel, root, rets)
		}
	}
}

func (a *ganalysis) walkIf(s *ast.IfStmt, c gctx, ev env, retLevel, root bool, rets *[]retInfo) (gctx, bool) {
	evBefore := len(a.events)
	// Init: `err := <guard call>` patterns
	initKind, errName, helperUnavail := "", "", false
	if s.Init != nil {
		sums := a.scan(s.Init, c, ev)
		if as, ok := s.Init.(*ast.AssignStmt); ok && len(as.Lhs) == 1 && len(as.Rhs) == 1 {
			if id, ok := as.Lhs[0].(*ast.Ident); ok {
				if call, ok := as.Rhs[0].(*ast.CallExpr); ok {
					if m, ok := fieldCall(call, "peers"); ok && m == "SyncReadRevision" {
						initKind, errName = "sync", id.Name
					} else if rs, ok := sums[call]; ok {
						// leader-check helper: returns a non-nil error exactly on the follower side
						foll, okAll, unav := 0, len(rs) > 0, true
						for _, r := range rs {
							if r.side == sideFollower {
								foll++
								if r.nilErr {
									okAll = false
								}
								if !r.unavail {
									unav = false
								}
							} else if r.side == sideLeader {
								if !r.nilErr {
									okAll = false
								}
							} else {
								okAll = false
							}
						}
						if okAll && foll > 0 {
							initKind, errName, helperUnavail = "leaderCheck", id.Name, unav
						}
					}
				}
			}
		}
	}
	// Cond: conjunction of role terms, proxy terms, the error test and request-shape terms
	role, pc, syncFail := sideAny, pcAlways, false
	var dataTerms []ast.Expr
	var dataConds []string
	condFalse := false
	live := 0
	for _, t := range flattenAnd(s.Cond, nil) {
		inner, neg := t, false
		if u, ok := inner.(*ast.UnaryExpr); ok && u.Op == token.NOT {
			inner, neg = stripParens(u.X), true
		}
		if call, ok := inner.(*ast.CallExpr); ok {
			if m, ok := fieldCall(call, "peers"); ok && m == "IsLeader" {
				a.emit("isLeader", m, c)
				if neg {
					role = sideFollower
				} else {
					role = sideLeader
				}
				live++
				continue
			}
			if m, ok := fieldCall(call, "peers"); ok && m == "EtcdProxyEnabled" {
				if neg {
					pc = pcOff
				} else {
					pc = pcOn
				}
				live++
				continue
			}
		}
		if b, ok := inner.(*ast.BinaryExpr); ok && !neg && b.Op == token.NEQ && initKind != "" {
			if id, ok := b.X.(*ast.Ident); ok && id.Name == errName {
				if n, ok := b.Y.(*ast.Ident); ok && n.Name == "nil" {
					if initKind == "sync" {
						syncFail = true
					} else {
						role = sideFollower
					}
					live++
					continue
				}
			}
		}
		txt := a.p.text(t)
		if v, known := a.facts[txt]; known {
			if !v {
				condFalse = true
				break
			}
			continue // statically true in this variant
		}
		a.scan(t, c, ev)
		dataTerms = append(dataTerms, t)
		dataConds = append(dataConds, txt)
		live++
	}
	if condFalse {
		if s.Else != nil {
			return a.walkStmt(s.Else, c, ev, retLevel, root, rets)
		}
		return c, false
	}
	single := live == 1 && len(dataTerms) == 0
	thenC := c
	if role != sideAny {
		thenC.side = role
	}
	if pc != pcAlways {
		thenC.pc = pc
	}
	if syncFail {
		thenC.syncFail, thenC.errName = true, errName
	}
	if initKind == "leaderCheck" && role == sideFollower {
		thenC.errName, thenC.unavailOK = errName, helperUnavail
	}
	elseC := c
	if single {
		elseC = opposite(c, role, pc, syncFail)
	}
	isGuardIf := false
	if fg := a.firstGuardIdx(); fg >= evBefore && fg < len(a.events) && (role != sideAny || syncFail) {
		isGuardIf = true
	}
	// a single request-shape term is a path condition for goroutine variants
	pushed := false
	if live == 1 && len(dataTerms) == 1 {
		a.condStack = append(a.condStack, condFact{dataConds[0], a.negText(dataTerms[0]), true})
		pushed = true
	}
	thenTerm := false
	if live == 0 && s.Else != nil {
		// statically true: only the then-branch
		thenTerm = a.walkBlock(s.Body.List, thenC, ev, retLevel, root, rets)
		return c, thenTerm
	}
	thenTerm = a.walkBlock(s.Body.List, thenC, ev, retLevel, root, rets)
	if pushed {
		a.condStack[len(a.condStack)-1].truth = false
	}
	elseTerm := false
	if s.Else != nil {
		_, elseTerm = a.walkStmt(s.Else, elseC, ev, retLevel, root, rets)
	}
	if pushed {
		a.condStack = a.condStack[:len(a.condStack)-1]
	}
	if isGuardIf {
		a.guardSet = true
		a.guardDataConds = dataConds
		switch {
		case syncFail:
			a.guardReturnsErr = thenTerm && retLevel && single && usesIdent(s.Body, errName)
		case role == sideFollower:
			a.guardReturnsErr = thenTerm && retLevel
		case role == sideLeader:
			a.guardReturnsErr = s.Else != nil && elseTerm && retLevel
		}
	}
	if live == 0 {
		return c, thenTerm
	}
	if s.Else != nil && thenTerm && elseTerm {
		return c, true
	}
	if single && thenTerm {
		return elseC, false
	}
	if single && s.Else != nil && elseTerm {
		return thenC, false
	}
	return c, false
}

type guardRow struct {
	api, handler              string
	rpc                       bool
	kind, firstGuard          string
	touchesBefore, returnsErr bool
	unguarded                 bool
	actions                   []string
	calls, dataConds          []string
	alwaysErrors              bool
}

func (a *ganalysis) row(api, handler string, rpc bool) guardRow {
	r := guardRow{api: api, handler: handler, rpc: rpc, firstGuard: "none", kind: "other"}
	fg := a.firstGuardIdx()
	if fg >= 0 {
		switch a.events[fg].kind {
		case "sync":
			r.firstGuard = "syncRead"
		case "isLeader":
			r.firstGuard = "isLeader"
		case "forward":
			r.firstGuard = "proxy"
		}
	}
	rank := map[string]int{"other": 0, "read": 1, "watch": 2, "write": 3}
	kinds := map[string]bool{}
	for i, e := range a.events {
		switch e.kind {
		case "backend":
			seen := false
			for _, m := range r.calls {
				seen = seen || m == e.name
			}
			if !seen {
				r.calls = append(r.calls, e.name)
			}
			k := backendKind[e.name]
			if k == "" {
				k = "write" // unknown method: treated as the most dangerous kind (and unresolved)
			}
			kinds[k] = true
			if rank[k] > rank[r.kind] {
				r.kind = k
			}
			if fg < 0 || i < fg {
				r.touchesBefore = true
			}
			switch r.firstGuard {
			case "syncRead":
				if !e.c.synced {
					r.unguarded = true
				}
			case "isLeader", "proxy":
				if e.c.side != sideLeader {
					r.unguarded = true
				}
			default:
				r.unguarded = true
			}
		case "forward", "reject":
			if e.c.side != sideFollower {
				a.unres("%s not on the non-leader side of an IsLeader test", e.kind)
			}
			act := ".forward"
			if e.kind == "reject" {
				act = ".reject"
			}
			cond := [...]string{".always", ".proxyOn", ".proxyOff"}[e.c.pc]
			s := "(" + act + ", " + cond + ")"
			if n := len(r.actions); n == 0 || r.actions[n-1] != s {
				r.actions = append(r.actions, s)
			}
		}
	}
	if len(kinds) > 1 {
		a.unres("handler mixes backend method kinds %v", kinds)
	}
	r.returnsErr = a.guardSet && a.guardReturnsErr
	r.dataConds = a.guardDataConds
	r.alwaysErrors = a.rootRetErr > 0 && a.rootRetNil == 0 && a.rootRetUnknown == 0
	return r
}

func analyse(p *gpkg, recv string, fd *ast.FuncDecl, variant string, facts map[string]bool, where string) *ganalysis {
	a := &ganalysis{p: p, variant: variant, facts: facts, pathConds: map[string][]condFact{}, where: where}
	if a.facts == nil {
		a.facts = map[string]bool{}
	}
	a.inline(fd, recv+"."+fd.Name.Name, gctx{}, true)
	return a
}

func genHandlerGuards() {
	var rows []guardRow
	var unresolved []string
	type server struct {
		api, dir, recv string
		required       []string
	}
	servers := []server{
		{"etcd", "pkg/server/etcd", "RPCServer", []string{"Range", "Txn", "Watch/List", "Watch/Watch", "Compact"}},
		{"brain", "pkg/server/brain", "Server", []string{"Create", "Update", "Delete", "Compact", "Get", "Range", "Count",
			"ListPartition", "RangeStream", "Watch"}},
	}
	for _, sv := range servers {
		p := loadPkg(sv.dir)
		ms := p.methods[sv.recv]
		if ms == nil {
			unresolved = append(unresolved, sv.api+": receiver type "+sv.recv+" not found")
			continue
		}
		// helper methods of other types reachable from handlers (watcher.*) are checked for aliases too
		names := make([]string, 0, len(ms))
		for n := range ms {
			names = append(names, n)
		}
		sort.Strings(names)
		// background loops started by the constructor: `go server.loop()`
		background := map[string]bool{}
		if nf, ok := p.funcs["New"]; ok {
			a := &ganalysis{p: p, pathConds: map[string][]condFact{}, facts: map[string]bool{}, where: sv.api + ".New"}
			a.inline(nf, "New", gctx{}, true)
			for _, s := range a.spawns {
				background[s] = true
			}
		} else {
			unresolved = append(unresolved, sv.api+": constructor New not found")
		}
		have := map[string]bool{}
		for _, n := range names {
			fd := ms[n]
			exported := ast.IsExported(n)
			if n == "Register" || (!exported && !background[n]) {
				continue
			}
			where := sv.api + "." + n
			a := analyse(p, sv.recv, fd, "", nil, where)
			if len(a.spawns) == 0 {
				rows = append(rows, a.row(sv.api, n, exported))
				unresolved = append(unresolved, a.unresolved...)
				have[n] = true
				continue
			}
			// one row per goroutine the handler starts, under the path condition of its `go` statement
			seen := map[string]bool{}
			for _, target := range a.spawns {
				if seen[target] {
					continue
				}
				seen[target] = true
				facts := map[string]bool{}
				for _, f := range a.pathConds[target] {
					facts[f.text] = f.truth
					facts[f.neg] = !f.truth
				}
				v := analyse(p, sv.recv, fd, target, facts, where+"/"+target)
				rows = append(rows, v.row(sv.api, n+"/"+target, exported))
				unresolved = append(unresolved, v.unresolved...)
				have[n+"/"+target] = true
			}
		}
		for _, r := range sv.required {
			if !have[r] {
				unresolved = append(unresolved, sv.api+": required handler "+r+" not found")
			}
		}
	}
	sort.SliceStable(rows, func(i, j int) bool {
		if rows[i].api != rows[j].api {
			return rows[i].api > rows[j].api // etcd first
		}
		return rows[i].handler < rows[j].handler
	})
	var sb strings.Builder
	sb.WriteString("-- GENERATED by kbextract (guards.go) from the current /repo tree — do not edit; rewritten on every check run.\n")
	sb.WriteString("import KB.Server\nnamespace KB.Generated\nopen KB.Server\n")
	sb.WriteString("def handlerGuards : List HandlerGuard := [\n")
	for i, r := range rows {
		fmt.Fprintf(&sb, "  { api := .%s, handler := %s, rpc := %v, kind := .%s, firstGuard := .%s,\n"+
			"    touchesBackendBeforeGuard := %v, returnsGuardError := %v, unguardedBackend := %v,\n"+
			"    followerActions := [%s], backendCalls := %s,\n    guardDataConds := %s, alwaysErrors := %v }",
			r.api, leanStr(r.handler), r.rpc, r.kind, r.firstGuard, r.touchesBefore, r.returnsErr, r.unguarded,
			strings.Join(r.actions, ", "), leanStrList(r.calls), leanStrList(r.dataConds), r.alwaysErrors)
		if i+1 < len(rows) {
			sb.WriteString(",")
		}
		sb.WriteString("\n")
	}
	sb.WriteString("]\n")
	sort.Strings(unresolved)
	fmt.Fprintf(&sb, "def handlerGuardsUnresolved : List String := %s\n", leanStrList(unresolved))
	sb.WriteString("end KB.Generated\n")
	writeOut("HandlerGuards.lean", sb.String())
}
