package main

// Shared go/ast loader for the table extractors (metrics.go, locks.go): every non-test .go file under
// /repo/pkg and /repo/cmd, grouped by directory (= package), with indexes of functions, package-level
// values and struct types. Purely syntactic (go/ast + the parser's file-local identifier resolution);
// nothing here type-checks, so everything the extractors conclude from it is lexical and fails closed.

import (
	"fmt"
	"go/ast"
	"go/parser"
	"go/token"
	"os"
	"path/filepath"
	"sort"
	"strconv"
	"strings"
)

type srcFile struct {
	rel     string // path relative to the repository root
	f       *ast.File
	imports map[string]string // local name -> import path
}

type pkgInfo struct {
	dir      string // relative directory, e.g. pkg/server/brain
	name     string
	files    []*srcFile
	funcs    map[string][]*funcInfo // by bare name (functions and methods)
	topVals  map[string]ast.Expr    // package-level var/const initialisers
	topIsVar map[string]bool
	structs  map[string]*ast.StructType
}

type funcInfo struct {
	p    *pkgInfo
	file *srcFile
	fd   *ast.FuncDecl
	recv string // receiver type name ("" for plain functions)
}

func (fi *funcInfo) qual() string {
	if fi.recv != "" {
		return fi.recv + "." + fi.fd.Name.Name
	}
	return fi.fd.Name.Name
}

type program struct {
	fset *token.FileSet
	pkgs map[string]*pkgInfo // by relative dir
	dirs []string
}

var theProgram *program

func loadProgram() *program {
	if theProgram != nil {
		return theProgram
	}
	pr := &program{fset: token.NewFileSet(), pkgs: map[string]*pkgInfo{}}
	for _, root := range []string{"pkg", "cmd"} {
		base := filepath.Join(repo, root)
		err := filepath.Walk(base, func(path string, info os.FileInfo, err error) error {
			if err != nil {
				return err
			}
			if info.IsDir() {
				if info.Name() == "vendor" || info.Name() == "testdata" {
					return filepath.SkipDir
				}
				return nil
			}
			if !strings.HasSuffix(path, ".go") || strings.HasSuffix(path, "_test.go") {
				return nil
			}
			rel, _ := filepath.Rel(repo, path)
			f, perr := parser.ParseFile(pr.fset, path, nil, parser.ParseComments)
			if perr != nil {
				fmt.Fprintf(os.Stderr, "kbextract: cannot parse %s: %v\n", rel, perr)
				os.Exit(1)
			}
			dir := filepath.Dir(rel)
			p := pr.pkgs[dir]
			if p == nil {
				p = &pkgInfo{dir: dir, name: f.Name.Name, funcs: map[string][]*funcInfo{}, topVals: map[string]ast.Expr{},
					topIsVar: map[string]bool{}, structs: map[string]*ast.StructType{}}
				pr.pkgs[dir] = p
				pr.dirs = append(pr.dirs, dir)
			}
			sf := &srcFile{rel: rel, f: f, imports: map[string]string{}}
			for _, im := range f.Imports {
				ip, _ := strconv.Unquote(im.Path.Value)
				name := filepath.Base(ip)
				if im.Name != nil {
					name = im.Name.Name
				}
				sf.imports[name] = ip
			}
			p.files = append(p.files, sf)
			for _, d := range f.Decls {
				switch x := d.(type) {
				case *ast.FuncDecl:
					fi := &funcInfo{p: p, file: sf, fd: x}
					if x.Recv != nil && len(x.Recv.List) == 1 {
						fi.recv = typeName(x.Recv.List[0].Type)
					}
					p.funcs[x.Name.Name] = append(p.funcs[x.Name.Name], fi)
				case *ast.GenDecl:
					for _, s := range x.Specs {
						switch sp := s.(type) {
						case *ast.ValueSpec:
							for i, n := range sp.Names {
								if i < len(sp.Values) {
									p.topVals[n.Name] = sp.Values[i]
								}
								p.topIsVar[n.Name] = x.Tok == token.VAR
							}
						case *ast.TypeSpec:
							if st, ok := sp.Type.(*ast.StructType); ok {
								p.structs[sp.Name.Name] = st
							}
						}
					}
				}
			}
			return nil
		})
		if err != nil {
			fmt.Fprintf(os.Stderr, "kbextract: walking %s: %v\n", base, err)
			os.Exit(1)
		}
	}
	sort.Strings(pr.dirs)
	for _, p := range pr.pkgs {
		sort.Slice(p.files, func(i, j int) bool { return p.files[i].rel < p.files[j].rel })
	}
	theProgram = pr
	return pr
}

// typeName strips pointers / parentheses from a type expression and returns the bare type name
// ("" when it is not a plain named type of the same package; "pkg.T" for a qualified one).
func typeName(e ast.Expr) string {
	switch x := e.(type) {
	case *ast.StarExpr:
		return typeName(x.X)
	case *ast.ParenExpr:
		return typeName(x.X)
	case *ast.Ident:
		return x.Name
	case *ast.SelectorExpr:
		if id, ok := x.X.(*ast.Ident); ok {
			return id.Name + "." + x.Sel.Name
		}
	}
	return ""
}

func (pr *program) pos(p token.Pos) token.Position { return pr.fset.Position(p) }

func (pr *program) line(p token.Pos) int { return pr.fset.Position(p).Line }

// funcsSorted returns every function of the program in a deterministic order.
func (pr *program) funcsSorted() []*funcInfo {
	var out []*funcInfo
	for _, d := range pr.dirs {
		p := pr.pkgs[d]
		for _, sf := range p.files {
			for _, dcl := range sf.f.Decls {
				if fd, ok := dcl.(*ast.FuncDecl); ok {
					for _, fi := range p.funcs[fd.Name.Name] {
						if fi.fd == fd {
							out = append(out, fi)
						}
					}
				}
			}
		}
	}
	return out
}

// enclosingFunc finds the function declaration of package p containing position pos.
func (p *pkgInfo) enclosingFunc(pos token.Pos) *funcInfo {
	for _, fis := range p.funcs {
		for _, fi := range fis {
			if fi.fd.Pos() <= pos && pos < fi.fd.End() {
				return fi
			}
		}
	}
	return nil
}

// paramIndex returns (index, variadic, true) when obj is declared as a parameter of fd.
func paramIndex(fd *ast.FuncDecl, obj *ast.Object) (int, bool, bool) {
	if obj == nil || fd.Type.Params == nil {
		return 0, false, false
	}
	fld, ok := obj.Decl.(*ast.Field)
	if !ok {
		return 0, false, false
	}
	idx := 0
	for _, f := range fd.Type.Params.List {
		n := len(f.Names)
		if n == 0 {
			n = 1
		}
		if f == fld {
			for k, nm := range f.Names {
				if nm.Name == obj.Name {
					_, variadic := f.Type.(*ast.Ellipsis)
					return idx + k, variadic, true
				}
			}
		}
		idx += n
	}
	return 0, false, false
}

func leanStrList(xs []string) string {
	q := make([]string, len(xs))
	for i, x := range xs {
		q[i] = leanStr(x)
	}
	return "[" + strings.Join(q, ", ") + "]"
}

// leanStr for generated tables: Lean string literal (Go's %q escapes are a superset of what occurs:
// printable ASCII, \" and \\ only — anything else is replaced to stay inside Lean's escape syntax).
func leanLit(s string) string {
	var sb strings.Builder
	sb.WriteByte('"')
	for _, r := range s {
		switch {
		case r == '"' || r == '\\':
			sb.WriteByte('\\')
			sb.WriteRune(r)
		case r == '\n':
			sb.WriteString("\\n")
		case r == '\t':
			sb.WriteString("\\t")
		case r < 0x20 || r == 0x7f:
			fmt.Fprintf(&sb, "\\x%02x", r)
		default:
			sb.WriteRune(r)
		}
	}
	sb.WriteByte('"')
	return sb.String()
}

func leanLitList(xs []string) string {
	q := make([]string, len(xs))
	for i, x := range xs {
		q[i] = leanLit(x)
	}
	return "[" + strings.Join(q, ", ") + "]"
}

// leanName renders a name as the byte-list literal b!"…" (KB.Str); names that are not printable ASCII
// (never the case for identifiers) are written as an explicit list of byte values.
func leanName(s string) string {
	for i := 0; i < len(s); i++ {
		if s[i] < 0x20 || s[i] > 0x7e || s[i] == '"' || s[i] == '\\' {
			parts := make([]string, len(s))
			for j := 0; j < len(s); j++ {
				parts[j] = strconv.Itoa(int(s[j]))
			}
			return "([" + strings.Join(parts, ", ") + "] : List Nat)"
		}
	}
	return "b!\"" + s + "\""
}

func leanNameList(xs []string) string {
	q := make([]string, len(xs))
	for i, x := range xs {
		q[i] = leanName(x)
	}
	return "[" + strings.Join(q, ", ") + "]"
}
