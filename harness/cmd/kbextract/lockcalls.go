package main

// Who acts on the leader lock (C14).
//
// The lock model KB.Election gives every candidate three steps - get, create, update - and assumes that NOTHING ELSE moves
// a candidate's compare value (`lastVal`, what its next Update is conditioned on): in a node the steps are taken by client-go's
// elector only. These facts tie that assumption to the source:
//
//	lockCompareValueWriters : List String   functions of election.go that assign `<recv>.lastVal`        (want: Create, getRecord)
//	lockRecordReaders       : List String   functions of election.go that call `<recv>.getRecord()`       (want: Get)
//	lockUpdateReceiverCalls : List String   methods Update calls on its own receiver                       (want: genContext)
//	leaderLockCalls         : List String   methods that pkg/server/service/leader calls on `<x>.resourceLock` (want: Describe)
//
// (`Lock: l.resourceLock` hands the lock to the elector and is no call.) Syntactic; the correspondence runs of the `election`
// suite ask the real leader object's read-only endpoints between the steps (`info`) as the behavioural counterpart.

import (
	"fmt"
	"go/ast"
	"sort"
	"strings"
)

func sortedKeys(m map[string]bool) []string {
	var out []string
	for k := range m {
		out = append(out, k)
	}
	sort.Strings(out)
	return out
}

func genLockCallFacts(sb *strings.Builder) {
	writers, readers, updCalls, leaderCalls := map[string]bool{}, map[string]bool{}, map[string]bool{}, map[string]bool{}
	_, f := parseFile("pkg/backend/election/election.go")
	parsed := f != nil
	if f != nil {
		for _, d := range f.Decls {
			fd, ok := d.(*ast.FuncDecl)
			if !ok || fd.Body == nil {
				continue
			}
			recv, typ := recvTypeName(fd)
			if typ != "resourceLock" {
				continue
			}
			ast.Inspect(fd.Body, func(n ast.Node) bool {
				switch t := n.(type) {
				case *ast.AssignStmt:
					for _, l := range t.Lhs {
						if se, ok := l.(*ast.SelectorExpr); ok && se.Sel.Name == "lastVal" {
							writers[fd.Name.Name] = true
						}
					}
				case *ast.CallExpr:
					if se, ok := t.Fun.(*ast.SelectorExpr); ok {
						if id, isI := se.X.(*ast.Ident); isI && id.Name == recv {
							if se.Sel.Name == "getRecord" {
								readers[fd.Name.Name] = true
							}
							if fd.Name.Name == "Update" {
								updCalls[se.Sel.Name] = true
							}
						}
					}
				}
				return true
			})
		}
	}
	_, lf := parseFile("pkg/server/service/leader/leader.go")
	parsed = parsed && lf != nil
	if lf != nil {
		ast.Inspect(lf, func(n ast.Node) bool {
			c, ok := n.(*ast.CallExpr)
			if !ok {
				return true
			}
			se, ok := c.Fun.(*ast.SelectorExpr)
			if !ok {
				return true
			}
			if inner, ok := se.X.(*ast.SelectorExpr); ok && inner.Sel.Name == "resourceLock" {
				leaderCalls[se.Sel.Name] = true
			}
			return true
		})
	}
	fmt.Fprintf(sb, "/-- who acts on the leader lock (lockcalls.go) -/\n")
	fmt.Fprintf(sb, "def lockCallFactsParsed : Bool := %v\n", parsed)
	fmt.Fprintf(sb, "def lockCompareValueWriters : List String := %s\n", leanStrList(sortedKeys(writers)))
	fmt.Fprintf(sb, "def lockRecordReaders : List String := %s\n", leanStrList(sortedKeys(readers)))
	fmt.Fprintf(sb, "def lockUpdateReceiverCalls : List String := %s\n", leanStrList(sortedKeys(updCalls)))
	fmt.Fprintf(sb, "def leaderLockCalls : List String := %s\n", leanStrList(sortedKeys(leaderCalls)))
}
