// rangedispatch.go — the dispatch of RPCServer.Range (pkg/server/etcd/kv.go): WHICH backendshim method answers a
// range request and under WHICH GUARD, as regenerated facts in KB/Generated/Consts.lean (property C16, C03 through
// the etcd endpoint):
//
//	partitionMagic      : Nat                          the value of GetPartitionMagic
//	rangeDispatch       : List (List String × String)  the if / else-if chain, one row per backend call, in source
//	                                                   order: (conjuncts of the guard, backend method); the final
//	                                                   `else` has no conjunct
//	partitionMagicGuard : List String                  the conjuncts of the row that calls GetPartitions
//
// A guard is flattened over `&&`; every conjunct is rendered with the request parameter stripped
// (`r.Revision == GetPartitionMagic` → "Revision==GetPartitionMagic", `!r.CountOnly` → "!CountOnly",
// `len(r.RangeEnd) == 0` → "len(RangeEnd)==0"). Conjuncts the Lean side does not know (an `||`, a call, another
// field) are still rendered — the interpreting theorem (KB.C16.range_dispatch_as_in_source) then fails — and
// anything that cannot be rendered at all, a backend call outside the chain, a chain that is not an if/else-if
// chain of single backend calls, or an assignment to a field of the request goes to `constsUnresolved`.
// /repo e617587: the partition-listing guard is `Revision==GetPartitionMagic && Limit==0 && !CountOnly` (before:
// the revision alone — page 2 of a paginated list at revision 1888 was answered with partition borders).
package main

import (
	"fmt"
	"go/ast"
	"go/token"
	"strings"
)

const rangeDispatchFile = "pkg/server/etcd/kv.go"

type dispatchRow struct {
	guard  []string
	method string
}

func genRangeDispatch(sb *strings.Builder, unresolved *[]string) {
	_, f := parseFile(rangeDispatchFile)
	fail := func(what string) { *unresolved = append(*unresolved, rangeDispatchFile+":"+what) }

	// the value of the magic
	magic := int64(0)
	if e, ok := topValues(f)["GetPartitionMagic"]; ok {
		if n, ok2 := evalInt(e, topValues(f), 0); ok2 && n >= 0 {
			magic = n
		} else {
			fail("GetPartitionMagic")
		}
	} else {
		fail("GetPartitionMagic")
	}
	fmt.Fprintf(sb, "def partitionMagic : Nat := %d\n", magic)

	// func (s *RPCServer) Range(ctx, r *etcdserverpb.RangeRequest)
	var fd *ast.FuncDecl
	for _, d := range f.Decls {
		x, ok := d.(*ast.FuncDecl)
		if !ok || x.Name.Name != "Range" || x.Recv == nil || len(x.Recv.List) != 1 || x.Body == nil {
			continue
		}
		if st, ok := x.Recv.List[0].Type.(*ast.StarExpr); ok {
			if id, ok := st.X.(*ast.Ident); ok && id.Name == "RPCServer" {
				fd = x
			}
		}
	}
	var rows []dispatchRow
	if fd == nil || len(fd.Recv.List[0].Names) != 1 {
		fail("RPCServer.Range")
	} else {
		recv := fd.Recv.List[0].Names[0].Name
		req := ""
		for _, p := range fd.Type.Params.List {
			if st, ok := p.Type.(*ast.StarExpr); ok {
				if se, ok := st.X.(*ast.SelectorExpr); ok && se.Sel.Name == "RangeRequest" && len(p.Names) == 1 {
					req = p.Names[0].Name
				}
			}
		}
		if req == "" {
			fail("RPCServer.Range request parameter")
		}
		// <recv>.backend.<M>(...)
		backendCall := func(n ast.Node) string {
			c, ok := n.(*ast.CallExpr)
			if !ok {
				return ""
			}
			se, ok := c.Fun.(*ast.SelectorExpr)
			if !ok {
				return ""
			}
			in, ok := se.X.(*ast.SelectorExpr)
			if !ok || in.Sel.Name != "backend" {
				return ""
			}
			if id, ok := in.X.(*ast.Ident); !ok || id.Name != recv {
				return ""
			}
			return se.Sel.Name
		}
		allCalls := 0
		ast.Inspect(fd.Body, func(n ast.Node) bool {
			if backendCall(n) != "" {
				allCalls++
			}
			// the request must reach the dispatch as it came: no assignment to one of its fields
			if as, ok := n.(*ast.AssignStmt); ok {
				for _, l := range as.Lhs {
					if se, ok := l.(*ast.SelectorExpr); ok {
						if id, ok := se.X.(*ast.Ident); ok && id.Name == req {
							fail("RPCServer.Range assigns to " + req + "." + se.Sel.Name)
						}
					}
				}
			}
			return true
		})
		var render func(e ast.Expr) string
		render = func(e ast.Expr) string {
			switch x := e.(type) {
			case *ast.Ident:
				return x.Name
			case *ast.BasicLit:
				return x.Value
			case *ast.SelectorExpr:
				if id, ok := x.X.(*ast.Ident); ok && id.Name == req {
					return x.Sel.Name
				}
				return render(x.X) + "." + x.Sel.Name
			case *ast.ParenExpr:
				return "(" + render(x.X) + ")"
			case *ast.UnaryExpr:
				return x.Op.String() + render(x.X)
			case *ast.BinaryExpr:
				return render(x.X) + x.Op.String() + render(x.Y)
			case *ast.CallExpr:
				args := make([]string, len(x.Args))
				for i, a := range x.Args {
					args[i] = render(a)
				}
				return render(x.Fun) + "(" + strings.Join(args, ",") + ")"
			}
			fail(fmt.Sprintf("RPCServer.Range guard expression %T", e))
			return "?"
		}
		var conjuncts func(e ast.Expr) []string
		conjuncts = func(e ast.Expr) []string {
			switch x := e.(type) {
			case *ast.ParenExpr:
				if b, ok := x.X.(*ast.BinaryExpr); ok && b.Op == token.LAND {
					return conjuncts(b)
				}
			case *ast.BinaryExpr:
				if x.Op == token.LAND {
					return append(conjuncts(x.X), conjuncts(x.Y)...)
				}
			}
			return []string{render(e)}
		}
		// the ONE backend call made directly by a block (not inside nested control flow); "" if none, "?" if several
		direct := func(b *ast.BlockStmt) string {
			m := ""
			for _, st := range b.List {
				switch s := st.(type) {
				case *ast.AssignStmt:
					for _, r := range s.Rhs {
						if c := backendCall(r); c != "" {
							if m != "" {
								return "?"
							}
							m = c
						}
					}
				case *ast.ExprStmt:
					if c := backendCall(s.X); c != "" {
						if m != "" {
							return "?"
						}
						m = c
					}
				}
			}
			return m
		}
		var chain func(is *ast.IfStmt)
		var elseBlock func(b *ast.BlockStmt)
		chain = func(is *ast.IfStmt) {
			if is.Init != nil {
				fail("RPCServer.Range dispatch guard with an init statement")
			}
			m := direct(is.Body)
			if m == "" || m == "?" {
				fail("RPCServer.Range dispatch branch without exactly one backend call")
				m = "?"
			}
			rows = append(rows, dispatchRow{conjuncts(is.Cond), m})
			switch e := is.Else.(type) {
			case *ast.IfStmt:
				chain(e)
			case *ast.BlockStmt:
				elseBlock(e)
			default:
				fail("RPCServer.Range dispatch chain without a final else")
			}
		}
		elseBlock = func(b *ast.BlockStmt) {
			// `else { if … }` (only the nested if, comments aside) continues the chain; otherwise it is the final branch
			if len(b.List) == 1 {
				if is, ok := b.List[0].(*ast.IfStmt); ok {
					chain(is)
					return
				}
			}
			m := direct(b)
			if m == "" || m == "?" {
				fail("RPCServer.Range final dispatch branch without exactly one backend call")
				m = "?"
			}
			rows = append(rows, dispatchRow{nil, m})
		}
		// the chain starts at the top-level `if` of the body whose first branch calls the backend
		started := false
		for _, st := range fd.Body.List {
			is, ok := st.(*ast.IfStmt)
			if !ok || direct(is.Body) == "" {
				continue
			}
			if started {
				fail("RPCServer.Range has a second dispatch chain")
				break
			}
			started = true
			chain(is)
		}
		if !started {
			fail("RPCServer.Range dispatch chain")
		}
		if allCalls != len(rows) {
			fail(fmt.Sprintf("RPCServer.Range makes %d backend calls, the dispatch chain accounts for %d", allCalls, len(rows)))
		}
	}
	strs := func(xs []string) string {
		q := make([]string, len(xs))
		for i, x := range xs {
			q[i] = leanStr(x)
		}
		return "[" + strings.Join(q, ", ") + "]"
	}
	rs := make([]string, len(rows))
	var guard []string
	nGuard := 0
	for i, r := range rows {
		rs[i] = "(" + strs(r.guard) + ", " + leanStr(r.method) + ")"
		if r.method == "GetPartitions" {
			guard = r.guard
			nGuard++
		}
	}
	if nGuard != 1 {
		fail("RPCServer.Range partition-listing branch (GetPartitions)")
	}
	fmt.Fprintf(sb, "def rangeDispatch : List (List String × String) := [%s]\n", strings.Join(rs, ", "))
	fmt.Fprintf(sb, "def partitionMagicGuard : List String := %s\n", strs(guard))
}
