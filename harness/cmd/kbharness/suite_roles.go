package main

// Suite "roles" (property C18): the REAL etcd and brain server objects over a recording backend and a peer
// service whose election and etcd proxy are scripted and whose revision syncer is the real one (against an
// httptest leader); plus the follower read scenario: the real brain server + real service.NewPeerService +
// real backends (leader and follower over one shared memkv store) with the leader's /status handler, the
// follower's SetCurrentRevision and the follower's backend read gated so that a schedule of
// begin / enter (flight.Do) / answer / reply / set / serve steps is replayed deterministically; plus the
// forwarding scenario: a follower's real etcd server with the REAL etcd proxy (etcdproxy.NewEtcdProxy through
// service.NewPeerService) towards a REAL leader (etcd.RPCServer over a real memkv backend on a loopback gRPC
// listener) whose unary interceptor can, when armed by the script, execute a Txn and then lose its answer.

import (
	"bytes"
	"context"
	"encoding/json"
	"fmt"
	"io"
	"net"
	"net/http"
	"net/http/httptest"
	"reflect"
	"runtime"
	"sort"
	"strconv"
	"strings"
	"sync"
	"sync/atomic"
	"time"

	"go.etcd.io/etcd/api/v3/etcdserverpb"
	"go.etcd.io/etcd/api/v3/mvccpb"
	"google.golang.org/grpc"
	"google.golang.org/grpc/codes"
	"google.golang.org/grpc/metadata"
	"google.golang.org/grpc/status"
	"k8s.io/client-go/tools/leaderelection/resourcelock"

	proto "github.com/kubewharf/kubebrain-client/api/v2rpc"

	"github.com/kubewharf/kubebrain/pkg/backend"
	"github.com/kubewharf/kubebrain/pkg/metrics"
	kbserver "github.com/kubewharf/kubebrain/pkg/server"
	"github.com/kubewharf/kubebrain/pkg/server/brain"
	"github.com/kubewharf/kubebrain/pkg/server/etcd"
	"github.com/kubewharf/kubebrain/pkg/server/service"
	"github.com/kubewharf/kubebrain/pkg/server/service/etcdproxy"
	"github.com/kubewharf/kubebrain/pkg/server/service/leader"
	"github.com/kubewharf/kubebrain/pkg/server/service/revision"
	imemkv "github.com/kubewharf/kubebrain/pkg/storage/memkv"
)

// ---------------------------------------------------------------- recording backend

type rlStub struct{}

func (rlStub) Get() (*resourcelock.LeaderElectionRecord, error) { return nil, fmt.Errorf("stub") }
func (rlStub) Create(resourcelock.LeaderElectionRecord) error   { return nil }
func (rlStub) Update(resourcelock.LeaderElectionRecord) error   { return nil }
func (rlStub) RecordEvent(string)                               {}
func (rlStub) Identity() string                                 { return "node-under-test" }
func (rlStub) Describe() string                                 { return "stub-lock" }

// recBackend implements backend.Backend: records every call, returns benign values.
type recBackend struct {
	mu    sync.Mutex
	calls []string // data methods + SetCurrentRevision, in call order
	meta  []string // GetResourceLock / GetCurrentRevision
	rev   uint64
}

func (b *recBackend) rec(m string) {
	b.mu.Lock()
	b.calls = append(b.calls, m)
	b.mu.Unlock()
}

func (b *recBackend) reset() {
	b.mu.Lock()
	b.calls, b.meta, b.rev = nil, nil, 5
	b.mu.Unlock()
}

func (b *recBackend) snapshot() []string {
	b.mu.Lock()
	defer b.mu.Unlock()
	return append([]string{}, b.calls...)
}

func (b *recBackend) has(ms ...string) bool {
	b.mu.Lock()
	defer b.mu.Unlock()
	for _, c := range b.calls {
		for _, m := range ms {
			if c == m {
				return true
			}
		}
	}
	return false
}

func hdr(r uint64) *proto.ResponseHeader { return &proto.ResponseHeader{Revision: r} }

func (b *recBackend) Create(ctx context.Context, r *proto.CreateRequest) (*proto.CreateResponse, error) {
	b.rec("Create")
	return &proto.CreateResponse{Header: hdr(6), Succeeded: true}, nil
}
func (b *recBackend) Update(ctx context.Context, r *proto.UpdateRequest) (*proto.UpdateResponse, error) {
	b.rec("Update")
	return &proto.UpdateResponse{Header: hdr(6), Succeeded: true}, nil
}
func (b *recBackend) Delete(ctx context.Context, r *proto.DeleteRequest) (*proto.DeleteResponse, error) {
	b.rec("Delete")
	return &proto.DeleteResponse{Header: hdr(6), Succeeded: true}, nil
}
func (b *recBackend) Compact(ctx context.Context, revision uint64) (*proto.CompactResponse, error) {
	b.rec("Compact")
	return &proto.CompactResponse{Header: hdr(5)}, nil
}
func (b *recBackend) Get(ctx context.Context, r *proto.GetRequest) (*proto.GetResponse, error) {
	b.rec("Get")
	return &proto.GetResponse{Header: hdr(5)}, nil
}
func (b *recBackend) List(ctx context.Context, r *proto.RangeRequest) (*proto.RangeResponse, error) {
	b.rec("List")
	return &proto.RangeResponse{Header: hdr(5)}, nil
}
func (b *recBackend) Count(ctx context.Context, r *proto.CountRequest) (*proto.CountResponse, error) {
	b.rec("Count")
	return &proto.CountResponse{Header: hdr(5)}, nil
}
func (b *recBackend) GetPartitions(ctx context.Context, r *proto.ListPartitionRequest) (*proto.ListPartitionResponse, error) {
	b.rec("GetPartitions")
	return &proto.ListPartitionResponse{Header: hdr(5)}, nil
}
func (b *recBackend) ListByStream(ctx context.Context, startKey, endKey []byte, revision uint64) (<-chan *proto.StreamRangeResponse, error) {
	b.rec("ListByStream")
	ch := make(chan *proto.StreamRangeResponse)
	close(ch)
	return ch, nil
}
func (b *recBackend) Watch(ctx context.Context, key string, revision uint64) (<-chan []*proto.Event, error) {
	b.rec("Watch")
	ch := make(chan []*proto.Event)
	close(ch)
	return ch, nil
}
func (b *recBackend) GetResourceLock() resourcelock.Interface {
	b.mu.Lock()
	b.meta = append(b.meta, "GetResourceLock")
	b.mu.Unlock()
	return rlStub{}
}
func (b *recBackend) GetCurrentRevision() uint64 {
	b.mu.Lock()
	defer b.mu.Unlock()
	b.meta = append(b.meta, "GetCurrentRevision")
	return b.rev
}
func (b *recBackend) SetCurrentRevision(r uint64) {
	b.mu.Lock()
	b.calls = append(b.calls, "SetCurrentRevision")
	b.rev = r
	b.mu.Unlock()
}

var _ backend.Backend = (*recBackend)(nil)

// ---------------------------------------------------------------- scripted election and proxy

type scriptElection struct {
	mu     sync.Mutex
	leader bool
	addr   string
}

func (e *scriptElection) Campaign() {}
func (e *scriptElection) GetLeaderInfo() string {
	e.mu.Lock()
	defer e.mu.Unlock()
	return e.addr
}
func (e *scriptElection) IsLeader() bool {
	e.mu.Lock()
	defer e.mu.Unlock()
	return e.leader
}
func (e *scriptElection) GetElectionInfo() (leader.ElectionInfo, error) {
	return leader.ElectionInfo{LeaderAddress: e.GetLeaderInfo(), IsLeader: e.IsLeader()}, nil
}

type scriptProxy struct {
	mu      sync.Mutex
	enabled bool
	lb      string // ok | down | err: how the leader answers a forwarded request
	calls   []string
}

func (p *scriptProxy) EtcdProxyEnabled() bool {
	p.mu.Lock()
	defer p.mu.Unlock()
	return p.enabled
}
func (p *scriptProxy) forwardErr() error {
	switch p.lb {
	case "down":
		return status.Errorf(codes.Unavailable, "no ready right now")
	case "err":
		return status.Errorf(codes.Internal, "leader answered with an error")
	}
	return nil
}
func (p *scriptProxy) Txn(ctx context.Context, txn *etcdserverpb.TxnRequest) (*etcdserverpb.TxnResponse, error) {
	p.mu.Lock()
	defer p.mu.Unlock()
	p.calls = append(p.calls, "Txn")
	if err := p.forwardErr(); err != nil {
		return nil, err
	}
	return &etcdserverpb.TxnResponse{Header: &etcdserverpb.ResponseHeader{Revision: 78}, Succeeded: true}, nil
}
func (p *scriptProxy) Watch(ctx context.Context, key string, revision uint64) (<-chan []*mvccpb.Event, error) {
	p.mu.Lock()
	defer p.mu.Unlock()
	p.calls = append(p.calls, "Watch")
	if err := p.forwardErr(); err != nil {
		return nil, err
	}
	ch := make(chan []*mvccpb.Event)
	close(ch)
	return ch, nil
}
func (p *scriptProxy) forwarded() bool {
	p.mu.Lock()
	defer p.mu.Unlock()
	return len(p.calls) > 0
}

// compositePeers is a service.PeerService: real revision syncer, scripted election and proxy.
type compositePeers struct {
	revision.RevisionSyncer
	leader.LeaderElection
	*scriptProxy
}

var _ service.PeerService = (*compositePeers)(nil)

// ---------------------------------------------------------------- in-memory streams

type baseStream struct{ ctx context.Context }

func (s *baseStream) SetHeader(metadata.MD) error  { return nil }
func (s *baseStream) SendHeader(metadata.MD) error { return nil }
func (s *baseStream) SetTrailer(metadata.MD)       {}
func (s *baseStream) Context() context.Context     { return s.ctx }
func (s *baseStream) SendMsg(m interface{}) error  { return nil }
func (s *baseStream) RecvMsg(m interface{}) error  { return io.EOF }

type etcdWatchStream struct {
	baseStream
	mu       sync.Mutex
	reqs     []*etcdserverpb.WatchRequest
	closed   chan struct{}
	sent     []*etcdserverpb.WatchResponse
	canceled bool
}

func (s *etcdWatchStream) Send(r *etcdserverpb.WatchResponse) error {
	s.mu.Lock()
	s.sent = append(s.sent, r)
	if r.Canceled {
		s.canceled = true
	}
	s.mu.Unlock()
	return nil
}
func (s *etcdWatchStream) Recv() (*etcdserverpb.WatchRequest, error) {
	s.mu.Lock()
	if len(s.reqs) > 0 {
		r := s.reqs[0]
		s.reqs = s.reqs[1:]
		s.mu.Unlock()
		return r, nil
	}
	s.mu.Unlock()
	<-s.closed
	return nil, io.EOF
}
func (s *etcdWatchStream) isCanceled() bool {
	s.mu.Lock()
	defer s.mu.Unlock()
	return s.canceled
}

type brainRangeStream struct {
	baseStream
	n int
}

func (s *brainRangeStream) Send(*proto.StreamRangeResponse) error { s.n++; return nil }

type brainWatchStream struct {
	baseStream
	n int
}

func (s *brainWatchStream) Send(*proto.WatchResponse) error { s.n++; return nil }

type leaseStream struct{ baseStream }

func (s *leaseStream) Send(*etcdserverpb.LeaseKeepAliveResponse) error { return nil }
func (s *leaseStream) Recv() (*etcdserverpb.LeaseKeepAliveRequest, error) {
	return nil, io.EOF
}

// ---------------------------------------------------------------- the suite

type rolesSuite struct {
	rec   *recBackend
	el    *scriptElection
	px    *scriptProxy
	etcd  *etcd.RPCServer
	brain *brain.Server
	sync  revision.RevisionSyncer

	okSrv, errSrv *httptest.Server
	downAddr      string

	opts map[string]string
	sc   *scen
	fw   *fwdScen
}

// notLeaderStatusHandler is the real peer /status handler (pkg/server revisionHandler) of a node whose leader
// election never campaigned, i.e. a non-leader.
var (
	notLeaderOnce sync.Once
	notLeaderH    http.Handler
)

func notLeaderStatusHandler(b backend.Backend) http.Handler {
	notLeaderOnce.Do(func() {
		notLeaderH = kbserver.NewServer(b, getMetrics(), kbserver.Config{}).GetPeerHttpHandlers()["/status"]
	})
	return notLeaderH
}

func hostOf(url string) string { return strings.TrimPrefix(url, "http://") }

func newRolesSuite(opts map[string]string) suite {
	fwdEpoch++ // every cfg starts with a fresh key space on the process-wide forwarding leader
	s := &rolesSuite{rec: &recBackend{}, el: &scriptElection{}, px: &scriptProxy{}, opts: opts}
	s.okSrv = httptest.NewServer(http.HandlerFunc(func(w http.ResponseWriter, r *http.Request) {
		// what server.revisionHandler does on the leader
		w.WriteHeader(200)
		b, _ := json.Marshal(&revision.LeaderRevision{Revision: 77})
		w.Write(b)
	}))
	// a node that is not leader: the REAL /status handler of pkg/server (a server whose election never
	// campaigned reports itself non-leader)
	s.errSrv = httptest.NewServer(notLeaderStatusHandler(&recBackend{}))
	l, err := net.Listen("tcp", "127.0.0.1:0")
	if err != nil {
		panic(err)
	}
	s.downAddr = l.Addr().String()
	l.Close()
	s.sync = revision.NewRevisionSyncer(s.rec, getMetrics(), s.el, nil)
	peers := &compositePeers{RevisionSyncer: s.sync, LeaderElection: s.el, scriptProxy: s.px}
	s.etcd = etcd.New(s.rec, getMetrics(), peers)
	s.brain = brain.New(s.rec, getMetrics(), peers)
	return s
}

func (s *rolesSuite) close() {
	if s.sc != nil {
		s.sc.shutdown()
	}
	s.okSrv.Close()
	s.errSrv.Close()
	s.sync.Close()
}

// handler names the suite can invoke, in the order of the generated table (etcd first, then brain; sorted)
func (s *rolesSuite) handlerList() string {
	var e, b []string
	for k := range etcdHandlers {
		e = append(e, "etcd/"+k)
	}
	for k := range brainHandlers {
		b = append(b, "brain/"+k)
	}
	sort.Strings(e)
	sort.Strings(b)
	return strings.Join(append(e, b...), ",")
}

type invocation struct {
	err      error
	stream   *etcdWatchStream // etcd Watch only
	finished chan struct{}
}

var (
	kA   = []byte("/r/a")
	kLo  = []byte("/r/")
	kHi  = []byte("/r0")
	vVal = []byte("v")
)

func cmpMod(rev int64) *etcdserverpb.Compare {
	return &etcdserverpb.Compare{Target: etcdserverpb.Compare_MOD, Result: etcdserverpb.Compare_EQUAL, Key: kA,
		TargetUnion: &etcdserverpb.Compare_ModRevision{ModRevision: rev}}
}
func opPut() *etcdserverpb.RequestOp {
	return &etcdserverpb.RequestOp{Request: &etcdserverpb.RequestOp_RequestPut{RequestPut: &etcdserverpb.PutRequest{Key: kA, Value: vVal}}}
}
func opRange() *etcdserverpb.RequestOp {
	return &etcdserverpb.RequestOp{Request: &etcdserverpb.RequestOp_RequestRange{RequestRange: &etcdserverpb.RangeRequest{Key: kA}}}
}
func opDel() *etcdserverpb.RequestOp {
	return &etcdserverpb.RequestOp{Request: &etcdserverpb.RequestOp_RequestDeleteRange{RequestDeleteRange: &etcdserverpb.DeleteRangeRequest{Key: kA}}}
}

func txnOf(shape string) *etcdserverpb.TxnRequest {
	switch shape {
	case "", "create":
		return &etcdserverpb.TxnRequest{Compare: []*etcdserverpb.Compare{cmpMod(0)}, Success: []*etcdserverpb.RequestOp{opPut()}}
	case "update":
		return &etcdserverpb.TxnRequest{Compare: []*etcdserverpb.Compare{cmpMod(5)}, Success: []*etcdserverpb.RequestOp{opPut()},
			Failure: []*etcdserverpb.RequestOp{opRange()}}
	case "delete":
		return &etcdserverpb.TxnRequest{Compare: []*etcdserverpb.Compare{cmpMod(5)}, Success: []*etcdserverpb.RequestOp{opDel()},
			Failure: []*etcdserverpb.RequestOp{opRange()}}
	case "compact":
		return &etcdserverpb.TxnRequest{Compare: []*etcdserverpb.Compare{{Target: etcdserverpb.Compare_VERSION,
			Result: etcdserverpb.Compare_EQUAL, Key: []byte("compact_rev_key"), TargetUnion: &etcdserverpb.Compare_Version{Version: 1}}},
			// the probe kube-apiserver sends: put and read are on the compared key
			Success: []*etcdserverpb.RequestOp{{Request: &etcdserverpb.RequestOp_RequestPut{RequestPut: &etcdserverpb.PutRequest{
				Key: []byte("compact_rev_key"), Value: []byte("7")}}}},
			Failure: []*etcdserverpb.RequestOp{{Request: &etcdserverpb.RequestOp_RequestRange{RequestRange: &etcdserverpb.RangeRequest{
				Key: []byte("compact_rev_key")}}}}}
	}
	return &etcdserverpb.TxnRequest{} // invalid: no recognised shape
}

func rangeOf(shape string) *etcdserverpb.RangeRequest {
	switch shape {
	case "", "get":
		return &etcdserverpb.RangeRequest{Key: kA}
	case "count":
		return &etcdserverpb.RangeRequest{Key: kLo, RangeEnd: kHi, CountOnly: true}
	case "partitions":
		return &etcdserverpb.RangeRequest{Key: kLo, RangeEnd: kHi, Revision: etcd.GetPartitionMagic}
	}
	return &etcdserverpb.RangeRequest{Key: kLo, RangeEnd: kHi}
}

type handlerFn func(s *rolesSuite, ctx context.Context, shape string) *invocation

func unary(err error) *invocation { return &invocation{err: err} }

var etcdHandlers = map[string]handlerFn{
	"Range": func(s *rolesSuite, ctx context.Context, shape string) *invocation {
		_, err := s.etcd.Range(ctx, rangeOf(shape))
		return unary(err)
	},
	"Txn": func(s *rolesSuite, ctx context.Context, shape string) *invocation {
		_, err := s.etcd.Txn(ctx, txnOf(shape))
		return unary(err)
	},
	"Watch/Watch": func(s *rolesSuite, ctx context.Context, shape string) *invocation {
		key := kLo
		if shape == "nonpure" {
			key = []byte("r/") // not starting with "/": not a pure watch request
		}
		return s.etcdWatch(ctx, &etcdserverpb.WatchCreateRequest{Key: key, RangeEnd: kHi, StartRevision: 5})
	},
	"Watch/List": func(s *rolesSuite, ctx context.Context, shape string) *invocation {
		return s.etcdWatch(ctx, &etcdserverpb.WatchCreateRequest{Key: kLo, RangeEnd: kHi, StartRevision: -5})
	},
	"Compact": func(s *rolesSuite, ctx context.Context, shape string) *invocation {
		_, err := s.etcd.Compact(ctx, &etcdserverpb.CompactionRequest{Revision: 5})
		return unary(err)
	},
	"Put": func(s *rolesSuite, ctx context.Context, shape string) *invocation {
		_, err := s.etcd.Put(ctx, &etcdserverpb.PutRequest{Key: kA, Value: vVal})
		return unary(err)
	},
	"DeleteRange": func(s *rolesSuite, ctx context.Context, shape string) *invocation {
		_, err := s.etcd.DeleteRange(ctx, &etcdserverpb.DeleteRangeRequest{Key: kA})
		return unary(err)
	},
	"LeaseGrant": func(s *rolesSuite, ctx context.Context, shape string) *invocation {
		_, err := s.etcd.LeaseGrant(ctx, &etcdserverpb.LeaseGrantRequest{TTL: 10})
		return unary(err)
	},
	"LeaseRevoke": func(s *rolesSuite, ctx context.Context, shape string) *invocation {
		_, err := s.etcd.LeaseRevoke(ctx, &etcdserverpb.LeaseRevokeRequest{ID: 1})
		return unary(err)
	},
	"LeaseKeepAlive": func(s *rolesSuite, ctx context.Context, shape string) *invocation {
		return unary(s.etcd.LeaseKeepAlive(&leaseStream{baseStream{ctx}}))
	},
	"LeaseTimeToLive": func(s *rolesSuite, ctx context.Context, shape string) *invocation {
		_, err := s.etcd.LeaseTimeToLive(ctx, &etcdserverpb.LeaseTimeToLiveRequest{ID: 1})
		return unary(err)
	},
	"LeaseLeases": func(s *rolesSuite, ctx context.Context, shape string) *invocation {
		_, err := s.etcd.LeaseLeases(ctx, &etcdserverpb.LeaseLeasesRequest{})
		return unary(err)
	},
	"MemberList": func(s *rolesSuite, ctx context.Context, shape string) *invocation {
		_, err := s.etcd.MemberList(ctx, &etcdserverpb.MemberListRequest{})
		return unary(err)
	},
	"MemberAdd": func(s *rolesSuite, ctx context.Context, shape string) *invocation {
		_, err := s.etcd.MemberAdd(ctx, &etcdserverpb.MemberAddRequest{})
		return unary(err)
	},
	"MemberRemove": func(s *rolesSuite, ctx context.Context, shape string) *invocation {
		_, err := s.etcd.MemberRemove(ctx, &etcdserverpb.MemberRemoveRequest{})
		return unary(err)
	},
	"MemberUpdate": func(s *rolesSuite, ctx context.Context, shape string) *invocation {
		_, err := s.etcd.MemberUpdate(ctx, &etcdserverpb.MemberUpdateRequest{})
		return unary(err)
	},
	"MemberPromote": func(s *rolesSuite, ctx context.Context, shape string) *invocation {
		_, err := s.etcd.MemberPromote(ctx, &etcdserverpb.MemberPromoteRequest{})
		return unary(err)
	},
}

var brainHandlers = map[string]handlerFn{
	"Create": func(s *rolesSuite, ctx context.Context, shape string) *invocation {
		_, err := s.brain.Create(ctx, &proto.CreateRequest{Key: kA, Value: vVal})
		return unary(err)
	},
	"Update": func(s *rolesSuite, ctx context.Context, shape string) *invocation {
		_, err := s.brain.Update(ctx, &proto.UpdateRequest{Kv: &proto.KeyValue{Key: kA, Value: vVal, Revision: 5}})
		return unary(err)
	},
	"Delete": func(s *rolesSuite, ctx context.Context, shape string) *invocation {
		_, err := s.brain.Delete(ctx, &proto.DeleteRequest{Key: kA, Revision: 5})
		return unary(err)
	},
	"Compact": func(s *rolesSuite, ctx context.Context, shape string) *invocation {
		_, err := s.brain.Compact(ctx, &proto.CompactRequest{Revision: 5})
		return unary(err)
	},
	"Get": func(s *rolesSuite, ctx context.Context, shape string) *invocation {
		_, err := s.brain.Get(ctx, &proto.GetRequest{Key: kA})
		return unary(err)
	},
	"Range": func(s *rolesSuite, ctx context.Context, shape string) *invocation {
		_, err := s.brain.Range(ctx, &proto.RangeRequest{Key: kLo, End: kHi})
		return unary(err)
	},
	"Count": func(s *rolesSuite, ctx context.Context, shape string) *invocation {
		_, err := s.brain.Count(ctx, &proto.CountRequest{Key: kLo, End: kHi})
		return unary(err)
	},
	"ListPartition": func(s *rolesSuite, ctx context.Context, shape string) *invocation {
		_, err := s.brain.ListPartition(ctx, &proto.ListPartitionRequest{Key: kLo, End: kHi})
		return unary(err)
	},
	"RangeStream": func(s *rolesSuite, ctx context.Context, shape string) *invocation {
		return unary(s.brain.RangeStream(&proto.RangeRequest{Key: kLo, End: kHi}, &brainRangeStream{baseStream: baseStream{ctx}}))
	},
	"Watch": func(s *rolesSuite, ctx context.Context, shape string) *invocation {
		return unary(s.brain.Watch(&proto.WatchRequest{Key: kLo, Revision: 5}, &brainWatchStream{baseStream: baseStream{ctx}}))
	},
}

// etcdWatch runs the bidirectional Watch handler with one create request on an in-memory stream.
func (s *rolesSuite) etcdWatch(ctx context.Context, cr *etcdserverpb.WatchCreateRequest) *invocation {
	st := &etcdWatchStream{baseStream: baseStream{ctx}, closed: make(chan struct{}),
		reqs: []*etcdserverpb.WatchRequest{{RequestUnion: &etcdserverpb.WatchRequest_CreateRequest{CreateRequest: cr}}}}
	inv := &invocation{stream: st, finished: make(chan struct{})}
	go func() {
		inv.err = s.etcd.Watch(st)
		close(inv.finished)
	}()
	// the handler is asynchronous: wait for the first decisive observation
	deadline := time.Now().Add(3 * time.Second)
	for time.Now().Before(deadline) {
		select {
		case <-inv.finished:
			return inv
		default:
		}
		if s.px.forwarded() || s.rec.has("Watch", "ListByStream") || st.isCanceled() {
			break
		}
		time.Sleep(100 * time.Microsecond)
	}
	// let the goroutines of the handler finish so that nothing leaks into the next request
	fwd, served, canceled := s.px.forwarded(), s.rec.has("Watch", "ListByStream"), st.isCanceled()
	if !canceled && (fwd || served) && cr.StartRevision >= 0 {
		w := time.Now().Add(time.Second)
		for !st.isCanceled() && time.Now().Before(w) {
			time.Sleep(100 * time.Microsecond)
		}
	}
	close(st.closed)
	select {
	case <-inv.finished:
	case <-time.After(3 * time.Second):
	}
	if inv.err == io.EOF {
		inv.err = nil // the client closed the stream
	}
	st.mu.Lock()
	st.canceled = canceled && !fwd && !served
	st.mu.Unlock()
	return inv
}

const syncErrPrefix = "get revision from leader failed"

func (s *rolesSuite) doReq(api, handler string, opts map[string]string) string {
	var fn handlerFn
	switch api {
	case "etcd":
		fn = etcdHandlers[handler]
	case "brain":
		fn = brainHandlers[handler]
	}
	if fn == nil {
		return fmt.Sprintf("req %s %s bad-handler", api, handler)
	}
	lb := opts["leader"]
	if lb == "" {
		lb = "ok"
	}
	s.el.mu.Lock()
	s.el.leader = opts["role"] != "follower"
	switch lb {
	case "ok":
		s.el.addr = hostOf(s.okSrv.URL)
	case "err":
		s.el.addr = hostOf(s.errSrv.URL)
	case "none":
		// no holder observed yet (start-up, or the previous leader released the lock): this is what the resource lock's
		// Describe() answers then
		s.el.addr = "empty"
	default:
		s.el.addr = s.downAddr
	}
	s.el.mu.Unlock()
	s.px.mu.Lock()
	pxlb := lb
	if pxlb == "none" {
		pxlb = "down" // the proxy has no client for a leader nobody has named
	}
	s.px.enabled, s.px.lb, s.px.calls = opts["proxy"] == "1", pxlb, nil
	s.px.mu.Unlock()
	s.rec.reset()

	ctx, cancel := context.WithTimeout(context.Background(), 5*time.Second)
	defer cancel()
	inv := fn(s, ctx, opts["shape"])

	out := "served"
	switch {
	case s.px.forwarded():
		out = "forwarded"
	case inv.err != nil && status.Code(inv.err) == codes.Unavailable:
		out = "unavailable"
	case inv.err != nil && strings.HasPrefix(inv.err.Error(), syncErrPrefix):
		out = "error:sync"
	case inv.stream != nil && inv.stream.isCanceled():
		out = "error:canceled"
	case inv.err != nil:
		out = "error:other"
	}
	calls := s.rec.snapshot()
	cs := "-"
	if len(calls) > 0 {
		cs = strings.Join(calls, ",")
	}
	return fmt.Sprintf("req %s %s %s calls=%s", api, handler, out, cs)
}

func (s *rolesSuite) do(t []string) string {
	pos, opts := parseOpts(t)
	switch pos[0] {
	case "handlers":
		return "handlers " + s.handlerList()
	case "req":
		if len(pos) != 3 {
			return "req bad-op"
		}
		return s.doReq(pos[1], pos[2], opts)
	case "commit", "begin", "enter", "answer", "reply", "set", "serve", "state":
		if s.sc == nil {
			s.sc = newScen(s.opts)
		}
		return s.sc.do(pos, opts)
	case "fwd":
		if len(pos) != 2 {
			return "fwd bad-op"
		}
		if s.fw == nil {
			s.fw = getFwdScen()
		}
		return s.fw.do(pos[1], opts)
	}
	return t[0] + " bad-op"
}

func init() { register("roles", newRolesSuite) }

// ---------------------------------------------------------------- follower scenario

func goid() uint64 {
	var buf [64]byte
	n := runtime.Stack(buf[:], false)
	f := bytes.Fields(buf[:n])
	if len(f) < 2 {
		return 0
	}
	id, _ := strconv.ParseUint(string(f[1]), 10, 64)
	return id
}

type readCtl struct {
	name  string
	id    int
	phase string // spawned | begun | waiting | got | synced | served | failed
	gate  chan struct{}
	got   uint64 // what SetCurrentRevision was called with
	rev   uint64 // header revision of the response
	n     int    // kvs in the response
	err   error
	read  bool // the follower backend was read
}

type flightCtl struct {
	phase      string // pending | answered | replied
	mode       string
	val        uint64
	answerGate chan string
	replyGate  chan struct{}
	readers    []*readCtl
}

// hookMetrics is the real metrics client plus a yield point at the counter SyncReadRevision emits on a
// follower right before flight.Do.
type hookMetrics struct {
	metrics.Metrics
	sc *scen
}

func (m *hookMetrics) EmitCounter(name string, value interface{}, tags ...metrics.T) error {
	if name == "read.follower" {
		m.sc.park("begun")
	}
	return m.Metrics.EmitCounter(name, value, tags...)
}

// gateBackend is the follower's real backend with yield points before SetCurrentRevision and before List.
type gateBackend struct {
	backend.Backend
	sc *scen
}

func (g *gateBackend) SetCurrentRevision(r uint64) {
	if rc := g.sc.current(); rc != nil {
		g.sc.mu.Lock()
		rc.got = r
		g.sc.mu.Unlock()
		g.sc.park("got")
	}
	g.Backend.SetCurrentRevision(r)
}

func (g *gateBackend) List(ctx context.Context, r *proto.RangeRequest) (*proto.RangeResponse, error) {
	if rc := g.sc.current(); rc != nil {
		g.sc.mu.Lock()
		rc.read = true
		g.sc.mu.Unlock()
		g.sc.park("synced")
	}
	return g.Backend.List(ctx, r)
}

type scen struct {
	mu      sync.Mutex
	base    uint64
	leaderB backend.Backend
	realF   backend.Backend
	srv     *httptest.Server
	peers   service.PeerService
	brain   *brain.Server
	reads   map[string]*readCtl
	byGoid  map[uint64]*readCtl
	flight  *flightCtl
	arrived int // HTTP requests that reached the leader
	stopped bool
}

// The real backends of the scenario live as long as the process: backend.collectStorageWriteEvents is a
// busy loop that cannot be stopped, so a script with several `cfg` lines reuses them.  A later `cfg init=N`
// must name the revision the leader has reached (the check computes it from the commits it scripted).
var scenShared struct {
	leaderB, realF backend.Backend
	commits        uint64
}

func newScen(opts map[string]string) *scen {
	sc := &scen{base: 10, reads: map[string]*readCtl{}, byGoid: map[uint64]*readCtl{}}
	if v, ok := opts["init"]; ok {
		sc.base = atou(v)
	}
	if scenShared.leaderB == nil {
		kv := imemkv.NewKvStorage()
		scenShared.leaderB = backend.NewBackend(kv, backend.Config{Prefix: "/r", Identity: "leader", WatchCacheSize: 64}, getMetrics())
		scenShared.leaderB.SetCurrentRevision(sc.base)
		scenShared.realF = backend.NewBackend(kv, backend.Config{Prefix: "/r", Identity: "follower", WatchCacheSize: 64}, getMetrics())
	}
	sc.leaderB, sc.realF = scenShared.leaderB, scenShared.realF
	if got := sc.leaderB.GetCurrentRevision(); got != sc.base {
		panic(fmt.Sprintf("cfg init=%d but the leader backend of this process is at %d", sc.base, got))
	}
	sc.realF.SetCurrentRevision(sc.base)
	sc.srv = httptest.NewServer(http.HandlerFunc(sc.status))
	el := &scriptElection{leader: false, addr: hostOf(sc.srv.URL)}
	hm := &hookMetrics{Metrics: getMetrics(), sc: sc}
	gb := &gateBackend{Backend: sc.realF, sc: sc}
	sc.peers = service.NewPeerService(el, hm, gb, service.Config{})
	sc.brain = brain.New(gb, getMetrics(), sc.peers)
	return sc
}

func (sc *scen) shutdown() {
	sc.mu.Lock()
	sc.stopped = true
	for _, rc := range sc.reads {
		select {
		case rc.gate <- struct{}{}:
		default:
		}
	}
	fl := sc.flight
	sc.mu.Unlock()
	if fl != nil {
		select {
		case fl.answerGate <- "ok":
		default:
		}
		select {
		case fl.replyGate <- struct{}{}:
		default:
		}
	}
	go sc.srv.Close()
}

func (sc *scen) current() *readCtl {
	id := goid()
	sc.mu.Lock()
	defer sc.mu.Unlock()
	return sc.byGoid[id]
}

// park: the calling read goroutine announces its phase and waits to be released by the script.
func (sc *scen) park(phase string) {
	rc := sc.current()
	if rc == nil {
		return
	}
	sc.mu.Lock()
	if sc.stopped {
		sc.mu.Unlock()
		return
	}
	rc.phase = phase
	sc.mu.Unlock()
	<-rc.gate
}

// status is the leader's /status handler (server.revisionHandler on the leader: publish the committed
// revision), gated: it runs when the script says `answer`, its response leaves when the script says `reply`.
func (sc *scen) status(w http.ResponseWriter, req *http.Request) {
	sc.mu.Lock()
	fl := sc.flight
	if fl == nil || fl.phase != "starting" {
		// a fetch the script did not start: answer at once so nothing hangs; the transcript will differ
		sc.arrived++
		sc.mu.Unlock()
		w.WriteHeader(500)
		return
	}
	fl.phase = "pending"
	sc.arrived++
	sc.mu.Unlock()
	mode := <-fl.answerGate
	rev := sc.leaderB.GetCurrentRevision()
	sc.mu.Lock()
	fl.val, fl.mode, fl.phase = rev, mode, "answered"
	sc.mu.Unlock()
	<-fl.replyGate
	switch mode {
	case "err":
		// the peer is not leader (any more): the real /status handler of pkg/server refuses
		notLeaderStatusHandler(&recBackend{}).ServeHTTP(w, req)
	case "down":
		if hj, ok := w.(http.Hijacker); ok {
			if c, _, err := hj.Hijack(); err == nil {
				c.Close()
				return
			}
		}
		w.WriteHeader(502)
	default:
		w.WriteHeader(200)
		b, _ := json.Marshal(&revision.LeaderRevision{Revision: rev})
		w.Write(b)
	}
}

// flightDups reads the number of callers that joined the single-flight call in the group of the real
// revision syncer (golang.org/x/sync/singleflight: Group.m["get_revision"].dups).
func (sc *scen) flightDups() (int, bool) {
	defer func() { _ = recover() }()
	v := reflect.ValueOf(sc.peers)
	for v.Kind() == reflect.Interface || v.Kind() == reflect.Ptr {
		v = v.Elem()
	}
	rs := v.FieldByName("RevisionSyncer")
	if !rs.IsValid() {
		return 0, false
	}
	for rs.Kind() == reflect.Interface || rs.Kind() == reflect.Ptr {
		rs = rs.Elem()
	}
	m := rs.FieldByName("flight").FieldByName("m")
	if !m.IsValid() || m.IsNil() {
		return 0, false
	}
	c := m.MapIndex(reflect.ValueOf("get_revision"))
	if !c.IsValid() {
		return 0, false
	}
	return int(c.Elem().FieldByName("dups").Int()), true
}

func (sc *scen) waitFor(cond func() bool) bool {
	deadline := time.Now().Add(3 * time.Second)
	for time.Now().Before(deadline) {
		sc.mu.Lock()
		ok := cond()
		sc.mu.Unlock()
		if ok {
			return true
		}
		time.Sleep(50 * time.Microsecond)
	}
	return false
}

func readNum(name string) (int, bool) {
	if !strings.HasPrefix(name, "r") {
		return 0, false
	}
	n, err := strconv.Atoi(name[1:])
	return n, err == nil
}

func (sc *scen) flightStr() string {
	fl := sc.flight
	switch {
	case fl == nil:
		return "none"
	case fl.phase == "answered" && fl.mode == "ok":
		return fmt.Sprintf("answered:%d", fl.val)
	case fl.phase == "answered":
		return "answered:err"
	}
	return "pending"
}

func (sc *scen) do(pos []string, opts map[string]string) string {
	op := pos[0]
	var rc *readCtl
	name := ""
	if op == "begin" || op == "enter" || op == "set" || op == "serve" {
		if len(pos) != 2 {
			return op + " bad-op"
		}
		name = pos[1]
		if _, ok := readNum(name); !ok {
			return fmt.Sprintf("%s %s bad-read", op, name)
		}
		sc.mu.Lock()
		rc = sc.reads[name]
		sc.mu.Unlock()
	}
	bad := fmt.Sprintf("%s %s bad-state", op, name)
	switch op {
	case "commit":
		scenShared.commits++
		want := sc.leaderB.GetCurrentRevision() + 1
		key := []byte(fmt.Sprintf("/r/k%06d", scenShared.commits))
		resp, err := sc.leaderB.Create(context.Background(), &proto.CreateRequest{Key: key, Value: vVal})
		if err != nil || !resp.Succeeded {
			return "commit failed"
		}
		ok := sc.waitFor(func() bool { return sc.leaderB.GetCurrentRevision() >= want })
		if !ok {
			return "commit timeout"
		}
		return fmt.Sprintf("commit %d", sc.leaderB.GetCurrentRevision())
	case "begin":
		if rc != nil {
			return bad
		}
		id, _ := readNum(name)
		rc = &readCtl{name: name, id: id, phase: "spawned", gate: make(chan struct{})}
		at := sc.leaderB.GetCurrentRevision() // ghost: the leader's committed revision when the read begins
		sc.mu.Lock()
		sc.reads[name] = rc
		sc.mu.Unlock()
		go func() {
			sc.mu.Lock()
			sc.byGoid[goid()] = rc
			sc.mu.Unlock()
			resp, err := sc.brain.Range(context.Background(), &proto.RangeRequest{Key: kLo, End: kHi})
			sc.mu.Lock()
			rc.err = err
			if err == nil && resp != nil && resp.Header != nil {
				rc.rev, rc.n = resp.Header.Revision, len(resp.Kvs)
				rc.phase = "served"
			} else {
				rc.phase = "failed"
			}
			sc.mu.Unlock()
		}()
		if !sc.waitFor(func() bool { return rc.phase == "begun" }) {
			return fmt.Sprintf("begin %s timeout", name)
		}
		return fmt.Sprintf("begin %s at=%d", name, at)
	case "enter":
		if rc == nil || sc.phaseOf(rc) != "begun" {
			return bad
		}
		sc.mu.Lock()
		fl := sc.flight
		arrived0 := sc.arrived
		expectStart := fl == nil
		if expectStart {
			fl = &flightCtl{phase: "starting", answerGate: make(chan string, 1), replyGate: make(chan struct{}, 1)}
			sc.flight = fl
		}
		rc.phase = "waiting"
		sc.mu.Unlock()
		dups0, haveDups := sc.flightDups()
		rc.gate <- struct{}{} // the reader calls flight.Do
		res := ""
		if expectStart {
			if !sc.waitFor(func() bool { return sc.arrived > arrived0 && fl.phase == "pending" }) {
				return fmt.Sprintf("enter %s timeout", name)
			}
			res = "start"
		} else if haveDups {
			// a call is in the group: the reader joins it (its dups counter grows) — unless the call had
			// already left the group and the reader started a fetch of its own
			ok := sc.waitFor(func() bool {
				if sc.arrived > arrived0 {
					res = "start"
					return true
				}
				if d, ok := sc.flightDups(); ok && d > dups0 {
					res = "join"
					return true
				}
				return false
			})
			if !ok {
				return fmt.Sprintf("enter %s timeout", name)
			}
		} else {
			time.Sleep(30 * time.Millisecond)
			res = "join"
			sc.mu.Lock()
			if sc.arrived > arrived0 {
				res = "start"
			}
			sc.mu.Unlock()
		}
		fl.readers = append(fl.readers, rc)
		return fmt.Sprintf("enter %s %s", name, res)
	case "answer":
		sc.mu.Lock()
		fl := sc.flight
		okState := fl != nil && fl.phase == "pending"
		sc.mu.Unlock()
		if !okState {
			return "answer bad-state"
		}
		mode := opts["mode"]
		if mode == "" {
			mode = "ok"
		}
		fl.answerGate <- mode
		if !sc.waitFor(func() bool { return fl.phase == "answered" }) {
			return "answer timeout"
		}
		if mode == "ok" {
			return fmt.Sprintf("answer %d", fl.val)
		}
		return "answer " + mode
	case "reply":
		sc.mu.Lock()
		fl := sc.flight
		okState := fl != nil && fl.phase == "answered"
		sc.mu.Unlock()
		if !okState {
			return "reply bad-state"
		}
		fl.replyGate <- struct{}{}
		ok := sc.waitFor(func() bool {
			for _, r := range fl.readers {
				if r.phase != "got" && r.phase != "failed" {
					return false
				}
			}
			return true
		})
		if !ok {
			return "reply timeout"
		}
		sc.mu.Lock()
		sc.flight = nil
		sc.mu.Unlock()
		sort.Slice(fl.readers, func(i, j int) bool { return fl.readers[i].id < fl.readers[j].id })
		names := make([]string, len(fl.readers))
		for i, r := range fl.readers {
			names[i] = r.name
		}
		v := "err"
		if fl.mode == "ok" {
			v = fmt.Sprint(fl.val)
		}
		return fmt.Sprintf("reply %s reads=%s", v, strings.Join(names, ","))
	case "set":
		if rc == nil || sc.phaseOf(rc) != "got" {
			return bad
		}
		rc.gate <- struct{}{} // backend.SetCurrentRevision(v) runs, SyncReadRevision returns, the handler goes on
		if !sc.waitFor(func() bool { return rc.phase == "synced" || rc.phase == "failed" }) {
			return fmt.Sprintf("set %s timeout", name)
		}
		return fmt.Sprintf("set %s %d frev=%d", name, rc.got, sc.realF.GetCurrentRevision())
	case "serve":
		if rc == nil {
			return bad
		}
		switch sc.phaseOf(rc) {
		case "failed":
			sc.mu.Lock()
			defer sc.mu.Unlock()
			out := "error:other"
			if rc.err != nil && strings.HasPrefix(rc.err.Error(), syncErrPrefix) {
				out = "error:sync"
			}
			if rc.read {
				out += " read=1" // the backend was read although the sync failed
			}
			return fmt.Sprintf("serve %s %s", name, out)
		case "synced":
			rc.gate <- struct{}{} // the backend read runs at whatever the read revision is now
			if !sc.waitFor(func() bool { return rc.phase == "served" || rc.phase == "failed" }) {
				return fmt.Sprintf("serve %s timeout", name)
			}
			if sc.phaseOf(rc) == "failed" {
				return fmt.Sprintf("serve %s error:other", name)
			}
			return fmt.Sprintf("serve %s rev=%d n=%d", name, rc.rev, rc.n)
		}
		return bad
	case "state":
		sc.mu.Lock()
		defer sc.mu.Unlock()
		return fmt.Sprintf("state leader=%d frev=%d flight=%s", sc.leaderB.GetCurrentRevision(), sc.realF.GetCurrentRevision(), sc.flightStr())
	}
	return op + " bad-op"
}

func (sc *scen) phaseOf(rc *readCtl) string {
	sc.mu.Lock()
	defer sc.mu.Unlock()
	return rc.phase
}

// ---------------------------------------------------------------- forwarding scenario (real etcd proxy)

// fwdScen: the follower's REAL etcd.RPCServer whose peer service is the real service.NewPeerService with the
// etcd proxy enabled (etcdproxy.NewEtcdProxy, clientv3 connection to the leader), over a recording backend (it
// must stay untouched); the leader is the REAL etcd.RPCServer over a real backend on the in-memory engine,
// served on a loopback gRPC listener.  The leader's unary interceptor counts the Txn executions and, when the
// script arms it (`lose=1`), lets the handler run and then answers codes.Unavailable instead of the response —
// what grpc-go reports when the connection breaks after the request was sent and executed.
//
//	fwd <create|update> k=<n> [stale=1] [lose=1] -> fwd <shape> <ok|failed|unavailable|error:other> exec=<leader-side
//	    executions of the Txn for this request> applied=<0|1: the key now holds this request's value> local=<follower backend calls|->
type fwdScen struct {
	leaderSrv *etcd.RPCServer
	follower  *etcd.RPCServer
	rec       *recBackend
	lose      int32
	executed  int32
	seq       int
	// delay (ms) of the leader's handler of new Watch streams (`fwd watch delay=`)
	watchDelayMs int64
	leaderAddr   string
}

var (
	fwdShared *fwdScen // the leader backend cannot be stopped (busy sequencer loop): one per process
	fwdEpoch  int
)

func getFwdScen() *fwdScen {
	if fwdShared != nil {
		return fwdShared
	}
	lis, err := net.Listen("tcp", "127.0.0.1:0")
	if err != nil {
		panic(err)
	}
	addr := lis.Addr().String()
	f := &fwdScen{rec: &recBackend{}, leaderAddr: addr}
	lb := backend.NewBackend(imemkv.NewKvStorage(), backend.Config{Prefix: "/r", Identity: addr, WatchCacheSize: 64}, getMetrics())
	lb.SetCurrentRevision(1000)
	lp := service.NewPeerService(&leader.Stub{ElectionInfo: leader.ElectionInfo{IsLeader: true, LeaderAddress: addr}},
		getMetrics(), lb, service.Config{})
	f.leaderSrv = etcd.New(lb, getMetrics(), lp)
	gs := grpc.NewServer(grpc.UnaryInterceptor(func(ctx context.Context, req interface{}, info *grpc.UnaryServerInfo, h grpc.UnaryHandler) (interface{}, error) {
		resp, err := h(ctx, req)
		if info.FullMethod == "/etcdserverpb.KV/Txn" {
			atomic.AddInt32(&f.executed, 1)
			if atomic.CompareAndSwapInt32(&f.lose, 1, 0) {
				return nil, status.Error(codes.Unavailable, "transport is closing")
			}
		}
		return resp, err
	}), grpc.StreamInterceptor(func(srv interface{}, ss grpc.ServerStream, info *grpc.StreamServerInfo, h grpc.StreamHandler) error {
		// `fwd watch delay=<ms>`: the leader's handler of a (forwarded) Watch stream starts late - a follower that
		// answers Created before the leader has confirmed the watch is then observably early
		if info.FullMethod == "/etcdserverpb.Watch/Watch" {
			if d := atomic.LoadInt64(&f.watchDelayMs); d > 0 {
				time.Sleep(time.Duration(d) * time.Millisecond)
			}
		}
		return h(srv, ss)
	}))
	f.leaderSrv.Register(gs)
	go gs.Serve(lis)
	fp := service.NewPeerService(&leader.Stub{ElectionInfo: leader.ElectionInfo{IsLeader: false, LeaderAddress: addr}},
		getMetrics(), f.rec, service.Config{EnableEtcdProxy: true})
	f.follower = etcd.New(f.rec, getMetrics(), fp)
	fwdShared = f
	return f
}

// current state of a key on the leader (read in process, on the leader's own server object)
func (f *fwdScen) leaderKV(key []byte) (val []byte, modRev int64) {
	ctx, cancel := context.WithTimeout(context.Background(), 5*time.Second)
	defer cancel()
	r, err := f.leaderSrv.Range(ctx, &etcdserverpb.RangeRequest{Key: key})
	if err != nil || len(r.Kvs) == 0 {
		return nil, 0
	}
	return r.Kvs[0].Value, r.Kvs[0].ModRevision
}

// watch forwards a watch from "now" through the follower's etcd proxy and, as soon as the client has seen Created,
// writes the key directly on the leader: the write must be delivered (C05: Created means subscribed - at the leader)
func (f *fwdScen) watch(opts map[string]string) string {
	key := []byte(fmt.Sprintf("/r/w%04d-%04d", fwdEpoch, atoi(opts["k"])))
	f.seq++
	val := []byte(fmt.Sprintf("w%d", f.seq))
	if d, ok := opts["delay"]; ok {
		atomic.StoreInt64(&f.watchDelayMs, int64(atoi(d)))
	}
	defer atomic.StoreInt64(&f.watchDelayMs, 0)
	ctx, cancel := context.WithCancel(context.Background())
	defer cancel()
	m := &memStream{ctx: ctx, cancel: cancel, in: make(chan *etcdserverpb.WatchRequest, 4), done: make(chan struct{})}
	go func() {
		defer close(m.done)
		_ = f.follower.Watch(m)
	}()
	m.in <- &etcdserverpb.WatchRequest{RequestUnion: &etcdserverpb.WatchRequest_CreateRequest{CreateRequest: &etcdserverpb.WatchCreateRequest{
		Key: key, StartRevision: 0, PrevKv: true}}}
	seen := func(pred func(r *etcdserverpb.WatchResponse) bool, d time.Duration) bool {
		deadline := time.Now().Add(d)
		for time.Now().Before(deadline) {
			m.mu.Lock()
			for _, r := range m.out {
				if pred(r) {
					m.mu.Unlock()
					return true
				}
			}
			m.mu.Unlock()
			time.Sleep(500 * time.Microsecond)
		}
		return false
	}
	if !seen(func(r *etcdserverpb.WatchResponse) bool { return r.Created }, 8*time.Second) {
		return "fwd watch nocreate"
	}
	wctx, wcancel := context.WithTimeout(context.Background(), 5*time.Second)
	resp, err := f.leaderSrv.Txn(wctx, &etcdserverpb.TxnRequest{
		Compare: []*etcdserverpb.Compare{{Target: etcdserverpb.Compare_MOD, Result: etcdserverpb.Compare_EQUAL, Key: key,
			TargetUnion: &etcdserverpb.Compare_ModRevision{ModRevision: 0}}},
		Success: []*etcdserverpb.RequestOp{{Request: &etcdserverpb.RequestOp_RequestPut{RequestPut: &etcdserverpb.PutRequest{Key: key, Value: val}}}}})
	wcancel()
	if err != nil || !resp.Succeeded {
		return "fwd watch write-failed"
	}
	delivered := 0
	if seen(func(r *etcdserverpb.WatchResponse) bool {
		for _, e := range r.Events {
			if bytes.Equal(e.Kv.Key, key) && bytes.Equal(e.Kv.Value, val) {
				return true
			}
		}
		return false
	}, 3*time.Second) {
		delivered = 1
	}
	if delivered == 0 {
		return "fwd watch created delivered=0 prev=- local=-"
	}
	// the client asked for prev_kv (as kube-apiserver does): an update and a delete at the leader must reach the follower's
	// client as a PUT and a DELETE event, the latter carrying the previous key-value
	val2 := []byte(fmt.Sprintf("w%d-2", f.seq))
	txn := func(mod int64, op *etcdserverpb.RequestOp) (*etcdserverpb.TxnResponse, error) {
		c, cc := context.WithTimeout(context.Background(), 5*time.Second)
		defer cc()
		return f.leaderSrv.Txn(c, &etcdserverpb.TxnRequest{
			Compare: []*etcdserverpb.Compare{{Target: etcdserverpb.Compare_MOD, Result: etcdserverpb.Compare_EQUAL, Key: key,
				TargetUnion: &etcdserverpb.Compare_ModRevision{ModRevision: mod}}},
			Success: []*etcdserverpb.RequestOp{op},
			Failure: []*etcdserverpb.RequestOp{{Request: &etcdserverpb.RequestOp_RequestRange{RequestRange: &etcdserverpb.RangeRequest{Key: key}}}}})
	}
	r2, err := txn(resp.Header.Revision, &etcdserverpb.RequestOp{Request: &etcdserverpb.RequestOp_RequestPut{RequestPut: &etcdserverpb.PutRequest{Key: key, Value: val2}}})
	if err != nil || !r2.Succeeded {
		return "fwd watch write-failed"
	}
	r3, err := txn(r2.Header.Revision, &etcdserverpb.RequestOp{Request: &etcdserverpb.RequestOp_RequestDeleteRange{RequestDeleteRange: &etcdserverpb.DeleteRangeRequest{Key: key}}})
	if err != nil || !r3.Succeeded {
		return "fwd watch write-failed"
	}
	var put, del *mvccpb.Event
	seen(func(r *etcdserverpb.WatchResponse) bool {
		for _, e := range r.Events {
			if !bytes.Equal(e.Kv.Key, key) {
				continue
			}
			if e.Type == mvccpb.PUT && bytes.Equal(e.Kv.Value, val2) {
				put = e
			}
			if e.Type == mvccpb.DELETE {
				del = e
			}
		}
		return put != nil && del != nil
	}, 3*time.Second)
	prev := "0"
	switch {
	case put == nil || del == nil:
		prev = "lost"
	case del.PrevKv != nil && bytes.Equal(del.PrevKv.Value, val2): // (update events carry no prev_kv on any node: not claimed)
		prev = "1"
	}
	return fmt.Sprintf("fwd watch created delivered=%d prev=%s local=-", delivered, prev)
}

// noleader: a fresh etcd proxy of a follower that knows NO leader yet refuses a watch as unavailable; once the election names
// the leader, a forwarded transaction must go through again (a refusal must not leave the proxy wedged)
func (f *fwdScen) noleader(opts map[string]string) string {
	key := []byte(fmt.Sprintf("/r/n%04d-%04d", fwdEpoch, atoi(opts["k"])))
	el := &scriptElection{leader: false, addr: ""}
	px := etcdproxy.NewEtcdProxy(el, nil)
	refused := 0
	for i := 0; i < 3; i++ { // more than one refused request: each must leave the proxy usable
		ctx, cancel := context.WithTimeout(context.Background(), 2*time.Second)
		_, err := px.Watch(ctx, string(key), 0)
		cancel()
		if err != nil {
			refused++
		}
	}
	el.mu.Lock()
	el.addr = f.leaderAddr
	el.mu.Unlock()
	recovered := 0
	deadline := time.Now().Add(12 * time.Second)
	for time.Now().Before(deadline) && recovered == 0 {
		done := make(chan error, 1)
		go func() {
			ctx, cancel := context.WithTimeout(context.Background(), 2*time.Second)
			defer cancel()
			_, err := px.Txn(ctx, &etcdserverpb.TxnRequest{
				Compare: []*etcdserverpb.Compare{{Target: etcdserverpb.Compare_MOD, Result: etcdserverpb.Compare_EQUAL, Key: key,
					TargetUnion: &etcdserverpb.Compare_ModRevision{ModRevision: 0}}},
				Success: []*etcdserverpb.RequestOp{{Request: &etcdserverpb.RequestOp_RequestPut{RequestPut: &etcdserverpb.PutRequest{Key: key, Value: []byte("n")}}}}})
			done <- err
		}()
		select {
		case err := <-done:
			if err == nil {
				recovered = 1
			} else {
				time.Sleep(200 * time.Millisecond)
			}
		case <-time.After(4 * time.Second):
			// the call outlived its own context: the proxy does not answer at all
			return fmt.Sprintf("fwd noleader refused=%d recovered=0 hung=1", refused)
		}
	}
	return fmt.Sprintf("fwd noleader refused=%d recovered=%d hung=0", refused, recovered)
}

func (f *fwdScen) do(shape string, opts map[string]string) string {
	if _, ok := opts["k"]; !ok {
		return "fwd bad-op"
	}
	if shape == "watch" {
		return f.watch(opts)
	}
	if shape == "noleader" {
		return f.noleader(opts)
	}
	key := []byte(fmt.Sprintf("/r/f%04d-%04d", fwdEpoch, atoi(opts["k"])))
	f.seq++
	val := []byte(fmt.Sprintf("w%d", f.seq))
	put := &etcdserverpb.RequestOp{Request: &etcdserverpb.RequestOp_RequestPut{RequestPut: &etcdserverpb.PutRequest{Key: key, Value: val}}}
	get := &etcdserverpb.RequestOp{Request: &etcdserverpb.RequestOp_RequestRange{RequestRange: &etcdserverpb.RangeRequest{Key: key}}}
	cmp := func(rev int64) []*etcdserverpb.Compare {
		return []*etcdserverpb.Compare{{Target: etcdserverpb.Compare_MOD, Result: etcdserverpb.Compare_EQUAL, Key: key,
			TargetUnion: &etcdserverpb.Compare_ModRevision{ModRevision: rev}}}
	}
	var txn *etcdserverpb.TxnRequest
	switch shape {
	case "create":
		txn = &etcdserverpb.TxnRequest{Compare: cmp(0), Success: []*etcdserverpb.RequestOp{put}}
	case "update":
		// guarded by the key's current mod revision; stale=1 (or a missing key): by revision 1, which no key has
		rev := int64(1)
		if opts["stale"] != "1" {
			if _, cur := f.leaderKV(key); cur != 0 {
				rev = cur
			}
		}
		txn = &etcdserverpb.TxnRequest{Compare: cmp(rev), Success: []*etcdserverpb.RequestOp{put}, Failure: []*etcdserverpb.RequestOp{get}}
	default:
		return "fwd bad-op"
	}
	f.rec.reset()
	atomic.StoreInt32(&f.executed, 0)
	if opts["lose"] == "1" {
		atomic.StoreInt32(&f.lose, 1)
	} else {
		atomic.StoreInt32(&f.lose, 0)
	}
	ctx, cancel := context.WithTimeout(context.Background(), 10*time.Second)
	resp, err := f.follower.Txn(ctx, txn)
	cancel()
	atomic.StoreInt32(&f.lose, 0)
	ans := "ok"
	switch {
	case err != nil && status.Code(err) == codes.Unavailable:
		ans = "unavailable"
	case err != nil:
		ans = "error:other"
	case !resp.Succeeded:
		ans = "failed"
	}
	applied := 0
	if cur, _ := f.leaderKV(key); bytes.Equal(cur, val) {
		applied = 1
	}
	cs := "-"
	if calls := f.rec.snapshot(); len(calls) > 0 {
		cs = strings.Join(calls, ",")
	}
	return fmt.Sprintf("fwd %s %s exec=%d applied=%d local=%s", shape, ans, atomic.LoadInt32(&f.executed), applied, cs)
}
