package main

import (
	"context"
	"fmt"
	"os"
	"runtime"
	"sort"
	"strings"
	"sync"
	"sync/atomic"
	"time"

	proto "github.com/kubewharf/kubebrain-client/api/v2rpc"
	"google.golang.org/grpc"
	"k8s.io/client-go/tools/leaderelection/resourcelock"
	"k8s.io/klog/v2"

	"github.com/kubewharf/kubebrain/pkg/backend"
	"github.com/kubewharf/kubebrain/pkg/backend/coder"
	"github.com/kubewharf/kubebrain/pkg/backend/scanner"
	"github.com/kubewharf/kubebrain/pkg/metrics"
	"github.com/kubewharf/kubebrain/pkg/server/brain"
	"github.com/kubewharf/kubebrain/pkg/server/service"
	"github.com/kubewharf/kubebrain/pkg/server/service/leader"
	"github.com/kubewharf/kubebrain/pkg/storage"
	"github.com/kubewharf/kubebrain/pkg/verifhook"
)

type watcher struct {
	ch     <-chan []*proto.Event
	cancel context.CancelFunc
	closed bool
}

type hookGate struct {
	armed   bool
	waiting []chan struct{}
}

type backendSuite struct {
	c     *ctl
	inner storage.KvStorage
	kv    *kvWrap
	b     backend.Backend
	b2    backend.Backend // second backend over the same store (restart suite)
	coder coder.Coder
	opts  map[string]string
	wait  time.Duration

	watchers map[string]*watcher

	hmu   sync.Mutex
	hooks map[string]*hookGate
	// C05: a probe watcher (cfg probe=1) that counts the events the hub has fanned out — what `sync` and
	// `fill` wait on
	probe      bool
	probeCount int64

	// scanner-level access (C07/C13/C17): a scanner built directly over the wrapped store
	sc scanner.Scanner

	// highest revision seen in any write response header (for `sync`)
	maxHdr uint64

	// stepped repair: a released retry() is being stepped under the pseudo client id retryCid
	rActive int32

	// native (brain) Watch streams opened by `bwatch`
	bstreams map[string]*brainStream
}

// retryMetrics passes every metric through to the production client and, in stepped-repair mode, turns the
// histogram the retry loop emits at the END of each retry() (deferred: after the dispatcher was told and the
// queue popped) into the completion event of pseudo client R: `done R retry <state>` with <state> one of
// success | failed_get | failed_put | unknown_put | unnecessary (retry.go's own classification).
type retryMetrics struct {
	metrics.Metrics
	s *backendSuite
}

func (m *retryMetrics) EmitHistogram(name string, value interface{}, tags ...metrics.T) error {
	err := m.Metrics.EmitHistogram(name, value, tags...)
	if name == "async_retry.retry" && atomic.LoadInt32(&m.s.rActive) == 1 && m.s.c.onRetryGoroutine() {
		state := "?"
		for _, t := range tags {
			if t.Name == "state" {
				state = t.Value
			}
		}
		atomic.StoreInt32(&m.s.rActive, 0)
		m.s.c.mu.Lock()
		delete(m.s.c.clients, retryCid)
		m.s.c.mu.Unlock()
		m.s.c.arrived <- arrival{cid: retryCid, done: true, line: "retry " + state}
	}
	return err
}

// slowStartMetrics delays the emission the started-leading callback begins with.
type slowStartMetrics struct {
	metrics.Metrics
	d time.Duration
}

func (m slowStartMetrics) EmitCounter(name string, value interface{}, tags ...metrics.T) error {
	if name == "leader.election.success" {
		time.Sleep(m.d)
	}
	return m.Metrics.EmitCounter(name, value, tags...)
}

// watchSignal tells the harness when the native handler's call of Backend.Watch has returned.
type watchSignal struct {
	backend.Backend
	ch chan error
}

func (w *watchSignal) Watch(ctx context.Context, prefix string, revision uint64) (<-chan []*proto.Event, error) {
	c, err := w.Backend.Watch(ctx, prefix, revision)
	select {
	case w.ch <- err:
	default:
	}
	return c, err
}

// brainStream is the in-process server side of a native Watch stream.
type brainStream struct {
	grpc.ServerStream
	ctx    context.Context
	cancel context.CancelFunc
	mu     sync.Mutex
	revs   []uint64
	hdrOK  bool
	done   bool
	err    error
}

func (b *brainStream) Context() context.Context { return b.ctx }
func (b *brainStream) Send(r *proto.WatchResponse) error {
	b.mu.Lock()
	defer b.mu.Unlock()
	var last uint64
	for _, e := range r.Events {
		b.revs = append(b.revs, e.Revision)
		last = e.Revision
	}
	// C02: the header of a response is never smaller than the revision of any data in it
	if r.Header == nil || r.Header.Revision < last {
		b.hdrOK = false
	}
	return nil
}

// campaignBackend is the Backend handed to the real leader election: it records the revision the new
// leader installs and whether the node already reported itself leader when it was installed.
type campaignBackend struct {
	backend.Backend
	lock     resourcelock.Interface // when set: the lock handed to the elector (slowget=1)
	isLeader func() bool
	lastSet  uint64
	sets     int32
	early    int32
}

func (c *campaignBackend) GetResourceLock() resourcelock.Interface {
	if c.lock != nil {
		return c.lock
	}
	return c.Backend.GetResourceLock()
}

// slowGetLock: every Get that follows a successful Create / Update of this candidate takes `d` longer - the order of the
// elector's two goroutines on a networked engine: the started-leading callback consults Describe() BEFORE the renew loop's
// first poll has re-read the record
type slowGetLock struct {
	resourcelock.Interface
	wrote int32
	d     time.Duration
}

func (l *slowGetLock) Get() (*resourcelock.LeaderElectionRecord, error) {
	if atomic.LoadInt32(&l.wrote) == 1 {
		time.Sleep(l.d)
	}
	return l.Interface.Get()
}

func (l *slowGetLock) Create(r resourcelock.LeaderElectionRecord) error {
	err := l.Interface.Create(r)
	if err == nil {
		atomic.StoreInt32(&l.wrote, 1)
	}
	return err
}

func (l *slowGetLock) Update(r resourcelock.LeaderElectionRecord) error {
	err := l.Interface.Update(r)
	if err == nil {
		atomic.StoreInt32(&l.wrote, 1)
	}
	return err
}

func (c *campaignBackend) SetCurrentRevision(r uint64) {
	if c.isLeader != nil && c.isLeader() {
		atomic.StoreInt32(&c.early, 1)
	}
	atomic.StoreUint64(&c.lastSet, r)
	atomic.AddInt32(&c.sets, 1)
	c.Backend.SetCurrentRevision(r)
}

func (s *backendSuite) noteHdr(h *proto.ResponseHeader) {
	s.hmu.Lock()
	if h != nil && h.Revision > s.maxHdr {
		s.maxHdr = h.Revision
	}
	s.hmu.Unlock()
}

func durOpt(opts map[string]string, k string, def time.Duration) time.Duration {
	if v, ok := opts[k]; ok {
		return time.Duration(atoi(v)) * time.Millisecond
	}
	return def
}

func leaseOpt(opts map[string]string) int64 {
	if v, ok := opts["lease"]; ok {
		return int64(atoi(v))
	}
	return 0
}

func newBackendSuite(opts map[string]string) *backendSuite {
	s := &backendSuite{c: newCtl(), opts: opts, watchers: map[string]*watcher{}, hooks: map[string]*hookGate{}}
	below := strings.HasPrefix(opts["engine"], "metrics-")
	s.inner = newEngineUnder(opts, func(kv storage.KvStorage) storage.KvStorage { return &delFaultStore{KvStorage: kv, c: s.c} })
	s.kv = &kvWrap{inner: s.inner, c: s.c, delBelow: below}
	s.coder = coder.NewNormalCoder()
	s.wait = durOpt(opts, "wait", 3000*time.Millisecond)
	if v := os.Getenv("KB_WAIT_MS"); v != "" {
		if _, ok := opts["wait"]; !ok {
			s.wait = time.Duration(atoi(v)) * time.Millisecond
		}
	}
	if sp, ok := opts["splits"]; ok && sp != "-" && sp != "" {
		for _, h := range strings.Split(sp, ",") {
			s.c.splits = append(s.c.splits, unhx(h))
		}
	}
	s.c.retrySteps = opts["retrysteps"] == "1"
	if _, ok := opts["retry"]; ok {
		backend.VerifSetRetryIntervals(durOpt(opts, "retry", 0), durOpt(opts, "check", 5*time.Millisecond))
	}
	if v, ok := opts["eventsttl"]; ok {
		backend.VerifSetEventsTTL(int64(atoi(v)))
	}
	verifhook.SetGate(s.hookGate)
	s.b = s.newBackend("id-1")
	init := uint64(1000)
	if v, ok := opts["init"]; ok {
		init = atou(v)
	}
	s.b.SetCurrentRevision(init)
	if opts["probe"] == "1" {
		if ch, err := s.b.Watch(context.Background(), "", 0); err == nil {
			s.probe = true
			go func() {
				for b := range ch {
					atomic.AddInt64(&s.probeCount, int64(len(b)))
				}
			}()
		}
	}
	return s
}

func (s *backendSuite) config(identity string) backend.Config {
	cfg := backend.Config{
		Prefix:                  string(unhx(s.opts["prefix"])),
		Identity:                identity,
		EnableEtcdCompatibility: s.opts["compat"] != "0",
	}
	if v, ok := s.opts["cache"]; ok {
		cfg.WatchCacheSize = atoi(v)
	}
	if sk, ok := s.opts["skipped"]; ok && sk != "-" && sk != "" {
		for _, h := range strings.Split(sk, ",") {
			cfg.SkippedPrefixes = append(cfg.SkippedPrefixes, string(unhx(h)))
		}
	}
	return cfg
}

func (s *backendSuite) newBackend(identity string) backend.Backend {
	var m metrics.Metrics = getMetrics()
	if s.c.retrySteps {
		m = &retryMetrics{Metrics: m, s: s}
	}
	return backend.NewBackend(s.kv, s.config(identity), m)
}

// leaks: at the end of a SEQUENTIAL script (no parked clients ever: every request has returned) every write batch that was
// begun must have been brought to Commit; background goroutines (repair loop, ttl pass) get a moment to finish theirs.
func (s *backendSuite) leaks() string {
	if atomic.LoadInt32(&s.c.everGated) != 0 {
		return ""
	}
	var n int64
	for i := 0; i < 100; i++ {
		n = atomic.LoadInt64(&s.c.begun) - atomic.LoadInt64(&s.c.finished)
		if n <= 0 {
			return ""
		}
		time.Sleep(5 * time.Millisecond)
	}
	return fmt.Sprintf("LEAKED-BATCH %d write batch(es) were begun and never committed (the in-memory engine holds its store mutex from BeginBatchWrite to Commit: such a node is wedged)", n)
}

func (s *backendSuite) close() {
	verifhook.SetGate(nil)
	cleanupTmp()
}

// hookGate is installed as the verifhook gate function.
func (s *backendSuite) hookGate(name string) {
	if name == "retry.step" && s.c.retrySteps {
		s.c.noteRetryGoroutine()
	}
	s.hmu.Lock()
	g := s.hooks[name]
	if g == nil || !g.armed {
		s.hmu.Unlock()
		return
	}
	ch := make(chan struct{})
	g.waiting = append(g.waiting, ch)
	s.hmu.Unlock()
	<-ch
}

func (s *backendSuite) setFaults(opts map[string]string) {
	s.c.mu.Lock()
	defer s.c.mu.Unlock()
	s.c.faults = nil
	if f, ok := opts["f"]; ok && f != "" {
		s.c.faults = strings.Split(f, ",")
	}
}

func (s *backendSuite) setMask(opts map[string]string) {
	s.c.mu.Lock()
	defer s.c.mu.Unlock()
	s.c.delMask = map[int]string{}
	s.c.crashAt = -1
	s.c.delCalls = 0
	s.c.delLog = nil
	if m, ok := opts["m"]; ok && m != "" {
		for _, e := range strings.Split(m, ",") {
			f := strings.Split(e, ":")
			s.c.delMask[atoi(f[0])] = f[1]
		}
	}
	if v, ok := opts["crash"]; ok {
		s.c.crashAt = atoi(v)
	}
}

// runOp executes a client request and renders its canonical result line.
func (s *backendSuite) runOp(ctx context.Context, b backend.Backend, t []string) string {
	pos, opts := parseOpts(t)
	switch pos[0] {
	case "create":
		resp, err := b.Create(ctx, &proto.CreateRequest{Key: unhx(pos[1]), Value: unhx(pos[2])})
		if err != nil {
			return "create err " + classify(err)
		}
		s.noteHdr(resp.Header)
		if resp.Succeeded {
			return fmt.Sprintf("create ok %d", resp.Header.Revision)
		}
		return fmt.Sprintf("create cf %d", resp.Header.Revision)
	case "update":
		// lease=<n>: the client's lease (etcd: put.Lease; LeaseGrant answers id == ttl) - an update takes no ttl from it
		resp, err := b.Update(ctx, &proto.UpdateRequest{Kv: &proto.KeyValue{Key: unhx(pos[1]), Value: unhx(pos[2]), Revision: atou(pos[3])},
			Lease: leaseOpt(opts)})
		if err != nil {
			return "update err " + classify(err)
		}
		s.noteHdr(resp.Header)
		if resp.Succeeded {
			return fmt.Sprintf("update ok %d", resp.Header.Revision)
		}
		return fmt.Sprintf("update cf %d %s", resp.Header.Revision, kvStr(resp.Kv))
	case "delete":
		resp, err := b.Delete(ctx, &proto.DeleteRequest{Key: unhx(pos[1]), Revision: atou(pos[2])})
		if err != nil {
			return "delete err " + classify(err)
		}
		s.noteHdr(resp.Header)
		if resp.Succeeded {
			return fmt.Sprintf("delete ok %d %s", resp.Header.Revision, kvStr(resp.Kv))
		}
		if resp.Kv == nil {
			return fmt.Sprintf("delete nf %d", resp.Header.Revision)
		}
		return fmt.Sprintf("delete cf %d %s", resp.Header.Revision, kvStr(resp.Kv))
	case "get":
		// revision token `c`, `c+N`: relative to the committed revision at this moment
		rev := uint64(0)
		if strings.HasPrefix(pos[2], "c") {
			rev = b.GetCurrentRevision()
			if len(pos[2]) > 2 {
				rev += atou(pos[2][2:])
			}
		} else {
			rev = atou(pos[2])
		}
		resp, err := b.Get(ctx, &proto.GetRequest{Key: unhx(pos[1]), Revision: rev})
		if err != nil {
			return "get err " + classify(err)
		}
		return fmt.Sprintf("get %d %s", resp.Header.Revision, kvStr(resp.Kv))
	case "list":
		resp, err := b.List(ctx, &proto.RangeRequest{Key: unhx(pos[1]), End: unhx(pos[2]), Revision: atou(pos[3]), Limit: int64(atoi(pos[4]))})
		if err != nil {
			return "list err " + classify(err)
		}
		more := 0
		if resp.More {
			more = 1
		}
		return fmt.Sprintf("list %d %d %s", resp.Header.Revision, more, kvsStr(resp.Kvs))
	case "count":
		resp, err := b.Count(ctx, &proto.CountRequest{Key: unhx(pos[1]), End: unhx(pos[2])})
		if err != nil {
			return "count err " + classify(err)
		}
		return fmt.Sprintf("count %d %d", resp.Header.Revision, resp.Count)
	case "compact":
		s.setMask(opts)
		resp, err := b.Compact(ctx, atou(pos[1]))
		if err != nil {
			return "compact err " + classify(err)
		}
		return fmt.Sprintf("compact %d", resp.Header.Revision)
	case "parts":
		resp, err := b.GetPartitions(ctx, &proto.ListPartitionRequest{Key: unhx(pos[1]), End: unhx(pos[2])})
		if err != nil {
			return "parts err " + classify(err)
		}
		ks := make([]string, len(resp.PartitionKeys))
		for i, k := range resp.PartitionKeys {
			ks[i] = hx(k)
		}
		return "parts " + strings.Join(ks, ",")
	case "streamadv":
		// streamadv <key> <end> <rev>: what a partition-parallel client does - ask for the partitions, then stream every
		// ADVERTISED piece [p_i, p_i+1) in the advertised order - as one answer: the pieces' kvs (sorted inside a piece,
		// pieces in advertised order) and the number of pieces that ended with an error
		resp, err := b.GetPartitions(ctx, &proto.ListPartitionRequest{Key: unhx(pos[1]), End: unhx(pos[2])})
		if err != nil {
			return "streamadv err " + classify(err)
		}
		var all []string
		errs := 0
		for i := 0; i+1 < len(resp.PartitionKeys); i++ {
			ch, err := b.ListByStream(ctx, resp.PartitionKeys[i], resp.PartitionKeys[i+1], atou(pos[3]))
			if err != nil {
				errs++
				continue
			}
			var piece []string
			for m := range ch {
				if m.Err != "" {
					errs++
				}
				if m.RangeResponse != nil {
					for _, kv := range m.RangeResponse.Kvs {
						piece = append(piece, kvStr(kv))
					}
				}
			}
			sort.Strings(piece)
			all = append(all, piece...)
		}
		out := strings.Join(all, ",")
		if out == "" {
			out = "-"
		}
		return fmt.Sprintf("streamadv pieces=%d errs=%d %s", len(resp.PartitionKeys)-1, errs, out)
	case "stream":
		ch, err := b.ListByStream(ctx, unhx(pos[1]), unhx(pos[2]), atou(pos[3]))
		if err != nil {
			return "stream err " + classify(err)
		}
		if v, ok := opts["slow"]; ok {
			// slow=<ms>: the consumer starts reading only after that long (the stream's buffer fills up meanwhile)
			time.Sleep(time.Duration(atoi(v)) * time.Millisecond)
		}
		var msgs []*proto.StreamRangeResponse
		for m := range ch {
			msgs = append(msgs, m)
		}
		return "stream " + streamStr(msgs)
	}
	return pos[0] + " bad-op"
}

// streamStr renders a stream canonically: the workers of different partitions flush concurrently, so
// the data is printed as the key-sorted list of `kv|hdr` entries (hdr = header revision of the batch the
// kv arrived in), followed by the terminator(s) `end hdr err last|notlast` and their count.
func streamStr(msgs []*proto.StreamRangeResponse) string {
	var entries []string
	var sb strings.Builder
	ends := 0
	for i, m := range msgs {
		isEnd := m.RangeResponse != nil && !m.RangeResponse.More
		if isEnd {
			ends++
			e := "-"
			if m.Err != "" {
				e = classifyMsg(m.Err)
			}
			pos := "last"
			if i != len(msgs)-1 {
				pos = "notlast"
			}
			fmt.Fprintf(&sb, "end %d %s %s;", m.RangeResponse.Header.GetRevision(), e, pos)
			continue
		}
		for _, kv := range m.RangeResponse.Kvs {
			entries = append(entries, fmt.Sprintf("%s|%d", kvStr(kv), m.RangeResponse.Header.GetRevision()))
		}
	}
	sort.Strings(entries)
	data := "-"
	if len(entries) > 0 {
		data = strings.Join(entries, ",")
	}
	return fmt.Sprintf("%s %s ends=%d", data, sb.String(), ends)
}

func classifyMsg(m string) string {
	if strings.Contains(m, "less than compact revision") {
		return "belowfloor"
	}
	return "other"
}

func (s *backendSuite) do(t []string) string {
	ctx := context.Background()
	pos, opts := parseOpts(t)
	switch pos[0] {
	case "create", "update", "delete":
		s.setFaults(opts)
		if id := opts["txn"]; id != "" {
			// txn=<id>: the request's (first) batch is committed through the engine transaction begun by `prebegin <id>`
			s.c.mu.Lock()
			s.c.useTxn = id
			s.c.mu.Unlock()
			defer func() {
				s.c.mu.Lock()
				s.c.useTxn = ""
				s.c.mu.Unlock()
			}()
		}
		var res string
		if opts["abandon"] == "1" {
			// abandon=1 (cfg rpcfault=abandon, TiKV): the client of this request goes away (its context is cancelled) once
			// the PREWRITE of its transaction has reached the cluster; client-go rolls the transaction back, leaving a
			// rollback record on its keys. The answer is what the backend told that client.
			res = abandonRun(func(actx context.Context) string { return s.runOp(actx, s.b, t) })
		} else if opts["gone"] == "1" {
			// gone=1: the caller of this request is gone before the backend sees it (its context is already cancelled: the
			// unary deadline passed or the client hung up while the request was queued). Whatever the backend answers,
			// a revision it deals for the request must be resolved
			gctx, cancel := context.WithCancel(ctx)
			cancel()
			res = s.runOp(gctx, s.b, t)
		} else {
			res = s.runOp(ctx, s.b, t)
		}
		s.setFaults(nil) // a directive no commit of this request consumed does not leak into later ops
		return res
	case "prebegin":
		// prebegin <id>: BeginBatchWrite on the engine NOW (on TiKV the transaction's start timestamp is taken here);
		// used by a later request `… txn=<id>`
		s.c.mu.Lock()
		if s.c.pre == nil {
			s.c.pre = map[string]storage.BatchWrite{}
		}
		s.c.pre[pos[1]] = s.inner.BeginBatchWrite()
		s.c.mu.Unlock()
		return "prebegin ok"
	case "get", "list", "count", "compact", "parts", "stream", "streamadv":
		s.setFaults(nil)
		return s.runOp(ctx, s.b, t)
	case "echo":
		return strings.Join(t, " ")
	case "rev":
		// expected-guided wait: poll until the committed revision equals `want`
		if w, ok := opts["want"]; ok {
			want := atou(w)
			deadline := time.Now().Add(s.wait)
			for s.b.GetCurrentRevision() != want && time.Now().Before(deadline) {
				time.Sleep(200 * time.Microsecond)
			}
			if s.b.GetCurrentRevision() != want && s.wait > 150*time.Millisecond {
				// the expected observation did not arrive: the transcripts already differ, do not
				// spend the full bound on every later wait of this script
				s.wait = 150 * time.Millisecond
			}
		}
		return fmt.Sprintf("rev %d", s.b.GetCurrentRevision())
	case "setrev":
		s.b.SetCurrentRevision(atou(pos[1]))
		return "setrev ok"
	case "ttllog":
		// ttllog on | ttllog: start recording / print and clear the TTLs handed to the engine, one group per batch
		s.c.mu.Lock()
		defer s.c.mu.Unlock()
		if len(pos) > 1 && pos[1] == "on" {
			s.c.ttlLogOn, s.c.ttlLog = true, nil
			return "ttllog on"
		}
		out := strings.Join(s.c.ttlLog, ";")
		s.c.ttlLog = nil
		if out == "" {
			out = "-"
		}
		return "ttllog " + out
	case "logarm":
		// logarm <hex substring>: log lines (klog.InfoS/ErrorS) whose message contains it park the gated client that
		// logs them (arrival "at <cid> log"); `logarm -` disarms all
		s.c.mu.Lock()
		if pos[1] == "-" {
			s.c.logArmed = nil
		} else {
			s.c.logArmed = append(s.c.logArmed, string(unhx(pos[1])))
		}
		s.c.mu.Unlock()
		klog.SetLogFilter(logGate{c: s.c})
		return "logarm ok"
	case "reopen":
		// reopen: the node process is restarted over the same data. Badger: the store is CLOSED (its memtable is flushed into
		// an sst table) and opened again from its directory; the other engines keep their (in-process) store. A new backend
		// takes over at the revision the old one had committed. (Scripts without watches and parked clients only.)
		rev := s.b.GetCurrentRevision()
		name := strings.TrimPrefix(s.opts["engine"], "metrics-")
		if name == "badger" {
			if err := s.inner.Close(); err != nil {
				return "reopen err close"
			}
			o2 := map[string]string{}
			for k, v := range s.opts {
				o2[k] = v
			}
			o2["badgerdir"] = lastBadgerDir
			below := strings.HasPrefix(s.opts["engine"], "metrics-")
			s.inner = newEngineUnder(o2, func(kv storage.KvStorage) storage.KvStorage { return &delFaultStore{KvStorage: kv, c: s.c} })
			s.kv = &kvWrap{inner: s.inner, c: s.c, delBelow: below}
		}
		s.b = s.newBackend("id-reopen-" + fmt.Sprint(time.Now().UnixNano()))
		s.b.SetCurrentRevision(rev)
		return "reopen ok"
	case "commitdelay":
		s.c.mu.Lock()
		s.c.commitDelay = time.Duration(atoi(pos[1])) * time.Millisecond
		s.c.mu.Unlock()
		return "commitdelay ok"
	case "getdelay":
		s.c.mu.Lock()
		s.c.getDelay = time.Duration(atoi(pos[1])) * time.Millisecond
		s.c.mu.Unlock()
		return "getdelay ok"
	case "iterslow":
		// iterslow <ms> from=<hex>: every Next of an iterator whose start key is <hex> takes <ms> (a slow partition);
		// iterslow 0 clears it
		s.c.mu.Lock()
		s.c.iterSlow = time.Duration(atoi(pos[1])) * time.Millisecond
		s.c.iterSlowKey = unhx(opts["from"])
		s.c.mu.Unlock()
		return "iterslow ok"
	case "getfault":
		// getfault: the next point Get the engine sees fails once with a transient error (for a range read, count
		// or stream that is the read of the compaction record)
		s.c.mu.Lock()
		s.c.getFault = true
		s.c.getFaultSkip = 0
		if v, ok := opts["skip"]; ok {
			// getfault skip=<n>: the n point Gets before the failing one are served (a compaction reads the compaction
			// record once in backend.setCompactRecord and then once per range in the scanner)
			s.c.getFaultSkip = atoi(v)
		}
		s.c.mu.Unlock()
		return "getfault ok"
	case "iterfault":
		// iterfault <n>: the next iterator the engine hands out fails its n-th Next call once with a transient
		// (non-EOF) error; the scanner's worker retries its partition after a backoff
		// iterfault <n> from=<hex>|notfrom=<hex>: persistent — every iterator whose start key is / is not <hex>
		// fails its n-th Next (the worker of that partition exhausts its retries); `iterfault 0` clears it
		s.c.mu.Lock()
		if v, ok := opts["from"]; ok {
			s.c.iterFaultPersist, s.c.iterFaultKey, s.c.iterFaultEq = atoi(pos[1]), unhx(v), true
		} else if v, ok := opts["notfrom"]; ok {
			s.c.iterFaultPersist, s.c.iterFaultKey, s.c.iterFaultEq = atoi(pos[1]), unhx(v), false
		} else {
			s.c.iterFault = atoi(pos[1])
			if atoi(pos[1]) == 0 {
				s.c.iterFaultPersist = 0
			}
		}
		s.c.mu.Unlock()
		return "iterfault ok"
	case "lowrev":
		// lowrev <rev>: requests are served from now on by ANOTHER node over the same store whose revision
		// counters stand at <rev> (a deposed leader that has not noticed yet, or a node whose allocator lags):
		// a fresh backend, SetCurrentRevision(rev) on a zero allocator sets both counters
		b2 := s.newBackend("id-low-" + fmt.Sprint(time.Now().UnixNano()))
		b2.SetCurrentRevision(atou(pos[1]))
		s.b = b2
		s.hmu.Lock()
		s.maxHdr = 0
		s.hmu.Unlock()
		return "lowrev ok"
	case "dump":
		return "dump " + dumpAll(s.inner)
	case "floor":
		v, err := s.inner.Get(ctx, []byte(string(unhx(s.opts["prefix"]))+"/compact_key"))
		if err != nil {
			return "floor -"
		}
		return "floor " + hx(v)
	case "sleep":
		time.Sleep(time.Duration(atoi(pos[1])) * time.Millisecond)
		return "slept"
	case "raw":
		// raw put/del straight into the engine (initial states, malformed records)
		b := s.inner.BeginBatchWrite()
		if pos[1] == "put" {
			b.Put(unhx(pos[2]), unhx(pos[3]), 0)
		} else {
			b.Del(unhx(pos[2]))
		}
		if err := b.Commit(ctx); err != nil {
			return "raw err"
		}
		return "raw ok"
	case "splits":
		s.c.mu.Lock()
		s.c.splits = nil
		if len(pos) > 1 && pos[1] != "-" {
			for _, h := range strings.Split(pos[1], ",") {
				s.c.splits = append(s.c.splits, unhx(h))
			}
		} else {
			s.c.splits = [][]byte{}
		}
		s.c.mu.Unlock()
		return "splits ok"
	case "watch":
		wctx, cancel := context.WithCancel(ctx)
		ch, err := s.b.Watch(wctx, string(unhx(pos[2])), atou(pos[3]))
		if err != nil {
			cancel()
			return "watch " + pos[1] + " refused"
		}
		s.watchers[pos[1]] = &watcher{ch: ch, cancel: cancel}
		return "watch " + pos[1] + " ok"
	case "bwatch":
		// bwatch <id> <hexprefix> <rev>: the NATIVE Watch handler (pkg/server/brain) of a leader over this backend,
		// on an in-process stream that records every response (header revision + the revisions of its events)
		wb := &watchSignal{Backend: s.b, ch: make(chan error, 1)}
		bs := brain.New(wb, getMetrics(), service.NewPeerService(&leader.Stub{ElectionInfo: leader.ElectionInfo{LeaderAddress: "127.0.0.1:0", IsLeader: true}}, getMetrics(), s.b, service.Config{}))
		wctx, cancel := context.WithCancel(ctx)
		st := &brainStream{ctx: wctx, cancel: cancel, hdrOK: true}
		if s.bstreams == nil {
			s.bstreams = map[string]*brainStream{}
		}
		go func() {
			err := bs.Watch(&proto.WatchRequest{Key: unhx(pos[2]), Revision: atou(pos[3])}, st)
			st.mu.Lock()
			st.done, st.err = true, err
			st.mu.Unlock()
		}()
		// the handler has registered with the backend (or was refused by it) when the backend's Watch returned
		select {
		case err := <-wb.ch:
			if err != nil {
				cancel()
				return "bwatch " + pos[1] + " refused"
			}
		case <-time.After(10 * time.Second):
			cancel()
			return "bwatch " + pos[1] + " stuck"
		}
		s.bstreams[pos[1]] = st
		return "bwatch " + pos[1] + " ok"
	case "bdrain":
		// bdrain <id> [want=<n>]: the events received so far (waits, bounded, for n); hdrok = no response's header
		// was below the revision of an event it carried
		st := s.bstreams[pos[1]]
		if st == nil {
			return "bdrain " + pos[1] + " nowatch"
		}
		want := 0
		if opts["want"] != "" {
			want = atoi(opts["want"])
		}
		deadline := time.Now().Add(s.wait)
		for {
			st.mu.Lock()
			n := len(st.revs)
			st.mu.Unlock()
			if n >= want || !time.Now().Before(deadline) {
				break
			}
			time.Sleep(time.Millisecond)
		}
		time.Sleep(10 * time.Millisecond)
		st.mu.Lock()
		defer st.mu.Unlock()
		revs := make([]string, len(st.revs))
		for i, r := range st.revs {
			revs[i] = fmt.Sprint(r)
		}
		out := strings.Join(revs, ",")
		if out == "" {
			out = "-"
		}
		hdrok := 1
		if !st.hdrOK {
			hdrok = 0
		}
		return fmt.Sprintf("bdrain %s n=%d hdrok=%d revs=%s", pos[1], len(st.revs), hdrok, out)
	case "drain":
		return s.drain(pos[1], opts)
	case "cancel":
		if w := s.watchers[pos[1]]; w != nil {
			w.cancel()
		}
		return "cancel " + pos[1]
	case "bulk":
		// bulk <n> <keyprefix> <val>: n sequential creates of keyprefix + 5-digit counter (bulk data)
		n := atoi(pos[1])
		var last uint64
		for i := 0; i < n; i++ {
			key := append(append([]byte{}, unhx(pos[2])...), []byte(fmt.Sprintf("%05d", i))...)
			resp, err := s.b.Create(ctx, &proto.CreateRequest{Key: key, Value: unhx(pos[3])})
			if err != nil || !resp.Succeeded {
				return fmt.Sprintf("bulk failed-at %d", i)
			}
			s.noteHdr(resp.Header) // (`settle` waits until the committed revision has reached every header seen)
			last = resp.Header.Revision
		}
		return fmt.Sprintf("bulk %d", last)
	case "stress":
		// stress <clients> <ops> <key,key,...>: free-running concurrent guarded writers on shared keys
		// (no gates: the engine's own transaction isolation is exercised). Prints every acknowledged
		// success as verb:key:rev:expected, sorted by key and revision, and the final state of each key.
		nc, nops := atoi(pos[1]), atoi(pos[2])
		var keys [][]byte
		for _, h := range strings.Split(pos[3], ",") {
			keys = append(keys, unhx(h))
		}
		type succ struct {
			verb string
			key  string
			rev  uint64
			exp  uint64
		}
		var mu sync.Mutex
		var all []succ
		var wg sync.WaitGroup
		for c := 0; c < nc; c++ {
			wg.Add(1)
			go func(c int) {
				defer wg.Done()
				for i := 0; i < nops; i++ {
					key := keys[(c+i)%len(keys)]
					g, err := s.b.Get(ctx, &proto.GetRequest{Key: key})
					if err != nil {
						continue
					}
					val := []byte(fmt.Sprintf("c%d-%d", c, i))
					if g.Kv == nil {
						resp, err := s.b.Create(ctx, &proto.CreateRequest{Key: key, Value: val})
						if err == nil {
							s.noteHdr(resp.Header)
							if resp.Succeeded {
								mu.Lock()
								all = append(all, succ{"create", hx(key), resp.Header.Revision, 0})
								mu.Unlock()
							}
						}
					} else if (c+i)%3 == 0 {
						resp, err := s.b.Delete(ctx, &proto.DeleteRequest{Key: key, Revision: g.Kv.Revision})
						if err == nil {
							s.noteHdr(resp.Header)
							if resp.Succeeded {
								mu.Lock()
								all = append(all, succ{"delete", hx(key), resp.Header.Revision, g.Kv.Revision})
								mu.Unlock()
							}
						}
					} else {
						resp, err := s.b.Update(ctx, &proto.UpdateRequest{Kv: &proto.KeyValue{Key: key, Value: val, Revision: g.Kv.Revision}})
						if err == nil {
							s.noteHdr(resp.Header)
							if resp.Succeeded {
								mu.Lock()
								all = append(all, succ{"update", hx(key), resp.Header.Revision, g.Kv.Revision})
								mu.Unlock()
							}
						}
					}
				}
			}(c)
		}
		wg.Wait()
		sort.Slice(all, func(i, j int) bool {
			if all[i].key != all[j].key {
				return all[i].key < all[j].key
			}
			return all[i].rev < all[j].rev
		})
		parts := make([]string, len(all))
		for i, a := range all {
			parts[i] = fmt.Sprintf("%s:%s:%d:%d", a.verb, a.key, a.rev, a.exp)
		}
		var finals []string
		for _, k := range keys {
			g, err := s.b.Get(ctx, &proto.GetRequest{Key: k})
			if err != nil {
				finals = append(finals, hx(k)+"=err")
			} else if g.Kv == nil {
				finals = append(finals, hx(k)+"=-")
			} else {
				finals = append(finals, fmt.Sprintf("%s=%d", hx(k), g.Kv.Revision))
			}
		}
		l := "-"
		if len(parts) > 0 {
			l = strings.Join(parts, ",")
		}
		return fmt.Sprintf("stress %s final=%s", l, strings.Join(finals, ","))
	case "settle":
		// wait (bounded) until the committed revision has been stable for 20 ms — for runs whose
		// revisions are wall-clock values the model cannot predict
		last := s.b.GetCurrentRevision()
		stable := time.Now()
		deadline := time.Now().Add(s.wait)
		s.hmu.Lock()
		floor := s.maxHdr
		s.hmu.Unlock()
		for time.Now().Before(deadline) && (last < floor || time.Since(stable) < 20*time.Millisecond) {
			time.Sleep(500 * time.Microsecond)
			if cur := s.b.GetCurrentRevision(); cur != last {
				last, stable = cur, time.Now()
			}
		}
		return "settle ok"
	case "reupdate":
		// guarded update conditioned on the revision a fresh Get reports (for wall-clock revisions)
		g, err := s.b.Get(ctx, &proto.GetRequest{Key: unhx(pos[1])})
		if err != nil || g.Kv == nil {
			return "reupdate nokey"
		}
		resp, err := s.b.Update(ctx, &proto.UpdateRequest{Kv: &proto.KeyValue{Key: unhx(pos[1]), Value: unhx(pos[2]), Revision: g.Kv.Revision}})
		if err != nil {
			return "reupdate err " + classify(err)
		}
		if resp.Succeeded {
			return fmt.Sprintf("reupdate ok %d prev=%d", resp.Header.Revision, g.Kv.Revision)
		}
		return fmt.Sprintf("reupdate cf %d prev=%d", resp.Header.Revision, g.Kv.Revision)
	case "restart":
		// a new leader over the same store, initialised exactly as leader.go does: acquire the lock
		// (Get, then Create or Update), parse the engine timestamp from Describe(), SetCurrentRevision
		ident := "id-" + fmt.Sprint(len(s.watchers)+2) + "-" + fmt.Sprint(time.Now().UnixNano())
		if v, ok := opts["id"]; ok {
			ident = v
		}
		b2 := s.newBackend(ident)
		lock := b2.GetResourceLock()
		rec, err := lock.Get()
		if err != nil {
			err = lock.Create(resourcelock.LeaderElectionRecord{HolderIdentity: lock.Identity()})
		} else {
			nr := *rec
			nr.HolderIdentity = lock.Identity()
			nr.LeaderTransitions++
			err = lock.Update(nr)
		}
		if err != nil {
			return "restart err " + classify(err)
		}
		infos := strings.Split(lock.Describe(), ",")
		if len(infos) != 2 {
			return "restart err describe"
		}
		ts := atou(infos[1])
		b2.SetCurrentRevision(ts)
		s.b = b2
		s.hmu.Lock()
		s.maxHdr = 0
		s.hmu.Unlock()
		maxStored := s.maxStoredRevision()
		if ts >= maxStored {
			return "restart above"
		}
		return fmt.Sprintf("restart lag ts=%d maxstored=%d", ts, maxStored)
	case "campaign":
		// campaign id=<identity> [f=tso]: a new node over the same store becomes leader through the REAL
		// leader.NewLeaderElection(...).Campaign() (client-go elector + pkg/server/service/leader callbacks).
		// With the identity that holds the lock record the elector takes over at once (a restarted node).
		// f=tso: the engine-timestamp read that follows the elector's first lock write fails.
		// Once per process: the elector goroutine cannot be stopped (RunOrDie on context.Background()).
		ident := opts["id"]
		b2 := s.newBackend(ident)
		cb := &campaignBackend{Backend: b2}
		if v, ok := opts["followed"]; ok {
			// followed=<rev>: the node has served reads as a FOLLOWER before it is elected: its revision syncer adopted the
			// leader's read revision <rev> (some time ago - the store holds newer revisions by now)
			b2.SetCurrentRevision(atou(v))
		}
		if opts["slowget"] == "1" {
			cb.lock = &slowGetLock{Interface: b2.GetResourceLock(), d: 400 * time.Millisecond}
		}
		if opts["released"] == "1" {
			// the previous leader RELEASED the lock (client-go's release() under ReleaseOnCancel writes a record without
			// a holder): the take-over is an Update over a holder-less record
			now := time.Now().UTC().Format(time.RFC3339)
			rb := s.inner.BeginBatchWrite()
			rb.Put([]byte(string(unhx(s.opts["prefix"]))+"/election"),
				[]byte(`{"holderIdentity":"","leaseDurationSeconds":1,"acquireTime":"`+now+`","renewTime":"`+now+`","leaderTransitions":1}`), 0)
			_ = rb.Commit(ctx)
		}
		started := make(chan struct{})
		var mc metrics.Metrics = getMetrics()
		if opts["f"] == "tso2" {
			// the renew loop's first lock read (whose engine-timestamp read fails) gets ahead of the
			// started-leading callback, which is held at its first statement (a metric emission)
			mc = slowStartMetrics{Metrics: mc, d: 300 * time.Millisecond}
		}
		le := leader.NewLeaderElection(cb, mc, func(context.Context) { close(started) }, func() {})
		cb.isLeader = le.IsLeader
		if opts["fresh"] == "1" {
			// the election record this node looks for does not exist (another key prefix before the restart, or
			// the record was removed): the elector takes its Create path over a store that already holds data
			db := s.inner.BeginBatchWrite()
			db.Del([]byte(string(unhx(s.opts["prefix"])) + "/election"))
			_ = db.Commit(ctx)
		}
		if opts["f"] == "tso" || opts["f"] == "tsoslow" || opts["f"] == "tso2" {
			s.c.mu.Lock()
			s.c.tsoArmed = true
			s.c.tsoSlow = opts["f"] == "tsoslow"
			s.c.tsoSkip = opts["f"] == "tso2"
			s.c.mu.Unlock()
		}
		go le.Campaign()
		select {
		case <-started:
		case <-time.After(30 * time.Second):
			return "campaign timeout"
		}
		s.b = b2
		s.hmu.Lock()
		s.maxHdr = 0
		s.hmu.Unlock()
		ts := atomic.LoadUint64(&cb.lastSet)
		maxStored := s.maxStoredRevision()
		s.c.mu.Lock()
		fired := s.c.tsoFired
		s.c.mu.Unlock()
		verdict := "above"
		if ts < maxStored {
			verdict = "lag"
		}
		return fmt.Sprintf("campaign %s ts=%d maxstored=%d early=%d sets=%d tsofaults=%d leader=%v", verdict, ts, maxStored,
			atomic.LoadInt32(&cb.early), atomic.LoadInt32(&cb.sets), fired, le.IsLeader())
	case "retry":
		// release one parked retry step (gate retry.step must be armed) with the given fault for its commit
		s.setFaults(opts)
		s.hmu.Lock()
		g := s.hooks["retry.step"]
		if g == nil || len(g.waiting) == 0 {
			s.hmu.Unlock()
			return "retry none"
		}
		ch := g.waiting[0]
		g.waiting = g.waiting[1:]
		s.hmu.Unlock()
		if s.c.retrySteps && s.c.gated {
			// stepped repair: the released retry() parks at each of its storage calls as pseudo client R
			// (`at R iter`, `at R commit`), is advanced by `step R [f=e|ua|un]` and ends with `done R retry <state>`
			rch := make(chan string, 1)
			s.c.mu.Lock()
			s.c.clients[retryCid] = rch
			s.c.mu.Unlock()
			atomic.StoreInt32(&s.rActive, 1)
			close(ch)
			return s.awaitClient(retryCid)
		}
		close(ch)
		return "retry ok"
	case "dellog":
		s.c.mu.Lock()
		defer s.c.mu.Unlock()
		if len(s.c.delLog) == 0 {
			return "dellog -"
		}
		return "dellog " + strings.Join(s.c.delLog, ",")

	// ----- C05: watch registration as its own thread, single-batch receive, bulk writes, pipeline sync -----
	case "startw":
		// startw <cid> <id> <prefix> <rev>: Backend.Watch runs in its own goroutine (up to its first armed
		// yield point, or to completion); the op returns at once; `join <cid>` collects the outcome
		cid, id, pfx, rev := pos[1], pos[2], string(unhx(pos[3])), atou(pos[4])
		go func() {
			wctx, cancel := context.WithCancel(ctx)
			wch, err := s.b.Watch(wctx, pfx, rev)
			line := "watch " + id + " ok"
			if err != nil {
				cancel()
				line = "watch " + id + " refused"
			} else {
				s.hmu.Lock()
				s.watchers[id] = &watcher{ch: wch, cancel: cancel}
				s.hmu.Unlock()
			}
			s.c.arrived <- arrival{cid: cid, done: true, line: line}
		}()
		return "startw " + cid
	case "join":
		d := 30 * time.Second
		if opts["want"] == "stuck" {
			d = 100 * time.Millisecond
		}
		return s.awaitClientFor(pos[1], d)
	case "take":
		// one receive from the watch channel (expected-guided: want=<n events> closed=<0|1>)
		s.hmu.Lock()
		w := s.watchers[pos[1]]
		s.hmu.Unlock()
		if w == nil {
			return "batch " + pos[1] + " nowatch"
		}
		d := s.wait
		if opts["want"] == "0" && opts["closed"] == "0" {
			d = 30 * time.Millisecond
		}
		select {
		case b, ok := <-w.ch:
			if !ok {
				w.closed = true
				return "batch " + pos[1] + " - closed=1"
			}
			evs := make([]string, len(b))
			for i, e := range b {
				evs[i] = evStr(e)
			}
			return "batch " + pos[1] + " " + strings.Join(evs, ",") + " closed=0"
		case <-time.After(d):
			return "batch " + pos[1] + " - closed=0"
		}
	case "fill":
		// fill <n> <keyprefix> <val>: n sequential creates of keyprefix+%05d, each one broadcast as a batch of
		// its own: the sequencer is made to park at "seq.before_broadcast" after every create (it parks only
		// after it has found no further slot, i.e. with a one-event batch) and is released before the next.
		// Must not be used while the script itself has a seq.* gate armed.
		n, kp, val := atoi(pos[1]), unhx(pos[2]), unhx(pos[3])
		const gname = "seq.before_broadcast"
		s.hmu.Lock()
		for _, gn := range []string{"seq.before_cache", gname} {
			if g := s.hooks[gn]; g != nil && (g.armed || len(g.waiting) > 0) {
				s.hmu.Unlock()
				return "fill bad-state"
			}
		}
		g := s.hooks[gname]
		if g == nil {
			g = &hookGate{}
			s.hooks[gname] = g
		}
		g.armed = true
		s.hmu.Unlock()
		defer func() {
			s.hmu.Lock()
			g.armed = false
			for _, ch := range g.waiting {
				close(ch)
			}
			g.waiting = nil
			s.hmu.Unlock()
		}()
		var last uint64
		for i := 0; i < n; i++ {
			key := append(append([]byte{}, kp...), []byte(fmt.Sprintf("%05d", i))...)
			resp, err := s.b.Create(ctx, &proto.CreateRequest{Key: key, Value: val})
			if err != nil || !resp.Succeeded {
				return fmt.Sprintf("fill err %d", i)
			}
			last = resp.Header.Revision
			deadline := time.Now().Add(s.wait)
			for spins := 0; ; spins++ {
				s.hmu.Lock()
				var ch chan struct{}
				if len(g.waiting) > 0 {
					ch = g.waiting[0]
					g.waiting = g.waiting[1:]
				}
				s.hmu.Unlock()
				if ch != nil {
					close(ch)
					break
				}
				if spins < 256 {
					runtime.Gosched()
				} else {
					time.Sleep(20 * time.Microsecond)
				}
				if spins%256 == 255 && !time.Now().Before(deadline) {
					return fmt.Sprintf("fill stuck %d", i)
				}
			}
		}
		return fmt.Sprintf("fill ok %d", last)
	case "sync":
		// sync want=<p>: wait (bounded) until the probe watcher has received <p> events, i.e. the hub has
		// fanned out everything the model says it has (the events are then in the cache as well)
		if w, ok := opts["want"]; ok {
			wp := int64(atoi(w))
			deadline := time.Now().Add(s.wait)
			for atomic.LoadInt64(&s.probeCount) != wp && time.Now().Before(deadline) {
				time.Sleep(100 * time.Microsecond)
			}
		}
		return fmt.Sprintf("sync %d", atomic.LoadInt64(&s.probeCount))

	// ----- scheduled mode -----
	case "gated":
		s.c.gated = pos[1] == "1"
		if s.c.gated {
			atomic.StoreInt32(&s.c.everGated, 1)
		}
		return "gated " + pos[1]
	case "start":
		atomic.StoreInt32(&s.c.everGated, 1)
		cid := pos[1]
		ch := make(chan string, 1)
		s.c.mu.Lock()
		s.c.clients[cid] = ch
		s.c.mu.Unlock()
		cctx := withCid(ctx, cid)
		req := t[2:]
		go func() {
			defer func() {
				if r := recover(); r != nil {
					s.c.arrived <- arrival{cid: cid, done: true, line: fmt.Sprintf("%s PANIC %v", req[0], strings.Fields(fmt.Sprint(r)))}
				}
			}()
			gid := curGid()
			s.c.mu.Lock()
			s.c.gidCid[gid] = cid
			s.c.mu.Unlock()
			defer func() {
				s.c.mu.Lock()
				delete(s.c.gidCid, gid)
				s.c.mu.Unlock()
			}()
			var line string
			if req[0] == "watch" {
				wctx, cancel := context.WithCancel(cctx)
				wch, err := s.b.Watch(wctx, string(unhx(req[2])), atou(req[3]))
				if err != nil {
					cancel()
					line = "watch " + req[1] + " refused"
				} else {
					s.hmu.Lock()
					s.watchers[req[1]] = &watcher{ch: wch, cancel: cancel}
					s.hmu.Unlock()
					line = "watch " + req[1] + " ok"
				}
			} else {
				line = s.runOp(cctx, s.b, req)
			}
			s.c.mu.Lock()
			delete(s.c.clients, cid)
			s.c.mu.Unlock()
			s.c.arrived <- arrival{cid: cid, done: true, line: line}
		}()
		return s.awaitClient(cid)
	case "step":
		cid := pos[1]
		s.c.mu.Lock()
		ch := s.c.clients[cid]
		s.c.mu.Unlock()
		if ch == nil {
			return "step " + cid + " no-such-client"
		}
		d := "-"
		if f, ok := opts["f"]; ok {
			d = f
		}
		if d == "rd" {
			// f=rd: the READ the client is parked at fails once with a transient error (the iterator the engine hands out
			// next fails its first Next) - e.g. the repair's read of the key it is about to rewrite
			s.c.mu.Lock()
			s.c.iterFault = 1
			s.c.mu.Unlock()
			d = "-"
		}
		ch <- d
		return s.awaitClient(cid)
	case "stepto":
		// stepto <cid> <gate> [max=<n>]: release the client until it arrives at the named gate (`log`, `get`, `iter`,
		// `commit`) or finishes; when it is ALREADY parked at a gate it is first released from it. Prints the last arrival.
		cid, gate := pos[1], pos[2]
		max := 40
		if v, ok := opts["max"]; ok {
			max = atoi(v)
		}
		last := "stepto " + cid + " no-such-client"
		for i := 0; i < max; i++ {
			s.c.mu.Lock()
			ch := s.c.clients[cid]
			s.c.mu.Unlock()
			if ch == nil {
				break
			}
			ch <- "-"
			last = s.awaitClient(cid)
			if strings.HasPrefix(last, "done ") || last == "at "+cid+" "+gate || strings.HasPrefix(last, "stuck") {
				break
			}
		}
		return last
	case "arm":
		s.hmu.Lock()
		g := s.hooks[pos[1]]
		if g == nil {
			g = &hookGate{}
			s.hooks[pos[1]] = g
		}
		g.armed = true
		s.hmu.Unlock()
		return "arm " + pos[1]
	case "disarm":
		s.hmu.Lock()
		if g := s.hooks[pos[1]]; g != nil {
			g.armed = false
			for _, ch := range g.waiting {
				close(ch)
			}
			g.waiting = nil
		}
		s.hmu.Unlock()
		return "disarm " + pos[1]
	case "await":
		// wait until a goroutine is parked at hook gate <name> (expected-guided: want=1) or report 0
		want := opts["want"] != "0"
		deadline := time.Now().Add(s.wait)
		if !want {
			deadline = time.Now().Add(30 * time.Millisecond)
		}
		for {
			s.hmu.Lock()
			n := 0
			if g := s.hooks[pos[1]]; g != nil {
				n = len(g.waiting)
			}
			s.hmu.Unlock()
			if n > 0 {
				return "await " + pos[1] + " 1"
			}
			if !time.Now().Before(deadline) {
				return "await " + pos[1] + " 0"
			}
			time.Sleep(200 * time.Microsecond)
		}
	case "release":
		s.hmu.Lock()
		g := s.hooks[pos[1]]
		if g == nil || len(g.waiting) == 0 {
			s.hmu.Unlock()
			return "release " + pos[1] + " none"
		}
		ch := g.waiting[0]
		g.waiting = g.waiting[1:]
		s.hmu.Unlock()
		close(ch)
		return "release " + pos[1] + " ok"
	}
	return pos[0] + " bad-op"
}

// maxStoredRevision scans the whole engine for the largest revision in an internal key or index value.
func (s *backendSuite) maxStoredRevision() uint64 {
	it, err := s.inner.Iter(context.Background(), []byte{0}, []byte{0xff, 0xff, 0xff, 0xff, 0xff}, 0, 0)
	if err != nil {
		return 0
	}
	defer it.Close()
	var m uint64
	for it.Next(context.Background()) == nil {
		k := it.Key()
		if len(k) < 13 {
			continue
		}
		if _, rev, err := s.coder.Decode(k); err == nil && rev > m {
			m = rev
		}
	}
	return m
}

// awaitClient waits for the next event (gate arrival or completion) of client cid.
func (s *backendSuite) awaitClient(cid string) string { return s.awaitClientFor(cid, 30*time.Second) }

func (s *backendSuite) awaitClientFor(cid string, d time.Duration) string {
	timeout := time.After(d)
	var stash []arrival
	defer func() {
		for _, a := range stash {
			s.c.arrived <- a
		}
	}()
	for {
		select {
		case a := <-s.c.arrived:
			if a.cid != cid {
				stash = append(stash, a)
				continue
			}
			if a.done {
				return "done " + cid + " " + a.line
			}
			return "at " + cid + " " + a.gate
		case <-timeout:
			return "stuck " + cid
		}
	}
}

// drain collects the events available on a watch channel. With want=<n> it waits (bounded) until n
// events were seen, then a short grace period for surplus ones; what is printed is what was seen.
func (s *backendSuite) drain(id string, opts map[string]string) string {
	s.hmu.Lock()
	w := s.watchers[id]
	s.hmu.Unlock()
	if w == nil {
		return "events " + id + " nowatch"
	}
	want := -1
	if v, ok := opts["want"]; ok {
		want = atoi(v)
	}
	wantClosed := opts["closed"] == "1"
	var evs []string
	deadline := time.Now().Add(s.wait)
	grace := 20 * time.Millisecond
	if v, ok := opts["grace"]; ok {
		grace = time.Duration(atoi(v)) * time.Millisecond
	}
	var graceEnd time.Time
	for {
		progressed := false
		select {
		case b, ok := <-w.ch:
			if !ok {
				w.closed = true
			} else {
				for _, e := range b {
					evs = append(evs, evStr(e))
				}
			}
			progressed = true
		default:
		}
		if w.closed {
			break
		}
		if progressed {
			continue
		}
		satisfied := want >= 0 && len(evs) >= want && !wantClosed
		if satisfied || !time.Now().Before(deadline) {
			if graceEnd.IsZero() {
				graceEnd = time.Now().Add(grace)
			}
			if !time.Now().Before(graceEnd) {
				break
			}
		}
		time.Sleep(200 * time.Microsecond)
	}
	cl := 0
	if w.closed {
		cl = 1
	}
	list := "-"
	if len(evs) > 0 {
		list = strings.Join(evs, ",")
	}
	return fmt.Sprintf("events %s %s closed=%d", id, list, cl)
}

func init() { register("backend", func(o map[string]string) suite { return newBackendSuite(o) }) }
