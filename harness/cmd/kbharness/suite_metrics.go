package main

// Suite "metrics" (C20, metrics part): replays metric emissions on the REAL production metrics client
// (pkg/metrics/prometheus over the process-wide default Prometheus registry).
//
//   cfg global=<label,label>            a fresh wrapper `promm.NewMetrics(Tag(label,"g")...)` (the registry is
//                                       process wide and cannot be reset: one replay order per PROCESS)
//   emit <kind> <name> <l1,l2|-> [bad=<label>]
//                                       Emit<Kind>(name, 1, Tag(l1,"v"), Tag(l2,"v")...) — the value of label
//                                       `bad` is the byte 0xff (not valid UTF-8)
//                                       -> "emit <name> ok" | "emit <name> PANIC"
//   watchend <hex key> [wait=<ms>]      end to end: a backend over memkv with the real client (getMetrics),
//                                       Watch(key, 0), cancel, wait for the result channel to close
//                                       -> "watchend ok" | "watchend timeout"; the emission at the end of a
//                                       watch runs in a goroutine of the backend, so a panic there cannot be
//                                       recovered: the harness process dies (CRASHED in the transcript)
//
// There is no Lean driver for this suite (the model of the client is KB.Metrics.emit; python compares the
// expected outcome computed from the table).

import (
	"context"
	"fmt"
	"sync"
	"sync/atomic"
	"strings"
	"time"

	"github.com/kubewharf/kubebrain/pkg/backend"
	"github.com/kubewharf/kubebrain/pkg/metrics"
	promm "github.com/kubewharf/kubebrain/pkg/metrics/prometheus"
	imemkv "github.com/kubewharf/kubebrain/pkg/storage/memkv"
)

type metricsSuite struct {
	m metrics.Metrics
}

func newMetricsSuite(opts map[string]string) suite {
	var global []metrics.T
	if g := opts["global"]; g != "" && g != "-" {
		for _, l := range strings.Split(g, ",") {
			global = append(global, metrics.Tag(l, "g"))
		}
	}
	return &metricsSuite{m: promm.NewMetrics(global...)}
}

func (s *metricsSuite) close() {}

func (s *metricsSuite) do(t []string) string {
	pos, opts := parseOpts(t)
	switch pos[0] {
	case "emit":
		if len(pos) != 4 {
			return "emit bad-args"
		}
		return s.emit(pos[1], pos[2], pos[3], opts["bad"])
	case "burst":
		// burst <kind> <name> <labels|-> <goroutines> <rounds>: in every round a NEW metric name is emitted for the
		// first time by all goroutines at once (released together): concurrent first use must not panic
		if len(pos) != 6 {
			return "burst bad-args"
		}
		n, rounds := atoi(pos[4]), atoi(pos[5])
		var panics, errs int64
		for r := 0; r < rounds; r++ {
			name := fmt.Sprintf("%s.r%d", pos[2], r)
			start := make(chan struct{})
			var wg sync.WaitGroup
			for g := 0; g < n; g++ {
				wg.Add(1)
				go func() {
					defer wg.Done()
					<-start
					switch out := s.emit(pos[1], name, pos[3], ""); {
					case strings.HasSuffix(out, "PANIC"):
						atomic.AddInt64(&panics, 1)
					case !strings.HasSuffix(out, " ok"):
						atomic.AddInt64(&errs, 1)
					}
				}()
			}
			close(start)
			wg.Wait()
		}
		return fmt.Sprintf("burst %s panics=%d errs=%d", pos[1], panics, errs)
	case "watchend":
		wait := 3000 * time.Millisecond
		if v, ok := opts["wait"]; ok {
			wait = time.Duration(atoi(v)) * time.Millisecond
		}
		return s.watchEnd(string(unhx(pos[1])), wait)
	}
	return pos[0] + " bad-op"
}

func (s *metricsSuite) emit(kind, name, labels, bad string) (res string) {
	defer func() {
		if r := recover(); r != nil {
			res = "emit " + name + " PANIC"
		}
	}()
	var tags []metrics.T
	if labels != "-" {
		for _, l := range strings.Split(labels, ",") {
			v := "v"
			if l == bad {
				v = "\xff"
			}
			tags = append(tags, metrics.Tag(l, v))
		}
	}
	var err error
	switch kind {
	case "counter":
		err = s.m.EmitCounter(name, 1, tags...)
	case "gauge":
		err = s.m.EmitGauge(name, 1, tags...)
	case "histogram":
		err = s.m.EmitHistogram(name, 1, tags...)
	default:
		return "emit bad-kind"
	}
	if err != nil {
		return "emit " + name + " err"
	}
	return "emit " + name + " ok"
}

func (s *metricsSuite) watchEnd(key string, wait time.Duration) string {
	b := backend.NewBackend(imemkv.NewKvStorage(), backend.Config{Prefix: "/r", Identity: "id-1"}, getMetrics())
	b.SetCurrentRevision(1000)
	ctx, cancel := context.WithCancel(context.Background())
	ch, err := b.Watch(ctx, key, 0)
	if err != nil {
		cancel()
		return fmt.Sprintf("watchend err %s", classify(err))
	}
	cancel()
	deadline := time.After(wait)
	for {
		select {
		case _, ok := <-ch:
			if !ok {
				// the emission precedes close(out) in processEvents; give a dying process time to die
				time.Sleep(50 * time.Millisecond)
				return "watchend ok"
			}
		case <-deadline:
			return "watchend timeout"
		}
	}
}

func init() { register("metrics", newMetricsSuite) }
