package main

// Scripted-backend mode of the `etcd` suite (property C16).
//
// The RPCServer of the suite is constructed over injectBackend, a pass-through wrapper of the real
// backend.Backend. A line
//
//   inject succeeded=<0|1> hdr=<rev> kv=<hexkey>:<hexval>@<rev>|-      (a proto response)
//   inject err=<drift|uncertain|notfound|unavailable|other>            (an error)
//     -> inject ok
//
// arms it: the NEXT backend write call (Create / Update / Delete, whichever the next recognised
// transaction is turned into) is answered with that response instead of calling the real backend — the
// backend's state is untouched. So every answer pkg/backend/txn.go can produce, including the ones that
// only arise under a race (a write that lost its compare-and-swap to a concurrent writer: Succeeded=false
// with the writer's current kv; a key that vanished between the read and the commit), is pushed through
// the REAL response shaping of RPCServer.Txn / backendshim.go. A transaction that makes no backend call
// (unsupported, the compactor's, a create with put flags) leaves the answer armed.
//
//   inject clear  -> inject ok          disarm, forget the last intercepted call
//   injected      -> injected <none | create <key> <val> lease=<n> | delete <key> rev=<n> |
//                              update <key> <val> rev=<n> lease=<n>> pending=<0|1>
//                                       the request the last intercepted call was made with (what
//                                       backendshim.go built: uint64(revision) etc.), and whether an answer is armed

import (
	"context"
	"fmt"
	"strings"
	"sync"
	"time"

	proto "github.com/kubewharf/kubebrain-client/api/v2rpc"

	"github.com/kubewharf/kubebrain/pkg/backend"
	"github.com/kubewharf/kubebrain/pkg/storage"
)

type scriptedAns struct {
	err       error
	succeeded bool
	hdr       uint64
	kv        *proto.KeyValue
}

type injectBackend struct {
	backend.Backend
	mu   sync.Mutex
	next *scriptedAns
	last string
	// watchDelay slows down the handler's registration with the backend (cfg watchdelay=<ms>)
	watchDelay time.Duration
}

func (b *injectBackend) Watch(ctx context.Context, prefix string, revision uint64) (<-chan []*proto.Event, error) {
	if b.watchDelay > 0 {
		time.Sleep(b.watchDelay)
	}
	return b.Backend.Watch(ctx, prefix, revision)
}

func newInjectBackend(b backend.Backend) *injectBackend {
	return &injectBackend{Backend: b, last: "none"}
}

// take hands out the armed answer (if any) and records the intercepted call.
func (b *injectBackend) take(call string) *scriptedAns {
	b.mu.Lock()
	defer b.mu.Unlock()
	a := b.next
	if a != nil {
		b.next = nil
		b.last = call
	}
	return a
}

func (a *scriptedAns) kvCopy() *proto.KeyValue {
	if a.kv == nil {
		return nil
	}
	return &proto.KeyValue{Key: append([]byte{}, a.kv.Key...), Value: append([]byte{}, a.kv.Value...), Revision: a.kv.Revision}
}

func (b *injectBackend) Create(ctx context.Context, r *proto.CreateRequest) (*proto.CreateResponse, error) {
	a := b.take(fmt.Sprintf("create %s %s lease=%d", hx(r.Key), hx(r.Value), r.Lease))
	if a == nil {
		return b.Backend.Create(ctx, r)
	}
	if a.err != nil {
		return nil, a.err
	}
	// a CreateResponse carries no key-value
	return &proto.CreateResponse{Header: &proto.ResponseHeader{Revision: a.hdr}, Succeeded: a.succeeded}, nil
}

func (b *injectBackend) Update(ctx context.Context, r *proto.UpdateRequest) (*proto.UpdateResponse, error) {
	a := b.take(fmt.Sprintf("update %s %s rev=%d lease=%d", hx(r.GetKv().GetKey()), hx(r.GetKv().GetValue()), r.GetKv().GetRevision(), r.Lease))
	if a == nil {
		return b.Backend.Update(ctx, r)
	}
	if a.err != nil {
		return nil, a.err
	}
	return &proto.UpdateResponse{Header: &proto.ResponseHeader{Revision: a.hdr}, Succeeded: a.succeeded, Kv: a.kvCopy()}, nil
}

func (b *injectBackend) Delete(ctx context.Context, r *proto.DeleteRequest) (*proto.DeleteResponse, error) {
	a := b.take(fmt.Sprintf("delete %s rev=%d", hx(r.Key), r.Revision))
	if a == nil {
		return b.Backend.Delete(ctx, r)
	}
	if a.err != nil {
		return nil, a.err
	}
	return &proto.DeleteResponse{Header: &proto.ResponseHeader{Revision: a.hdr}, Succeeded: a.succeeded, Kv: a.kvCopy()}, nil
}

func injectedErr(class string) error {
	switch class {
	case "drift":
		return backend.ErrRevisionDriftBack
	case "uncertain":
		return storage.NewErrUncertainResult(errInjected)
	case "notfound":
		return storage.ErrKeyNotFound
	case "unavailable":
		return storage.ErrUnavailable
	}
	return errInjected
}

// parseScriptedKv parses <hexkey>:<hexval>@<rev> ("-" = no key-value).
func parseScriptedKv(x string) *proto.KeyValue {
	if x == "-" || x == "" {
		return nil
	}
	at := strings.LastIndex(x, "@")
	if at < 0 {
		panic("bad kv " + x)
	}
	f := strings.Split(x[:at], ":")
	if len(f) != 2 {
		panic("bad kv " + x)
	}
	return &proto.KeyValue{Key: unhx(f[0]), Value: unhx(f[1]), Revision: atou(x[at+1:])}
}

func (b *injectBackend) doInject(pos []string, opts map[string]string) string {
	b.mu.Lock()
	defer b.mu.Unlock()
	if len(pos) > 1 && pos[1] == "clear" {
		b.next = nil
		b.last = "none"
		return "inject ok"
	}
	if len(pos) > 1 {
		return "inject bad-op"
	}
	a := &scriptedAns{}
	if e, ok := opts["err"]; ok {
		a.err = injectedErr(e)
	} else {
		a.succeeded = opts["succeeded"] == "1"
		if v, ok := opts["hdr"]; ok {
			a.hdr = atou(v)
		}
		a.kv = parseScriptedKv(opts["kv"])
	}
	b.next = a
	return "inject ok"
}

func (b *injectBackend) doInjected() string {
	b.mu.Lock()
	defer b.mu.Unlock()
	return fmt.Sprintf("injected %s pending=%d", b.last, b01(b.next != nil))
}
