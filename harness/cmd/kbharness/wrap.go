package main

import (
	"bytes"
	"context"
	"fmt"
	"runtime"
	"sort"
	"strings"
	"strconv"
	"sync"
	"sync/atomic"
	"time"

	"github.com/kubewharf/kubebrain/pkg/storage"
)

// ctl is the control block shared by the storage wrapper and the script interpreter.
type ctl struct {
	mu sync.Mutex

	// write batches begun / brought to Commit through the wrapper (atomic). The wrapper begins the engine's batch only at
	// Commit (the in-memory engine holds its store mutex from BeginBatchWrite to Commit, which the parked clients of the
	// scheduled scripts could not live with) - so a batch that the code under test begins and then ABANDONS, which in
	// production wedges a node on the in-memory engine for good, would go unnoticed: it is counted here instead
	begun, finished int64
	everGated       int32

	// sequential fault queue: consumed by Commit calls that are not individually stepped
	faults []string
	// delete-call failure mask for Del / DelCurrent (compaction): index -> "f" | "c"
	delMask  map[int]string
	crashAt  int // calls with index >= crashAt fail (-1 = off)
	delCalls int
	delLog   []string

	// injected partition borders (nil = ask the engine)
	splits [][]byte

	// TTLs handed to the engine, one entry per committed batch ("key:ttl,key:ttl")
	ttlLogOn bool
	ttlLog   []string

	// the next Get fails once with a transient engine error (getfault skip=<n>: the n Gets before it are served)
	getFault     bool
	getFaultSkip int
	// getdelay <ms>: the next point Get sleeps; iterslow <ms> from=<hex>: every Next of an iterator that starts at <hex> sleeps
	getDelay    time.Duration
	commitDelay time.Duration
	iterSlow    time.Duration
	iterSlowKey []byte

	// engine transactions begun ahead of the request that will use them (`prebegin <id>`; on TiKV the start timestamp
	// is taken by BeginBatchWrite): a request run with `txn=<id>` commits its (first) batch through the one begun
	// under <id> - a client that was slow between BeginBatchWrite and Commit
	pre    map[string]storage.BatchWrite
	useTxn string

	// iterator fault (scanner retry path): the NEXT iterator created fails its iterFault-th Next call once
	iterFault       int
	iterFaultsFired int
	// persistent partition fault: EVERY iterator whose start key equals (eq) / differs from (!eq) iterFaultKey
	// fails its iterFaultPersist-th Next call, until cleared (`iterfault 0`)
	iterFaultPersist int
	iterFaultKey     []byte
	iterFaultEq      bool

	// engine-timestamp fault (C15): when armed, the first GetTimestampOracle after the next successful
	// commit fails, and the oracle read after that one is slow (so that whoever reads the lock's
	// description does so before a later read refreshes it)
	tsoArmed bool
	tsoSlow  bool // armed: after the next successful commit the next oracle read is only SLOW (state 2), not failed
	tsoSkip  bool // armed: the FIRST oracle read after the next successful commit succeeds, the second one fails (state 3)
	tsoState int  // 0 idle, 1 fail the next oracle read, 2 delay the next oracle read
	tsoFired int

	// scheduled mode
	gated   bool
	arrived chan arrival
	clients map[string]chan string // cid -> release directive

	// stepped repair (cfg retrysteps=1, gated mode): the storage calls of the async retry loop are parked
	// like a client's, under the pseudo client id retryCid. The loop's goroutine is identified by its id,
	// recorded every time it passes the hook gate "retry.step" (no hook inside overwrite() is needed).
	retrySteps bool
	retryGid   int64 // atomic

	// log gates: a klog.InfoS/ErrorS line whose message contains an armed substring is a yield point for the
	// gated client that logs it (klog calls the installed LogFilter before it formats the line, outside its own
	// lock) - yield points between storage calls without touching the source
	logArmed []string
	gidCid   map[int64]string // goroutine id -> gated client id
}

// logGate is installed with klog.SetLogFilter.
type logGate struct{ c *ctl }

func (g logGate) Filter(args []interface{}) []interface{} { return args }
func (g logGate) FilterF(format string, args []interface{}) (string, []interface{}) {
	return format, args
}
func (g logGate) FilterS(msg string, kv []interface{}) (string, []interface{}) {
	c := g.c
	c.mu.Lock()
	hit := false
	for _, a := range c.logArmed {
		if strings.Contains(msg, a) {
			hit = true
		}
	}
	cid := ""
	var ch chan string
	if hit && c.gated {
		cid = c.gidCid[curGid()]
		ch = c.clients[cid]
	}
	c.mu.Unlock()
	if cid != "" && ch != nil {
		c.arrived <- arrival{cid: cid, gate: "log"}
		<-ch
	}
	return msg, kv
}

// retryCid is the pseudo client id of the retry loop's goroutine in stepped-repair mode.
const retryCid = "R"

// curGid parses the current goroutine's id from the first line of its stack ("goroutine 123 [running]:").
func curGid() int64 {
	var buf [64]byte
	n := runtime.Stack(buf[:], false)
	b := buf[:n]
	const pfx = "goroutine "
	if len(b) < len(pfx) {
		return -1
	}
	b = b[len(pfx):]
	i := bytes.IndexByte(b, ' ')
	if i < 0 {
		return -1
	}
	id, err := strconv.ParseInt(string(b[:i]), 10, 64)
	if err != nil {
		return -1
	}
	return id
}

// noteRetryGoroutine is called from the hook gate "retry.step", i.e. on the retry loop's goroutine.
func (c *ctl) noteRetryGoroutine() { atomic.StoreInt64(&c.retryGid, curGid()) }

// onRetryGoroutine: is the caller the retry loop's goroutine (stepped-repair mode only)?
func (c *ctl) onRetryGoroutine() bool {
	return c.retrySteps && c.gated && curGid() == atomic.LoadInt64(&c.retryGid)
}

type arrival struct {
	cid  string
	gate string
	done bool
	line string
}

type cidKey struct{}

func withCid(ctx context.Context, cid string) context.Context {
	return context.WithValue(ctx, cidKey{}, cid)
}

func cidOf(ctx context.Context) string {
	if v, ok := ctx.Value(cidKey{}).(string); ok {
		return v
	}
	return ""
}

func newCtl() *ctl {
	return &ctl{crashAt: -1, arrived: make(chan arrival, 1024), clients: map[string]chan string{}, gidCid: map[int64]string{}}
}

func (c *ctl) popFault() string {
	c.mu.Lock()
	defer c.mu.Unlock()
	if len(c.faults) == 0 {
		return "-"
	}
	f := c.faults[0]
	c.faults = c.faults[1:]
	return f
}

// gate parks a stepped client at a storage call; returns the directive given by `step`.
func (c *ctl) gate(ctx context.Context, name string) string {
	cid := cidOf(ctx)
	if cid == "" && c.onRetryGoroutine() {
		cid = retryCid
	}
	if cid == "" || !c.gated {
		return ""
	}
	c.mu.Lock()
	ch := c.clients[cid]
	c.mu.Unlock()
	if ch == nil {
		return ""
	}
	c.arrived <- arrival{cid: cid, gate: name}
	return <-ch
}

// kvWrap wraps a KvStorage with fault injection, delete failures, partition injection and gates.
type kvWrap struct {
	inner storage.KvStorage
	c     *ctl
	// delete failures are injected by a delFaultStore further down (below the storage-metrics wrapper)
	delBelow bool
}

// delFaultStore injects the delete-call failure mask directly above the bare engine.
type delFaultStore struct {
	storage.KvStorage
	c *ctl
}

// Iter: the iterator faults (`iterfault …`) are injected here, below the storage-metrics wrapper, too.
func (d *delFaultStore) Iter(ctx context.Context, start, end []byte, ts uint64, limit uint64) (storage.Iter, error) {
	it, err := d.KvStorage.Iter(ctx, start, end, ts, limit)
	if err != nil {
		return nil, err
	}
	d.c.mu.Lock()
	f := d.c.iterFault
	d.c.iterFault = 0
	if d.c.iterFaultPersist > 0 && bytes.Equal(start, d.c.iterFaultKey) == d.c.iterFaultEq {
		f = d.c.iterFaultPersist
	}
	d.c.mu.Unlock()
	if f == 0 {
		return it, nil
	}
	return &itWrap{Iter: it, c: d.c, fault: f}, nil
}

func (d *delFaultStore) DelCurrentUnwrap(it storage.Iter) storage.Iter { return unwrapIter(it) }

func (d *delFaultStore) Del(ctx context.Context, key []byte) error {
	switch delOutcome(d.c, "del:"+hx(key)) {
	case "f":
		return errInjected
	case "c":
		return storage.ErrCASFailed
	case "u":
		// "outcome unknown", and the delete did not land
		return storage.NewErrUncertainResult(errInjected)
	}
	return d.KvStorage.Del(ctx, key)
}

func (d *delFaultStore) DelCurrent(ctx context.Context, it storage.Iter) error {
	switch delOutcome(d.c, "delcur:"+hx(it.Key())) {
	case "f":
		return errInjected
	case "c":
		return storage.ErrCASFailed
	case "u":
		// "outcome unknown", and the delete did not land
		return storage.NewErrUncertainResult(errInjected)
	}
	return d.KvStorage.DelCurrent(ctx, unwrapIter(it))
}

// BeginBatchWrite: a batch that contains a compare-and-delete is the expiry batch of the compaction's ttl pass
// (scanner.expireEvent is the only caller of BatchWrite.DelCurrent); its Commit is ONE call of the delete-call
// numbering (see expiryOutcome). Every other batch passes through.
func (d *delFaultStore) BeginBatchWrite() storage.BatchWrite {
	return &delFaultBatch{BatchWrite: d.KvStorage.BeginBatchWrite(), c: d.c}
}

type delFaultBatch struct {
	storage.BatchWrite
	c      *ctl
	delCur []byte // key of the record named by DelCurrent (nil: not an expiry batch)
	dels   int    // plain deletes in the batch
}

func (b *delFaultBatch) Del(key []byte) {
	b.dels++
	b.BatchWrite.Del(key)
}

func (b *delFaultBatch) DelCurrent(it storage.Iter) {
	b.delCur = append([]byte{}, it.Key()...)
	b.BatchWrite.DelCurrent(unwrapIter(it))
}

func (b *delFaultBatch) Commit(ctx context.Context) error {
	if b.delCur != nil {
		if err := expiryOutcome(b.c, b.delCur, b.dels); err != nil {
			return err // nothing applied: the engine transaction is dropped uncommitted
		}
	}
	return b.BatchWrite.Commit(ctx)
}

// expiryOutcome: the Commit of the expiry batch (compare-and-delete of the revision record `ik` + n version deletes)
// counts as ONE call in the delete-call numbering, logged `expire:<hex ik>+<n>`; mask outcome `f` = a plain error,
// `c` = a failed-condition error, a crash point at or before it = a plain error - nothing of the batch is applied.
func expiryOutcome(c *ctl, ik []byte, n int) error {
	switch delOutcome(c, fmt.Sprintf("expire:%s+%d", hx(ik), n)) {
	case "f":
		return errInjected
	case "c":
		return storage.ErrCASFailed
	case "u":
		// "outcome unknown", and the delete did not land
		return storage.NewErrUncertainResult(errInjected)
	}
	return nil
}

// tsoFault advances the engine-timestamp fault state of one GetTimestampOracle call: fail = answer an error, and a slow
// answer is slept here.
func tsoFault(c *ctl) (fail bool) {
	c.mu.Lock()
	st := c.tsoState
	switch st {
	case 1:
		c.tsoState = 2
		c.tsoFired++
	case 2:
		c.tsoState = 0
	case 3:
		c.tsoState = 1
	}
	c.mu.Unlock()
	switch st {
	case 1:
		return true
	case 2:
		time.Sleep(400 * time.Millisecond)
	}
	return false
}

// GetTimestampOracle: for `metrics-*` engines the engine-timestamp fault is injected by the delFaultStore (directly above
// the bare engine, BELOW the storage-metrics wrapper, so that the failure travels through the wrapper as a real one would)
func (w *kvWrap) GetTimestampOracle(ctx context.Context) (uint64, error) {
	if !w.delBelow && tsoFault(w.c) {
		return 0, errInjected
	}
	return w.inner.GetTimestampOracle(ctx)
}

func (d *delFaultStore) GetTimestampOracle(ctx context.Context) (uint64, error) {
	if tsoFault(d.c) {
		return 0, errInjected
	}
	return d.KvStorage.GetTimestampOracle(ctx)
}

func (w *kvWrap) GetPartitions(ctx context.Context, start, end []byte) ([]storage.Partition, error) {
	w.c.mu.Lock()
	splits := w.c.splits
	w.c.mu.Unlock()
	if splits == nil {
		return w.inner.GetPartitions(ctx, start, end)
	}
	var inner [][]byte
	for _, s := range splits {
		if bytes.Compare(start, s) < 0 && bytes.Compare(s, end) < 0 {
			inner = append(inner, s)
		}
	}
	sort.Slice(inner, func(i, j int) bool { return bytes.Compare(inner[i], inner[j]) < 0 })
	borders := append([][]byte{start}, inner...)
	borders = append(borders, end)
	var ps []storage.Partition
	for i := 0; i+1 < len(borders); i++ {
		ps = append(ps, storage.Partition{Start: borders[i], End: borders[i+1]})
	}
	// hand them over in a scrambled (reversed) order: the scanner must sort them
	for i, j := 0, len(ps)-1; i < j; i, j = i+1, j-1 {
		ps[i], ps[j] = ps[j], ps[i]
	}
	return ps, nil
}

func (w *kvWrap) Get(ctx context.Context, key []byte) ([]byte, error) {
	w.c.gate(ctx, "get")
	w.c.mu.Lock()
	gf := w.c.getFault
	if gf && w.c.getFaultSkip > 0 {
		w.c.getFaultSkip--
		gf = false
	} else {
		w.c.getFault = false
	}
	gd := w.c.getDelay
	w.c.getDelay = 0
	w.c.mu.Unlock()
	if gd > 0 {
		// getdelay <ms>: the next point Get of the engine takes that long (a slow engine): whatever the caller has promised
		// its client by then must already hold
		time.Sleep(gd)
	}
	if gf {
		return nil, errInjected
	}
	return w.inner.Get(ctx, key)
}

type itWrap struct {
	storage.Iter
	c     *ctl
	fault int // fail this iterator's fault-th Next call once (0 = never)
	calls int
	slow  time.Duration // every Next of this iterator takes that long (iterslow)
}

// Next injects one transient (non-EOF) error in the middle of a scan: the scanner retries the partition.
func (it *itWrap) Next(ctx context.Context) error {
	it.calls++
	if it.slow > 0 {
		time.Sleep(it.slow)
	}
	if it.fault > 0 && it.calls == it.fault {
		it.c.mu.Lock()
		it.c.iterFaultsFired++
		it.c.mu.Unlock()
		return errInjected
	}
	return it.Iter.Next(ctx)
}

func (w *kvWrap) Iter(ctx context.Context, start, end []byte, ts uint64, limit uint64) (storage.Iter, error) {
	w.c.gate(ctx, "iter")
	it, err := w.inner.Iter(ctx, start, end, ts, limit)
	if err != nil {
		return nil, err
	}
	w.c.mu.Lock()
	f := 0
	if !w.delBelow {
		f = w.c.iterFault
		w.c.iterFault = 0
		if w.c.iterFaultPersist > 0 && bytes.Equal(start, w.c.iterFaultKey) == w.c.iterFaultEq {
			f = w.c.iterFaultPersist
		}
	}
	var slow time.Duration
	if w.c.iterSlow > 0 && bytes.Equal(start, w.c.iterSlowKey) {
		slow = w.c.iterSlow
	}
	w.c.mu.Unlock()
	return &itWrap{Iter: it, c: w.c, fault: f, slow: slow}, nil
}

func unwrapIter(it storage.Iter) storage.Iter {
	if iw, ok := it.(*itWrap); ok {
		return iw.Iter
	}
	return it
}

func (w *kvWrap) SupportTTL() bool { return w.inner.SupportTTL() }
func (w *kvWrap) Close() error     { return w.inner.Close() }

// delOutcome decides the fate of the next Del/DelCurrent call.
func (w *kvWrap) delOutcome(what string) string {
	if w.delBelow {
		return "-"
	}
	return delOutcome(w.c, what)
}

func delOutcome(c *ctl, what string) string {
	c.mu.Lock()
	defer c.mu.Unlock()
	i := c.delCalls
	c.delCalls++
	out := "-"
	if m, ok := c.delMask[i]; ok {
		out = m
	}
	if c.crashAt >= 0 && i >= c.crashAt {
		out = "f"
	}
	c.delLog = append(c.delLog, what)
	return out
}

func (w *kvWrap) Del(ctx context.Context, key []byte) error {
	switch w.delOutcome("del:" + hx(key)) {
	case "f":
		return errInjected
	case "c":
		return storage.ErrCASFailed
	case "u":
		// "outcome unknown", and the delete did not land
		return storage.NewErrUncertainResult(errInjected)
	}
	return w.inner.Del(ctx, key)
}

func (w *kvWrap) DelCurrent(ctx context.Context, it storage.Iter) error {
	switch w.delOutcome("delcur:" + hx(it.Key())) {
	case "f":
		return errInjected
	case "c":
		return storage.ErrCASFailed
	case "u":
		// "outcome unknown", and the delete did not land
		return storage.NewErrUncertainResult(errInjected)
	}
	return w.inner.DelCurrent(ctx, unwrapIter(it))
}

// batchWrap records operations and replays them into a fresh inner batch at commit time, so that no
// engine lock (memkv takes its store mutex in BeginBatchWrite) is held across a gate.
type batchWrap struct {
	w    *kvWrap
	done int32 // Commit was called (counted once)
	ops []func(storage.BatchWrite)
	// (key, ttl) of every put / put-if-absent / compare-and-swap of this batch, for `ttllog`
	ttls []string
	// the expiry batch of the compaction's ttl pass (the only batch with a compare-and-delete): key of the revision
	// record, number of plain deletes
	delCur []byte
	dels   int
}

func (w *kvWrap) BeginBatchWrite() storage.BatchWrite {
	atomic.AddInt64(&w.c.begun, 1)
	return &batchWrap{w: w}
}

func (b *batchWrap) PutIfNotExist(key, val []byte, ttl int64) {
	b.ttls = append(b.ttls, fmt.Sprintf("%s:%d", hx(key), ttl))
	b.ops = append(b.ops, func(i storage.BatchWrite) { i.PutIfNotExist(key, val, ttl) })
}
func (b *batchWrap) CAS(key, newVal, oldVal []byte, ttl int64) {
	b.ttls = append(b.ttls, fmt.Sprintf("%s:%d", hx(key), ttl))
	b.ops = append(b.ops, func(i storage.BatchWrite) { i.CAS(key, newVal, oldVal, ttl) })
}
func (b *batchWrap) Put(key, val []byte, ttl int64) {
	b.ttls = append(b.ttls, fmt.Sprintf("%s:%d", hx(key), ttl))
	b.ops = append(b.ops, func(i storage.BatchWrite) { i.Put(key, val, ttl) })
}
func (b *batchWrap) Del(key []byte) {
	b.dels++
	b.ops = append(b.ops, func(i storage.BatchWrite) { i.Del(key) })
}
func (b *batchWrap) DelCurrent(it storage.Iter) {
	b.delCur = append([]byte{}, it.Key()...)
	b.ops = append(b.ops, func(i storage.BatchWrite) { i.DelCurrent(unwrapIter(it)) })
}

// commitExpiry: the expiry batch is a call of the COMPACTION like its single deletes - subject to the delete-call
// mask / crash point (here, or below the storage-metrics wrapper when delBelow), never to the client fault queue,
// the commit gate or the ttl log.
func (b *batchWrap) commitExpiry(ctx context.Context) error {
	if !b.w.delBelow {
		if err := expiryOutcome(b.w.c, b.delCur, b.dels); err != nil {
			return err
		}
	}
	inner := b.w.inner.BeginBatchWrite()
	for _, op := range b.ops {
		op(inner)
	}
	return inner.Commit(ctx)
}

func (b *batchWrap) Commit(ctx context.Context) error {
	if atomic.CompareAndSwapInt32(&b.done, 0, 1) {
		atomic.AddInt64(&b.w.c.finished, 1)
	}
	b.w.c.mu.Lock()
	cd := b.w.c.commitDelay
	b.w.c.commitDelay = 0
	b.w.c.mu.Unlock()
	if cd > 0 {
		// commitdelay <ms>: the next batch commit of the engine takes that long (a slow engine)
		time.Sleep(cd)
	}
	if b.delCur != nil {
		return b.commitExpiry(ctx)
	}
	b.w.c.mu.Lock()
	if b.w.c.ttlLogOn {
		b.w.c.ttlLog = append(b.w.c.ttlLog, strings.Join(b.ttls, ","))
	}
	b.w.c.mu.Unlock()
	fault := b.w.c.gate(ctx, "commit")
	stepped := fault != "" // released by `step <cid> [f=]`: the directive is this commit's own
	if fault == "" {
		fault = b.w.c.popFault()
	}
	run := func() error {
		var inner storage.BatchWrite
		b.w.c.mu.Lock()
		if id := b.w.c.useTxn; id != "" && b.w.c.pre[id] != nil {
			inner = b.w.c.pre[id]
			delete(b.w.c.pre, id)
		}
		b.w.c.mu.Unlock()
		if inner == nil {
			inner = b.w.inner.BeginBatchWrite()
		}
		for _, op := range b.ops {
			op(inner)
		}
		err := inner.Commit(ctx)
		if err == nil {
			b.w.c.mu.Lock()
			if b.w.c.tsoArmed {
				b.w.c.tsoArmed = false
				b.w.c.tsoState = 1
				if b.w.c.tsoSlow {
					b.w.c.tsoSlow = false
					b.w.c.tsoState = 2
				}
				if b.w.c.tsoSkip {
					b.w.c.tsoSkip = false
					b.w.c.tsoState = 3
				}
			}
			b.w.c.mu.Unlock()
		}
		return err
	}
	if fault == "e" || fault == "un" || fault == "ua" {
		// a fault directive is consumed only by a commit whose conditions hold; otherwise the engine's
		// own verdict is returned and the directive stays pending for the next commit
		if err := b.dry(ctx); err != nil {
			b.w.c.mu.Lock()
			if !stepped {
				b.w.c.faults = append([]string{fault}, b.w.c.faults...)
			}
			b.w.c.mu.Unlock()
			return err
		}
	}
	switch fault {
	case "e":
		return errInjected
	case "un":
		return storage.NewErrUncertainResult(errInjected)
	case "ua":
		if err := run(); err != nil {
			return err
		}
		return storage.NewErrUncertainResult(errInjected)
	}
	return run()
}

// dry evaluates the batch's conditions without applying it: the batch is run with a
// guaranteed-to-fail put-if-absent appended (on a key the same batch has just put), whose
// conflict is distinguishable from the batch's own conditions.
func (b *batchWrap) dry(ctx context.Context) error {
	inner := b.w.inner.BeginBatchWrite()
	for _, op := range b.ops {
		op(inner)
	}
	poison := []byte("\x00kbverif-poison")
	inner.Put(poison, []byte("x"), 0)
	inner.PutIfNotExist(poison, []byte("y"), 0)
	err := inner.Commit(ctx)
	if err == nil {
		panic("poisoned batch committed")
	}
	if c, ok := err.(*storage.Conflict); ok && bytes.Equal(c.Key, poison) {
		return nil
	}
	return err
}
