package main

import (
	"bytes"
	"fmt"

	"github.com/kubewharf/kubebrain/pkg/backend"
	"github.com/kubewharf/kubebrain/pkg/backend/coder"
)

type coderSuite struct{}

func (s *coderSuite) close() {}

func (s *coderSuite) do(t []string) string {
	c := coder.NewNormalCoder()
	switch t[0] {
	case "enc":
		return "enc " + hx(c.EncodeObjectKey(unhx(t[1]), atou(t[2])))
	case "dec":
		return decodeLine(c, unhx(t[1]))
	case "pend":
		return "pend " + hx(backend.PrefixEnd(unhx(t[1])))
	case "prev":
		r, tomb, err := coder.ParseRevision(unhx(t[1]))
		if err != nil {
			return "prev err"
		}
		if tomb {
			return fmt.Sprintf("prev del %d", r)
		}
		return fmt.Sprintf("prev live %d", r)
	case "cmp":
		switch bytes.Compare(unhx(t[1]), unhx(t[2])) {
		case -1:
			return "cmp lt"
		case 0:
			return "cmp eq"
		}
		return "cmp gt"
	case "cmpenc":
		// compare two encoded keys: cmpenc k1 r1 k2 r2
		a := c.EncodeObjectKey(unhx(t[1]), atou(t[2]))
		b := c.EncodeObjectKey(unhx(t[3]), atou(t[4]))
		switch bytes.Compare(a, b) {
		case -1:
			return "cmpenc lt"
		case 0:
			return "cmpenc eq"
		}
		return "cmpenc gt"
	case "hasprefix":
		if bytes.HasPrefix(unhx(t[1]), unhx(t[2])) {
			return "hasprefix 1"
		}
		return "hasprefix 0"
	}
	return t[0] + " bad-op"
}

func decodeLine(c coder.Coder, ik []byte) (res string) {
	defer func() {
		if r := recover(); r != nil {
			res = "dec panic"
		}
	}()
	k, r, err := c.Decode(ik)
	if err != nil {
		return "dec err"
	}
	return fmt.Sprintf("dec ok %s %d", hx(k), r)
}

func init() { register("coder", func(map[string]string) suite { return &coderSuite{} }) }
