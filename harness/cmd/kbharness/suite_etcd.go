package main

// Suite "etcd" (property C16): the REAL etcd-facing RPCServer (pkg/server/etcd) over a real backend and
// a real peer service whose election says "I am the leader". Requests are built as etcdserverpb
// structs, passed through protobuf marshal -> unmarshal and handed to the handler methods in-process.
//
//   txn cmp=<cmp;...> then=<op;...> else=<op;...>          ("-" = empty list)
//       cmp := <mod|ver|create|val|lease>:<key>:<eq|gt|lt|ne>:<int | hex for val>[:<range_end>]
//       op  := put:<key>:<val>[:<lease>[:<flags p|v|l>]] | range:<key>[:<end>[:<limit>:<rev>:<flags c|k>]]
//            | del:<key>[:<end>[:<flags p>]] | nest | none
//     -> txn ok=<0|1> hdr=<rev> resp=[put@<hdr>;range@<hdr>:<count>:<more>:<kvs>;del@<hdr>:<n>]
//     -> txn err <unsupported|field|drift|...>
//   range <key> <end> [limit=<int>] [rev=<int>] [flags=<c|k|s...>] [sort=<order>:<target>] [minmod= maxmod= mincreate= maxcreate=]
//     -> range hdr=<rev> count=<n> more=<0|1> kvs=<k:v@mod,...|->     |  range err <class>
//       byte strings are lower-case hex, `-` = the EMPTY string: `put:<key>:-` is a put WITHOUT a value (refused by
//       backend.Create / Update since /repo f2a549c: `txn err other`, no revision consumed); a key / range_end may end
//       in 00 (`<key>00` = "just after <key>": the continue key of a paginated list, the end of a single-key range);
//       `range … rev=<n> flags=c` is a count_only at an explicit revision
//   rev [want=<n>]                      -> rev <committed revision>
//   watch <id> <key> <end> <startrev>   -> watch <id> created
//       startrev < 0 is the range-stream shape (watcher.List): with an empty key or range_end (`-`) it must be
//       cancelled at once (`wevents` then shows `- canceled=1 compact=1`); on `cfg engine=tikv regions=<hex,hex>` the
//       unvalidated request crashed the process before /repo 5b8c053
//   bcompact <rev>                      -> bcompact <compacted revision> | bcompact err <class>
//       the node's OWN compaction (backend.Compact: raises the compaction floor; the etcd Compact RPC below is a no-op)
//   wevents <id> [want=<n>]             -> wevents <id> <P:k:v@mod/prevkv,D:k:-@mod/k:v@mod,...|-> canceled=<0|1> compact=<n>
//   wcancel <id>                        -> wcancel <id>
//   put <key> <val> / delrange <key> <end> / compact <rev>  (the plain KV methods)
//   inject succeeded=<0|1> hdr=<rev> kv=<k:v@rev|-> | inject err=<class> | inject clear | injected
//   (cfg sched=1) gated <0|1> / start <cid> txn cmp=.. then=.. else=.. / step <cid>
//     -> at <cid> <get|iter|commit>  |  done <cid> txn ok=...     real races: a transaction as a parked client
//       scripted-backend mode: the next backend write call is answered with the scripted response (etcd_inject.go)

import (
	"context"
	"fmt"
	"sort"
	"strconv"
	"strings"
	"sync"
	"sync/atomic"
	"time"

	"go.etcd.io/etcd/api/v3/etcdserverpb"
	"go.etcd.io/etcd/api/v3/mvccpb"
	"google.golang.org/grpc/metadata"

	"github.com/kubewharf/kubebrain/pkg/backend"
	"github.com/kubewharf/kubebrain/pkg/server/etcd"
	"github.com/kubewharf/kubebrain/pkg/server/service"
	"github.com/kubewharf/kubebrain/pkg/server/service/leader"
	"github.com/kubewharf/kubebrain/pkg/storage"
	"github.com/kubewharf/kubebrain/pkg/verifhook"
)

type etcdSuite struct {
	opts  map[string]string
	c     *ctl // scheduled mode (cfg sched=1): the gating storage wrapper's control block (wrap.go), else nil
	inner storage.KvStorage
	b     backend.Backend
	ib    *injectBackend // what the RPCServer sees: s.b, or a scripted answer to the next write call (etcd_inject.go)
	srv   *etcd.RPCServer
	peers service.PeerService
	wait  time.Duration
	ws    map[string]*memStream
	// number of backend.Watch calls that have subscribed to the hub / read the event cache
	// (yield points of pkg/verifhook, build tag verif): used only to wait for a registration
	subscribed int64
	cacheRead  int64
}

func newEtcdSuite(opts map[string]string) *etcdSuite {
	s := &etcdSuite{opts: opts, ws: map[string]*memStream{}}
	s.inner = newEngine(opts)
	s.wait = durOpt(opts, "wait", 10000*time.Millisecond)
	verifhook.SetGate(func(name string) {
		switch name {
		case "watch.subscribed":
			atomic.AddInt64(&s.subscribed, 1)
		case "watch.cache_read":
			atomic.AddInt64(&s.cacheRead, 1)
		}
	})
	cfg := backend.Config{
		Prefix:                  string(unhx(opts["prefix"])),
		Identity:                "id-1",
		EnableEtcdCompatibility: opts["compat"] != "0",
	}
	if v, ok := opts["cache"]; ok {
		cfg.WatchCacheSize = atoi(v)
	}
	var kv storage.KvStorage = s.inner
	if opts["sched"] == "1" {
		// real races: etcd transactions run as parked clients (start / step), one storage call at a time
		s.c = newCtl()
		kv = &kvWrap{inner: s.inner, c: s.c}
	}
	s.b = backend.NewBackend(kv, cfg, getMetrics())
	init := uint64(1000)
	if v, ok := opts["init"]; ok {
		init = atou(v)
	}
	s.b.SetCurrentRevision(init)
	// the production wiring of pkg/server/server.go with an election stub that says "I am the leader"
	le := &leader.Stub{ElectionInfo: leader.ElectionInfo{LeaderAddress: "127.0.0.1:0", IsLeader: opts["leader"] != "0"}}
	s.peers = service.NewPeerService(le, getMetrics(), s.b, service.Config{})
	s.ib = newInjectBackend(s.b)
	s.ib.watchDelay = durOpt(opts, "watchdelay", 0)
	s.srv = etcd.New(s.ib, getMetrics(), s.peers)
	return s
}

// expired records that an expected-guided wait ran into its deadline: the transcript has left the
// expected path (model and implementation differ), so every later wait is cut to a few milliseconds
// instead of adding its full deadline to the run time.
func (s *etcdSuite) expired() {
	if s.wait > 20*time.Millisecond {
		s.wait = 20 * time.Millisecond
	}
}

func (s *etcdSuite) close() {
	verifhook.SetGate(nil)
	for _, w := range s.ws {
		w.cancel()
	}
	cleanupTmp()
}

// ---------------------------------------------------------------- request parsing

func atoi64(x string) int64 {
	n, err := strconv.ParseInt(x, 10, 64)
	if err != nil {
		panic("bad int64 " + x)
	}
	return n
}

func field(f []string, i int, def string) string {
	if i < len(f) && f[i] != "" {
		return f[i]
	}
	return def
}

func nilIfEmpty(b []byte) []byte {
	if len(b) == 0 {
		return nil
	}
	return b
}

func parseCmp(x string) *etcdserverpb.Compare {
	f := strings.Split(x, ":")
	c := &etcdserverpb.Compare{Key: nilIfEmpty(unhx(field(f, 1, "-")))}
	switch field(f, 2, "eq") {
	case "eq":
		c.Result = etcdserverpb.Compare_EQUAL
	case "gt":
		c.Result = etcdserverpb.Compare_GREATER
	case "lt":
		c.Result = etcdserverpb.Compare_LESS
	case "ne":
		c.Result = etcdserverpb.Compare_NOT_EQUAL
	default:
		panic("bad compare result " + x)
	}
	arg := field(f, 3, "0")
	switch f[0] {
	case "mod":
		c.Target = etcdserverpb.Compare_MOD
		c.TargetUnion = &etcdserverpb.Compare_ModRevision{ModRevision: atoi64(arg)}
	case "ver":
		c.Target = etcdserverpb.Compare_VERSION
		c.TargetUnion = &etcdserverpb.Compare_Version{Version: atoi64(arg)}
	case "create":
		c.Target = etcdserverpb.Compare_CREATE
		c.TargetUnion = &etcdserverpb.Compare_CreateRevision{CreateRevision: atoi64(arg)}
	case "lease":
		c.Target = etcdserverpb.Compare_LEASE
		c.TargetUnion = &etcdserverpb.Compare_Lease{Lease: atoi64(arg)}
	case "val":
		c.Target = etcdserverpb.Compare_VALUE
		c.TargetUnion = &etcdserverpb.Compare_Value{Value: unhx(arg)}
	default:
		panic("bad compare target " + x)
	}
	c.RangeEnd = nilIfEmpty(unhx(field(f, 4, "-")))
	return c
}

func parseRangeFields(f []string) *etcdserverpb.RangeRequest {
	r := &etcdserverpb.RangeRequest{Key: nilIfEmpty(unhx(field(f, 1, "-"))), RangeEnd: nilIfEmpty(unhx(field(f, 2, "-")))}
	r.Limit = atoi64(field(f, 3, "0"))
	r.Revision = atoi64(field(f, 4, "0"))
	applyRangeFlags(r, field(f, 5, "-"))
	return r
}

func applyRangeFlags(r *etcdserverpb.RangeRequest, flags string) {
	if flags == "-" {
		return
	}
	r.CountOnly = strings.Contains(flags, "c")
	r.KeysOnly = strings.Contains(flags, "k")
	r.Serializable = strings.Contains(flags, "s")
}

func parseOp(x string) *etcdserverpb.RequestOp {
	f := strings.Split(x, ":")
	switch f[0] {
	case "put":
		p := &etcdserverpb.PutRequest{Key: nilIfEmpty(unhx(field(f, 1, "-"))), Value: nilIfEmpty(unhx(field(f, 2, "-"))), Lease: atoi64(field(f, 3, "0"))}
		fl := field(f, 4, "-")
		if fl != "-" {
			p.PrevKv = strings.Contains(fl, "p")
			p.IgnoreValue = strings.Contains(fl, "v")
			p.IgnoreLease = strings.Contains(fl, "l")
		}
		return &etcdserverpb.RequestOp{Request: &etcdserverpb.RequestOp_RequestPut{RequestPut: p}}
	case "range":
		return &etcdserverpb.RequestOp{Request: &etcdserverpb.RequestOp_RequestRange{RequestRange: parseRangeFields(f)}}
	case "del":
		d := &etcdserverpb.DeleteRangeRequest{Key: nilIfEmpty(unhx(field(f, 1, "-"))), RangeEnd: nilIfEmpty(unhx(field(f, 2, "-")))}
		d.PrevKv = strings.Contains(field(f, 3, "-"), "p")
		return &etcdserverpb.RequestOp{Request: &etcdserverpb.RequestOp_RequestDeleteRange{RequestDeleteRange: d}}
	case "nest":
		return &etcdserverpb.RequestOp{Request: &etcdserverpb.RequestOp_RequestTxn{RequestTxn: &etcdserverpb.TxnRequest{}}}
	case "none":
		return &etcdserverpb.RequestOp{}
	}
	panic("bad op " + x)
}

func parseTxn(opts map[string]string) *etcdserverpb.TxnRequest {
	t := &etcdserverpb.TxnRequest{}
	if v := opts["cmp"]; v != "" && v != "-" {
		for _, x := range strings.Split(v, ";") {
			t.Compare = append(t.Compare, parseCmp(x))
		}
	}
	if v := opts["then"]; v != "" && v != "-" {
		for _, x := range strings.Split(v, ";") {
			t.Success = append(t.Success, parseOp(x))
		}
	}
	if v := opts["else"]; v != "" && v != "-" {
		for _, x := range strings.Split(v, ";") {
			t.Failure = append(t.Failure, parseOp(x))
		}
	}
	// exactly what a protobuf decoder hands to the handler
	raw, err := t.Marshal()
	if err != nil {
		panic(err)
	}
	t2 := &etcdserverpb.TxnRequest{}
	if err := t2.Unmarshal(raw); err != nil {
		panic(err)
	}
	return t2
}

// ---------------------------------------------------------------- canonical responses

func classifyEtcd(err error) string {
	m := err.Error()
	switch {
	case strings.Contains(m, "unsupported transaction"):
		return "unsupported"
	case strings.Contains(m, "is unsupported"):
		return "field"
	case strings.Contains(m, "is not supported"):
		return "unsupported"
	}
	return classify(err)
}

func ekvStr(kv *mvccpb.KeyValue) string {
	if kv == nil {
		return "-"
	}
	return fmt.Sprintf("%s:%s@%d", hx(kv.Key), hx(kv.Value), uint64(kv.ModRevision))
}

func ekvsStr(kvs []*mvccpb.KeyValue) string {
	if len(kvs) == 0 {
		return "-"
	}
	p := make([]string, len(kvs))
	for i, kv := range kvs {
		p[i] = ekvStr(kv)
	}
	return strings.Join(p, ",")
}

func b01(b bool) int {
	if b {
		return 1
	}
	return 0
}

func hdrRev(h *etcdserverpb.ResponseHeader) uint64 {
	if h == nil {
		return 0
	}
	return uint64(h.Revision)
}

func respOpStr(r *etcdserverpb.ResponseOp) string {
	if p := r.GetResponsePut(); p != nil {
		return fmt.Sprintf("put@%d", hdrRev(p.Header))
	}
	if g := r.GetResponseRange(); g != nil {
		return fmt.Sprintf("range@%d:%d:%d:%s", hdrRev(g.Header), g.Count, b01(g.More), ekvsStr(g.Kvs))
	}
	if d := r.GetResponseDeleteRange(); d != nil {
		return fmt.Sprintf("del@%d:%d", hdrRev(d.Header), d.Deleted)
	}
	if r.GetResponseTxn() != nil {
		return "nest"
	}
	return "none"
}

func (s *etcdSuite) doTxn(opts map[string]string) string {
	return s.doTxnCtx(context.Background(), opts)
}

func (s *etcdSuite) doTxnCtx(ctx context.Context, opts map[string]string) string {
	req := parseTxn(opts)
	resp, err := s.srv.Txn(ctx, req)
	if err != nil {
		return "txn err " + classifyEtcd(err)
	}
	// the response as the client decodes it
	raw, merr := resp.Marshal()
	if merr != nil {
		return "txn err marshal"
	}
	r2 := &etcdserverpb.TxnResponse{}
	if uerr := r2.Unmarshal(raw); uerr != nil {
		return "txn err unmarshal"
	}
	ops := make([]string, len(r2.Responses))
	for i, r := range r2.Responses {
		ops[i] = respOpStr(r)
	}
	list := "-"
	if len(ops) > 0 {
		list = strings.Join(ops, ";")
	}
	return fmt.Sprintf("txn ok=%d hdr=%d resp=[%s]", b01(r2.Succeeded), hdrRev(r2.Header), list)
}

func (s *etcdSuite) doRange(pos []string, opts map[string]string) string {
	r := &etcdserverpb.RangeRequest{Key: nilIfEmpty(unhx(pos[1])), RangeEnd: nilIfEmpty(unhx(pos[2]))}
	if v, ok := opts["limit"]; ok {
		r.Limit = atoi64(v)
	}
	if v, ok := opts["rev"]; ok {
		r.Revision = atoi64(v)
	}
	if v, ok := opts["flags"]; ok {
		applyRangeFlags(r, v)
	}
	if v, ok := opts["sort"]; ok {
		f := strings.Split(v, ":")
		r.SortOrder = etcdserverpb.RangeRequest_SortOrder(atoi(f[0]))
		if len(f) > 1 {
			r.SortTarget = etcdserverpb.RangeRequest_SortTarget(atoi(f[1]))
		}
	}
	if v, ok := opts["minmod"]; ok {
		r.MinModRevision = atoi64(v)
	}
	if v, ok := opts["maxmod"]; ok {
		r.MaxModRevision = atoi64(v)
	}
	if v, ok := opts["mincreate"]; ok {
		r.MinCreateRevision = atoi64(v)
	}
	if v, ok := opts["maxcreate"]; ok {
		r.MaxCreateRevision = atoi64(v)
	}
	raw, err := r.Marshal()
	if err != nil {
		panic(err)
	}
	r2 := &etcdserverpb.RangeRequest{}
	if err := r2.Unmarshal(raw); err != nil {
		panic(err)
	}
	resp, err := s.srv.Range(context.Background(), r2)
	if err != nil {
		return "range err " + classifyEtcd(err)
	}
	return fmt.Sprintf("range hdr=%d count=%d more=%d kvs=%s", hdrRev(resp.Header), resp.Count, b01(resp.More), ekvsStr(resp.Kvs))
}

// ---------------------------------------------------------------- in-memory watch stream

type memStream struct {
	ctx    context.Context
	cancel context.CancelFunc
	in     chan *etcdserverpb.WatchRequest
	mu     sync.Mutex
	out    []*etcdserverpb.WatchResponse
	done   chan struct{} // closed when RPCServer.Watch returned
	// what the client has seen so far
	watchID   int64
	created   bool
	canceled  bool
	compact   int64
	delivered int
	ended     bool // range-stream shape: the terminator (header revision -1) has arrived, nothing more will come
	// canceled responses seen on this stream (one watch per stream in this suite), and responses naming the watch after the first
	nCanceled, afterCancel int
	stream                 bool // range-stream shape (negative start revision): the events are the kvs of a streamed range
}

func (m *memStream) Send(r *etcdserverpb.WatchResponse) error {
	raw, err := r.Marshal()
	if err != nil {
		return err
	}
	r2 := &etcdserverpb.WatchResponse{}
	if err := r2.Unmarshal(raw); err != nil {
		return err
	}
	m.mu.Lock()
	m.out = append(m.out, r2)
	// C20/C16: a watch is cancelled with exactly ONE canceled response, and nothing names the watch afterwards
	if m.nCanceled > 0 && (len(r2.Events) > 0 || r2.Canceled) {
		m.afterCancel++
	}
	if r2.Canceled {
		m.nCanceled++
	}
	m.mu.Unlock()
	return nil
}

func (m *memStream) Recv() (*etcdserverpb.WatchRequest, error) {
	select {
	case r := <-m.in:
		return r, nil
	case <-m.ctx.Done():
		return nil, m.ctx.Err()
	}
}

func (m *memStream) SetHeader(metadata.MD) error  { return nil }
func (m *memStream) SendHeader(metadata.MD) error { return nil }
func (m *memStream) SetTrailer(metadata.MD)       {}
func (m *memStream) Context() context.Context     { return m.ctx }
func (m *memStream) SendMsg(interface{}) error    { return nil }
func (m *memStream) RecvMsg(interface{}) error    { return nil }

func (m *memStream) take() []*etcdserverpb.WatchResponse {
	m.mu.Lock()
	defer m.mu.Unlock()
	o := m.out
	m.out = nil
	return o
}

func (s *etcdSuite) doWatch(pos []string, opts map[string]string) string {
	id := pos[1]
	ctx, cancel := context.WithCancel(context.Background())
	m := &memStream{ctx: ctx, cancel: cancel, in: make(chan *etcdserverpb.WatchRequest, 4), done: make(chan struct{})}
	s.ws[id] = m
	go func() {
		defer close(m.done)
		_ = s.srv.Watch(m)
	}()
	cr := &etcdserverpb.WatchCreateRequest{Key: nilIfEmpty(unhx(pos[2])), RangeEnd: nilIfEmpty(unhx(pos[3])), StartRevision: atoi64(pos[4]), PrevKv: true}
	m.stream = cr.StartRevision < 0
	req := &etcdserverpb.WatchRequest{RequestUnion: &etcdserverpb.WatchRequest_CreateRequest{CreateRequest: cr}}
	raw, err := req.Marshal()
	if err != nil {
		panic(err)
	}
	r2 := &etcdserverpb.WatchRequest{}
	if err := r2.Unmarshal(raw); err != nil {
		panic(err)
	}
	sub0, read0 := atomic.LoadInt64(&s.subscribed), atomic.LoadInt64(&s.cacheRead)
	m.in <- r2
	deadline := time.Now().Add(s.wait)
	for time.Now().Before(deadline) {
		m.mu.Lock()
		if len(m.out) > 0 && m.out[0].Created {
			m.watchID = m.out[0].WatchId
			m.created = true
			m.out = m.out[1:]
			m.mu.Unlock()
			break
		}
		m.mu.Unlock()
		time.Sleep(200 * time.Microsecond)
	}
	if !m.created {
		return "watch " + id + " nocreate"
	}
	if opts["nowait"] == "1" {
		// the client's view only: `Created` is all a client can wait for. With cfg watchdelay=<ms> (the handler's
		// call of Backend.Watch is slowed down) the next request of the script reaches the backend before a handler
		// that acknowledges first and subscribes second has subscribed (C05)
		return "watch " + id + " created"
	}
	// the registration with the backend (backend.Watch: subscribe to the hub, then read the event cache)
	// happens asynchronously after the `created` response; what it finds in the cache depends on the
	// writes done so far, so wait until it has happened (or the watch was refused without reaching it)
	registered := false
	for time.Now().Before(deadline) {
		registered = atomic.LoadInt64(&s.cacheRead) > read0
		if cr.StartRevision == 0 {
			registered = atomic.LoadInt64(&s.subscribed) > sub0
		}
		m.mu.Lock()
		for _, r := range m.out {
			if r.Canceled {
				registered = true
			}
			if cr.StartRevision < 0 && r.Header != nil && r.Header.Revision == -1 {
				// range-stream shape (watcher.List): no registration with the hub; the request has been dealt
				// with once it was refused (cancel, above) or the stream has sent its terminator (header -1)
				registered = true
			}
		}
		m.mu.Unlock()
		if registered {
			break
		}
		time.Sleep(200 * time.Microsecond)
	}
	if !registered {
		s.expired()
	}
	return "watch " + id + " created"
}

func etcdEvStr(e *mvccpb.Event) string {
	t := "P"
	if e.Type == mvccpb.DELETE {
		t = "D"
	}
	return fmt.Sprintf("%s:%s/%s", t, ekvStr(e.Kv), ekvStr(e.PrevKv))
}

func (s *etcdSuite) doWevents(id string, opts map[string]string) string {
	m := s.ws[id]
	if m == nil {
		return "wevents " + id + " nowatch"
	}
	want := -1
	if v, ok := opts["want"]; ok {
		want = atoi(v)
	}
	wantCancel := opts["canceled"] == "1"
	var evs []string
	deadline := time.Now().Add(s.wait)
	grace := durOpt(opts, "grace", 20*time.Millisecond)
	var graceEnd time.Time
	for {
		rs := m.take()
		for _, r := range rs {
			if r.Canceled {
				m.canceled = true
				m.compact = r.CompactRevision
			}
			if r.Header != nil && r.Header.Revision == -1 {
				m.ended = true
			}
			for _, e := range r.Events {
				if m.stream && r.Header != nil && r.Header.Revision == -1 && e.Kv != nil && string(e.Kv.Key) == "eof" && len(e.Kv.Value) > 0 {
					// the terminator of a streamed range carries the error TEXT as its value: canonical "err"
					e.Kv.Value = []byte("err")
				}
				evs = append(evs, etcdEvStr(e))
			}
		}
		if len(rs) > 0 {
			continue
		}
		// (a streamed range that has sent its terminator will neither send more nor be cancelled: waiting for an
		// expected cancel would only run into the deadline)
		satisfied := want >= 0 && len(evs) >= want && (!wantCancel || m.canceled || m.ended)
		if !satisfied && want >= 0 && !time.Now().Before(deadline) {
			s.expired()
		}
		if satisfied || !time.Now().Before(deadline) {
			if graceEnd.IsZero() {
				graceEnd = time.Now().Add(grace)
			}
			if !time.Now().Before(graceEnd) {
				break
			}
		}
		time.Sleep(200 * time.Microsecond)
	}
	if m.stream && len(evs) > 1 {
		// the forked receivers of a partitioned streamed range deliver concurrently: canonical order, terminator last
		n := len(evs)
		if m.ended {
			n--
		}
		sort.Strings(evs[:n])
	}
	list := "-"
	if len(evs) > 0 {
		list = strings.Join(evs, ",")
	}
	return fmt.Sprintf("wevents %s %s canceled=%d compact=%d", id, list, b01(m.canceled), m.compact)
}

func (s *etcdSuite) do(t []string) string {
	pos, opts := parseOpts(t)
	ctx := context.Background()
	switch pos[0] {
	case "txn":
		return s.doTxn(opts)
	case "range":
		return s.doRange(pos, opts)
	case "rev":
		if w, ok := opts["want"]; ok {
			want := atou(w)
			deadline := time.Now().Add(s.wait)
			// (the committed revision only grows: above `want` there is nothing to wait for)
			for s.b.GetCurrentRevision() < want && time.Now().Before(deadline) {
				time.Sleep(200 * time.Microsecond)
			}
			if s.b.GetCurrentRevision() != want {
				s.expired()
			}
		}
		return fmt.Sprintf("rev %d", s.b.GetCurrentRevision())
	case "watch":
		return s.doWatch(pos, opts)
	case "wevents":
		return s.doWevents(pos[1], opts)
	case "wcanceled":
		// wcanceled <name>: how many canceled responses the watch got, and how many responses followed the first one
		m := s.ws[pos[1]]
		if m == nil {
			return "wcanceled " + pos[1] + " nowatch"
		}
		time.Sleep(150 * time.Millisecond) // a second answer, if the handler sends one, comes from another goroutine
		m.mu.Lock()
		defer m.mu.Unlock()
		n := m.nCanceled
		return fmt.Sprintf("wcanceled %s n=%d extra=%d", pos[1], n, m.afterCancel)
	case "wcancel":
		if m := s.ws[pos[1]]; m != nil {
			m.in <- &etcdserverpb.WatchRequest{RequestUnion: &etcdserverpb.WatchRequest_CancelRequest{CancelRequest: &etcdserverpb.WatchCancelRequest{WatchId: m.watchID}}}
		}
		return "wcancel " + pos[1]
	case "put":
		_, err := s.srv.Put(ctx, &etcdserverpb.PutRequest{Key: unhx(pos[1]), Value: unhx(pos[2])})
		if err != nil {
			return "put err " + classifyEtcd(err)
		}
		return "put ok"
	case "delrange":
		_, err := s.srv.DeleteRange(ctx, &etcdserverpb.DeleteRangeRequest{Key: unhx(pos[1]), RangeEnd: unhx(pos[2])})
		if err != nil {
			return "delrange err " + classifyEtcd(err)
		}
		return "delrange ok"
	case "compact":
		resp, err := s.srv.Compact(ctx, &etcdserverpb.CompactionRequest{Revision: atoi64(pos[1])})
		if err != nil {
			return "compact err " + classifyEtcd(err)
		}
		return fmt.Sprintf("compact hdr=%d", hdrRev(resp.Header))
	case "bcompact":
		if s.c != nil || len(pos) < 2 {
			return "bcompact bad-op"
		}
		resp, err := s.b.Compact(ctx, atou(pos[1]))
		if err != nil {
			return "bcompact err " + classify(err)
		}
		return fmt.Sprintf("bcompact %d", resp.Header.Revision)
	case "gated":
		if s.c == nil || len(pos) < 2 {
			return "gated bad-op"
		}
		s.c.gated = pos[1] == "1"
		return "gated " + pos[1]
	case "start":
		// start <cid> txn cmp=.. then=.. else=..: the transaction runs as a parked client: it stops at every
		// storage call of its backend call (gates get / iter / commit of wrap.go) until `step <cid>` lets it go on
		if s.c == nil || len(pos) < 3 || pos[2] != "txn" {
			return "start bad-op"
		}
		cid := pos[1]
		ch := make(chan string, 1)
		s.c.mu.Lock()
		s.c.clients[cid] = ch
		s.c.mu.Unlock()
		cctx := withCid(ctx, cid)
		go func() {
			line := s.doTxnCtx(cctx, opts)
			s.c.mu.Lock()
			delete(s.c.clients, cid)
			s.c.mu.Unlock()
			s.c.arrived <- arrival{cid: cid, done: true, line: line}
		}()
		return s.awaitClient(cid)
	case "step":
		if s.c == nil || len(pos) < 2 {
			return "step bad-op"
		}
		cid := pos[1]
		s.c.mu.Lock()
		ch := s.c.clients[cid]
		s.c.mu.Unlock()
		if ch == nil {
			return "step " + cid + " no-such-client"
		}
		d := "-"
		if f, ok := opts["f"]; ok {
			d = f
		}
		ch <- d
		return s.awaitClient(cid)
	case "inject":
		return s.ib.doInject(pos, opts)
	case "injected":
		return s.ib.doInjected()
	case "dump":
		return "dump " + dumpAll(s.inner)
	case "echo":
		return strings.Join(t, " ")
	}
	return pos[0] + " bad-op"
}

// awaitClient waits for the next event (gate arrival or completion) of the parked client cid.
func (s *etcdSuite) awaitClient(cid string) string {
	timeout := time.After(30 * time.Second)
	var stash []arrival
	defer func() {
		for _, a := range stash {
			s.c.arrived <- a
		}
	}()
	for {
		select {
		case a := <-s.c.arrived:
			if a.cid != cid {
				stash = append(stash, a)
				continue
			}
			if a.done {
				return "done " + cid + " " + a.line
			}
			return "at " + cid + " " + a.gate
		case <-timeout:
			return "stuck " + cid
		}
	}
}

func init() { register("etcd", func(o map[string]string) suite { return newEtcdSuite(o) }) }
