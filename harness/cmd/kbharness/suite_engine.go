package main

import (
	"context"
	"errors"
	"fmt"
	"hash/fnv"
	"io"
	"strings"
	"sync"
	"sync/atomic"
	"time"

	"github.com/kubewharf/kubebrain/pkg/storage"
)

type engineSuite struct {
	kv storage.KvStorage
	// batches begun by `bbegin` and not yet committed (their engine transaction is open), with the iterators their
	// compare-and-delete operations stand on
	open map[string]*openBatch
	// the writer started by `astart` whose Commit RPC is being held
	slowDone    chan string
	slowRelease chan struct{}
}

type openBatch struct {
	b   storage.BatchWrite
	its []storage.Iter
}

// fillBatch queues the operations pine:<k>:<v>[:<ttl>] cas:<k>:<new>:<old>[:<ttl>] put:<k>:<v>[:<ttl>] del:<k>
// delcur:<k> (compare-and-delete of the record an iterator opened NOW stands on); ttl in seconds (the unit of
// storage.BatchWrite), absent = 0 = the value never expires. Returns the iterators opened for delcur.
func (s *engineSuite) fillBatch(b storage.BatchWrite, ops []string) (its []storage.Iter) {
	ttlAt := func(f []string, i int) int64 {
		if len(f) > i {
			return int64(atoi(f[i]))
		}
		return 0
	}
	for _, op := range ops {
		f := strings.Split(op, ":")
		switch f[0] {
		case "pine":
			b.PutIfNotExist(unhx(f[1]), unhx(f[2]), ttlAt(f, 3))
		case "cas":
			b.CAS(unhx(f[1]), unhx(f[2]), unhx(f[3]), ttlAt(f, 4))
		case "put":
			b.Put(unhx(f[1]), unhx(f[2]), ttlAt(f, 3))
		case "del":
			b.Del(unhx(f[1]))
		case "delcur":
			k := unhx(f[1])
			it, err := s.kv.Iter(context.Background(), k, append(append([]byte{}, k...), 0), 0, 0)
			if err != nil || it.Next(context.Background()) != nil {
				panic("delcur: no record at " + f[1])
			}
			its = append(its, it)
			b.DelCurrent(it)
		default:
			panic("bad batch op " + op)
		}
	}
	return its
}

func newEngineSuite(opts map[string]string) *engineSuite {
	return &engineSuite{kv: newEngine(opts)}
}

func (s *engineSuite) close() {
	s.kv.Close()
	cleanupTmp()
}

// flakyCtx is alive at its first liveness poll and cancelled at every later one (a caller that goes away in the
// middle of a commit).
type flakyCtx struct {
	context.Context
	polls int32
	done  chan struct{}
	once  sync.Once
}

func (c *flakyCtx) Err() error {
	if atomic.AddInt32(&c.polls, 1) == 1 {
		return nil
	}
	c.once.Do(func() { close(c.done) })
	return context.Canceled
}
func (c *flakyCtx) Done() <-chan struct{} { return c.done }

func commitLine(err error) string {
	if err == nil {
		return "ok"
	}
	if c, ok := err.(*storage.Conflict); ok {
		v := "nil"
		if c.Val != nil {
			v = hx(c.Val)
		}
		return fmt.Sprintf("cf %d %s", c.Idx, v)
	}
	if err == storage.ErrCASFailed {
		return "cf bare nil"
	}
	if err == storage.ErrKeyNotFound {
		return "nf"
	}
	if errors.Is(err, storage.ErrUncertainResult) {
		return "err uncertain"
	}
	return "err " + classify(err)
}

func dumpAll(kv storage.KvStorage) string {
	it, err := kv.Iter(context.Background(), []byte{0}, []byte{0xff, 0xff, 0xff, 0xff, 0xff}, 0, 0)
	if err != nil {
		return "err"
	}
	defer it.Close()
	var parts []string
	for {
		if err := it.Next(context.Background()); err != nil {
			break
		}
		parts = append(parts, hx(it.Key())+"="+hx(it.Val()))
	}
	if len(parts) == 0 {
		return "-"
	}
	return strings.Join(parts, ",")
}

func (s *engineSuite) do(t []string) string {
	ctx := context.Background()
	switch t[0] {
	case "batch":
		// batch <ops…> [ctx=cancelled|flaky|deadline]: the context handed to Commit is already cancelled / dies
		// after its first liveness poll / is past its deadline (engines that honour the context may refuse or
		// report an unknown outcome; whatever they answer, the batch is applied entirely or not at all)
		cctx := ctx
		var ops []string
		for _, op := range t[1:] {
			switch op {
			case "ctx=cancelled":
				c2, cancel := context.WithCancel(ctx)
				cancel()
				cctx = c2
			case "ctx=deadline":
				c2, cancel := context.WithDeadline(ctx, time.Now().Add(-time.Second))
				defer cancel()
				cctx = c2
			case "ctx=flaky":
				cctx = &flakyCtx{Context: ctx, done: make(chan struct{})}
			default:
				ops = append(ops, op)
			}
		}
		b := s.kv.BeginBatchWrite()
		for _, it := range s.fillBatch(b, ops) {
			defer it.Close()
		}
		return "batch " + commitLine(b.Commit(cctx))
	case "bbegin":
		// bbegin <id> <ops…>: BeginBatchWrite (on TiKV: the transaction and its start timestamp begin HERE) and queue
		// the operations; nothing is sent to the engine yet. `bcommit <id>` commits it - whatever happened in between
		// (a client that is slow between the two statements)
		if s.open == nil {
			s.open = map[string]*openBatch{}
		}
		b := s.kv.BeginBatchWrite()
		s.open[t[1]] = &openBatch{b: b, its: s.fillBatch(b, t[2:])}
		return "bbegin " + t[1]
	case "bcommit":
		ob := s.open[t[1]]
		if ob == nil {
			return "bcommit no-such-batch"
		}
		delete(s.open, t[1])
		err := ob.b.Commit(ctx)
		if theAbandon != nil {
			theAbandon.setStorm(0, nil) // a storm is for one commit
		}
		for _, it := range ob.its {
			it.Close()
		}
		return "bcommit " + commitLine(err)
	case "abandon":
		// abandon <ops…> (cfg rpcfault=abandon, TiKV): the batch is committed by a client that goes away (its context
		// is cancelled) once its PREWRITE has reached the cluster; client-go rolls the transaction back, which leaves
		// a rollback record on every key of the batch. Answers what the adapter told that client; the rollback has
		// been served when the op returns.
		return "abandon " + abandonRun(func(actx context.Context) string {
			b := s.kv.BeginBatchWrite()
			for _, it := range s.fillBatch(b, t[1:]) {
				defer it.Close()
			}
			return commitLine(b.Commit(actx))
		})
	case "storm":
		// storm <n> <ops…> (cfg rpcfault=abandon, TiKV): before each of the first n PREWRITE RPCs of the next `bcommit`
		// reaches the cluster, a writer of <ops> is abandoned (as by `abandon`): the transaction that is about to
		// prewrite - begun by `bbegin`, or re-begun by Commit's own loop - meets a rollback record newer than itself
		// at every one of these attempts
		if theAbandon == nil {
			return "storm no-rpcfault"
		}
		aops := append([]string{}, t[2:]...)
		theAbandon.setStorm(atoi(t[1]), func() {
			abandonRun(func(actx context.Context) string {
				b := s.kv.BeginBatchWrite()
				for _, it := range s.fillBatch(b, aops) {
					defer it.Close()
				}
				return commitLine(b.Commit(actx))
			})
		})
		return "storm ok"
	case "astart":
		// astart <ops…> (cfg rpcfault=abandon, TiKV): a writer whose COMMIT RPC is slow - nothing fails, nothing is
		// cancelled. Returns when its prewrite is done (locks placed) and its commit RPC is being held. After TiKV's
		// wall-clock lock ttl (3 s) whoever meets the locks rolls the transaction back. `afinish` lets the RPC go and
		// answers what the writer was told.
		if theAbandon == nil {
			return "astart no-rpcfault"
		}
		reached, release := theAbandon.armCommit()
		done := make(chan string, 1)
		go func() {
			b := s.kv.BeginBatchWrite()
			its := s.fillBatch(b, t[1:])
			line := commitLine(b.Commit(context.Background()))
			for _, it := range its {
				it.Close()
			}
			done <- line
		}()
		select {
		case line := <-done:
			return "astart " + line // it never got as far as its commit RPC
		case <-reached:
		case <-time.After(20 * time.Second):
			return "astart stuck"
		}
		s.slowDone, s.slowRelease = done, release
		return "astart held"
	case "afinish":
		if s.slowDone == nil {
			return "afinish none"
		}
		close(s.slowRelease)
		done := s.slowDone
		s.slowDone, s.slowRelease = nil, nil
		select {
		case line := <-done:
			return "afinish " + line
		case <-time.After(30 * time.Second):
			return "afinish stuck"
		}
	case "sleep":
		// sleep <ms>: real time passes (the engine's ttl timers run on the wall clock); the model advances its clock
		time.Sleep(time.Duration(atoi(t[1])) * time.Millisecond)
		return "slept"
	case "bigbatch":
		// bigbatch <n> <hexprefix>: ONE batch of n puts under the prefix followed by a compare-and-swap on a missing
		// key (its condition fails): whatever error the engine reports (failed condition, or "transaction too big"),
		// nothing of the batch may be visible afterwards
		n := atoi(t[1])
		pfx := string(unhx(t[2]))
		b := s.kv.BeginBatchWrite()
		for i := 0; i < n; i++ {
			b.Put([]byte(fmt.Sprintf("%s%07d", pfx, i)), []byte("new"), 0)
		}
		b.CAS([]byte(pfx+"~missing"), []byte("x"), []byte("y"), 0)
		err := b.Commit(ctx)
		visible := 0
		it, ierr := s.kv.Iter(ctx, []byte(pfx), []byte(pfx+"\xff"), 0, 0)
		if ierr == nil {
			for it.Next(ctx) == nil {
				if string(it.Val()) == "new" {
					visible++
				}
			}
			it.Close()
		}
		if err == nil {
			return fmt.Sprintf("bigbatch ok visible=%d", visible)
		}
		return fmt.Sprintf("bigbatch failed visible=%d", visible)
	case "get":
		v, err := s.kv.Get(ctx, unhx(t[1]))
		if err == storage.ErrKeyNotFound {
			return "get nf"
		} else if err != nil {
			return "get err"
		}
		return "get " + hx(v)
	case "iter":
		it, err := s.kv.Iter(ctx, unhx(t[1]), unhx(t[2]), 0, atou(t[3]))
		if err != nil {
			return "iter err"
		}
		defer it.Close()
		var parts []string
		for {
			err := it.Next(ctx)
			if err == io.EOF {
				break
			} else if err != nil {
				return "iter err"
			}
			parts = append(parts, hx(it.Key())+"="+hx(it.Val()))
		}
		if len(parts) == 0 {
			return "iter -"
		}
		return "iter " + strings.Join(parts, ",")
	case "del":
		return "del " + commitLine(s.kv.Del(ctx, unhx(t[1])))
	case "itdel":
		// itdel <start> <end> <n> [rewrite=<hexval>|remove=1]: advance an iterator n+1 times, optionally rewrite / remove
		// the current key with another value first, then compare-and-delete the current element
		_, opts := parseOpts(t[1:])
		it, err := s.kv.Iter(ctx, unhx(t[1]), unhx(t[2]), 0, 0)
		if err != nil {
			return "itdel err"
		}
		defer it.Close()
		n := atoi(t[3])
		for i := 0; i <= n; i++ {
			if err := it.Next(ctx); err != nil {
				return "itdel eof"
			}
		}
		if rw, ok := opts["rewrite"]; ok {
			b := s.kv.BeginBatchWrite()
			b.Put(it.Key(), unhx(rw), 0)
			if err := b.Commit(ctx); err != nil {
				return "itdel err"
			}
		}
		if opts["remove"] == "1" {
			// the record under the iterator is REMOVED (not rewritten) before the compare-and-delete is evaluated
			if err := s.kv.Del(ctx, it.Key()); err != nil {
				return "itdel err"
			}
		}
		return "itdel " + hx(it.Key()) + " " + commitLine(s.kv.DelCurrent(ctx, it))
	case "load":
		// load <n> <keyprefix> <val>: n puts of keyprefix + 4-digit counter, one batch each 100
		n := atoi(t[1])
		for i := 0; i < n; i += 100 {
			b := s.kv.BeginBatchWrite()
			for j := i; j < i+100 && j < n; j++ {
				b.Put(append(append([]byte{}, unhx(t[2])...), []byte(fmt.Sprintf("%04d", j))...), unhx(t[3]), 0)
			}
			if err := b.Commit(ctx); err != nil {
				return "load err"
			}
		}
		return "load ok"
	case "iterw":
		// iterw <start> <end> <k> <batch ops...>: one iterator; after k+1 elements a batch commits; the rest is
		// drained: an iterator reads from ONE consistent snapshot
		it, err := s.kv.Iter(ctx, unhx(t[1]), unhx(t[2]), 0, 0)
		if err != nil {
			return "iterw err"
		}
		defer it.Close()
		k := atoi(t[3])
		var parts []string
		eof := false
		for i := 0; i <= k; i++ {
			if err := it.Next(ctx); err != nil {
				eof = true
				break
			}
			parts = append(parts, hx(it.Key())+"="+hx(it.Val()))
		}
		b := s.kv.BeginBatchWrite()
		for _, op := range t[4:] {
			f := strings.Split(op, ":")
			switch f[0] {
			case "put":
				b.Put(unhx(f[1]), unhx(f[2]), 0)
			case "del":
				b.Del(unhx(f[1]))
			}
		}
		if err := b.Commit(ctx); err != nil {
			return "iterw batch-err"
		}
		for !eof {
			if err := it.Next(ctx); err != nil {
				break
			}
			parts = append(parts, hx(it.Key())+"="+hx(it.Val()))
		}
		// canonical and short: number of elements and a digest of the sequence
		h := fnv.New64a()
		for _, p := range parts {
			h.Write([]byte(p))
			h.Write([]byte{0})
		}
		return fmt.Sprintf("iterw n=%d digest=%016x", len(parts), h.Sum64())
	case "dump":
		return "dump " + dumpAll(s.kv)
	case "parts":
		ps, err := s.kv.GetPartitions(ctx, unhx(t[1]), unhx(t[2]))
		if err != nil {
			return "parts err"
		}
		var parts []string
		for _, p := range ps {
			parts = append(parts, hx(p.Start)+".."+hx(p.End))
		}
		return "parts " + strings.Join(parts, ",")
	case "ttl":
		if s.kv.SupportTTL() {
			return "ttl 1"
		}
		return "ttl 0"
	}
	return t[0] + " bad-op"
}

func init() { register("engine", func(o map[string]string) suite { return newEngineSuite(o) }) }
