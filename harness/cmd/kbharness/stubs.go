package main

type stubSuite struct{ name string }

func (s *stubSuite) do(t []string) string { return t[0] + " unimplemented-suite-" + s.name }
func (s *stubSuite) close()               {}

func newElectionSuite(opts map[string]string) suite { return &stubSuite{"election"} }
func newEtcdSuite(opts map[string]string) suite     { return &stubSuite{"etcd"} }
func newBrainSuite(opts map[string]string) suite    { return &stubSuite{"brain"} }
func newFollowerSuite(opts map[string]string) suite { return &stubSuite{"follower"} }
