package main

import (
	"encoding/hex"
	"errors"
	"fmt"
	"sort"
	"strconv"
	"strings"

	proto "github.com/kubewharf/kubebrain-client/api/v2rpc"

	"github.com/kubewharf/kubebrain/pkg/backend"
	"github.com/kubewharf/kubebrain/pkg/storage"
)

func hx(b []byte) string {
	if len(b) == 0 {
		return "-"
	}
	return hex.EncodeToString(b)
}

func unhx(s string) []byte {
	if s == "-" || s == "" {
		return []byte{}
	}
	b, err := hex.DecodeString(s)
	if err != nil {
		panic("bad hex " + s)
	}
	return b
}

func atou(s string) uint64 {
	n, err := strconv.ParseUint(s, 10, 64)
	if err != nil {
		panic("bad uint " + s)
	}
	return n
}

func atoi(s string) int {
	n, err := strconv.Atoi(s)
	if err != nil {
		panic("bad int " + s)
	}
	return n
}

var errInjected = errors.New("injected storage error")

// classify maps a Go error onto the small enum the model uses.
func classify(err error) string {
	switch {
	case err == nil:
		return "ok"
	case errors.Is(err, storage.ErrUncertainResult):
		return "uncertain"
	case errors.Is(err, backend.ErrRevisionDriftBack):
		return "drift"
	case errors.Is(err, storage.ErrKeyNotFound):
		return "notfound"
	case errors.Is(err, storage.ErrUnavailable):
		return "unavailable"
	case strings.Contains(err.Error(), "less than compact revision"):
		return "belowfloor"
	case strings.Contains(err.Error(), "invalid range end"), strings.Contains(err.Error(), "invalid nil end"):
		return "invalid"
	}
	return "other"
}

func kvStr(kv *proto.KeyValue) string {
	if kv == nil {
		return "-"
	}
	return fmt.Sprintf("%s:%s@%d", hx(kv.Key), hx(kv.Value), kv.Revision)
}

func kvsStr(kvs []*proto.KeyValue) string {
	if len(kvs) == 0 {
		return "-"
	}
	parts := make([]string, len(kvs))
	for i, kv := range kvs {
		parts[i] = kvStr(kv)
	}
	return strings.Join(parts, ",")
}

func evStr(e *proto.Event) string {
	t := "P"
	switch e.Type {
	case proto.Event_CREATE:
		t = "C"
	case proto.Event_DELETE:
		t = "D"
	}
	return fmt.Sprintf("%s:%d:%s", t, e.Revision, kvStr(e.Kv))
}

// parseOpts splits trailing k=v tokens.
func parseOpts(toks []string) ([]string, map[string]string) {
	opts := map[string]string{}
	var pos []string
	for _, t := range toks {
		if i := strings.IndexByte(t, '='); i > 0 {
			opts[t[:i]] = t[i+1:]
		} else {
			pos = append(pos, t)
		}
	}
	return pos, opts
}

func sortedKeys(m map[string]string) []string {
	ks := make([]string, 0, len(m))
	for k := range m {
		ks = append(ks, k)
	}
	sort.Strings(ks)
	return ks
}
