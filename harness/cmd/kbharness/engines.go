package main

import (
	"bytes"
	"context"
	"errors"
	"io/ioutil"
	"os"
	"strings"
	"sync"
	"sync/atomic"
	"time"

	"github.com/pingcap/kvproto/pkg/kvrpcpb"
	"github.com/tikv/client-go/v2/testutils"
	"github.com/tikv/client-go/v2/tikv"
	"github.com/tikv/client-go/v2/tikvrpc"

	"github.com/kubewharf/kubebrain/pkg/metrics"
	promm "github.com/kubewharf/kubebrain/pkg/metrics/prometheus"
	"github.com/kubewharf/kubebrain/pkg/storage"
	ibadger "github.com/kubewharf/kubebrain/pkg/storage/badger"
	imemkv "github.com/kubewharf/kubebrain/pkg/storage/memkv"
	imetrics "github.com/kubewharf/kubebrain/pkg/storage/metrics"
	itikv "github.com/kubewharf/kubebrain/pkg/storage/tikv"
)

var theMetrics metrics.Metrics

// production metrics client (real Prometheus): a label-set mismatch panics here as it would in production
func getMetrics() metrics.Metrics {
	if theMetrics == nil {
		theMetrics = promm.NewMetrics()
	}
	return theMetrics
}

var tmpDirs []string

// lastBadgerDir: the directory of the Badger store opened last (op `reopen`)
var lastBadgerDir string

func cleanupTmp() {
	for _, d := range tmpDirs {
		os.RemoveAll(d)
	}
	tmpDirs = nil
}

// newEngine builds the engine named by `engine=` (memkv|badger|tikv, optionally prefixed "metrics-"),
// with real region splits for tikv given by `regions=<hex,hex>`.
func newEngine(opts map[string]string) storage.KvStorage { return newEngineUnder(opts, nil) }

// newEngineUnder: `under`, when given, wraps the bare engine BELOW the storage-metrics wrapper (so that
// injected engine failures travel through the wrapper as real ones would).
func newEngineUnder(opts map[string]string, under func(storage.KvStorage) storage.KvStorage) storage.KvStorage {
	name := opts["engine"]
	if name == "" {
		name = "memkv"
	}
	wrapMetrics := false
	if strings.HasPrefix(name, "metrics-") {
		wrapMetrics = true
		name = strings.TrimPrefix(name, "metrics-")
	}
	var kv storage.KvStorage
	switch name {
	case "memkv":
		kv = imemkv.NewKvStorage()
	case "badger":
		base := os.Getenv("KB_TMP")
		d := opts["badgerdir"] // reopen: the directory of the store that was just closed
		if d == "" {
			var err error
			d, err = ioutil.TempDir(base, "kbbadger")
			if err != nil {
				panic(err)
			}
			tmpDirs = append(tmpDirs, d)
		}
		lastBadgerDir = d
		var berr error
		kv, berr = ibadger.NewKvStorage(ibadger.Config{Dir: d})
		if berr != nil {
			panic(berr)
		}
	case "tikv":
		theAbandon = nil
		rpcClient, cluster, pdClient, err := testutils.NewMockTiKV("", nil)
		if err != nil {
			panic(err)
		}
		var splits [][]byte
		if r := opts["regions"]; r != "" && r != "-" {
			for _, h := range strings.Split(r, ",") {
				splits = append(splits, unhx(h))
			}
		}
		testutils.BootstrapWithMultiRegions(cluster, splits...)
		var wrap func(tikv.Client) tikv.Client
		if rf := opts["rpcfault"]; rf == "abandon" {
			// rpcfault=abandon: a transaction can be ABANDONED in the middle of its prewrite (ops `abandon …` of the
			// engine suite, `abandon=1` on a write of the backend suite): see abandonClient
			theAbandon = &abandonClient{}
			wrap = func(c tikv.Client) tikv.Client { theAbandon.Client = c; return theAbandon }
		} else if rf != "" {
			// rpcfault=getabort: the next point read (kv_get) of a key containing "k01" is answered with a
			// non-retryable key error; rpcfault=scan2: the SECOND kv_scan request fails once (a fetch error in
			// the middle of a long scan)
			wrap = func(c tikv.Client) tikv.Client { return &rpcFaultClient{Client: c, kind: rf} }
		} else if opts["undet"] == "1" {
			// the answer of every commit RPC whose primary key carries the marker is lost AFTER the mock cluster has
			// executed it: client-go then reports "execution result undetermined" (once its back-off is exhausted)
			wrap = func(c tikv.Client) tikv.Client { return &lostCommitClient{Client: c, marker: []byte("undet")} }
		}
		st, err := tikv.NewTestTiKVStore(rpcClient, pdClient, wrap, nil, 0)
		if err != nil {
			panic(err)
		}
		kv = itikv.NewKvStoreWithStorage([]*tikv.KVStore{st})
	default:
		panic("unknown engine " + name)
	}
	if wrapMetrics {
		if under != nil {
			kv = under(kv)
		}
		kv = imetrics.NewKvStorage(kv, getMetrics())
	}
	return kv
}


// lostCommitClient sits between client-go and the mock TiKV cluster.
type lostCommitClient struct {
	tikv.Client
	marker []byte
}

func (c *lostCommitClient) SendRequest(ctx context.Context, addr string, req *tikvrpc.Request, timeout time.Duration) (*tikvrpc.Response, error) {
	if req.Type == tikvrpc.CmdCommit {
		hit := false
		for _, k := range req.Commit().Keys {
			if bytes.Contains(k, c.marker) {
				hit = true
			}
		}
		if hit {
			_, _ = c.Client.SendRequest(ctx, addr, req, timeout)
			return nil, errors.New("injected: connection lost after the commit was sent")
		}
	}
	return c.Client.SendRequest(ctx, addr, req, timeout)
}


// rpcFaultClient injects single RPC-level faults between client-go and the mock TiKV cluster.
type rpcFaultClient struct {
	tikv.Client
	kind  string
	gets  int32
	scans int32
}

func (c *rpcFaultClient) SendRequest(ctx context.Context, addr string, req *tikvrpc.Request, timeout time.Duration) (*tikvrpc.Response, error) {
	switch {
	case c.kind == "getabort" && req.Type == tikvrpc.CmdGet && bytes.Contains(req.Get().Key, []byte("k01")):
		if atomic.AddInt32(&c.gets, 1) == 2 { // the first read of the key is the script's own check
			return &tikvrpc.Response{Resp: &kvrpcpb.GetResponse{Error: &kvrpcpb.KeyError{Abort: "injected: read can not be served"}}}, nil
		}
	case c.kind == "scan2" && req.Type == tikvrpc.CmdScan:
		if atomic.AddInt32(&c.scans, 1) == 2 {
			return &tikvrpc.Response{Resp: &kvrpcpb.ScanResponse{Error: &kvrpcpb.KeyError{Abort: "injected: scan can not be served"}}}, nil
		}
	}
	return c.Client.SendRequest(ctx, addr, req, timeout)
}


// abandonClient (rpcfault=abandon) sits between client-go and the mock TiKV cluster. When armed, the next
// Prewrite RPC is delivered to the cluster (the locks of the transaction are placed), its answer is then held until
// the request's own context is done - the caller of that transaction went away - and the call is reported as
// cancelled, as gRPC does. client-go then cleans up after the abandoned transaction in the background: it sends a
// BatchRollback for the keys, which removes the locks and leaves a ROLLBACK record (key, start ts) behind. Nothing is
// dropped, failed or invented: every RPC reaches the cluster. The client also tells when that rollback has been
// served.
type abandonClient struct {
	tikv.Client
	mu         sync.Mutex
	armed      bool
	startTS    uint64 // start timestamp of the transaction whose prewrite was held
	reached    chan struct{}
	rolledBack chan struct{}
	// the SLOW variant (no cancellation at all): the next Commit RPC is merely delayed until released; the locks its
	// prewrite placed expire after TiKV's wall-clock lock ttl (3 s) and are resolved - rolled back - by whoever meets them
	armedCommit   bool
	commitReached chan struct{}
	commitRelease chan struct{}
	// STORM: before each of the next `storm` prewrites (of transactions other than the abandoned ones) reaches the
	// cluster, `stormFn` runs - it abandons a writer on the same keys, whose rollback record is then newer than the
	// transaction that is about to prewrite
	storm   int
	inStorm bool
	stormFn func()
}

// setStorm arms / disarms (n = 0) the storm
func (c *abandonClient) setStorm(n int, f func()) {
	c.mu.Lock()
	c.storm, c.stormFn = n, f
	c.mu.Unlock()
}

var theAbandon *abandonClient

// armCommit: the next Commit RPC is held (not failed, not dropped) until `release` is closed
func (c *abandonClient) armCommit() (reached, release chan struct{}) {
	c.mu.Lock()
	defer c.mu.Unlock()
	c.armedCommit = true
	c.commitReached, c.commitRelease = make(chan struct{}), make(chan struct{})
	return c.commitReached, c.commitRelease
}

// arm: the next prewrite is the abandoned one; returns the channels closed when the prewrite has reached the
// cluster and when the rollback of that transaction has been served
func (c *abandonClient) arm() (reached, rolledBack chan struct{}) {
	c.mu.Lock()
	defer c.mu.Unlock()
	c.armed, c.startTS = true, 0
	c.reached, c.rolledBack = make(chan struct{}), make(chan struct{})
	return c.reached, c.rolledBack
}

func (c *abandonClient) disarm() {
	c.mu.Lock()
	c.armed = false
	c.mu.Unlock()
}

func (c *abandonClient) SendRequest(ctx context.Context, addr string, req *tikvrpc.Request, timeout time.Duration) (*tikvrpc.Response, error) {
	if req.Type == tikvrpc.CmdPrewrite {
		c.mu.Lock()
		hold := c.armed
		if hold {
			c.armed = false
			c.startTS = req.Prewrite().StartVersion
		}
		reached := c.reached
		c.mu.Unlock()
		if hold {
			_, _ = c.Client.SendRequest(ctx, addr, req, timeout) // the prewrite is executed by the cluster
			close(reached)
			<-ctx.Done()
			return nil, ctx.Err()
		}
		c.mu.Lock()
		var f func()
		if c.storm > 0 && !c.inStorm && c.stormFn != nil {
			c.storm--
			c.inStorm = true
			f = c.stormFn
		}
		c.mu.Unlock()
		if f != nil {
			f() // an abandoned writer gets in between this transaction's begin and its prewrite
			c.mu.Lock()
			c.inStorm = false
			c.mu.Unlock()
		}
	}
	if req.Type == tikvrpc.CmdCommit {
		c.mu.Lock()
		hold := c.armedCommit
		c.armedCommit = false
		reached, release := c.commitReached, c.commitRelease
		c.mu.Unlock()
		if hold {
			close(reached)
			<-release
		}
	}
	resp, err := c.Client.SendRequest(ctx, addr, req, timeout)
	if req.Type == tikvrpc.CmdBatchRollback {
		c.mu.Lock()
		if c.startTS != 0 && req.BatchRollback().StartVersion == c.startTS {
			c.startTS = 0
			close(c.rolledBack)
		}
		c.mu.Unlock()
	}
	return resp, err
}

// abandonRun runs `f` (a commit / a backend request) as the abandoned client: its context is cancelled as soon as
// its prewrite has reached the cluster; it waits for f's answer and for the rollback client-go sends afterwards.
// A request that never gets as far as a prewrite (its condition failed, a refusal) just returns its answer.
func abandonRun(f func(ctx context.Context) string) string {
	if theAbandon == nil {
		return "abandon no-rpcfault"
	}
	reached, rolledBack := theAbandon.arm()
	defer theAbandon.disarm()
	ctx, cancel := context.WithCancel(context.Background())
	defer cancel()
	done := make(chan string, 1)
	go func() { done <- f(ctx) }()
	select {
	case line := <-done:
		return line // no prewrite was sent
	case <-reached:
	case <-time.After(20 * time.Second):
		return "abandon stuck-before-prewrite"
	}
	cancel() // the caller of the transaction goes away
	var line string
	select {
	case line = <-done:
	case <-time.After(20 * time.Second):
		return "abandon stuck-after-cancel"
	}
	select {
	case <-rolledBack:
	case <-time.After(20 * time.Second):
		return line + " norollback"
	}
	return line
}
