package main

import (
	"bytes"
	"context"
	"errors"
	"io/ioutil"
	"os"
	"strings"
	"sync/atomic"
	"time"

	"github.com/pingcap/kvproto/pkg/kvrpcpb"
	"github.com/tikv/client-go/v2/testutils"
	"github.com/tikv/client-go/v2/tikv"
	"github.com/tikv/client-go/v2/tikvrpc"

	"github.com/kubewharf/kubebrain/pkg/metrics"
	promm "github.com/kubewharf/kubebrain/pkg/metrics/prometheus"
	"github.com/kubewharf/kubebrain/pkg/storage"
	ibadger "github.com/kubewharf/kubebrain/pkg/storage/badger"
	imemkv "github.com/kubewharf/kubebrain/pkg/storage/memkv"
	imetrics "github.com/kubewharf/kubebrain/pkg/storage/metrics"
	itikv "github.com/kubewharf/kubebrain/pkg/storage/tikv"
)

var theMetrics metrics.Metrics

// production metrics client (real Prometheus): a label-set mismatch panics here as it would in production
func getMetrics() metrics.Metrics {
	if theMetrics == nil {
		theMetrics = promm.NewMetrics()
	}
	return theMetrics
}

var tmpDirs []string

func cleanupTmp() {
	for _, d := range tmpDirs {
		os.RemoveAll(d)
	}
	tmpDirs = nil
}

// newEngine builds the engine named by `engine=` (memkv|badger|tikv, optionally prefixed "metrics-"),
// with real region splits for tikv given by `regions=<hex,hex>`.
func newEngine(opts map[string]string) storage.KvStorage { return newEngineUnder(opts, nil) }

// newEngineUnder: `under`, when given, wraps the bare engine BELOW the storage-metrics wrapper (so that
// injected engine failures travel through the wrapper as real ones would).
func newEngineUnder(opts map[string]string, under func(storage.KvStorage) storage.KvStorage) storage.KvStorage {
	name := opts["engine"]
	if name == "" {
		name = "memkv"
	}
	wrapMetrics := false
	if strings.HasPrefix(name, "metrics-") {
		wrapMetrics = true
		name = strings.TrimPrefix(name, "metrics-")
	}
	var kv storage.KvStorage
	switch name {
	case "memkv":
		kv = imemkv.NewKvStorage()
	case "badger":
		base := os.Getenv("KB_TMP")
		d, err := ioutil.TempDir(base, "kbbadger")
		if err != nil {
			panic(err)
		}
		tmpDirs = append(tmpDirs, d)
		kv, err = ibadger.NewKvStorage(ibadger.Config{Dir: d})
		if err != nil {
			panic(err)
		}
	case "tikv":
		rpcClient, cluster, pdClient, err := testutils.NewMockTiKV("", nil)
		if err != nil {
			panic(err)
		}
		var splits [][]byte
		if r := opts["regions"]; r != "" && r != "-" {
			for _, h := range strings.Split(r, ",") {
				splits = append(splits, unhx(h))
			}
		}
		testutils.BootstrapWithMultiRegions(cluster, splits...)
		var wrap func(tikv.Client) tikv.Client
		if rf := opts["rpcfault"]; rf != "" {
			// rpcfault=getabort: the next point read (kv_get) of a key containing "k01" is answered with a
			// non-retryable key error; rpcfault=scan2: the SECOND kv_scan request fails once (a fetch error in
			// the middle of a long scan)
			wrap = func(c tikv.Client) tikv.Client { return &rpcFaultClient{Client: c, kind: rf} }
		} else if opts["undet"] == "1" {
			// the answer of every commit RPC whose primary key carries the marker is lost AFTER the mock cluster has
			// executed it: client-go then reports "execution result undetermined" (once its back-off is exhausted)
			wrap = func(c tikv.Client) tikv.Client { return &lostCommitClient{Client: c, marker: []byte("undet")} }
		}
		st, err := tikv.NewTestTiKVStore(rpcClient, pdClient, wrap, nil, 0)
		if err != nil {
			panic(err)
		}
		kv = itikv.NewKvStoreWithStorage([]*tikv.KVStore{st})
	default:
		panic("unknown engine " + name)
	}
	if wrapMetrics {
		if under != nil {
			kv = under(kv)
		}
		kv = imetrics.NewKvStorage(kv, getMetrics())
	}
	return kv
}


// lostCommitClient sits between client-go and the mock TiKV cluster.
type lostCommitClient struct {
	tikv.Client
	marker []byte
}

func (c *lostCommitClient) SendRequest(ctx context.Context, addr string, req *tikvrpc.Request, timeout time.Duration) (*tikvrpc.Response, error) {
	if req.Type == tikvrpc.CmdCommit {
		hit := false
		for _, k := range req.Commit().Keys {
			if bytes.Contains(k, c.marker) {
				hit = true
			}
		}
		if hit {
			_, _ = c.Client.SendRequest(ctx, addr, req, timeout)
			return nil, errors.New("injected: connection lost after the commit was sent")
		}
	}
	return c.Client.SendRequest(ctx, addr, req, timeout)
}


// rpcFaultClient injects single RPC-level faults between client-go and the mock TiKV cluster.
type rpcFaultClient struct {
	tikv.Client
	kind  string
	gets  int32
	scans int32
}

func (c *rpcFaultClient) SendRequest(ctx context.Context, addr string, req *tikvrpc.Request, timeout time.Duration) (*tikvrpc.Response, error) {
	switch {
	case c.kind == "getabort" && req.Type == tikvrpc.CmdGet && bytes.Contains(req.Get().Key, []byte("k01")):
		if atomic.AddInt32(&c.gets, 1) == 2 { // the first read of the key is the script's own check
			return &tikvrpc.Response{Resp: &kvrpcpb.GetResponse{Error: &kvrpcpb.KeyError{Abort: "injected: read can not be served"}}}, nil
		}
	case c.kind == "scan2" && req.Type == tikvrpc.CmdScan:
		if atomic.AddInt32(&c.scans, 1) == 2 {
			return &tikvrpc.Response{Resp: &kvrpcpb.ScanResponse{Error: &kvrpcpb.KeyError{Abort: "injected: scan can not be served"}}}, nil
		}
	}
	return c.Client.SendRequest(ctx, addr, req, timeout)
}
