package main

// Suite "native": the REAL handlers of the native gRPC API (pkg/server/brain read.go / write.go: Create, Update,
// Delete, Compact, Get, Range, Count, ListPartition, RangeStream) in-process over a real backend. Everything
// the plain `backend` suite can do stays available (the suite embeds it), so a history can mix direct backend
// calls with calls through the handlers:
//
//	ncreate <hexkey> <hexval>            nupdate <hexkey> <hexval> <rev>      nupdate-nil (UpdateRequest.Kv == nil)
//	ndelete <hexkey> <rev>               ncompact <rev>
//	nget <hexkey> <rev>                  nrange <hexkey> <hexend> <rev> <limit>
//	ncount <hexkey> <hexend>             nparts <hexkey> <hexend>             nstream <hexkey> <hexend> <rev>
//	role leader | role follower [lrev=<n>]   (cfg leader=0 starts as a follower)
//
// option ctx=expired on any n-op: the request's context carries a deadline that has already passed.
// A follower's peer service is the real revision syncer; its leader is an httptest /status endpoint answering
// `lrev` (as server.revisionHandler does on a leader), or an address nobody listens on when lrev is absent.
//
// Output: the line the backend suite prints for the corresponding backend call, with the op renamed (the same
// rendering code: the handlers are reached through an adapter that implements backend.Backend and is handed
// to backendSuite.runOp); a refusal prints `n<op> err <class>` with <class> from nclassify.

import (
	"context"
	"encoding/json"
	"errors"
	"net"
	"net/http"
	"net/http/httptest"
	"strings"
	"sync"
	"sync/atomic"
	"time"

	proto "github.com/kubewharf/kubebrain-client/api/v2rpc"
	"google.golang.org/grpc/codes"
	"google.golang.org/grpc/status"
	"k8s.io/client-go/tools/leaderelection/resourcelock"

	"github.com/kubewharf/kubebrain/pkg/backend"
	"github.com/kubewharf/kubebrain/pkg/server/brain"
	"github.com/kubewharf/kubebrain/pkg/server/service/revision"
)

// curBackend is the Backend the brain server holds: every call goes to whatever backend the embedded backend
// suite is using at that moment (`lowrev`, `restart` replace it).
type curBackend struct{ s *backendSuite }

func (c curBackend) Create(ctx context.Context, r *proto.CreateRequest) (*proto.CreateResponse, error) {
	return c.s.b.Create(ctx, r)
}
func (c curBackend) Update(ctx context.Context, r *proto.UpdateRequest) (*proto.UpdateResponse, error) {
	return c.s.b.Update(ctx, r)
}
func (c curBackend) Delete(ctx context.Context, r *proto.DeleteRequest) (*proto.DeleteResponse, error) {
	return c.s.b.Delete(ctx, r)
}
func (c curBackend) Compact(ctx context.Context, rev uint64) (*proto.CompactResponse, error) {
	return c.s.b.Compact(ctx, rev)
}
func (c curBackend) Get(ctx context.Context, r *proto.GetRequest) (*proto.GetResponse, error) {
	return c.s.b.Get(ctx, r)
}
func (c curBackend) List(ctx context.Context, r *proto.RangeRequest) (*proto.RangeResponse, error) {
	return c.s.b.List(ctx, r)
}
func (c curBackend) Count(ctx context.Context, r *proto.CountRequest) (*proto.CountResponse, error) {
	return c.s.b.Count(ctx, r)
}
func (c curBackend) GetPartitions(ctx context.Context, r *proto.ListPartitionRequest) (*proto.ListPartitionResponse, error) {
	return c.s.b.GetPartitions(ctx, r)
}
func (c curBackend) ListByStream(ctx context.Context, a, b []byte, rev uint64) (<-chan *proto.StreamRangeResponse, error) {
	return c.s.b.ListByStream(ctx, a, b, rev)
}
func (c curBackend) Watch(ctx context.Context, key string, rev uint64) (<-chan []*proto.Event, error) {
	return c.s.b.Watch(ctx, key, rev)
}
func (c curBackend) GetResourceLock() resourcelock.Interface { return c.s.b.GetResourceLock() }
func (c curBackend) GetCurrentRevision() uint64              { return c.s.b.GetCurrentRevision() }
func (c curBackend) SetCurrentRevision(r uint64)             { c.s.b.SetCurrentRevision(r) }

var _ backend.Backend = curBackend{}

// viaHandlers is a backend.Backend whose data methods are the native HANDLERS (so that backendSuite.runOp
// renders their answers exactly as it renders the backend's); it keeps the error of the last call.
type viaHandlers struct {
	curBackend
	srv     *brain.Server
	lastErr error
}

func (v *viaHandlers) Create(ctx context.Context, r *proto.CreateRequest) (*proto.CreateResponse, error) {
	resp, err := v.srv.Create(ctx, r)
	v.lastErr = err
	return resp, err
}
func (v *viaHandlers) Update(ctx context.Context, r *proto.UpdateRequest) (*proto.UpdateResponse, error) {
	resp, err := v.srv.Update(ctx, r)
	v.lastErr = err
	return resp, err
}
func (v *viaHandlers) Delete(ctx context.Context, r *proto.DeleteRequest) (*proto.DeleteResponse, error) {
	resp, err := v.srv.Delete(ctx, r)
	v.lastErr = err
	return resp, err
}
func (v *viaHandlers) Compact(ctx context.Context, rev uint64) (*proto.CompactResponse, error) {
	resp, err := v.srv.Compact(ctx, &proto.CompactRequest{Revision: rev})
	v.lastErr = err
	return resp, err
}
func (v *viaHandlers) Get(ctx context.Context, r *proto.GetRequest) (*proto.GetResponse, error) {
	resp, err := v.srv.Get(ctx, r)
	v.lastErr = err
	return resp, err
}
func (v *viaHandlers) List(ctx context.Context, r *proto.RangeRequest) (*proto.RangeResponse, error) {
	resp, err := v.srv.Range(ctx, r)
	v.lastErr = err
	return resp, err
}
func (v *viaHandlers) Count(ctx context.Context, r *proto.CountRequest) (*proto.CountResponse, error) {
	resp, err := v.srv.Count(ctx, r)
	v.lastErr = err
	return resp, err
}
func (v *viaHandlers) GetPartitions(ctx context.Context, r *proto.ListPartitionRequest) (*proto.ListPartitionResponse, error) {
	resp, err := v.srv.ListPartition(ctx, r)
	v.lastErr = err
	return resp, err
}

// nativeRangeStream is the in-process server side of a RangeStream call.
type nativeRangeStream struct {
	baseStream
	mu   sync.Mutex
	msgs []*proto.StreamRangeResponse
}

func (s *nativeRangeStream) Send(m *proto.StreamRangeResponse) error {
	s.mu.Lock()
	s.msgs = append(s.msgs, m)
	s.mu.Unlock()
	return nil
}

func (v *viaHandlers) ListByStream(ctx context.Context, a, b []byte, rev uint64) (<-chan *proto.StreamRangeResponse, error) {
	st := &nativeRangeStream{baseStream: baseStream{ctx: ctx}}
	err := v.srv.RangeStream(&proto.RangeRequest{Key: a, End: b, Revision: rev}, st)
	v.lastErr = err
	if err != nil {
		return nil, err
	}
	ch := make(chan *proto.StreamRangeResponse, len(st.msgs))
	for _, m := range st.msgs {
		ch <- m
	}
	close(ch)
	return ch, nil
}

// nclassify: the refusals of the handler layer, then the backend's classes.
func nclassify(err error) string {
	if err == nil {
		return "ok"
	}
	msg := err.Error()
	switch {
	case errors.Is(err, context.DeadlineExceeded):
		return "deadline"
	case status.Code(err) == codes.Unavailable && strings.Contains(msg, "txn error addr is"):
		return "notleader"
	case strings.Contains(msg, "get revision from leader failed"):
		return "syncfail"
	case strings.HasPrefix(msg, "empty key"), strings.HasPrefix(msg, "invailid empty key"),
		strings.HasPrefix(msg, "kv in updateRequest is nil"), strings.HasPrefix(msg, "invalid revision in compact request"):
		return "invalid"
	}
	return classify(err)
}

type nativeSuite struct {
	*backendSuite
	el       *scriptElection
	syncer   revision.RevisionSyncer
	via      *viaHandlers
	leaderS  *httptest.Server
	lrev     uint64 // what the follower's leader answers on /status
	downAddr string
}

var nativeOps = map[string]string{
	"ncreate": "create", "nupdate": "update", "ndelete": "delete", "ncompact": "compact", "nget": "get",
	"nrange": "list", "ncount": "count", "nparts": "parts", "nstream": "stream",
}

func newNativeSuite(opts map[string]string) suite {
	s := &nativeSuite{backendSuite: newBackendSuite(opts), el: &scriptElection{leader: opts["leader"] != "0"}}
	s.leaderS = httptest.NewServer(http.HandlerFunc(func(w http.ResponseWriter, r *http.Request) {
		// what server.revisionHandler answers on the leader
		w.WriteHeader(200)
		b, _ := json.Marshal(&revision.LeaderRevision{Revision: atomic.LoadUint64(&s.lrev)})
		w.Write(b)
	}))
	l, err := net.Listen("tcp", "127.0.0.1:0")
	if err != nil {
		panic(err)
	}
	s.downAddr = l.Addr().String()
	l.Close()
	s.el.addr = s.downAddr
	cur := curBackend{s.backendSuite}
	s.syncer = revision.NewRevisionSyncer(cur, getMetrics(), s.el, nil)
	peers := &compositePeers{RevisionSyncer: s.syncer, LeaderElection: s.el, scriptProxy: &scriptProxy{}}
	s.via = &viaHandlers{curBackend: cur, srv: brain.New(cur, getMetrics(), peers)}
	return s
}

func (s *nativeSuite) close() {
	s.leaderS.Close()
	s.syncer.Close()
	s.backendSuite.close()
}

func (s *nativeSuite) ctxOf(opts map[string]string) (context.Context, context.CancelFunc) {
	if opts["ctx"] == "expired" {
		return context.WithDeadline(context.Background(), time.Now().Add(-time.Second))
	}
	return context.WithCancel(context.Background())
}

func (s *nativeSuite) do(t []string) string {
	pos, opts := parseOpts(t)
	switch pos[0] {
	case "role":
		s.el.mu.Lock()
		s.el.leader = pos[1] == "leader"
		s.el.addr = s.downAddr
		if v, ok := opts["lrev"]; ok {
			atomic.StoreUint64(&s.lrev, atou(v))
			s.el.addr = hostOf(s.leaderS.URL)
		}
		s.el.mu.Unlock()
		return "role " + pos[1]
	case "nupdate-nil":
		ctx, cancel := s.ctxOf(opts)
		defer cancel()
		resp, err := s.via.srv.Update(ctx, &proto.UpdateRequest{})
		if err != nil {
			return "nupdate-nil err " + nclassify(err)
		}
		if resp == nil || resp.Header == nil {
			return "nupdate-nil noheader"
		}
		return "nupdate-nil answered"
	}
	op, ok := nativeOps[pos[0]]
	if !ok {
		return s.backendSuite.do(t)
	}
	ctx, cancel := s.ctxOf(opts)
	defer cancel()
	// the same line with the backend op's name; ctx= is ours, everything else (f=, m=, crash=) is runOp's
	line := []string{op}
	for _, tok := range t[1:] {
		if !strings.HasPrefix(tok, "ctx=") {
			line = append(line, tok)
		}
	}
	s.via.lastErr = nil
	write := op == "create" || op == "update" || op == "delete"
	if write {
		s.setFaults(opts)
	} else {
		s.setFaults(nil)
	}
	res := s.runOp(ctx, s.via, line)
	if write {
		s.setFaults(nil)
	}
	if s.via.lastErr != nil {
		return pos[0] + " err " + nclassify(s.via.lastErr)
	}
	return pos[0] + strings.TrimPrefix(res, op)
}

func init() { register("native", newNativeSuite) }
