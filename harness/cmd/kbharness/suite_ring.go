package main

import (
	"fmt"
	"strings"

	proto "github.com/kubewharf/kubebrain-client/api/v2rpc"

	"github.com/kubewharf/kubebrain/pkg/backend"
)

type ringSuite struct{ r *backend.Ring }

func newRingSuite(opts map[string]string) suite {
	n := 8
	if v, ok := opts["cap"]; ok {
		n = atoi(v)
	}
	return &ringSuite{r: backend.NewRing(n)}
}

func (s *ringSuite) close() {}

func (s *ringSuite) do(t []string) string {
	switch t[0] {
	case "add":
		s.r.Add(&proto.Event{Revision: atou(t[1]), Kv: &proto.KeyValue{Key: []byte("k")}})
		return "add ok"
	case "find":
		empty, high, low, newest, oldest, evs := s.r.FindEvents(atou(t[1])).VerifFields()
		switch {
		case empty:
			return "find empty"
		case high:
			return "find high"
		case low:
			return fmt.Sprintf("find low %d", oldest.Revision)
		}
		revs := make([]string, len(evs))
		for i, e := range evs {
			revs[i] = fmt.Sprint(e.Revision)
		}
		l := "-"
		if len(revs) > 0 {
			l = strings.Join(revs, ",")
		}
		return fmt.Sprintf("find events %d %s", newest.Revision, l)
	}
	return t[0] + " bad-op"
}

func init() { register("ring", newRingSuite) }
