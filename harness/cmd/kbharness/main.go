// kbharness drives the real kubebrain packages with an operation script (one op per line on stdin)
// and prints one canonical line per op. See /verif/DESIGN.md Appendix A.
package main

import (
	"bufio"
	"flag"
	"fmt"
	"io/ioutil"
	"os"
	"strings"
	"time"
	"syscall"

	klogv1 "k8s.io/klog"
	"k8s.io/klog/v2"
)

var out *bufio.Writer

// the protocol stream is the original stdout; fd 1 is then pointed at stderr so that libraries which
// log to stdout (the tikv client's zap logger) cannot corrupt the transcript
func init() {
	fd, err := syscall.Dup(1)
	if err != nil {
		panic(err)
	}
	out = bufio.NewWriterSize(os.NewFile(uintptr(fd), "protocol"), 1<<16)
	_ = syscall.Dup2(2, 1)
}

func emit(format string, a ...interface{}) {
	fmt.Fprintf(out, format+"\n", a...)
	out.Flush()
}

type suite interface {
	// do executes one op; returns the output line
	do(toks []string) string
	close()
}

func main() {
	suiteName := flag.String("suite", "", "coder|engine|backend|election|etcd|brain|follower|ring")
	flag.Parse()

	// silence klog (it logs every failed write at info level)
	fs := flag.NewFlagSet("klog", flag.ContinueOnError)
	klog.InitFlags(fs)
	_ = fs.Set("logtostderr", "false")
	_ = fs.Set("alsologtostderr", "false")
	_ = fs.Set("stderrthreshold", "FATAL")
	klog.SetOutput(ioutil.Discard)
	// client-go / apimachinery still log through klog v1, which writes a file per severity and process into the
	// temp directory unless told otherwise
	fs1 := flag.NewFlagSet("klogv1", flag.ContinueOnError)
	klogv1.InitFlags(fs1)
	_ = fs1.Set("logtostderr", "false")
	_ = fs1.Set("alsologtostderr", "false")
	_ = fs1.Set("stderrthreshold", "FATAL")
	klogv1.SetOutput(ioutil.Discard)

	var s suite
	marks := map[string]time.Time{}
	sc := bufio.NewScanner(os.Stdin)
	sc.Buffer(make([]byte, 1<<20), 1<<26)
	for sc.Scan() {
		line := strings.TrimSpace(sc.Text())
		if line == "" || strings.HasPrefix(line, "#") {
			continue
		}
		toks := strings.Fields(line)
		if toks[0] == "cfg" {
			if s != nil {
				reportLeaks(s)
				s.close()
			}
			_, opts := parseOpts(toks[1:])
			s = newSuite(*suiteName, opts)
			emit("cfg ok")
			continue
		}
		// wall-clock marks (every suite): `mark <name>`, `since <name>` -> elapsed milliseconds. Scripts whose
		// verdict depends on real time (TTL cases) use them to tell a conclusive run from one that was starved of CPU.
		if toks[0] == "mark" && len(toks) == 2 {
			marks[toks[1]] = time.Now()
			emit("mark %s", toks[1])
			continue
		}
		if toks[0] == "alignsec" && len(toks) == 2 {
			// alignsec <ms>: sleep until the wall clock stands <ms> milliseconds into a second (engines that keep
			// deadlines in whole seconds behave differently just before a second boundary)
			want := time.Duration(atoi(toks[1])) * time.Millisecond
			now := time.Duration(time.Now().Nanosecond())
			d := want - now
			if d < 0 {
				d += time.Second
			}
			time.Sleep(d)
			emit("alignsec %s", toks[1])
			continue
		}
		if toks[0] == "since" && len(toks) == 2 {
			emit("since %s %d", toks[1], time.Since(marks[toks[1]]).Milliseconds())
			continue
		}
		if s == nil {
			s = newSuite(*suiteName, map[string]string{})
		}
		emit("%s", safeDo(s, toks))
	}
	if s != nil {
		reportLeaks(s)
		s.close()
	}
}

// reportLeaks prints one extra line when the suite knows of write batches that were begun and abandoned (see ctl.begun)
func reportLeaks(s suite) {
	if l, ok := s.(interface{ leaks() string }); ok {
		if msg := l.leaks(); msg != "" {
			emit("%s", msg)
		}
	}
}

func safeDo(s suite, toks []string) (res string) {
	defer func() {
		if r := recover(); r != nil {
			res = fmt.Sprintf("%s PANIC %v", toks[0], strings.Fields(fmt.Sprint(r)))
		}
	}()
	return s.do(toks)
}

// registry of suites; every suite_*.go registers itself in an init() function
var registry = map[string]func(opts map[string]string) suite{}

func register(name string, f func(opts map[string]string) suite) { registry[name] = f }

func newSuite(name string, opts map[string]string) suite {
	if f, ok := registry[name]; ok {
		return f(opts)
	}
	panic("unknown suite " + name)
}
