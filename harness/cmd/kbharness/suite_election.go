package main

// Suite "election": N real resourceLocks (pkg/backend/election) of N identities over ONE shared engine.
//
//	cfg engine=<memkv|badger|tikv> n=<candidates> [prefix=<hex>]   → cfg ok
//	get <i>              → get <i> ok <hexrecord> | get <i> nf | get <i> err
//	create <i> <hexrec>  → create <i> ok|cf|nf|err
//	update <i> <hexrec>  → update <i> ok|cf|nf|noinit|err
//	stored               → stored <hexrecord> | stored nf | stored err   (raw engine read of the election key)
//	init <i>             → init <i> 0|1    (is the lock's engine timestamp non-zero; read off Describe())
//	race <create|update> <hexrec_0> … <hexrec_{n-1}> → race <kind> <number of ok> <consistent 0|1>
//	                       all n candidates issue the call at once (one goroutine per lock, released together);
//	                       consistent = the stored record afterwards is the record of a candidate that was told
//	                       ok, or is unchanged when nobody was
//
// A record is the JSON of a resourcelock.LeaderElectionRecord in Go's canonical marshalling; the script
// carries the bytes, the suite unmarshals them, hands the struct to the real Create/Update (which marshal
// it again) and refuses (`bad-record`) bytes that would not round-trip, so that model and implementation
// talk about the same byte strings.

import (
	"bytes"
	"context"
	"encoding/json"
	"errors"
	"fmt"
	"strings"
	"sync"
	"time"

	apierrors "k8s.io/apimachinery/pkg/api/errors"
	"k8s.io/client-go/tools/leaderelection/resourcelock"

	"github.com/kubewharf/kubebrain/pkg/backend"
	"github.com/kubewharf/kubebrain/pkg/backend/election"
	"github.com/kubewharf/kubebrain/pkg/server/service/leader"
	"github.com/kubewharf/kubebrain/pkg/storage"
)

type electionSuite struct {
	kv    storage.KvStorage
	key   []byte
	locks []resourcelock.Interface
	// nodes[i] = the real pkg/server/service/leader object of candidate i (it shares candidate i's lock, as in a node)
	nodes []leader.LeaderElection
}

// lockOnlyBackend is what leader.NewLeaderElection needs of a backend: its resource lock
type lockOnlyBackend struct {
	backend.Backend
	l resourcelock.Interface
}

func (b lockOnlyBackend) GetResourceLock() resourcelock.Interface { return b.l }

func newElectionSuite(opts map[string]string) *electionSuite {
	n := 2
	if v, ok := opts["n"]; ok {
		n = atoi(v)
	}
	prefix := "/kb"
	if v, ok := opts["prefix"]; ok {
		prefix = string(unhx(v))
	}
	s := &electionSuite{kv: newEngine(opts), key: []byte(prefix + "/election")}
	for i := 0; i < n; i++ {
		m := election.NewResourceLockManager(election.Config{
			Prefix:   prefix,
			Identity: fmt.Sprintf("c%d", i),
			Timeout:  20 * time.Second,
		}, s.kv)
		s.locks = append(s.locks, m.GetResourceLock())
		s.nodes = append(s.nodes, leader.NewLeaderElection(lockOnlyBackend{l: m.GetResourceLock()}, getMetrics(),
			func(context.Context) {}, func() {}))
	}
	return s
}

func (s *electionSuite) close() {
	s.kv.Close()
	cleanupTmp()
}

func electionErr(err error) string {
	switch {
	case err == nil:
		return "ok"
	case apierrors.IsNotFound(err), errors.Is(err, storage.ErrKeyNotFound):
		return "nf"
	case errors.Is(err, storage.ErrCASFailed):
		return "cf"
	case strings.Contains(err.Error(), "not initialized"):
		return "noinit"
	}
	return "err"
}

// parseRecord decodes the script's record bytes; ok=false when Go would not marshal them back identically.
func parseRecord(h string) (resourcelock.LeaderElectionRecord, bool) {
	raw := unhx(h)
	var ler resourcelock.LeaderElectionRecord
	if err := json.Unmarshal(raw, &ler); err != nil {
		return ler, false
	}
	back, err := json.Marshal(ler)
	if err != nil || !bytes.Equal(back, raw) {
		return ler, false
	}
	return ler, true
}

func (s *electionSuite) do(t []string) string {
	if t[0] == "stored" {
		v, err := s.kv.Get(context.Background(), s.key)
		if err == storage.ErrKeyNotFound {
			return "stored nf"
		} else if err != nil {
			return "stored err"
		}
		return "stored " + hx(v)
	}
	if t[0] == "race" {
		return s.race(t)
	}
	switch t[0] {
	case "get", "create", "update", "init", "info":
	default:
		return t[0] + " bad-op"
	}
	if len(t) < 2 {
		return t[0] + " bad-op"
	}
	i := atoi(t[1])
	if i < 0 || i >= len(s.locks) {
		return fmt.Sprintf("%s %s bad-index", t[0], t[1])
	}
	l := s.locks[i]
	switch t[0] {
	case "get":
		rec, err := l.Get()
		if err != nil {
			return fmt.Sprintf("get %s %s", t[1], electionErr(err))
		}
		b, err := json.Marshal(*rec)
		if err != nil {
			return fmt.Sprintf("get %s err", t[1])
		}
		return fmt.Sprintf("get %s ok %s", t[1], hx(b))
	case "create":
		ler, ok := parseRecord(t[2])
		if !ok {
			return fmt.Sprintf("create %s bad-record", t[1])
		}
		return fmt.Sprintf("create %s %s", t[1], electionErr(l.Create(ler)))
	case "update":
		ler, ok := parseRecord(t[2])
		if !ok {
			return fmt.Sprintf("update %s bad-record", t[1])
		}
		return fmt.Sprintf("update %s %s", t[1], electionErr(l.Update(ler)))
	case "info":
		// the node's read-only endpoints (HTTP /election, peer /status, the follower's leader lookup) while the
		// elector is between two of its steps: they must not act on the lock
		_, err := s.nodes[i].GetElectionInfo()
		_ = s.nodes[i].GetLeaderInfo()
		_ = s.nodes[i].IsLeader()
		if err != nil {
			return fmt.Sprintf("info %s err", t[1])
		}
		return fmt.Sprintf("info %s ok", t[1])
	case "init":
		// Describe() = "<holder|empty>,<tso>"
		d := l.Describe()
		tso := d[strings.LastIndexByte(d, ',')+1:]
		if tso == "0" {
			return fmt.Sprintf("init %s 0", t[1])
		}
		return fmt.Sprintf("init %s 1", t[1])
	}
	return t[0] + " bad-op"
}

func (s *electionSuite) race(t []string) string {
	if len(t) != 2+len(s.locks) || (t[1] != "create" && t[1] != "update") {
		return "race bad-op"
	}
	recs := make([]resourcelock.LeaderElectionRecord, len(s.locks))
	for i := range s.locks {
		ler, ok := parseRecord(t[2+i])
		if !ok {
			return "race bad-record"
		}
		recs[i] = ler
	}
	before, errBefore := s.kv.Get(context.Background(), s.key)
	if errBefore != nil && errBefore != storage.ErrKeyNotFound {
		return "race err"
	}
	res := make([]string, len(s.locks))
	start := make(chan struct{})
	var wg sync.WaitGroup
	for i := range s.locks {
		wg.Add(1)
		go func(i int) {
			defer wg.Done()
			defer func() {
				if r := recover(); r != nil {
					res[i] = "panic"
				}
			}()
			<-start
			if t[1] == "create" {
				res[i] = electionErr(s.locks[i].Create(recs[i]))
			} else {
				res[i] = electionErr(s.locks[i].Update(recs[i]))
			}
		}(i)
	}
	close(start)
	wg.Wait()
	after, errAfter := s.kv.Get(context.Background(), s.key)
	if errAfter != nil && errAfter != storage.ErrKeyNotFound {
		return "race err"
	}
	oks := 0
	consistent := false
	for i, r := range res {
		if r == "panic" {
			return "race PANIC"
		}
		if r == "ok" {
			oks++
			if errAfter == nil && bytes.Equal(after, unhx(t[2+i])) {
				consistent = true
			}
		}
	}
	if oks == 0 {
		consistent = (errBefore == nil) == (errAfter == nil) && bytes.Equal(before, after)
	}
	c := 0
	if consistent {
		c = 1
	}
	return fmt.Sprintf("race %s %d %d", t[1], oks, c)
}

func init() { register("election", func(o map[string]string) suite { return newElectionSuite(o) }) }
