//go:build verif
// +build verif

package racetest

import (
	"flag"
	"io/ioutil"
	"os"
	"testing"

	klogv1 "k8s.io/klog"
	"k8s.io/klog/v2"
)

// TestMain silences klog (v2: the code under test; v1: client-go / apimachinery, which would otherwise write a file per
// severity and process into the temp directory).
func TestMain(m *testing.M) {
	fs := flag.NewFlagSet("klog", flag.ContinueOnError)
	klog.InitFlags(fs)
	_ = fs.Set("logtostderr", "false")
	_ = fs.Set("alsologtostderr", "false")
	_ = fs.Set("stderrthreshold", "FATAL")
	klog.SetOutput(ioutil.Discard)
	fs1 := flag.NewFlagSet("klogv1", flag.ContinueOnError)
	klogv1.InitFlags(fs1)
	_ = fs1.Set("logtostderr", "false")
	_ = fs1.Set("alsologtostderr", "false")
	_ = fs1.Set("stderrthreshold", "FATAL")
	klogv1.SetOutput(ioutil.Discard)
	os.Exit(m.Run())
}
