//go:build verif
// +build verif

// Package racetest is C19's failing-input search: bounded concurrent workloads on one node (backend over the
// in-process engine memkv, the production Prometheus metrics client, the async retry loop, leader election)
// meant to be run under the Go race detector:
//
//	CGO_ENABLED=1 go test -race -tags verif -count=1 ./racetest/...
//
// A "WARNING: DATA RACE" block in the output is a concrete failing input (kbcheck/props/c19.py parses the two
// stacks and attributes them to locations of the lock table). The workloads only call the exported API of
// /repo's packages; everything the test itself shares between goroutines is synchronised (atomics,
// WaitGroups, channels), so every report points into /repo or its dependencies.
package racetest

import (
	"context"
	"errors"
	"flag"
	"fmt"
	"io"
	"io/ioutil"
	"math/rand"
	"net"
	"os"
	"strconv"
	"sync"
	"sync/atomic"
	"testing"
	"time"

	"go.etcd.io/etcd/api/v3/etcdserverpb"
	"google.golang.org/grpc"
	"google.golang.org/grpc/metadata"
	"k8s.io/klog/v2"

	proto "github.com/kubewharf/kubebrain-client/api/v2rpc"

	"github.com/kubewharf/kubebrain/pkg/backend"
	"github.com/kubewharf/kubebrain/pkg/metrics"
	promm "github.com/kubewharf/kubebrain/pkg/metrics/prometheus"
	"github.com/kubewharf/kubebrain/pkg/server/etcd"
	"github.com/kubewharf/kubebrain/pkg/server/service"
	"github.com/kubewharf/kubebrain/pkg/server/service/etcdproxy"
	"github.com/kubewharf/kubebrain/pkg/server/service/leader"
	"github.com/kubewharf/kubebrain/pkg/storage"
	imemkv "github.com/kubewharf/kubebrain/pkg/storage/memkv"
)

var (
	theMetrics metrics.Metrics
	once       sync.Once
)

func setup() metrics.Metrics {
	once.Do(func() {
		fs := flag.NewFlagSet("klog", flag.ContinueOnError)
		klog.InitFlags(fs)
		_ = fs.Set("logtostderr", "false")
		_ = fs.Set("alsologtostderr", "false")
		_ = fs.Set("stderrthreshold", "FATAL")
		klog.SetOutput(ioutil.Discard)
		theMetrics = promm.NewMetrics(metrics.Tag("cluster", "racetest"))
	})
	return theMetrics
}

func duration() time.Duration {
	if v, err := strconv.Atoi(os.Getenv("KB_RACE_MS")); err == nil && v > 0 {
		return time.Duration(v) * time.Millisecond
	}
	return 2500 * time.Millisecond
}

func seed() int64 {
	if v, err := strconv.ParseInt(os.Getenv("KB_RACE_SEED"), 10, 64); err == nil {
		return v
	}
	return 1
}

// flakyKV answers every n-th successful Commit with an uncertain result (after applying it): the backend then
// hands the event to the asynchronous retry queue, so the retry loop has work to do.
type flakyKV struct {
	storage.KvStorage
	n     uint64
	every uint64
}

type flakyBatch struct {
	storage.BatchWrite
	f *flakyKV
}

func (f *flakyKV) BeginBatchWrite() storage.BatchWrite {
	return &flakyBatch{BatchWrite: f.KvStorage.BeginBatchWrite(), f: f}
}

func (b *flakyBatch) Commit(ctx context.Context) error {
	err := b.BatchWrite.Commit(ctx)
	if err == nil && b.f.every > 0 && atomic.AddUint64(&b.f.n, 1)%b.f.every == 0 {
		return storage.NewErrUncertainResult(errors.New("injected uncertain result"))
	}
	return err
}

func key(i int) []byte { return []byte(fmt.Sprintf("/r/k%02d", i)) }

// TestBackendWorkload: concurrent create/update/delete/get/list/count on shared keys + watchers + compactions
// (several at once) + retry-loop activity on one backend over memkv.
func TestBackendWorkload(t *testing.T) {
	m := setup()
	backend.VerifSetRetryIntervals(time.Millisecond, 2*time.Millisecond)
	kv := &flakyKV{KvStorage: imemkv.NewKvStorage(), every: 5}
	b := backend.NewBackend(kv, backend.Config{Prefix: "/r", Identity: "id-1", EnableEtcdCompatibility: true}, m)
	b.SetCurrentRevision(1000)

	const nKeys = 6
	deadline := time.Now().Add(duration())
	var wg sync.WaitGroup
	var ops uint64
	run := func(name string, n int, f func(r *rand.Rand)) {
		for g := 0; g < n; g++ {
			wg.Add(1)
			go func(g int) {
				defer wg.Done()
				r := rand.New(rand.NewSource(seed()*1000 + int64(len(name))*37 + int64(g)))
				for time.Now().Before(deadline) {
					f(r)
					atomic.AddUint64(&ops, 1)
				}
			}(g)
		}
	}
	ctx := context.Background()
	// last known revision per key (atomics: test-owned shared state)
	var revs [nKeys]uint64
	run("writer", 3, func(r *rand.Rand) {
		i := r.Intn(nKeys)
		c, cancel := context.WithTimeout(ctx, time.Second)
		defer cancel()
		switch r.Intn(3) {
		case 0:
			if resp, err := b.Create(c, &proto.CreateRequest{Key: key(i), Value: []byte("v")}); err == nil && resp.Succeeded {
				atomic.StoreUint64(&revs[i], resp.Header.Revision)
			}
		case 1:
			if resp, err := b.Update(c, &proto.UpdateRequest{Kv: &proto.KeyValue{Key: key(i), Value: []byte("w"), Revision: atomic.LoadUint64(&revs[i])}}); err == nil {
				if resp.Succeeded {
					atomic.StoreUint64(&revs[i], resp.Header.Revision)
				} else if resp.Kv != nil {
					atomic.StoreUint64(&revs[i], resp.Kv.Revision)
				}
			}
		case 2:
			_, _ = b.Delete(c, &proto.DeleteRequest{Key: key(i), Revision: atomic.LoadUint64(&revs[i])})
		}
	})
	run("reader", 2, func(r *rand.Rand) {
		c, cancel := context.WithTimeout(ctx, time.Second)
		defer cancel()
		switch r.Intn(3) {
		case 0:
			_, _ = b.Get(c, &proto.GetRequest{Key: key(r.Intn(nKeys))})
		case 1:
			_, _ = b.List(c, &proto.RangeRequest{Key: []byte("/r/"), End: []byte("/r0"), Limit: int64(r.Intn(4))})
		case 2:
			_, _ = b.Count(c, &proto.CountRequest{Key: []byte("/r/"), End: []byte("/r0")})
		}
	})
	run("watcher", 2, func(r *rand.Rand) {
		c, cancel := context.WithCancel(ctx)
		rev := uint64(0)
		if r.Intn(2) == 0 {
			rev = b.GetCurrentRevision()
		}
		ch, err := b.Watch(c, "/r/", rev)
		if err != nil {
			cancel()
			return
		}
		stop := time.After(time.Duration(5+r.Intn(30)) * time.Millisecond)
	loop:
		for {
			select {
			case _, ok := <-ch:
				if !ok {
					break loop
				}
			case <-stop:
				break loop
			}
		}
		cancel()
		for range ch { // drain until the backend closes it
		}
	})
	run("compactor", 2, func(r *rand.Rand) {
		c, cancel := context.WithTimeout(ctx, time.Second)
		defer cancel()
		_, _ = b.Compact(c, 0)
		time.Sleep(time.Duration(r.Intn(3)) * time.Millisecond)
	})
	wg.Wait()
	t.Logf("backend workload: %d operations", atomic.LoadUint64(&ops))
}

// TestConcurrentCompact: several clients ask for a compaction at the same time (Compact is an ordinary request of
// both APIs, and the leader also compacts periodically) while a writer keeps the revision moving.
func TestConcurrentCompact(t *testing.T) {
	m := setup()
	b := backend.NewBackend(imemkv.NewKvStorage(), backend.Config{Prefix: "/c", Identity: "id-1", SkippedPrefixes: []string{"/d"}}, m)
	b.SetCurrentRevision(1000)
	deadline := time.Now().Add(duration() / 2)
	var wg sync.WaitGroup
	var compactions uint64
	wg.Add(1)
	go func() {
		defer wg.Done()
		for i := 0; time.Now().Before(deadline); i++ {
			_, _ = b.Create(context.Background(), &proto.CreateRequest{Key: []byte(fmt.Sprintf("/c/k%d", i%8)), Value: []byte("v")})
			_, _ = b.Delete(context.Background(), &proto.DeleteRequest{Key: []byte(fmt.Sprintf("/c/k%d", i%8))})
		}
	}()
	for g := 0; g < 4; g++ {
		wg.Add(1)
		go func() {
			defer wg.Done()
			for time.Now().Before(deadline) {
				_, _ = b.Compact(context.Background(), 0)
				atomic.AddUint64(&compactions, 1)
			}
		}()
	}
	wg.Wait()
	t.Logf("concurrent compact: %d compactions", atomic.LoadUint64(&compactions))
}

// TestLeaderFlag: the election loop (client-go leaderelection over the backend's resource lock) acquires the
// lease and keeps renewing it while request goroutines ask IsLeader() / GetLeaderInfo(), as every handler does.
func TestLeaderFlag(t *testing.T) {
	m := setup()
	b := backend.NewBackend(imemkv.NewKvStorage(), backend.Config{Prefix: "/l", Identity: "127.0.0.1:1"}, m)
	b.SetCurrentRevision(1000)
	started := make(chan struct{})
	var startedOnce sync.Once
	le := leader.NewLeaderElection(b, m, func(context.Context) { startedOnce.Do(func() { close(started) }) }, func() {})
	deadline := time.Now().Add(duration())
	var wg sync.WaitGroup
	var leaderSeen uint64
	for g := 0; g < 2; g++ {
		wg.Add(1)
		go func() {
			defer wg.Done()
			for time.Now().Before(deadline) {
				if le.IsLeader() {
					atomic.AddUint64(&leaderSeen, 1)
				}
				_ = le.GetLeaderInfo()
				time.Sleep(200 * time.Microsecond)
			}
		}()
	}
	go le.Campaign() // never returns (RunOrDie); the process ends with the test binary
	select {
	case <-started:
	case <-time.After(duration()):
	}
	wg.Wait()
	t.Logf("leader flag observed true %d times", atomic.LoadUint64(&leaderSeen))
}

// leaderPeers is the node's real peer service, pinned to "this node is the leader".
type leaderPeers struct{ service.PeerService }

func (leaderPeers) IsLeader() bool          { return true }
func (leaderPeers) SyncReadRevision() error { return nil }

// fakeWatchStream is one etcd Watch stream of a client (grpc.ServerStream implemented in memory).
type fakeWatchStream struct {
	ctx  context.Context
	reqs chan *etcdserverpb.WatchRequest
	sent uint64
}

func (f *fakeWatchStream) Send(*etcdserverpb.WatchResponse) error {
	atomic.AddUint64(&f.sent, 1)
	return nil
}
func (f *fakeWatchStream) Recv() (*etcdserverpb.WatchRequest, error) {
	r, ok := <-f.reqs
	if !ok {
		return nil, io.EOF
	}
	return r, nil
}
func (f *fakeWatchStream) SetHeader(metadata.MD) error  { return nil }
func (f *fakeWatchStream) SendHeader(metadata.MD) error { return nil }
func (f *fakeWatchStream) SetTrailer(metadata.MD)       {}
func (f *fakeWatchStream) Context() context.Context     { return f.ctx }
func (f *fakeWatchStream) SendMsg(interface{}) error    { return nil }
func (f *fakeWatchStream) RecvMsg(interface{}) error    { return nil }

// TestEtcdWatchStream: one etcd Watch stream on which the client creates range-stream requests (StartRevision < 0,
// served by a goroutine that removes itself from the stream's watch map when done) and ordinary watches.
func TestEtcdWatchStream(t *testing.T) {
	m := setup()
	b := backend.NewBackend(imemkv.NewKvStorage(), backend.Config{Prefix: "/r", Identity: "id-1", EnableEtcdCompatibility: true}, m)
	b.SetCurrentRevision(1000)
	for i := 0; i < 4; i++ {
		_, _ = b.Create(context.Background(), &proto.CreateRequest{Key: key(i), Value: []byte("v")})
	}
	le := leader.NewLeaderElection(b, m, func(context.Context) {}, func() {})
	srv := etcd.New(b, m, leaderPeers{service.NewPeerService(le, m, b, service.Config{})})
	ctx, cancel := context.WithCancel(context.Background())
	stream := &fakeWatchStream{ctx: ctx, reqs: make(chan *etcdserverpb.WatchRequest)}
	done := make(chan error, 1)
	go func() { done <- srv.Watch(stream) }()
	deadline := time.Now().Add(duration() / 2)
	n := 0
	for time.Now().Before(deadline) {
		create := func(rev int64) *etcdserverpb.WatchRequest {
			return &etcdserverpb.WatchRequest{RequestUnion: &etcdserverpb.WatchRequest_CreateRequest{
				CreateRequest: &etcdserverpb.WatchCreateRequest{Key: []byte("/r/"), RangeEnd: []byte("/r0"), StartRevision: rev}}}
		}
		stream.reqs <- create(-int64(b.GetCurrentRevision())) // range stream at the current revision
		stream.reqs <- create(0)                              // ordinary watch
		n += 2
		time.Sleep(time.Millisecond)
	}
	close(stream.reqs)
	cancel()
	select {
	case <-done:
	case <-time.After(5 * time.Second):
		t.Log("watch stream did not terminate in 5s")
	}
	t.Logf("etcd watch stream: %d create requests, %d responses", n, atomic.LoadUint64(&stream.sent))
}

// switchingElection is a follower's view of the election whose leader address alternates between two live
// peers (a leadership change every time the proxy's background loop looks).
type switchingElection struct {
	leader.LeaderElection
	addrs [2]string
	n     int64
}

func (s *switchingElection) IsLeader() bool { return false }
func (s *switchingElection) GetLeaderInfo() string {
	return s.addrs[(atomic.AddInt64(&s.n, 1)/2)%2]
}
func (s *switchingElection) GetElectionInfo() (leader.ElectionInfo, error) {
	return leader.ElectionInfo{LeaderAddress: s.GetLeaderInfo()}, nil
}
func (s *switchingElection) Campaign() {}

// TestEtcdProxyLeaderChange: a follower with the etcd proxy on forwards transactions while the proxy's
// background loop (checkLeaderLoop, once a second) follows a changing leader: request goroutines and the
// loop share the proxy's client / leader address.
func TestEtcdProxyLeaderChange(t *testing.T) {
	m := setup()
	var addrs [2]string
	for i := 0; i < 2; i++ {
		lis, err := net.Listen("tcp", "127.0.0.1:0")
		if err != nil {
			t.Fatal(err)
		}
		addrs[i] = lis.Addr().String()
		b := backend.NewBackend(imemkv.NewKvStorage(), backend.Config{Prefix: "/race", Identity: addrs[i]}, m)
		b.SetCurrentRevision(1000)
		peers := service.NewPeerService(&leader.Stub{ElectionInfo: leader.ElectionInfo{IsLeader: true, LeaderAddress: addrs[i]}}, m, b, service.Config{})
		srv := etcd.New(b, m, peers)
		g := grpc.NewServer()
		srv.Register(g)
		go g.Serve(lis)
		defer g.Stop()
	}
	el := &switchingElection{addrs: addrs}
	proxy := etcdproxy.NewEtcdProxy(el, nil)
	ctx, cancel := context.WithTimeout(context.Background(), 20*time.Second)
	defer cancel()
	stop := make(chan struct{})
	var forwarded int64
	var wg sync.WaitGroup
	for w := 0; w < 4; w++ {
		wg.Add(1)
		go func(w int) {
			defer wg.Done()
			for i := 0; ; i++ {
				select {
				case <-stop:
					return
				default:
				}
				key := fmt.Sprintf("/race/proxy/k%d-%d", w, i)
				_, perr := proxy.Txn(ctx, &etcdserverpb.TxnRequest{
					Compare: []*etcdserverpb.Compare{{Target: etcdserverpb.Compare_MOD, Result: etcdserverpb.Compare_EQUAL, Key: []byte(key),
						TargetUnion: &etcdserverpb.Compare_ModRevision{ModRevision: 0}}},
					Success: []*etcdserverpb.RequestOp{{Request: &etcdserverpb.RequestOp_RequestPut{RequestPut: &etcdserverpb.PutRequest{Key: []byte(key), Value: []byte("v")}}}},
				})
				if perr == nil {
					atomic.AddInt64(&forwarded, 1)
				}
				time.Sleep(2 * time.Millisecond)
			}
		}(w)
	}
	time.Sleep(4500 * time.Millisecond) // four rounds of the proxy's one-second loop
	close(stop)
	wg.Wait()
	if atomic.LoadInt64(&forwarded) == 0 {
		t.Fatalf("no transaction was forwarded: the proxy never had a client")
	}
	t.Logf("forwarded %d transactions, leader looked up %d times", atomic.LoadInt64(&forwarded), atomic.LoadInt64(&el.n))
}
