//go:build verif
// +build verif

package racetest

// C05, dynamic cross-check over a REAL gRPC stream (adapted from the demonstration written by an auditor of the fourth hunt;
// the in-process streams of the etcd suite have no flow control, so only this test can see it): after a short pause of the consumer, watches that share one gRPC stream (clientv3 - kube-apiserver,
// a follower's proxy - puts ALL watches of a client on one stream) stop delivering for good: the stream stays open,
// nothing is cancelled, the consumer reads as fast as it can, and events that were written before AND after the pause
// never arrive.
//
// Cause: the etcd Watch handler answers on the stream from several goroutines at once (the receive loop and one
// goroutine per watch call watchServer.Send without any serialisation). gRPC forbids concurrent SendMsg on one
// stream; concretely its per-stream write quota (transport.writeQuota) wakes exactly ONE blocked sender when quota
// comes back. While the consumer pauses, every watch goroutine blocks in Send; when it resumes, one of them is woken
// and finishes its backlog without exhausting the quota again, the others sleep on.
//
// Real time is used only for "nothing arrived for 5 s" (generous: the backlog is 40 x 16 KB per watch on loopback).

import (
	"context"
	"flag"
	"fmt"
	"io"
	"math"
	"net"
	"os"
	"sort"
	"strings"
	"sync/atomic"
	"testing"
	"time"

	"github.com/golang/mock/gomock"
	"go.etcd.io/etcd/api/v3/etcdserverpb"
	"google.golang.org/grpc"
	"k8s.io/klog/v2"

	"github.com/kubewharf/kubebrain/pkg/backend"
	"github.com/kubewharf/kubebrain/pkg/metrics/mock"
	"github.com/kubewharf/kubebrain/pkg/server/etcd"
	"github.com/kubewharf/kubebrain/pkg/server/service"
	"github.com/kubewharf/kubebrain/pkg/server/service/leader"
	imemkv "github.com/kubewharf/kubebrain/pkg/storage/memkv"
)

func TestWatchesSharingAStreamSurviveAConsumerPause(t *testing.T) {
	if os.Getenv("KB_WATCH_STREAM") == "" {
		t.Skip("run by kbcheck (C05) with KB_WATCH_STREAM=1; not part of the race workloads")
	}
	fs := flag.NewFlagSet("klog", flag.ContinueOnError)
	klog.InitFlags(fs)
	_ = fs.Set("logtostderr", "false")
	_ = fs.Set("stderrthreshold", "FATAL")
	klog.SetOutput(io.Discard)

	// a leader over the in-memory engine, served on loopback
	m := mock.NewMinimalMetrics(gomock.NewController(t))
	be := backend.NewBackend(imemkv.NewKvStorage(), backend.Config{Prefix: "/registry", Identity: "n", EnableEtcdCompatibility: true}, m)
	be.SetCurrentRevision(100)
	lis, err := net.Listen("tcp", "127.0.0.1:0")
	if err != nil {
		t.Fatal(err)
	}
	le := &leader.Stub{ElectionInfo: leader.ElectionInfo{IsLeader: true, LeaderAddress: lis.Addr().String()}}
	gs := grpc.NewServer()
	etcd.New(be, m, service.NewPeerService(le, m, be, service.Config{})).Register(gs)
	go func() { _ = gs.Serve(lis) }()
	defer gs.Stop()

	// a plain gRPC client with the default (static 64 KB) flow-control windows
	conn, err := grpc.Dial(lis.Addr().String(), grpc.WithInsecure(),
		grpc.WithInitialWindowSize(65535), grpc.WithInitialConnWindowSize(65535),
		grpc.WithDefaultCallOptions(grpc.MaxCallRecvMsgSize(math.MaxInt32)))
	if err != nil {
		t.Fatal(err)
	}
	defer conn.Close()
	ctx, cancel := context.WithTimeout(context.Background(), 120*time.Second)
	defer cancel()

	const watches, objects = 4, 40
	stream, err := etcdserverpb.NewWatchClient(conn).Watch(ctx)
	if err != nil {
		t.Fatal(err)
	}
	got := map[int64]int{}       // watch id -> events received
	closed := map[int64]bool{}   // watch id -> `canceled` received
	lastRev := map[int64]int64{} // watch id -> revision of the last event received
	for i := 0; i < watches; i++ {
		if err := stream.Send(&etcdserverpb.WatchRequest{RequestUnion: &etcdserverpb.WatchRequest_CreateRequest{
			CreateRequest: &etcdserverpb.WatchCreateRequest{Key: []byte("/registry/pods/"), RangeEnd: []byte("/registry/pods0"), PrevKv: true}}}); err != nil {
			t.Fatal(err)
		}
		resp, err := stream.Recv()
		if err != nil || !resp.Created {
			t.Fatalf("watch create: %v %v", resp, err)
		}
		got[resp.WatchId] = 0
	}

	kvc := etcdserverpb.NewKVClient(conn)
	val := []byte(strings.Repeat("x", 16<<10))
	create := func(name string) int64 {
		key := []byte("/registry/pods/ns/" + name)
		resp, err := kvc.Txn(ctx, &etcdserverpb.TxnRequest{
			Compare: []*etcdserverpb.Compare{{Key: key, Target: etcdserverpb.Compare_MOD, Result: etcdserverpb.Compare_EQUAL,
				TargetUnion: &etcdserverpb.Compare_ModRevision{ModRevision: 0}}},
			Success: []*etcdserverpb.RequestOp{{Request: &etcdserverpb.RequestOp_RequestPut{RequestPut: &etcdserverpb.PutRequest{Key: key, Value: val}}}},
		})
		if err != nil || !resp.Succeeded {
			t.Fatalf("create %s: %v %v", name, resp, err)
		}
		for be.GetCurrentRevision() < uint64(resp.Header.Revision) {
			time.Sleep(time.Millisecond)
		}
		return resp.Header.Revision
	}

	// the consumer resumes and reads as fast as it can
	type message struct {
		resp *etcdserverpb.WatchResponse
		err  error
	}
	msgs := make(chan message, 10000)
	var paused int32 // 1: the consumer does not take messages off the stream
	go func() {
		for {
			for atomic.LoadInt32(&paused) == 1 {
				time.Sleep(time.Millisecond)
			}
			resp, err := stream.Recv()
			msgs <- message{resp, err}
			if err != nil {
				return
			}
		}
	}()
	// drain reads until every open watch has `want` events or nothing has arrived for 5 s
	drain := func(want int) {
		quiet := time.NewTimer(5 * time.Second)
		defer quiet.Stop()
		for {
			done := true
			for id, n := range got {
				if n < want && !closed[id] {
					done = false
				}
			}
			if done {
				return
			}
			select {
			case m := <-msgs:
				if m.err != nil {
					t.Fatalf("watch stream broke: %v", m.err)
				}
				if m.resp.Canceled {
					closed[m.resp.WatchId] = true
				}
				for _, e := range m.resp.Events {
					if e.Kv.ModRevision <= lastRev[m.resp.WatchId] {
						t.Errorf("watch %d: event at %d after %d", m.resp.WatchId, e.Kv.ModRevision, lastRev[m.resp.WatchId])
					}
					lastRev[m.resp.WatchId] = e.Kv.ModRevision
				}
				got[m.resp.WatchId] += len(m.resp.Events)
				if !quiet.Stop() {
					<-quiet.C
				}
				quiet.Reset(5 * time.Second)
			case <-quiet.C:
				return
			}
		}
	}
	var ids []int64
	for id := range got {
		ids = append(ids, id)
	}
	sort.Slice(ids, func(i, j int) bool { return ids[i] < ids[j] })

	// up to 5 rounds of: the consumer pauses (nobody takes messages off the stream) while 40 objects of 16 KB are
	// created one after the other; then it resumes and reads as fast as it can
	written := 0
	for round := 1; round <= 5; round++ {
		atomic.StoreInt32(&paused, 1) // (a Recv already waiting still takes one message)
		for i := 0; i < objects; i++ {
			create(fmt.Sprintf("r%d-p%03d", round, i))
		}
		written += objects
		time.Sleep(500 * time.Millisecond)
		atomic.StoreInt32(&paused, 0)
		drain(written)
		stuck := false
		for _, id := range ids {
			t.Logf("round %d, consumer resumed: watch %d has received %d of %d events (canceled=%v)", round, id, got[id], written, closed[id])
			if got[id] < written && !closed[id] {
				stuck = true
			}
		}
		if stuck {
			break
		}
	}

	// one more object, written while the consumer is reading: every open watch must deliver it (and what it
	// still owes) or be closed
	rev := create("late")
	written++
	drain(written)
	for _, id := range ids {
		if got[id] < written && !closed[id] {
			t.Errorf("C05: watch %d (prefix /registry/pods/, from 'now') delivered %d of the %d creates, the last at revision %d; "+
				"the create at revision %d and everything after its last event never arrive although the consumer has been reading for more than 5 s, "+
				"and the watch was not cancelled (stream open)", id, got[id], written, lastRev[id], rev)
		}
	}
}

// TestWatchIdsAndCancelsOnOneStream (C05 / C16 / C13, run by kbcheck with KB_WATCH_STREAM=1): several watches on ONE real gRPC
// stream. (1) the id handed to a new watch is never the id of a watch that is still live on the stream - also after a watch
// that is not the newest has ended - and every event arrives under the id of the watch whose prefix it matches; (2) a watch is
// ended with exactly one `canceled` response, also when the server's own refusal of a range stream (negative start revision
// without a range end) overlaps the client's cancel request for the same id.
func TestWatchIdsAndCancelsOnOneStream(t *testing.T) {
	if os.Getenv("KB_WATCH_STREAM") == "" {
		t.Skip("run by kbcheck (C05) with KB_WATCH_STREAM=1; not part of the race workloads")
	}
	fs := flag.NewFlagSet("klog", flag.ContinueOnError)
	klog.InitFlags(fs)
	_ = fs.Set("logtostderr", "false")
	_ = fs.Set("stderrthreshold", "FATAL")
	klog.SetOutput(io.Discard)
	m := mock.NewMinimalMetrics(gomock.NewController(t))
	be := backend.NewBackend(imemkv.NewKvStorage(), backend.Config{Prefix: "/registry", Identity: "n", EnableEtcdCompatibility: true}, m)
	be.SetCurrentRevision(100)
	lis, err := net.Listen("tcp", "127.0.0.1:0")
	if err != nil {
		t.Fatal(err)
	}
	le := &leader.Stub{ElectionInfo: leader.ElectionInfo{IsLeader: true, LeaderAddress: lis.Addr().String()}}
	gs := grpc.NewServer()
	etcd.New(be, m, service.NewPeerService(le, m, be, service.Config{})).Register(gs)
	go func() { _ = gs.Serve(lis) }()
	defer gs.Stop()
	conn, err := grpc.Dial(lis.Addr().String(), grpc.WithInsecure(), grpc.WithDefaultCallOptions(grpc.MaxCallRecvMsgSize(math.MaxInt32)))
	if err != nil {
		t.Fatal(err)
	}
	defer conn.Close()
	ctx, cancel := context.WithTimeout(context.Background(), 120*time.Second)
	defer cancel()
	stream, err := etcdserverpb.NewWatchClient(conn).Watch(ctx)
	if err != nil {
		t.Fatal(err)
	}
	msgs := make(chan *etcdserverpb.WatchResponse, 100000)
	go func() {
		for {
			resp, err := stream.Recv()
			if err != nil {
				close(msgs)
				return
			}
			msgs <- resp
		}
	}()
	next := func(d time.Duration) *etcdserverpb.WatchResponse {
		select {
		case r, ok := <-msgs:
			if !ok {
				return nil
			}
			return r
		case <-time.After(d):
			return nil
		}
	}
	createWatch := func(prefix string) int64 {
		end := []byte(prefix)
		end[len(end)-1]++
		if err := stream.Send(&etcdserverpb.WatchRequest{RequestUnion: &etcdserverpb.WatchRequest_CreateRequest{
			CreateRequest: &etcdserverpb.WatchCreateRequest{Key: []byte(prefix), RangeEnd: end, PrevKv: true}}}); err != nil {
			t.Fatal(err)
		}
		for {
			r := next(10 * time.Second)
			if r == nil {
				t.Fatalf("watch create on %s: no answer", prefix)
			}
			if r.Created {
				return r.WatchId
			}
		}
	}
	kvc := etcdserverpb.NewKVClient(conn)
	put := func(key string) {
		k := []byte(key)
		resp, err := kvc.Txn(ctx, &etcdserverpb.TxnRequest{
			Compare: []*etcdserverpb.Compare{{Key: k, Target: etcdserverpb.Compare_MOD, Result: etcdserverpb.Compare_EQUAL,
				TargetUnion: &etcdserverpb.Compare_ModRevision{ModRevision: 0}}},
			Success: []*etcdserverpb.RequestOp{{Request: &etcdserverpb.RequestOp_RequestPut{RequestPut: &etcdserverpb.PutRequest{Key: k, Value: []byte("v")}}}},
		})
		if err != nil || !resp.Succeeded {
			t.Fatalf("create %s: %v %v", key, resp, err)
		}
	}

	// (1) ids
	idA := createWatch("/registry/a/")
	idB := createWatch("/registry/b/")
	if idA == idB {
		t.Fatalf("two live watches on one stream share the id %d", idA)
	}
	if err := stream.Send(&etcdserverpb.WatchRequest{RequestUnion: &etcdserverpb.WatchRequest_CancelRequest{
		CancelRequest: &etcdserverpb.WatchCancelRequest{WatchId: idA}}}); err != nil {
		t.Fatal(err)
	}
	for {
		r := next(10 * time.Second)
		if r == nil {
			t.Fatalf("cancel of watch %d: no canceled response", idA)
		}
		if r.Canceled && r.WatchId == idA {
			break
		}
	}
	idC := createWatch("/registry/c/")
	if idC == idB {
		t.Errorf("the watch on /registry/c/ was given id %d, which the live watch on /registry/b/ still holds", idC)
	}
	put("/registry/b/x")
	put("/registry/c/y")
	seenB, seenC := false, false
	for !(seenB && seenC) {
		r := next(5 * time.Second)
		if r == nil {
			t.Errorf("events of /registry/b/x (seen=%v) and /registry/c/y (seen=%v) did not both arrive", seenB, seenC)
			break
		}
		for _, e := range r.Events {
			switch string(e.Kv.Key) {
			case "/registry/b/x":
				seenB = true
				if r.WatchId != idB {
					t.Errorf("the event of /registry/b/x arrived under watch id %d, the watch on /registry/b/ has id %d", r.WatchId, idB)
				}
			case "/registry/c/y":
				seenC = true
				if r.WatchId != idC {
					t.Errorf("the event of /registry/c/y arrived under watch id %d, the watch on /registry/c/ has id %d", r.WatchId, idC)
				}
			}
		}
	}

	// (2) exactly one `canceled` per watch: a range stream the server refuses (no range end), its id cancelled by the client at
	// the same moment. Ids are predictable on the unchanged tree (a process-wide counter); where they are not, the cancel
	// names an id that does not exist and only the server's own `canceled` is counted.
	rounds := 150
	double := 0
	last := idC
	for i := 0; i < rounds && double == 0; i++ {
		guess := last + 1
		if err := stream.Send(&etcdserverpb.WatchRequest{RequestUnion: &etcdserverpb.WatchRequest_CreateRequest{
			CreateRequest: &etcdserverpb.WatchCreateRequest{Key: []byte("/registry/r/"), StartRevision: -100}}}); err != nil {
			t.Fatal(err)
		}
		if err := stream.Send(&etcdserverpb.WatchRequest{RequestUnion: &etcdserverpb.WatchRequest_CancelRequest{
			CancelRequest: &etcdserverpb.WatchCancelRequest{WatchId: guess}}}); err != nil {
			t.Fatal(err)
		}
		canceled := map[int64]int{}
		var id int64 = -1
		deadline := time.After(3 * time.Second)
	collect:
		for {
			select {
			case r, ok := <-msgs:
				if !ok {
					t.Fatalf("round %d: the stream broke", i)
				}
				if r.Created && id < 0 {
					id = r.WatchId
				}
				if r.Canceled {
					canceled[r.WatchId]++
				}
			case <-time.After(40 * time.Millisecond):
				if id >= 0 && canceled[id] >= 1 {
					break collect
				}
			case <-deadline:
				break collect
			}
		}
		if id < 0 || canceled[id] == 0 {
			t.Errorf("round %d: a range stream without a range end was not answered created + canceled (id %d, canceled %v)", i, id, canceled)
			break
		}
		if canceled[id] > 1 {
			double++
			t.Errorf("round %d: watch %d was ended with %d `canceled` responses, want exactly 1 (clientv3 closes a channel per `canceled`: the second one kills the client)", i, id, canceled[id])
		}
		last = id
	}
	t.Logf("watch-ids: ids %d %d %d on one stream; %d refused range streams each cancelled by the client at the same moment", idA, idB, idC, rounds)
}
