//go:build verif
// +build verif

package racetest

// Dynamic cross-check of the revision allocator pkg/backend/tso (SUPPORTING EVIDENCE ONLY: the proof is
// lean/KB/Props/C18Cas.lean over the atomic-instruction LTS lean/KB/TsoCas.lean, for all interleavings).
// N goroutines call Commit(r) / Deal() / GetRevision() on the REAL tso.NewTSO() and the theorems'
// observable consequences are asserted on what they saw:
//
//	committed_monotone / get_results_monotone_in_real_time  GetRevision samples of one goroutine never decrease
//	deals_unique                                            all Deal results are pairwise distinct
//	deal_results_increase_in_real_time                      Deal results of one goroutine increase strictly
//	commit_postcondition                                    after its own Commit(r) a goroutine reads GetRevision() >= r; after
//	                                                        all Commits are done GetRevision() >= max r and the cursor >= max r
//	deal_after_commit_is_above                              a goroutine's Deal() after its own Commit(r) returns > r; the Deal()
//	                                                        after all Commits returns > max r
//
// Run by kbcheck (props c15 / c18 via kbcheck/tsocas.py; prop c19 runs the whole package under -race).
// Kept well under 2 s (KB_TSO_MS, default 300 ms of rounds).

import (
	"fmt"
	"math/rand"
	"os"
	"strconv"
	"sync"
	"testing"
	"time"

	"github.com/kubewharf/kubebrain/pkg/backend/tso"
)

type tsoLog struct {
	deals    []uint64
	maxR     uint64
	ops      int
	problems []string
}

func tsoRound(t *testing.T, rng *rand.Rand, workers, opsPer int, start uint64, useInit bool) (ops int, deals int) {
	ts := tso.NewTSO()
	if useInit {
		ts.Init(start) // before any goroutine is started: Init never runs concurrently with the routines
	} else if start > 0 {
		ts.Commit(start) // how production code installs a start revision
	}
	logs := make([]*tsoLog, workers)
	seeds := make([]int64, workers)
	for i := range seeds {
		seeds[i] = rng.Int63()
	}
	var wg sync.WaitGroup
	begin := make(chan struct{})
	for w := 0; w < workers; w++ {
		logs[w] = &tsoLog{}
		wg.Add(1)
		go func(l *tsoLog, r *rand.Rand) {
			defer wg.Done()
			<-begin
			var lastGet, lastDeal uint64
			bad := func(format string, a ...interface{}) {
				if len(l.problems) < 5 {
					l.problems = append(l.problems, fmt.Sprintf(format, a...))
				}
			}
			get := func() uint64 {
				v := ts.GetRevision()
				if v < lastGet {
					bad("GetRevision went back: %d after %d", v, lastGet)
				}
				lastGet = v
				return v
			}
			deal := func() uint64 {
				v, err := ts.Deal()
				if err != nil {
					bad("Deal error %v", err)
				}
				if v <= lastDeal {
					bad("Deal results of one goroutine not increasing: %d after %d", v, lastDeal)
				}
				lastDeal = v
				l.deals = append(l.deals, v)
				return v
			}
			for i := 0; i < opsPer; i++ {
				l.ops++
				switch k := r.Intn(10); {
				case k < 3:
					deal()
				case k < 6:
					get()
				default:
					// a revision near the registers' current values, so that the compare-and-swaps really contend:
					// around the committed revision (late / out-of-order follower syncs) or above the deal cursor
					// (a new leader's start revision)
					var rev uint64
					if r.Intn(3) == 0 {
						rev = lastDeal + uint64(r.Intn(12))
					} else {
						c := ts.GetRevision()
						d := uint64(r.Intn(8))
						if r.Intn(2) == 0 && c > d {
							rev = c - d
						} else {
							rev = c + d
						}
					}
					ts.Commit(rev)
					if rev > l.maxR {
						l.maxR = rev
					}
					if v := get(); v < rev {
						bad("after Commit(%d) GetRevision() = %d", rev, v)
					}
					if r.Intn(2) == 0 {
						if v := deal(); v <= rev {
							bad("after Commit(%d) Deal() = %d", rev, v)
						}
					}
				}
			}
		}(logs[w], rand.New(rand.NewSource(seeds[w])))
	}
	close(begin)
	wg.Wait()
	var maxR uint64 = start
	seen := map[uint64]int{}
	for w, l := range logs {
		ops += l.ops
		for _, p := range l.problems {
			t.Errorf("tso-cas: goroutine %d: %s", w, p)
		}
		if l.maxR > maxR {
			maxR = l.maxR
		}
		for _, v := range l.deals {
			deals++
			if o, dup := seen[v]; dup {
				t.Errorf("tso-cas: Deal result %d handed out twice (goroutines %d and %d)", v, o, w)
			}
			seen[v] = w
		}
	}
	if v := ts.GetRevision(); v < maxR {
		t.Errorf("tso-cas: all Commits done, max r = %d, but committed revision = %d", maxR, v)
	}
	if v, _ := ts.Deal(); v <= maxR {
		t.Errorf("tso-cas: all Commits done, max r = %d, but the next Deal() = %d (deal cursor below max r)", maxR, v)
	}
	return
}

func TestTsoCas(t *testing.T) {
	ms := 300
	if v, err := strconv.Atoi(os.Getenv("KB_TSO_MS")); err == nil && v > 0 {
		ms = v
	}
	rng := rand.New(rand.NewSource(seed()))
	deadline := time.Now().Add(time.Duration(ms) * time.Millisecond)
	rounds, ops, deals := 0, 0, 0
	for rounds < 3 || time.Now().Before(deadline) {
		workers := 2 + rng.Intn(7)
		start := uint64(0)
		if rng.Intn(3) != 0 {
			start = uint64(rng.Intn(1000))
		}
		o, d := tsoRound(t, rng, workers, 200+rng.Intn(1500), start, rounds%2 == 1)
		ops += o
		deals += d
		rounds++
		if t.Failed() || rounds >= 4000 {
			break
		}
	}
	t.Logf("tso-cas: rounds=%d ops=%d deals=%d (Commit/Deal/GetRevision on tso.NewTSO(), up to 8 goroutines)", rounds, ops, deals)
}
