//go:build verif
// +build verif

package racetest

// Dynamic cross-check of the revision allocator pkg/backend/tso (SUPPORTING EVIDENCE ONLY: the proof is
// lean/KB/Props/C18Cas.lean over the atomic-instruction LTS lean/KB/TsoCas.lean, for all interleavings).
// N goroutines call Commit(r) / Deal() / GetRevision() on the REAL tso.NewTSO() and the theorems'
// observable consequences are asserted on what they saw:
//
//	committed_monotone / get_results_monotone_in_real_time  GetRevision samples of one goroutine never decrease
//	deals_unique                                            all Deal results are pairwise distinct
//	deal_results_increase_in_real_time                      Deal results of one goroutine increase strictly
//	commit_postcondition                                    after its own Commit(r) a goroutine reads GetRevision() >= r; after
//	                                                        all Commits are done GetRevision() >= max r and the cursor >= max r
//	deal_after_commit_is_above                              a goroutine's Deal() after its own Commit(r) returns > r; the Deal()
//	                                                        after all Commits returns > max r
//	dealt_stays_in_window                                   a Deal result v and a GetRevision() sample c taken AFTER it: v <= c + W - 1
//	cursor_stays_in_window / refused_only_when_window_full  TestTsoWindow: Init(0), nobody commits: exactly W-1 revisions are dealt by
//	                                                        concurrent goroutines, every further Deal is refused; one Commit(k) frees
//	                                                        exactly k more; with a lagging committer every dealt revision stays in the window
//
// W = tsoWindow below = tso.MaxInFlight (not referenced by name, so that this file also compiles against a tree from
// before 624b477, where the assertions then fail on a concrete input; that the constant in the source has this value and
// equals the backend's slot ring is KB.C18Cas.source_matches_lts).
//
// Run by kbcheck (props c15 / c18 via kbcheck/tsocas.py; prop c19 runs the whole package under -race).
// Kept well under 2 s (KB_TSO_MS, default 300 ms of rounds).

import (
	"fmt"
	"math/rand"
	"os"
	"runtime"
	"strconv"
	"sync"
	"sync/atomic"
	"testing"
	"time"

	"github.com/kubewharf/kubebrain/pkg/backend/tso"
)

// tsoWindow is tso.MaxInFlight (see the package comment of this file).
const tsoWindow = 100000

type tsoLog struct {
	deals    []uint64
	maxR     uint64
	ops      int
	problems []string
}

func tsoRound(t *testing.T, rng *rand.Rand, workers, opsPer int, start uint64, useInit bool) (ops int, deals int) {
	ts := tso.NewTSO()
	if useInit {
		ts.Init(start) // before any goroutine is started: Init never runs concurrently with the routines
	} else if start > 0 {
		ts.Commit(start) // how production code installs a start revision
	}
	logs := make([]*tsoLog, workers)
	seeds := make([]int64, workers)
	for i := range seeds {
		seeds[i] = rng.Int63()
	}
	var wg sync.WaitGroup
	begin := make(chan struct{})
	for w := 0; w < workers; w++ {
		logs[w] = &tsoLog{}
		wg.Add(1)
		go func(l *tsoLog, r *rand.Rand) {
			defer wg.Done()
			<-begin
			var lastGet, lastDeal uint64
			bad := func(format string, a ...interface{}) {
				if len(l.problems) < 5 {
					l.problems = append(l.problems, fmt.Sprintf(format, a...))
				}
			}
			get := func() uint64 {
				v := ts.GetRevision()
				if v < lastGet {
					bad("GetRevision went back: %d after %d", v, lastGet)
				}
				lastGet = v
				return v
			}
			deal := func() uint64 {
				v, err := ts.Deal()
				if err != nil {
					// fewer than tsoWindow-1 revisions are dealt in a round and every Commit raises committed before deal:
					// the window is never full here (cursor_stays_in_window), a refusal would be unjustified
					bad("Deal refused (%v) although fewer than %d revisions were dealt in this round", err, tsoWindow-1)
					return lastDeal
				}
				if c := ts.GetRevision(); v >= c+tsoWindow {
					bad("Deal() = %d with committed revision %d afterwards: outside the window of %d", v, c, tsoWindow)
				}
				if v <= lastDeal {
					bad("Deal results of one goroutine not increasing: %d after %d", v, lastDeal)
				}
				lastDeal = v
				l.deals = append(l.deals, v)
				return v
			}
			for i := 0; i < opsPer; i++ {
				l.ops++
				switch k := r.Intn(10); {
				case k < 3:
					deal()
				case k < 6:
					get()
				default:
					// a revision near the registers' current values, so that the compare-and-swaps really contend:
					// around the committed revision (late / out-of-order follower syncs) or above the deal cursor
					// (a new leader's start revision)
					var rev uint64
					if r.Intn(3) == 0 {
						rev = lastDeal + uint64(r.Intn(12))
					} else {
						c := ts.GetRevision()
						d := uint64(r.Intn(8))
						if r.Intn(2) == 0 && c > d {
							rev = c - d
						} else {
							rev = c + d
						}
					}
					ts.Commit(rev)
					if rev > l.maxR {
						l.maxR = rev
					}
					if v := get(); v < rev {
						bad("after Commit(%d) GetRevision() = %d", rev, v)
					}
					if r.Intn(2) == 0 {
						if v := deal(); v <= rev && len(l.problems) == 0 {
							bad("after Commit(%d) Deal() = %d", rev, v)
						}
					}
				}
			}
		}(logs[w], rand.New(rand.NewSource(seeds[w])))
	}
	close(begin)
	wg.Wait()
	var maxR uint64 = start
	seen := map[uint64]int{}
	for w, l := range logs {
		ops += l.ops
		for _, p := range l.problems {
			t.Errorf("tso-cas: goroutine %d: %s", w, p)
		}
		if l.maxR > maxR {
			maxR = l.maxR
		}
		for _, v := range l.deals {
			deals++
			if o, dup := seen[v]; dup {
				t.Errorf("tso-cas: Deal result %d handed out twice (goroutines %d and %d)", v, o, w)
			}
			seen[v] = w
		}
	}
	if v := ts.GetRevision(); v < maxR {
		t.Errorf("tso-cas: all Commits done, max r = %d, but committed revision = %d", maxR, v)
	}
	if v, err := ts.Deal(); err != nil || v <= maxR {
		t.Errorf("tso-cas: all Commits done, max r = %d, but the next Deal() = %d (deal cursor below max r)", maxR, v)
	}
	return
}

func TestTsoCas(t *testing.T) {
	ms := 300
	if v, err := strconv.Atoi(os.Getenv("KB_TSO_MS")); err == nil && v > 0 {
		ms = v
	}
	rng := rand.New(rand.NewSource(seed()))
	deadline := time.Now().Add(time.Duration(ms) * time.Millisecond)
	rounds, ops, deals := 0, 0, 0
	for rounds < 3 || time.Now().Before(deadline) {
		workers := 2 + rng.Intn(7)
		start := uint64(0)
		if rng.Intn(3) != 0 {
			start = uint64(rng.Intn(1000))
		}
		o, d := tsoRound(t, rng, workers, 200+rng.Intn(1500), start, rounds%2 == 1)
		ops += o
		deals += d
		rounds++
		if t.Failed() || rounds >= 4000 {
			break
		}
	}
	t.Logf("tso-cas: rounds=%d ops=%d deals=%d (Commit/Deal/GetRevision on tso.NewTSO(), up to 8 goroutines)", rounds, ops, deals)
}

// dealUntilRefused: `workers` goroutines call Deal() until it refuses (or a cap far above what the window allows is
// reached); returns everything dealt and the number of refusals seen.
func dealUntilRefused(ts tso.TSO, workers, capEach int) (dealt []uint64, refused int) {
	var mu sync.Mutex
	var wg sync.WaitGroup
	begin := make(chan struct{})
	for w := 0; w < workers; w++ {
		wg.Add(1)
		go func() {
			defer wg.Done()
			<-begin
			var mine []uint64
			ref := 0
			for i := 0; i < capEach; i++ {
				v, err := ts.Deal()
				if err != nil {
					ref++
					break
				}
				mine = append(mine, v)
			}
			mu.Lock()
			dealt = append(dealt, mine...)
			refused += ref
			mu.Unlock()
		}()
	}
	close(begin)
	wg.Wait()
	return
}

func checkDealtRange(t *testing.T, what string, dealt []uint64, from, to uint64) {
	// exactly the revisions from..to, each once
	if uint64(len(dealt)) != to-from+1 {
		t.Errorf("tso-window: %s: %d revisions dealt, want exactly %d (%d..%d)", what, len(dealt), to-from+1, from, to)
	}
	seen := make(map[uint64]bool, len(dealt))
	for _, v := range dealt {
		if v < from || v > to {
			t.Errorf("tso-window: %s: revision %d dealt, outside %d..%d", what, v, from, to)
			return
		}
		if seen[v] {
			t.Errorf("tso-window: %s: revision %d dealt twice", what, v)
			return
		}
		seen[v] = true
	}
}

func TestTsoWindow(t *testing.T) {
	const workers = 8
	capEach := tsoWindow/workers + 4000
	// 1. nobody commits: exactly tsoWindow-1 revisions, then refusals
	ts := tso.NewTSO()
	ts.Init(0)
	dealt, refused := dealUntilRefused(ts, workers, capEach)
	checkDealtRange(t, "committed=0", dealt, 1, tsoWindow-1)
	if v, err := ts.Deal(); err == nil {
		t.Errorf("tso-window: committed=0, %d revisions dealt: Deal() = %d, want a refusal", len(dealt), v)
	}
	if c := ts.GetRevision(); c != 0 {
		t.Errorf("tso-window: committed revision moved to %d without a Commit", c)
	}
	// 2. Commit(k) frees exactly k slots (the refusals above consumed nothing)
	const k = 1234
	ts.Commit(k)
	dealt2, refused2 := dealUntilRefused(ts, workers, capEach)
	checkDealtRange(t, "committed=1234", dealt2, tsoWindow, tsoWindow-1+k)
	if v, err := ts.Deal(); err == nil {
		t.Errorf("tso-window: committed=%d: Deal() = %d, want a refusal", k, v)
	}
	// 3. a committer lagging behind concurrent dealers: every dealt revision is inside the window of a committed
	// revision sampled after it; dealers that are refused yield and try again
	ts = tso.NewTSO()
	ts.Init(0)
	const target = 3 * tsoWindow
	var hi uint64 // highest revision dealt so far (atomic max), what the committer follows
	var wg sync.WaitGroup
	var mu sync.Mutex
	total, retries := 0, 0
	var problems []string
	stop := make(chan struct{})
	done := make(chan struct{})
	deadline := time.Now().Add(5 * time.Second)
	for w := 0; w < workers; w++ {
		wg.Add(1)
		go func() {
			defer wg.Done()
			n, r := 0, 0
			var bad []string
			var last uint64
			for n < target/workers {
				v, err := ts.Deal()
				if err != nil {
					r++
					if r%64 == 0 && time.Now().After(deadline) {
						break
					}
					time.Sleep(20 * time.Microsecond)
					continue
				}
				n++
				if c := ts.GetRevision(); v >= c+tsoWindow && len(bad) < 3 {
					bad = append(bad, fmt.Sprintf("Deal() = %d with committed revision %d afterwards: outside the window", v, c))
				}
				if v <= last && len(bad) < 3 {
					bad = append(bad, fmt.Sprintf("Deal() = %d after %d", v, last))
				}
				last = v
				for {
					h := atomic.LoadUint64(&hi)
					if h >= v || atomic.CompareAndSwapUint64(&hi, h, v) {
						break
					}
				}
			}
			mu.Lock()
			total += n
			retries += r
			problems = append(problems, bad...)
			mu.Unlock()
		}()
	}
	go func() {
		// the committer: follows the dealers at a distance of three quarters of the window, so that the window
		// fills up (refusals) whenever the dealers are faster than it
		defer close(done)
		for {
			select {
			case <-stop:
				return
			default:
			}
			if h := atomic.LoadUint64(&hi); h > 3*tsoWindow/4 {
				ts.Commit(h - 3*tsoWindow/4)
			}
			time.Sleep(300 * time.Microsecond)
		}
	}()
	wg.Wait()
	close(stop)
	<-done
	for _, p := range problems {
		t.Errorf("tso-window: lagging committer: %s", p)
	}
	if total != target/workers*workers {
		t.Errorf("tso-window: lagging committer: only %d of %d revisions dealt (refusals never ended)", total, target/workers*workers)
	}
	t.Logf("tso-window: W=%d: dealt %d then %d refusals with committed=0; %d more after Commit(%d), %d refusals; lagging committer: %d dealt, %d refusals retried",
		tsoWindow, len(dealt), refused+1, len(dealt2), k, refused2+1, total, retries)
}

// TestTsoWindowEdge: the window is FULL and a committer frees it a few revisions at a time while many dealers keep asking:
// most Deal calls are refused, a few succeed right at the edge. Whatever the interleaving of refusals, successes and
// commits, no revision is dealt twice and nothing is dealt outside the window (KB.C18Cas: deal_unique, dealt_stays_in_ring
// - a refusal changes nothing).
func TestTsoWindowEdge(t *testing.T) {
	const dealers = 12
	rounds := 30
	totalDealt, totalRefused := 0, 0
	for round := 0; round < rounds && !t.Failed(); round++ {
		ts := tso.NewTSO()
		ts.Init(0)
		first, _ := dealUntilRefused(ts, 4, tsoWindow/4+4000)
		if len(first) != tsoWindow-1 {
			t.Fatalf("tso-window-edge: %d revisions dealt before the first refusal, want %d", len(first), tsoWindow-1)
		}
		var stop int32
		var wg sync.WaitGroup
		got := make([][]uint64, dealers)
		refused := make([]int, dealers)
		for d := 0; d < dealers; d++ {
			wg.Add(1)
			go func(d int) {
				defer wg.Done()
				for atomic.LoadInt32(&stop) == 0 {
					v, err := ts.Deal()
					if err != nil {
						refused[d]++
						continue
					}
					got[d] = append(got[d], v)
				}
			}(d)
		}
		// the committer: 400 small steps
		var committed uint64
		for step := 0; step < 400; step++ {
			committed += uint64(1 + step%3)
			ts.Commit(committed)
			for i := 0; i < 50; i++ {
				runtime.Gosched()
			}
		}
		atomic.StoreInt32(&stop, 1)
		wg.Wait()
		seen := make(map[uint64]int, 2048)
		n := 0
		for d := range got {
			var last uint64
			for _, v := range got[d] {
				n++
				if v <= last {
					t.Errorf("tso-window-edge: round %d: one caller was dealt %d after %d", round, v, last)
				}
				last = v
				if v < tsoWindow {
					t.Errorf("tso-window-edge: round %d: revision %d dealt again (the first %d were dealt before)", round, v, tsoWindow-1)
				}
				if other, dup := seen[v]; dup {
					t.Errorf("tso-window-edge: round %d: revision %d dealt to caller %d AND caller %d", round, v, other, d)
				}
				seen[v] = d
				if v >= committed+tsoWindow {
					t.Errorf("tso-window-edge: round %d: revision %d dealt with committed revision %d: outside the window", round, v, committed)
				}
			}
			totalRefused += refused[d]
		}
		totalDealt += n
	}
	t.Logf("tso-window-edge: W=%d: %d rounds, %d dealers at a full window against a committer: %d dealt, %d refusals",
		tsoWindow, rounds, dealers, totalDealt, totalRefused)
}
