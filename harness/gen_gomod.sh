#!/bin/sh
# regenerate go.mod from /repo/go.mod (copies its require and replace blocks) — run on every build
set -e
cd "$(dirname "$0")"
REPO=${REPO:-/repo}
{
  echo "module kbverif"
  echo
  echo "go 1.14"
  echo
  echo "require github.com/kubewharf/kubebrain v0.0.0"
  echo
  awk '/^require \(/{f=1} f{print} /^\)/{if(f){f=0}}' "$REPO/go.mod"
  echo
  echo "replace github.com/kubewharf/kubebrain => $REPO"
  echo
  awk '/^replace \(/{f=1} f{print} /^\)/{if(f){f=0}}' "$REPO/go.mod"
} > go.mod
cp "$REPO/go.sum" go.sum
