module kbverif

go 1.14

require github.com/kubewharf/kubebrain v0.0.0

require (
	github.com/dgraph-io/badger v1.6.2
	github.com/evanphx/json-patch v0.5.2 // indirect
	github.com/golang/groupcache v0.0.0-20210331224755-41bb18bfe9da // indirect
	github.com/golang/mock v1.5.0
	github.com/google/btree v1.0.1 // indirect
	github.com/google/uuid v1.3.0 // indirect
	github.com/googleapis/gnostic v0.5.5 // indirect
	github.com/grpc-ecosystem/go-grpc-middleware v1.3.0 // indirect
	github.com/grpc-ecosystem/go-grpc-prometheus v1.2.0
	github.com/huandu/skiplist v1.1.0
	github.com/kr/text v0.2.0 // indirect
	github.com/kubewharf/kubebrain-client v0.2.1
	github.com/niemeyer/pretty v0.0.0-20200227124842-a10e7caefd8e // indirect
	github.com/pingcap/kvproto v0.0.0-20220106070556-3fa8fa04f898
	github.com/pkg/errors v0.9.1
	github.com/prometheus/client_golang v1.12.1
	github.com/prometheus/client_model v0.2.0
	github.com/soheilhy/cmux v0.1.5
	github.com/spf13/cast v1.3.0
	github.com/spf13/cobra v1.1.3
	github.com/spf13/pflag v1.0.5
	github.com/stretchr/testify v1.7.0
	github.com/tikv/client-go/v2 v2.0.1
	go.etcd.io/etcd/api/v3 v3.5.2
	go.etcd.io/etcd/client/v3 v3.5.2
	golang.org/x/sync v0.0.0-20210220032951-036812b2e83c
	golang.org/x/time v0.0.0-20211116232009-f0f3c7e86c11 // indirect
	google.golang.org/grpc v1.43.0
	gopkg.in/check.v1 v1.0.0-20200227125254-8fa46927fb4f // indirect
	gopkg.in/inf.v0 v0.9.1 // indirect
	k8s.io/api v0.20.4 // indirect
	k8s.io/apimachinery v0.20.4
	k8s.io/client-go v0.20.2
	k8s.io/component-base v0.20.2
	k8s.io/klog v0.3.0
	k8s.io/klog/v2 v2.4.0
	k8s.io/kube-openapi v0.0.0-00010101000000-000000000000 // indirect
)

replace github.com/kubewharf/kubebrain => /repo

replace (
	github.com/googleapis/gnostic => github.com/googleapis/gnostic v0.3.1
	google.golang.org/grpc => google.golang.org/grpc v1.38.0
	k8s.io/api => k8s.io/api v0.0.0-20191004102349-159aefb8556b
	k8s.io/apiextensions-apiserver => k8s.io/apiextensions-apiserver v0.0.0-20191004105649-b14e3c49469a
	k8s.io/apimachinery => k8s.io/apimachinery v0.0.0-20191004074956-c5d2f014d689
	k8s.io/apiserver => k8s.io/apiserver v0.0.0-20191109015554-8577c320c87f
	k8s.io/cli-runtime => k8s.io/cli-runtime v0.0.0-20191004110135-b9eb767d2e1a
	k8s.io/client-go => k8s.io/client-go v11.0.1-0.20191029005444-8e4128053008+incompatible
	k8s.io/cloud-provider => k8s.io/cloud-provider v0.0.0-20191002184608-9779a9fba520
	k8s.io/csi-translation-lib => k8s.io/csi-translation-lib v0.0.0-20191016015547-9213b55ba309
	k8s.io/kube-openapi => k8s.io/kube-openapi v0.0.0-20190228160746-b3a7cee44a30
	k8s.io/kubernetes => k8s.io/kubernetes v1.14.8
	k8s.io/metrics => k8s.io/metrics v0.0.0-20191004105854-2e8cf7d0888c
	k8s.io/utils => k8s.io/utils v0.0.0-20200327001022-6496210b90e8
)
