"""python3 -m kbcheck.seedreport — rewrites the section '## 6b.' of DESIGN.md from seeded/*/result.json"""
import json
import os
import re

VERIF = os.path.dirname(os.path.dirname(os.path.abspath(__file__)))


ROUNDS = """Eleven rounds of independent seeding (sub-agents in scratch worktrees of /repo; they see the twenty property texts, the list of
earlier changes so that nothing is repeated, and nothing of /verif): `Cnn-A/B` and `Cnn-A2/B2` one agent per property (rounds 1, 2);
`K01..K12` one agent per component (round 3); `S01..S10` per component with the instruction to damage what the recent `fix:` commits
established without reverting them (round 4); `R01..R12` per property again, for the properties with the fewest changes so far
(round 5: C02 C04 C06 C08 C10 C12 C13 C14 C15 C16 C19 C03). Every change compiles, passes the pinned suite and comes with a
demonstration that fails with it and passes without it (re-run here before the change was kept). After each round the changes no
check caught were used to WIDEN the generators - never to special-case the change:
round 4 -> hostile watch requests and short borders (C20), `fwd noleader` / `leader=none` (C18), the re-entrant lock fact (C19), native
first-read cases, single-key etcd ranges (C08), the 30001-event catch-up, cancel-once and the real-gRPC-stream test (C05), straddling /
sibling / mark-age Events (C17); round 5 (6 of 24 missed at first) -> the node's read-only election endpoints as `info` steps between
any two lock steps and RELEASE records (an Update without a Get in front of it) in every C14 regime (R08-A/B); take-overs of a released
or missing lock record with the started-leading callback ahead of the renew loop's first poll, and the engine-timestamp fault BELOW the
storage-metrics wrapper (C15; R09-A/B); a key space over 1100..1300 real mock-cluster regions (C13, C12; R06-B); the prev_kv of a DELETE
event on a watch served through a FOLLOWER (C16, C18; R10-B); the edge of a full dealing window under a dozen concurrent dealers
(`TestTsoWindowEdge`: a concrete duplicate for R01-A, which the broken shape fact of KB.C18Cas had reported without an input).
All 24 round-5 changes are caught now. Round 6 (`T01..T08`, per property: C01 C05 C07 C09 C11 C17 C18 C20; 8 of 16 missed at first,
all of them fault- or configuration-dependent) -> write batches that are begun and never brought to Commit are counted by the harness
wrapper (production: the in-memory engine holds its store mutex from BeginBatchWrite to Commit, such a node is wedged; the wrapper
begins lazily and had hidden it) and compaction requests in every order (C20, C08; T08-A); delete calls answered "outcome unknown"
(mask kind `u`) and a transient iterator error at every position of the compaction scan (C07; T03-A/B); the repair's READ failing
once (`step R f=rd`, model: `failed_get` keeps the head) and the regenerated fact that the repair waits `RetryInterval` for every
entry it examines (C09; T04-A/B - a commit that lands late is outside the fault oracle of the models, the fact is the tie);
compare-and-delete of a record removed after it was read (`itdel remove=1`, C11; T05-B); updates that carry a client lease and an
Event updated within its ttl on the native-ttl engines (whole or gone, never half; C17; T06-A/B). All 16 are caught now.
Round 7 (`M01..M10`, organised by MECHANISM instead of property: error handling on read paths / on write paths, configuration-dependent
branches, resource lifecycle, boundary sizes and numbers, etcd response construction, native handlers, follower paths under failure,
time, the adapters' less-used methods; 9 of 20 missed at first) -> the creator's re-read of the refusing record failing once (C01);
the native Compact handler over an engine whose commit is slow: reads below R are refused once it has ANSWERED (`commitdelay`, C08);
a count / list parked inside its scan while writes in the range complete: the answer is the snapshot at the revision its header names
(C03); conditional operations begun before a real committed change of their key (C11); a partition failing for good while the worker
of a slow partition is still scanning: one terminator, after the last batch, and the process survives (`iterslow`, C13); the node
restarted over the same data in mid-history (Badger closed and reopened: `reopen`, C13); the dropped slow watcher's context ending
afterwards (second DeleteWatcher) and the catch-up of a whole wrapped event cache of an odd size (C05); an Event written early in a
wall-clock second (C17); a burst of thousands of revisions right before a take-over (C15); the regenerated fact that the peer
/status handler reads its revision after the leader flag (C18). All 20 are caught now.
Round 8 (`N01..N06`, by mechanism again: metrics and logging on request paths, concurrency primitives, pagination / limits / count,
compaction bookkeeping, start-up / shutdown / leader-change sequencing, key handling outside the coder; 4 of 12 missed at first) ->
skipped-prefix configurations whose string order and directory order differ (`/a`, `/a-b`; C07); a page as large as newer
kube-apiservers ask for over a directory slightly larger (limit 10000 / 10020; C03); exactly as many streamed batches as the stream's
buffer holds with a consumer that starts late (the terminator must still come; C13); a take-over by a node that had served reads as
a follower (`campaign followed=`; C15). All 12 are caught now.
Round 9 (`P01..P06`: defaults and zero values, copy versus alias, retry loops and bounded attempts, the order of two statements in
places no earlier round had reordered, the etcd watch server and the proxy streams, cross-API consistency; 3 of 12 missed at first,
all three in the etcd watch server with SEVERAL watches on one stream) -> racetest `TestWatchIdsAndCancelsOnOneStream` on a real gRPC
stream (a new watch never gets the id of a live one, events arrive under the id of their own watch, one `canceled` per watch when the
server's refusal of a range stream overlaps the client's cancel) and the regenerated fact that `watcher.Cancel` forgets a watch in
the critical section in which it found it registered (KB.OrderC05, audited by C05, C13 and C16). All 12 are caught now.
Round 10 (`Q01..Q06`, per component, with an ADVERSARIAL brief: the seeders were told what kind of verifier watches the code - random
and stepped histories against a reference model on three engines, fault injection at the storage boundary, restarts, real election,
regenerated source facts, race detector - and asked for changes it is most likely to miss; 4 of 12 missed at first) -> the repair's
read failing with a SECOND unresolved write queued behind the head and a compaction request (the queue's order is what caps
compaction; C09); a page of a few 1 MiB objects (C03); two shape facts of the TiKV adapter (KB.OrderC11): the conflict re-run loop has
exactly its three exits - an extra exit on a cancelled context would report a failed condition nobody evaluated - and `Iter` uses the
snapshot as client-go hands it out (snapshot isolation; read-committed would let an acknowledged write be missing from a scan while
the commit of its secondary keys in another region is on its way). Both of these need events INSIDE one engine call, which the
harness cannot place: the facts are the tie, no failing input is found for them.
Round 11 (`V01..V06`, per property for the six properties with the fewest changes so far - C06 C10 C12 C14 C04 C08 - with the
instruction to prefer TWO COOPERATING SITES that each look fine alone; 3 of the 8 changes delivered were missed at first) -> several
watchers of different directories and a burst of writes that the sequencer hands to the hub as ONE batch (a filter that compacts the
shared batch in place takes events from the other watchers; C05 `gen_shared_batch`, C06 `shared_batch_case`; V01-A); skipped
directories up to the whole directory of the prefix (a compaction with nothing left to compact must still write its record; C08;
V06-B); requests whose caller is gone before the backend sees them (`gone=1`: an already cancelled context; a revision dealt for such
a request must still be resolved; C04 `gone_case`; V05-A). V02-A (a List fast path for [K, K+one byte) that forgot to look at the byte)
was caught by C03 and C16 with an input; C10, the property it was written against, now asks List itself for [K, K+c) over a family
of keys that extend one another (`enclosure_case`) and catches it too. While reading the scanner for this round one seeder pointed at a genuine defect of the unchanged tree - the guard against
lowering the compaction record held only when the record could be READ - which was reproduced, repaired (539af5f), modelled
(KB.CompactFault) and proved (KB.Props.C08Fault); its reverse is `fixrevert-539af5f`.
The table is regenerated from the `result.json` files.

"""


def main():
    rows = []
    d = os.path.join(VERIF, "seeded")
    for name in sorted(os.listdir(d)):
        p = os.path.join(d, name)
        if not os.path.isdir(p):
            continue
        meta = {}
        if os.path.exists(os.path.join(p, "meta.json")):
            try:
                meta = json.load(open(os.path.join(p, "meta.json")))
            except Exception:
                meta = {}
        subject = open(os.path.join(p, "subject.txt")).read().strip() if os.path.exists(os.path.join(p, "subject.txt")) else ""
        res = json.load(open(os.path.join(p, "result.json"))) if os.path.exists(os.path.join(p, "result.json")) else None
        what = (meta.get("summary") or ("reverse of: " + subject)).replace("|", "/").replace("\n", " ")
        if len(what) > 170:
            what = what[:167] + "..."
        needs = (meta.get("needs") or "").replace("|", "/").replace("\n", " ")
        if len(needs) > 120:
            needs = needs[:117] + "..."
        if res is None:
            det = "(not run yet)"
        else:
            parts = []
            for prop, r in sorted(res["checks"].items()):
                if r["exit"] != 0:
                    v = r["violations"][0] if r["violations"] else ""
                    kind = "no-failing-input-found" if "no-failing-input-found" in v else "failing input"
                    tag = re.sub(r".*/([^/ ]+)\.txt.*", r"\1", v) if v else "?"
                    parts.append("%s (%s: %s)" % (prop, kind, tag))
            ran = ",".join(sorted(res["checks"]))
            det = ("; ".join(parts) if parts else "MISSED") + " [ran: %s]" % ran
        rows.append("| %s | %s | %s | %s |" % (name, what, needs, det))
    table = "\n".join(rows)
    text = ("## 6b. Seeded changes and which checks catch them\n\n"
            "`seeded/<id>/` holds each change (`patch.diff`), its demonstration, `meta.json` (what it breaks, what it needs to manifest) and\n"
            "`result.json` (written by `python3 -m kbcheck.seedtest`: the registered checks run against a tree with the patch applied).\n"
            "`fixrevert-*` = the reverse of a `fix:` commit (the original defect); `Cnn-A/B` = changes written by independent sub-agents that saw\n"
            "only the property text. A check 'catches' a change when it exits 1 with a VIOLATION line.\n\n"
            + ROUNDS +
            "| id | change | needs | caught by |\n|---|---|---|---|\n" + table + "\n\n")
    p = os.path.join(VERIF, "DESIGN.md")
    s = open(p).read()
    if "## 6b." in s:
        i = s.index("## 6b.")
        j = s.index("## 7. Trusted base")
        s = s[:i] + text + s[j:]
    else:
        s = s.replace("## 7. Trusted base", text + "## 7. Trusted base", 1)
    open(p, "w").write(s)
    print("rows:", len(rows))


if __name__ == "__main__":
    main()
