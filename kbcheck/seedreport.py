"""python3 -m kbcheck.seedreport — rewrites the section '## 6b.' of DESIGN.md from seeded/*/result.json"""
import json
import os
import re

VERIF = os.path.dirname(os.path.dirname(os.path.abspath(__file__)))


def main():
    rows = []
    d = os.path.join(VERIF, "seeded")
    for name in sorted(os.listdir(d)):
        p = os.path.join(d, name)
        if not os.path.isdir(p):
            continue
        meta = {}
        if os.path.exists(os.path.join(p, "meta.json")):
            try:
                meta = json.load(open(os.path.join(p, "meta.json")))
            except Exception:
                meta = {}
        subject = open(os.path.join(p, "subject.txt")).read().strip() if os.path.exists(os.path.join(p, "subject.txt")) else ""
        res = json.load(open(os.path.join(p, "result.json"))) if os.path.exists(os.path.join(p, "result.json")) else None
        what = (meta.get("summary") or ("reverse of: " + subject)).replace("|", "/").replace("\n", " ")
        if len(what) > 170:
            what = what[:167] + "..."
        needs = (meta.get("needs") or "").replace("|", "/").replace("\n", " ")
        if len(needs) > 120:
            needs = needs[:117] + "..."
        if res is None:
            det = "(not run yet)"
        else:
            parts = []
            for prop, r in sorted(res["checks"].items()):
                if r["exit"] != 0:
                    v = r["violations"][0] if r["violations"] else ""
                    kind = "no-failing-input-found" if "no-failing-input-found" in v else "failing input"
                    tag = re.sub(r".*/([^/ ]+)\.txt.*", r"\1", v) if v else "?"
                    parts.append("%s (%s: %s)" % (prop, kind, tag))
            ran = ",".join(sorted(res["checks"]))
            det = ("; ".join(parts) if parts else "MISSED") + " [ran: %s]" % ran
        rows.append("| %s | %s | %s | %s |" % (name, what, needs, det))
    table = "\n".join(rows)
    text = ("## 6b. Seeded changes and which checks catch them\n\n"
            "`seeded/<id>/` holds each change (`patch.diff`), its demonstration, `meta.json` (what it breaks, what it needs to manifest) and\n"
            "`result.json` (written by `python3 -m kbcheck.seedtest`: the registered checks run against a tree with the patch applied).\n"
            "`fixrevert-*` = the reverse of a `fix:` commit (the original defect); `Cnn-A/B` = changes written by independent sub-agents that saw\n"
            "only the property text. A check 'catches' a change when it exits 1 with a VIOLATION line.\n\n"
            "| id | change | needs | caught by |\n|---|---|---|---|\n" + table + "\n\n")
    p = os.path.join(VERIF, "DESIGN.md")
    s = open(p).read()
    if "## 6b." in s:
        i = s.index("## 6b.")
        j = s.index("## 7. Trusted base")
        s = s[:i] + text + s[j:]
    else:
        s = s.replace("## 7. Trusted base", text + "## 7. Trusted base", 1)
    open(p, "w").write(s)
    print("rows:", len(rows))


if __name__ == "__main__":
    main()
