"""Run one Go test of harness/racetest as a dynamic cross-check of a property (supporting evidence and failing-input search,
never a proof): a FAIL is a violation whose replay is the test's own output; a failure is confirmed by a second run first."""
import re
import time

from . import core


def run_go_test(rep, prop, test, tag, what, env=None, timeout=600, race=False):
    """Returns True when a violation was recorded."""
    cmd = ["go", "test", "-vet=off", "-v", "-tags", "verif", "-count=1", "-timeout", "8m", "-run", "^%s$" % test, "./racetest/"]
    if race:
        cmd.insert(2, "-race")
    e = dict(core.GOENV, **(env or {}))
    out = ""
    for attempt in (1, 2):
        t0 = time.time()
        rc, out = core.sh(cmd, cwd=core.HARNESS, env=e, timeout=timeout)
        failed = re.search(r"^--- FAIL: %s\b" % re.escape(test), out, re.M) is not None
        passed = re.search(r"^--- PASS: %s\b" % re.escape(test), out, re.M) is not None
        rep.cov.setdefault("dynamic_tests", {})[test] = {"cmd": "cd harness && " + " ".join(cmd), "wall_s": round(time.time() - t0, 1),
                                                          "result": "fail" if failed else ("pass" if passed else "did-not-run"), "attempt": attempt}
        if passed:
            break
    c = core.Case("racetest", ["# " + " ".join(cmd), "gotest " + test])
    c.impl = ["%s: %s" % (test, "assertion failed" if failed else "ok" if passed else "did not run")]
    c.model = []
    rep.count_case(c)
    text = "# rerun: cd %s && %s %s\n%s" % (core.HARNESS, " ".join("%s=%s" % kv for kv in (env or {}).items()), " ".join(cmd),
                                           "\n".join("# " + l for l in out.splitlines()[-80:]))
    if failed:
        rep.violation(core.write_replay(prop, tag, text="# oracle: %s\n%s" % (what, text)))
        return True
    if not passed:
        rep.violation(core.write_replay(prop, tag + "-did-not-run", text="# the dynamic test did not build/run\n" + text), no_input=True)
        return True
    return False
