"""Scheduled (gated) executions of the write path: generator of client schedules for the `backend`
harness suite (ops start/step) / `sched` model suite, and the oracles of C01, C02, C04 evaluated on the
implementation's transcript alone."""
import itertools

from . import core, hist
from .gen import PREFIX, hx

INIT = hist.INIT


def prelude(r, keys):
    """initial key states: never existed / live / deleted / deleted-and-compacted; returns (lines, state, nreq)"""
    lines = []
    st = {}     # key -> ("live", rev) | ("deleted", rev) | ("compacted", rev)
    rev = INIT
    n = 0
    for k in keys:
        kind = r.choice(["none", "live", "live", "deleted", "compacted"])
        if kind == "none":
            continue
        n += 1
        rev += 1
        lines += ["start p%d create %s %s" % (n, hx(k), hx(b"init")), "step p%d" % n]
        st[k] = ("live", rev)
        if kind in ("deleted", "compacted"):
            n += 1
            rev += 1
            lines += ["start p%d delete %s 0" % (n, hx(k)), "step p%d" % n, "step p%d" % n]
            st[k] = (kind, rev)
    lines.append("rev")
    if any(v[0] == "compacted" for v in st.values()):
        lines.append("compact %d" % rev)
    return lines, st, n


def gen_request(r, keys, st, dealt):
    k = r.choice(keys)
    cur = st.get(k)
    live_rev = cur[1] if cur and cur[0] == "live" else None
    x = r.random()
    if x < 0.3:
        return "create %s %s" % (hx(k), hx(r.choice([b"c1", b"c2", b"c3"])))
    exp_choices = [live_rev or (cur[1] if cur else INIT + 1)] * 5 + [0, max(1, (cur[1] if cur else INIT) - 1),
                                                                    dealt + r.randint(3, 40), 2 ** 62, 2 ** 64 - 5]
    exp = r.choice(exp_choices)
    if x < 0.7:
        return "update %s %s %d" % (hx(k), hx(r.choice([b"u1", b"u2", b"u3"])), exp)
    return "delete %s %d" % (hx(k), r.choice([exp, 0, 0]))


def gen_schedule(r, n_clients, keys, engine, faults=False, reads=True, exhaustive_order=None):
    lines = [hist.cfg_line(engine), "gated 1"]
    pl, st, npre = prelude(r, keys)
    lines += pl
    dealt = INIT + npre
    reqs = [gen_request(r, keys, st, dealt) for _ in range(n_clients)]
    if exhaustive_order is not None:
        order = exhaustive_order
    else:
        tokens = []
        for i in range(n_clients):
            tokens += [i] * 4
        r.shuffle(tokens)
        order = tokens
    # reader clients stepped through their storage calls like the writers (List: floor check, scan; Get: one iteration)
    readers = []
    if reads and exhaustive_order is None:
        for j in range(r.randint(0, 2)):
            if r.random() < 0.6:
                rq = "list %s %s %s %d" % (hx(PREFIX + b"/"), hx(PREFIX + b"0"), r.choice(["0", "0", str(INIT + npre + r.randint(0, n_clients))]), r.choice([0, 0, 2]))
                nsteps = 2
            else:
                rq = "get %s %s" % (hx(r.choice(keys)), r.choice(["0", "c", "c+1"]))
                nsteps = 1
            readers.append((n_clients + j, rq))
            pos = sorted(r.sample(range(len(order) + 1), nsteps + 1))
            for off, p in enumerate(pos):
                order.insert(p + off, n_clients + j)
    rreq = dict(readers)
    started = set()
    for i in order:
        if i in rreq:
            if i not in started:
                started.add(i)
                lines.append("rev")
                lines.append("start r%d %s" % (i + 1, rreq[i]))
            else:
                lines.append("step r%d" % (i + 1))
            continue
        if i not in started:
            # a request begins at its first token; the remaining tokens are its steps
            started.add(i)
            lines.append("start c%d %s" % (i + 1, reqs[i]))
        else:
            f = ""
            if faults and r.random() < 0.25:
                f = " f=" + r.choice(["e", "ua", "un"])
            lines.append("step c%d%s" % (i + 1, f))
        if reads and r.random() < 0.25:
            lines.append("rev")
        if reads and r.random() < 0.1:
            lines.append("rev")      # the header of a read is the committed revision: wait for the sequencer
            lines.append("get %s 0" % hx(r.choice(keys)))
        if reads and r.random() < 0.12:
            # a point read at an explicit revision at / around the committed one while writes are in flight
            lines.append("rev")
            lines.append("get %s %s" % (hx(r.choice(keys)), r.choice(["c", "c", "c+1", str(INIT + npre + r.randint(0, n_clients))])))
        if reads and r.random() < 0.12:
            # a range read at an explicit revision that may lie above the committed one (e.g. the header of a
            # write acknowledged while an earlier one is still in flight)
            lines.append("rev")
            lines.append("list %s %s %d 0" % (hx(PREFIX + b"/"), hx(PREFIX + b"0"), INIT + npre + r.randint(0, n_clients)))
    # drain: every client to completion, then quiescence
    for i in range(n_clients):
        for _ in range(4):
            lines.append("step c%d" % (i + 1))
    for i, _rq in readers:
        for _ in range(2):
            lines.append("step r%d" % (i + 1))
    lines.append("rev")
    for k in keys:
        lines.append("get %s 0" % hx(k))
    lines.append("list %s %s 0 0" % (hx(PREFIX + b"/"), hx(PREFIX + b"0")))
    lines.append("dump")
    return core.Case("backend", lines, {"engine": engine, "nreq": n_clients + npre, "keys": keys}, model_suite="sched")


def all_interleavings(counts):
    """all distinct interleavings of tokens i repeated counts[i] times"""
    toks = []
    for i, c in enumerate(counts):
        toks += [i] * c
    seen = set()
    for p in itertools.permutations(toks):
        if p not in seen:
            seen.add(p)
            yield list(p)


# ------------------------------------------------------------------ parsing a transcript

class Req:
    def __init__(self, cid, req, start_line):
        self.cid = cid
        self.req = req.split()
        self.start = start_line
        self.end = None
        self.out = None

    @property
    def rev(self):
        o = self.out
        if not o:
            return None
        if o[1] == "ok":
            return int(o[2])
        if o[1] in ("cf", "nf"):
            return None     # header only (may be raised to the latest mod revision)
        return None


def parse(case):
    reqs = {}
    order = []
    revs = []       # (line, committed)
    for i, (line, out) in enumerate(zip(case.lines, case.impl)):
        t, o = line.split(), out.split()
        if t[0] == "start" and len(t) > 2 and t[2] in ("create", "update", "delete"):
            rq = Req(t[1], " ".join(t[2:]), i)
            reqs[t[1]] = rq
            order.append(rq)
        if t[0] in ("start", "step") and o and o[0] == "done":
            rq = reqs.get(o[1])
            if rq is not None and rq.end is None:
                rq.end = i
                rq.out = o[2:]
        if t[0] == "rev" and len(o) == 2:
            revs.append((i, int(o[1])))
    return order, revs


def oracle_c04(case):
    order, revs = parse(case)
    if any(rq.end is None for rq in order):
        return None   # a request did not finish within the script: nothing to say
    # quiescence: the last `rev` is after every request has returned
    last_end = max([rq.end for rq in order] or [0])
    final = [c for (i, c) in revs if i > last_end]
    want = INIT + len(order)
    if final and final[-1] != want:
        return ("at quiescence the read revision is %d but %d revisions were handed out (highest %d): an issued "
                "revision was never resolved" % (final[-1], len(order), want), "committed-stalled")
    # never overtakes: a successful write with revision r that returned at line j: committed < r before its commit
    for rq in order:
        r = rq.rev
        if r is None:
            continue
        for (i, c) in revs:
            if i < rq.start and c >= r:
                return ("read revision %d observed before request %s (revision %d) even began" % (c, rq.cid, r), "overtaken")
    return None


def oracle_c02(case):
    order, revs = parse(case)
    done = [rq for rq in order if rq.end is not None]
    seen = {}
    for rq in done:
        r = rq.rev
        if r is None:
            continue
        if r in seen:
            return ("revision %d was given to both %s and %s" % (r, seen[r].cid, rq.cid), "duplicate-revision")
        seen[r] = rq
    for a in done:
        for b in done:
            if a.rev is not None and b.rev is not None and a.end < b.start and not a.rev < b.rev:
                return ("%s (revision %d) returned before %s (revision %d) began" % (a.cid, a.rev, b.cid, b.rev), "realtime-order")
    # per key strictly increasing in commit order is implied by the chain (C01); header >= data:
    for rq in done:
        o = rq.out
        if o and o[1] == "cf" and len(o) > 3 and o[3] != "-":
            kv = hist.parse_kv(o[3])
            if kv and kv[2] > int(o[2]):
                return ("%s: header %s < data revision %d" % (rq.cid, o[2], kv[2]), "header-lt-data")
    return hist.check_headers(case)


def oracle_c01(case):
    """chain: per key, the successful writes sorted by revision; each guarded one named its predecessor."""
    order, revs = parse(case)
    if any(rq.end is None for rq in order):
        return None
    per_key = {}
    for rq in order:
        if rq.out and rq.out[1] == "ok":
            k = rq.req[1]
            per_key.setdefault(k, []).append((int(rq.out[2]), rq))
    finals = {}
    for line, out in zip(case.lines, case.impl):
        t, o = line.split(), out.split()
        if t[0] == "get" and len(o) == 3:
            finals[t[1]] = o[2]
    for k, ws in per_key.items():
        ws.sort(key=lambda x: x[0])
        prev = None    # (rev, live)
        for rev, rq in ws:
            verb = rq.req[0]
            exp = int(rq.req[3]) if verb == "update" else (int(rq.req[2]) if verb == "delete" else 0)
            if verb == "create" or (verb == "update" and exp == 0):
                if prev is not None and prev[1]:
                    return ("key %s: create at revision %d succeeded although the key was live at revision %d" % (k, rev, prev[0]), "create-over-live")
            elif verb == "update":
                if prev is None or not prev[1] or prev[0] != exp:
                    return ("key %s: update at %d conditioned on %d succeeded but its predecessor is %s" % (k, rev, exp, prev), "update-lost")
            elif verb == "delete":
                if prev is None or not prev[1] or (exp != 0 and prev[0] != exp):
                    return ("key %s: delete at %d conditioned on %d succeeded but its predecessor is %s" % (k, rev, exp, prev), "delete-lost")
            prev = (rev, verb != "delete")
        # final store = last element of the chain
        fin = finals.get(k)
        if fin is not None:
            if prev[1]:
                kv = hist.parse_kv(fin) if fin != "-" else None
                want_val = bytes.fromhex(ws[-1][1].req[2])
                if kv is None or kv[2] != prev[0] or kv[1] != want_val:
                    return ("key %s: the chain ends with a live write at %d (%s) but the final read shows %s" % (k, prev[0], want_val, fin), "final-mismatch")
            elif fin != "-":
                return ("key %s: the chain ends with a delete at %d but the final read shows %s" % (k, prev[0], fin), "final-mismatch")
    return None


def oracle_cf_justified(case):
    """C01, last clause: a condition is reported failed only if the key really differed from the expectation at
    some moment while the request was in flight. Conservative (never alarms on a justifiable conflict): the key's
    states are the chain of successful writes; a state may have been current at any moment between the START of the
    request that produced it and the END of the request that superseded it. Keys touched by a request whose outcome
    is unknown, or by fault directives, are skipped."""
    order, revs = parse(case)
    if any(rq.end is None for rq in order):
        return None
    if any(" f=" in ln for ln in case.lines):
        return None
    skip = set()
    per_key = {}
    for rq in order:
        k = rq.req[1]
        o = rq.out or []
        if len(o) >= 2 and o[1] == "ok":
            per_key.setdefault(k, []).append((int(o[2]), rq))
        elif len(o) >= 2 and o[1] == "err":
            skip.add(k)
    for rq in order:
        o = rq.out or []
        if len(o) < 2 or o[1] != "cf":
            continue
        k = rq.req[1]
        if k in skip:
            continue
        verb = rq.req[0]
        exp = int(rq.req[3]) if verb == "update" else (int(rq.req[2]) if verb == "delete" else 0)
        ws = sorted(per_key.get(k, []), key=lambda x: x[0])
        # states: (live?, rev, produced_by, superseded_by)
        states = [(False, 0, None, ws[0][1] if ws else None)]
        for j, (rev, w) in enumerate(ws):
            states.append((w.req[0] != "delete", rev, w, ws[j + 1][1] if j + 1 < len(ws) else None))

        def matches(live, rev):
            if verb == "create" or (verb == "update" and exp == 0):
                return not live
            if verb == "update":
                return live and rev == exp
            return live and (exp == 0 or rev == exp)

        possible = []
        for live, rev, w, nxt in states:
            if w is not None and w.start > rq.end:
                continue          # produced only after the request had returned
            if nxt is not None and nxt.end < rq.start:
                continue          # superseded before the request began
            possible.append((live, rev))
        justified = any(not matches(l, r) for (l, r) in possible)
        if verb == "delete" and exp == 0 and len(possible) >= 2:
            # an unguarded delete conditions its commit on the revision it read: a change while it was in flight
            # is a real difference from that expectation
            justified = True
        if not justified:
            return ("request %s `%s` was answered 'condition failed' (%s), but at no moment while it was in flight did key %s "
                    "differ from what it expected: its states were %s" % (
                        rq.cid, " ".join(rq.req), " ".join(o), k,
                        [("live" if l else "absent/deleted", r) for (l, r, _, _) in states]), "unjustified-conflict")
    return None
