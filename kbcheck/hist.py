"""Sequential request histories for the `backend` suite: generator with a light shadow state (to keep
most conditional writes succeeding) and an independent Python reference (MVCC replay of the
acknowledged writes found in the *implementation's* transcript) used by the oracles."""
from .gen import KEY_POOL, PREFIX, VALUES, hx

INIT = 1000
TOMB = b"tombstone"


def unhx(s):
    return b"" if s == "-" else bytes.fromhex(s)


class Shadow:
    """approximate state used only to pick interesting arguments"""

    def __init__(self):
        self.dealt = INIT
        self.keys = {}      # key -> (modrev, live)
        self.revs = [INIT]
        self.snaps = {INIT: []}   # revision -> sorted live keys at that revision (for paging through an old revision)

    def write(self, kind, key, exp=0):
        self.dealt += 1
        rev = self.dealt
        cur = self.keys.get(key)
        ok = False
        if kind == "create":
            ok = cur is None or not cur[1]
            if ok:
                self.keys[key] = (rev, True)
        elif kind == "update":
            if exp == 0:
                ok = cur is None or not cur[1]
            else:
                ok = cur is not None and cur[1] and cur[0] == exp and rev >= exp
            if ok:
                self.keys[key] = (rev, True)
        elif kind == "delete":
            ok = cur is not None and cur[1] and (exp == 0 or exp == cur[0])
            if ok:
                self.keys[key] = (rev, False)
        if ok:
            self.revs.append(rev)
        self.snaps[rev] = sorted(k for k, (_, live) in self.keys.items() if live)
        return ok

    def live_at(self, rev):
        """sorted live keys at revision `rev` (0 = now)"""
        if rev == 0:
            rev = self.dealt
        return self.snaps[max(r for r in self.snaps if r <= rev)]


def succ(k):
    """the bound "just after k": what etcd clients send as the continue key of a paginated list (lastKey + \x00)
    and as the end of a single-key range [k, k\x00)"""
    return k + b"\x00"


# Bounds with OTHER bytes at or below the key/revision separator '$' (0x24) than one trailing \x00 (/repo 23c8b93:
# encodeRangeBound cuts a bound at its first such byte): tails appended to a key, and whole bounds that START with a low
# byte (the "empty prefix" case: just after every version of the empty key, i.e. below every stored key).
LOW_TAILS = [b"\x01", b"#", b"$", b"\x00\x00", b"\x00b", b"$x", b"\x01\xff", b"\x02", b"\x00\x00\x00"]
LOW_HEADS = [b"\x01", b"$", b"\x00\x00", b"#r", b"\x00/r/a", b"\x24\xff"]


def low_bounds(k, r=None, n=None):
    """bounds k+tail with a low byte right behind k (in raw byte order: after k, before every longer key starting with k)"""
    tails = LOW_TAILS if r is None or n is None else r.sample(LOW_TAILS, n)
    return [k + t for t in tails]


def page_starts(live_sorted, lo, hi, n):
    """the start keys of a client paging through [lo, hi) with page size n: lo, then lastKey+\x00 of every page that
    reports more (computed on RAW keys from the predicted snapshot)"""
    starts, start = [], lo
    while True:
        starts.append(start)
        rest = [k for k in live_sorted if start <= k < hi]
        if len(rest) <= n:
            return starts
        start = succ(rest[n - 1])


def cfg_line(engine, **kw):
    opts = {"engine": engine, "prefix": hx(PREFIX), "cache": 2048}
    opts.update(kw)
    return "cfg " + " ".join("%s=%s" % (k, v) for k, v in opts.items())


def pick_exp(r, sh, key, p_ok=0.7):
    cur = sh.keys.get(key)
    x = r.random()
    if cur and x < p_ok:
        return cur[0]
    if x < p_ok + 0.08:
        return 0
    if x < p_ok + 0.16 and cur:
        return max(1, cur[0] - r.randint(1, 3))          # stale
    if x < p_ok + 0.22:
        return sh.dealt + r.randint(2, 50)                # future (drift)
    if x < p_ok + 0.25:
        return r.choice([2 ** 62, 2 ** 64 - 1, 2 ** 63])  # far future / negative-as-cast
    return r.randint(INIT, sh.dealt + 1)


def gen_writes(r, sh, n, keys, values=None, p_ok=0.7, sync=True):
    values = values or [v for v in VALUES if v != TOMB]
    lines = []
    for _ in range(n):
        key = r.choice(keys)
        x = r.random()
        cur = sh.keys.get(key)
        live = cur is not None and cur[1]
        if live:
            kind = "create" if x < 0.1 else ("update" if x < 0.65 else "delete")
        else:
            kind = "create" if x < 0.65 else ("update" if x < 0.85 else "delete")
        if kind == "create":
            lines.append("create %s %s" % (hx(key), hx(r.choice(values))))
            sh.write("create", key)
        elif kind == "update":
            exp = pick_exp(r, sh, key, p_ok)
            lines.append("update %s %s %d" % (hx(key), hx(r.choice(values)), exp))
            sh.write("update", key, exp)
        else:
            exp = pick_exp(r, sh, key, p_ok) if r.random() < 0.6 else 0
            lines.append("delete %s %d" % (hx(key), exp))
            sh.write("delete", key, exp)
        if sync:
            lines.append("rev")
    return lines


def bound_pool(keys):
    pool = set([PREFIX, PREFIX + b"/", PREFIX + b"0", PREFIX + b"/\xff"])
    for k in keys:
        pool.add(k)
        pool.add(k + b"\x25")
        pool.add(k[:-1])
        if k[-1] < 0xff:
            pool.add(k[:-1] + bytes([k[-1] + 1]))
        if k[-1] > 0x25:
            pool.add(k[:-1] + bytes([k[-1] - 1]))
    return sorted(p for p in pool if p and all(b > 0x24 for b in p))


def succ_bounds(r, keys, a, b):
    """one in four ranges starts just after a key (a continued page) and / or ends just after one ([.., k\x00]:
    the key itself included; [k, k\x00): the single-key range)"""
    x = r.random()
    if x < 0.08:
        k = r.choice(keys)
        return k, succ(k)
    if x < 0.17:
        a = succ(r.choice(keys))
    elif x < 0.25:
        b = succ(r.choice(keys))
    elif x < 0.29:
        a, b = succ(r.choice(keys)), succ(r.choice(keys))
    elif x < 0.33:
        # any other low byte behind a key (/repo 23c8b93), as start, as end, as both (possibly encoded alike)
        k = r.choice(keys)
        return k, k + r.choice(LOW_TAILS)
    elif x < 0.38:
        a = r.choice(keys) + r.choice(LOW_TAILS)
    elif x < 0.43:
        b = r.choice(keys) + r.choice(LOW_TAILS)
    elif x < 0.46:
        k = r.choice(keys)
        a, b = sorted([k + r.choice(LOW_TAILS), r.choice([k, r.choice(keys)]) + r.choice(LOW_TAILS)])
    elif x < 0.48:
        a = r.choice(LOW_HEADS)
    if x < 0.48 and a > b and r.random() < 0.85:
        a, b = b, a
    return a, b


def gen_pages(r, sh, keys, rev=0, n=None):
    """a client paging through a range with page size n: list with limit n, then continue from lastKey+\x00 while the
    page says more — the concatenation must be the unpaginated list (no key twice, none missing), then the unpaginated list"""
    lo, hi = PREFIX + b"/", PREFIX + b"0"
    if r.random() < 0.4:
        lo, hi = sorted([r.choice(keys), r.choice(keys) + b"\xff"])
    n = n or r.randint(1, 3)
    lines = ["list %s %s %d %d" % (hx(st), hx(hi), rev, n) for st in page_starts(sh.live_at(rev), lo, hi, n)]
    return lines + ["list %s %s %d 0" % (hx(lo), hx(hi), rev)]


def gen_reads(r, sh, n, keys, lo_rev=None, limits=True, succ_b=False):
    lines = []
    bounds = bound_pool(keys)
    nkeys = len(keys)
    for _ in range(n):
        x = r.random()
        rev = 0 if r.random() < 0.25 else r.randint(lo_rev or INIT, sh.dealt)
        if x < 0.35:
            lines.append("get %s %d" % (hx(r.choice(keys)), rev))
        elif x < 0.9:
            a, b = r.choice(bounds), r.choice(bounds)
            if r.random() < 0.85 and a > b:
                a, b = b, a
            if r.random() < 0.3:
                a, b = PREFIX + b"/", PREFIX + b"0"
            if succ_b:
                a, b = succ_bounds(r, keys, a, b)
            lim = r.randint(0, nkeys + 1) if limits and r.random() < 0.6 else 0
            lines.append("list %s %s %d %d" % (hx(a), hx(b), rev, lim))
        else:
            a, b = r.choice(bounds), r.choice(bounds)
            if a > b:
                a, b = b, a
            if succ_b:
                a, b = succ_bounds(r, keys, a, b)
            lines.append("count %s %s" % (hx(a), hx(b)))
    return lines


# ------------------------------------------------------------------ reference over a transcript

def parse_kv(s):
    if s == "-":
        return None
    kv, rev = s.rsplit("@", 1)
    k, v = kv.split(":")
    return (unhx(k), unhx(v), int(rev))


def parse_kvs(s):
    if s == "-":
        return []
    return [parse_kv(x) for x in s.split(",")]


class Ref:
    """MVCC replay of the acknowledged successful writes of a transcript."""

    def __init__(self):
        self.writes = []     # (rev, key, val or None)
        self.committed = INIT
        self.floor = 0
        self.started = {}    # scheduled suites: cid -> request tokens

    def feed(self, line, out):
        t, o = line.split(), out.split()
        if not t or not o:
            return
        if t[0] == "start" and len(t) > 3:
            self.started[t[1]] = t[2:]
        if t[0] in ("start", "step") and len(o) >= 5 and o[0] == "done" and o[3] == "ok":
            rq = self.started.get(o[1])
            if rq:
                if rq[0] in ("create", "update"):
                    self.writes.append((int(o[4]), unhx(rq[1]), unhx(rq[2])))
                elif rq[0] == "delete":
                    self.writes.append((int(o[4]), unhx(rq[1]), None))
        if t[0] == "create" and o[:2] == ["create", "ok"]:
            self.writes.append((int(o[2]), unhx(t[1]), unhx(t[2])))
        elif t[0] == "update" and o[:2] == ["update", "ok"]:
            self.writes.append((int(o[2]), unhx(t[1]), unhx(t[2])))
        elif t[0] == "delete" and o[:2] == ["delete", "ok"]:
            self.writes.append((int(o[2]), unhx(t[1]), None))
        elif t[0] == "bulk" and len(o) == 2 and o[1].isdigit():
            n, last = int(t[1]), int(o[1])
            for i in range(n):
                self.writes.append((last - n + 1 + i, unhx(t[2]) + (b"%05d" % i), unhx(t[3])))
        elif t[0] == "rev" and len(o) == 2:
            self.committed = int(o[1])
        elif t[0] == "compact" and len(o) == 2 and o[1].isdigit():
            self.floor = max(self.floor, int(o[1]))

    def snapshot(self, R):
        snap = {}
        for rev, k, v in sorted(self.writes, key=lambda w: (w[0], w[1])):
            if rev <= R:
                if v is None:
                    snap.pop(k, None)
                else:
                    snap[k] = (v, rev)
        return snap

    def range(self, a, b, R):
        snap = self.snapshot(R)
        return [(k, v, rev) for k, (v, rev) in sorted(snap.items()) if a <= k < b]


def check_reads(case, allow_tombstone_value=False):
    """C03 oracle on the implementation transcript: every get/list/count answered with data must equal
    the MVCC snapshot of the acknowledged writes. Returns (description, signature) or None."""
    ref = Ref()
    frozen = None      # (line, committed revision) after a refused write without a value: the next `rev` shows it unchanged
    for i, (line, out) in enumerate(zip(case.lines, case.impl)):
        t, o = line.split(), out.split()
        if not t or not o:
            continue
        if t[0] in ("create", "update") and len(t) > 2 and t[2] == "-":
            # a write WITHOUT A VALUE: refused on every engine alike before a revision is dealt (/repo f2a549c)
            if o[:2] != [t[0], "err"]:
                return ("line %d: %s -> %s: a write without a value was accepted; it must be refused on every engine alike (the key "
                        "then reads as absent in point reads while range reads list it; TiKV refuses the same request)" % (i + 1, line, out[:120]),
                        "empty-value-accepted")
            frozen = (i, ref.committed)
            continue
        if t[0] == "rev" and len(o) == 2 and frozen is not None:
            if int(o[1]) != frozen[1]:
                return ("line %d: %s -> %s: the refused write without a value of line %d consumed a revision (committed was %d): a "
                        "refused request must change nothing, and must behave alike on every engine" % (i + 1, line, out, frozen[0] + 1, frozen[1]),
                        "empty-value-consumed-revision")
            frozen = None
        ref.feed(line, out)
        if t[0] in ("get", "list", "count") and "err" not in o[:2]:
            rtok = t[2] if t[0] == "get" else (t[3] if t[0] == "list" else "0")
            R = (ref.committed + int(rtok[2:] or 0)) if rtok.startswith("c") else int(rtok)
            if R == 0:
                R = ref.committed
            if R > ref.committed or R < ref.floor:
                continue   # not a revision the node has reported readable / below the floor
            if t[0] == "get" and rtok == "0" and o[1].isdigit() and int(o[1]) > ref.committed:
                # Get at revision 0 reads the newest stored version; here it found one above the committed
                # revision (an earlier write is still in flight) and says so in its header: not a read at a
                # revision the node has reported as readable
                continue
            tomb_written = any(v == TOMB for _, _, v in ref.writes)
            sig = "value==tombstone" if tomb_written else "snapshot-mismatch"
            if t[0] == "get":
                k = unhx(t[1])
                exp = ref.snapshot(R).get(k)
                got = parse_kv(o[2]) if len(o) > 2 else None
                want = (k, exp[0], exp[1]) if exp else None
                if got != want:
                    return ("line %d: %s -> %s, MVCC snapshot at %d has %s" % (i + 1, line, out, R, want), sig)
            elif t[0] == "list":
                a, b, lim = unhx(t[1]), unhx(t[2]), int(t[4])
                full = ref.range(a, b, R)
                want = full[:lim] if lim > 0 else full
                more = 1 if (lim > 0 and lim < len(full)) else 0
                got = parse_kvs(o[3]) if len(o) > 3 else []
                if got != want or int(o[2]) != more:
                    return ("line %d: %s -> %s, MVCC snapshot range at %d is %s more=%d" % (
                        i + 1, line, out[:300], R, want, more), sig)
            elif t[0] == "count" and case.meta.get("compat", True):
                a, b = unhx(t[1]), unhx(t[2])
                if a < b and int(o[2]) != len(ref.range(a, b, ref.committed)):
                    return ("line %d: %s -> %s, snapshot has %d keys" % (i + 1, line, out, len(ref.range(a, b, ref.committed))), sig)
    return None


def check_headers(case):
    """C02 clause: a response header is never smaller than the mod revision of any data in it."""
    for i, (line, out) in enumerate(zip(case.lines, case.impl)):
        o = out.split()
        if len(o) < 3 or o[0] not in ("get", "list", "update", "delete", "create") or o[1] == "err":
            continue
        hdr = None
        kvs = []
        if o[0] == "get":
            hdr = int(o[1])
            kvs = [parse_kv(o[2])] if o[2] != "-" else []
        elif o[0] == "list":
            hdr = int(o[1])
            kvs = parse_kvs(o[3]) if len(o) > 3 else []
        elif o[0] in ("update", "delete") and o[1] in ("ok", "cf") and len(o) > 3:
            hdr = int(o[2])
            kvs = [parse_kv(o[3])] if o[3] != "-" else []
        for kv in kvs:
            if kv and kv[2] > hdr:
                return ("line %d: %s -> %s: header %d < data revision %d" % (i + 1, line, out[:200], hdr, kv[2]),
                        "header-lt-data")
    return None
