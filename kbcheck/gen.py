"""Generators shared by the property modules (one PRNG stream per run, derived from VERIF_SEED)."""
import random


def hx(b):
    return b.hex() if b else "-"


PREFIX = b"/r"

# prefix-related key names over the alphabet (every byte > '$')
KEY_POOL = [b"/r/a", b"/r/a/b", b"/r/a-b", b"/r/ab", b"/r/a\xff", b"/r/b", b"/r/b/c", b"/r/a/", b"/r/a0",
            b"/r/events/e1", b"/r/events/e2", b"/r/pods/events/p1", b"/r/eventsx/q", b"/r/c", b"/r/a.b", b"/r/z"]
VALUES = [b"v1", b"v2", b"v3", b"x" * 40, b"tombston", b"tombstone1", b"\x00\x01", b"value-with-$", b"tombstones"]


def rng_for(seed, tag):
    return random.Random("%d/%s" % (seed, tag))


def rand_key(r, alphabet_only=True, maxlen=6):
    n = r.randint(0, maxlen)
    if alphabet_only:
        return bytes(r.choice([0x25, 0x2d, 0x2e, 0x2f, 0x30, 0x61, 0x62, 0x7a, 0xfe, 0xff]) for _ in range(n))
    return bytes(r.randint(0, 255) for _ in range(n))
