"""python3 -m kbcheck.seedtest <seeded dir> [--props C01,C02,...] [--tier quick]

Applies <dir>/patch.diff to /repo, runs the registered checks, undoes the change (git checkout -- .),
and writes <dir>/result.json: which checks raised a VIOLATION (and with which replay)."""
import json
import os
import subprocess
import sys
import time

VERIF = os.path.dirname(os.path.dirname(os.path.abspath(__file__)))
REPO = os.environ.get("KB_REPO", "/repo")


def sh(cmd, cwd=None, timeout=3600):
    p = subprocess.run(cmd, cwd=cwd, stdout=subprocess.PIPE, stderr=subprocess.STDOUT, text=True, timeout=timeout, shell=isinstance(cmd, str))
    return p.returncode, p.stdout


def claimed():
    m = json.load(open(os.path.join(VERIF, "MANIFEST.json")))
    return [c["property_id"] for c in m["checks"]]


def main(argv):
    d = os.path.abspath(argv[0])
    props = claimed()
    tier = "quick"
    for i, a in enumerate(argv):
        if a == "--props":
            props = argv[i + 1].split(",")
        if a == "--tier":
            tier = argv[i + 1]
    rc, out = sh(["git", "-C", REPO, "status", "--porcelain"])
    if out.strip():
        print("refusing: /repo has uncommitted changes:\n" + out)
        return 2
    patch = os.path.join(d, "patch.diff")
    rc, out = sh(["git", "-C", REPO, "apply", "--whitespace=nowarn", patch])
    if rc != 0:
        rc, out = sh(["git", "-C", REPO, "apply", "-3", "--whitespace=nowarn", patch])
        if rc != 0:
            print("patch does not apply:\n" + out)
            sh(["git", "-C", REPO, "checkout", "--", "."])
            return 2
    res = {"patch": patch, "tier": tier, "checks": {}, "at": time.strftime("%Y-%m-%dT%H:%M:%SZ", time.gmtime())}
    try:
        for p in props:
            t0 = time.time()
            rc, out = sh([os.path.join(VERIF, "bin", "check"), p, tier], cwd=VERIF, timeout=3600)
            viol = [ln for ln in out.splitlines() if ln.startswith("VIOLATION")]
            res["checks"][p] = {"exit": rc, "violations": viol, "wall_s": round(time.time() - t0, 1)}
            print("%s exit=%d %s" % (p, rc, viol[:1]))
    finally:
        sh(["git", "-C", REPO, "checkout", "--", "."])
        sh(["git", "-C", REPO, "clean", "-fdq"])
    # results of earlier runs of this seed against OTHER checks are kept (a later run of the same check replaces its entry),
    # unless the patch itself changed since
    prev_path = os.path.join(d, "result.json")
    if os.path.exists(prev_path) and os.path.getmtime(prev_path) >= os.path.getmtime(os.path.join(d, "patch.diff")):
        try:
            prev = json.load(open(prev_path))
            for p, r in prev.get("checks", {}).items():
                res["checks"].setdefault(p, dict(r, earlier_run=prev.get("at", "?")))
        except Exception:
            pass
    res["detected_by"] = [p for p, r in res["checks"].items() if r["exit"] != 0]
    json.dump(res, open(prev_path, "w"), indent=1)
    # restore the generated tables / build stamp for the unchanged tree
    sh([os.path.join(VERIF, "bin", "setup")], cwd=VERIF)
    print("detected_by:", res["detected_by"])
    return 0


if __name__ == "__main__":
    sys.exit(main(sys.argv[1:]))
