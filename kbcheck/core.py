"""Shared machinery of /verif/bin/check: builds, proof audit, correspondence runs, verdicts, evidence."""
import fcntl
import hashlib
import json
import os
import re
import subprocess
import sys
import time
from concurrent.futures import ThreadPoolExecutor

VERIF = os.path.dirname(os.path.dirname(os.path.abspath(__file__)))
REPO = os.environ.get("KB_REPO", "/repo")
LEAN = os.path.join(VERIF, "lean")
HARNESS = os.path.join(VERIF, "harness")
BUILD = os.path.join(VERIF, "build")
EVID = os.path.join(VERIF, "evidence")
REPLAYS = os.path.join(EVID, "replays")
KBMODEL = os.path.join(LEAN, ".lake", "build", "bin", "kbmodel")
KBHARNESS = os.path.join(HARNESS, "bin", "kbharness")
KBEXTRACT = os.path.join(HARNESS, "bin", "kbextract")
ALLOWED_AXIOMS = {"propext", "Classical.choice", "Quot.sound"}
FORBIDDEN = re.compile(r"\b(sorry|admit|native_decide|bv_decide|implemented_by|unsafe)\b|^\s*axiom\s|maxHeartbeats 0")

GOENV = dict(os.environ, GOFLAGS="-mod=mod", GOPROXY="off", GOSUMDB="off", GOTOOLCHAIN="local",
             CGO_ENABLED=os.environ.get("CGO_ENABLED", "0"))


class BuildBroken(Exception):
    def __init__(self, what, log):
        super().__init__(what)
        self.what = what
        self.log = log


def sh(cmd, cwd=None, env=None, timeout=3600):
    p = subprocess.run(cmd, cwd=cwd, env=env, stdout=subprocess.PIPE, stderr=subprocess.STDOUT,
                       timeout=timeout, text=True, shell=isinstance(cmd, str))
    return p.returncode, p.stdout


def tree_hash(paths, exts):
    h = hashlib.sha256()
    for root in paths:
        for d, dirs, files in os.walk(root):
            dirs[:] = sorted(x for x in dirs if x not in (".git", ".lake", "bin", "build", "vendor", "__pycache__"))
            for f in sorted(files):
                if f.endswith(exts):
                    p = os.path.join(d, f)
                    h.update(p.encode())
                    with open(p, "rb") as fh:
                        h.update(fh.read())
    return h.hexdigest()


def build_all(log=print):
    """Regenerate tables from /repo, build the Lean project and the harness. Serialised by a lock;
    skipped when nothing changed since the last successful build (content hash)."""
    os.makedirs(BUILD, exist_ok=True)
    os.makedirs(REPLAYS, exist_ok=True)
    with open(os.path.join(BUILD, "lock"), "w") as lk:
        fcntl.flock(lk, fcntl.LOCK_EX)
        t0 = time.time()
        key = tree_hash([os.path.join(REPO, "pkg"), os.path.join(REPO, "cmd")], (".go",)) + \
            tree_hash([HARNESS], (".go", ".sh")) + tree_hash([LEAN], (".lean", ".toml")) + \
            hashlib.sha256(open(os.path.join(REPO, "go.mod"), "rb").read()).hexdigest()
        stamp = os.path.join(BUILD, "stamp")
        info = {}
        if os.path.exists(stamp) and os.path.exists(KBMODEL) and os.path.exists(KBHARNESS):
            try:
                info = json.load(open(stamp))
            except Exception:
                info = {}
            if info.get("key") == key:
                return info
        # 1. harness + extractor from the current tree
        rc, out = sh(["sh", os.path.join(HARNESS, "gen_gomod.sh")], cwd=HARNESS, env=dict(GOENV, REPO=REPO))
        if rc != 0:
            raise BuildBroken("harness go.mod generation", out)
        for name in ("kbharness", "kbextract"):
            rc, out = sh(["go", "build", "-buildvcs=false", "-tags", "verif", "-o", os.path.join("bin", name), "./cmd/" + name],
                         cwd=HARNESS, env=GOENV)
            if rc != 0:
                raise BuildBroken("go build " + name + " (does /repo still compile with -tags verif?)", out)
        # 2. regenerate the fact tables
        gen = os.path.join(LEAN, "KB", "Generated")
        for f in os.listdir(gen):
            if f.endswith(".lean"):
                os.remove(os.path.join(gen, f))
        rc, out = sh([KBEXTRACT, "-repo", REPO, "-out", gen], cwd=HARNESS, env=GOENV)
        if rc != 0:
            raise BuildBroken("kbextract", out)
        # 3. the Lean project (model, theorems, driver)
        props = sorted("KB.Props." + f[:-5] for f in os.listdir(os.path.join(LEAN, "KB", "Props")) if f.endswith(".lean"))
        rc, out = sh(["lake", "build", "KB", "kbmodel"] + props, cwd=LEAN)
        lean_log = out
        lean_ok = rc == 0
        if not os.path.exists(KBMODEL) or not lean_ok:
            # try to at least have the driver
            rc2, out2 = sh(["lake", "build", "kbmodel"], cwd=LEAN)
            lean_log += out2
        info = {"key": key, "lean_ok": lean_ok, "lean_log": lean_log[-20000:], "build_s": round(time.time() - t0, 1)}
        if lean_ok:
            json.dump(info, open(stamp, "w"))
        else:
            if os.path.exists(stamp):
                os.remove(stamp)
        return info


def failing_modules(lean_log):
    """Modules named as failed targets in a lake build log."""
    mods = re.findall(r"^- (KB[\w.]*)", lean_log, re.M)
    errs = re.findall(r"^error: (KB/[\w/]+\.lean):(\d+):\d+: (.*)$", lean_log, re.M)
    return mods, errs


def module_deps(mod, seen=None):
    """Transitive KB.* imports of a module (by reading the sources)."""
    seen = seen if seen is not None else set()
    if mod in seen:
        return seen
    seen.add(mod)
    p = os.path.join(LEAN, *mod.split(".")) + ".lean"
    if not os.path.exists(p):
        return seen
    for line in open(p):
        m = re.match(r"\s*import\s+(KB[\w.]*)", line)
        if m:
            module_deps(m.group(1), seen)
    return seen


def audit(prop_module, namespace):
    """Proof audit for one property module: forbidden tokens in its import closure, `#print axioms` of
    every theorem declared in the property file. Returns (obligations, discharged, details, problems)."""
    problems = []
    deps = module_deps(prop_module)
    for mod in sorted(deps):
        p = os.path.join(LEAN, *mod.split(".")) + ".lean"
        if not os.path.exists(p):
            continue
        in_block = False
        for i, line in enumerate(open(p), 1):
            s = line
            # strip comments (line and simple block comments)
            if in_block:
                if "-/" in s:
                    in_block = False
                    s = s.split("-/", 1)[1]
                else:
                    continue
            if "/-" in s:
                pre, rest = s.split("/-", 1)
                if "-/" in rest:
                    s = pre + rest.split("-/", 1)[1]
                else:
                    in_block = True
                    s = pre
            s = s.split("--", 1)[0]
            if FORBIDDEN.search(s):
                problems.append("%s:%d forbidden token: %s" % (mod, i, line.strip()))
    src = os.path.join(LEAN, *prop_module.split(".")) + ".lean"
    if not os.path.exists(src):
        return 0, 0, {}, ["property module %s does not exist" % prop_module]
    names = re.findall(r"^theorem\s+([\w.']+)", open(src).read(), re.M)
    tmp = os.path.join(BUILD, "audit_%s.lean" % prop_module.replace(".", "_"))
    with open(tmp, "w") as f:
        f.write("import %s\n" % prop_module)
        for n in names:
            f.write("#print axioms %s.%s\n" % (namespace, n))
    rc, out = sh(["lake", "env", "lean", tmp], cwd=LEAN)
    details = {}
    cur = None
    # output: "'KB.C10.foo' depends on axioms: [propext, ...]" or "... does not depend on any axioms"
    for m in re.finditer(r"'([\w.']+)' (?:depends on axioms: \[([^\]]*)\]|does not depend on any axioms)", out.replace("\n", " ")):
        ax = [a.strip() for a in (m.group(2) or "").split(",") if a.strip()]
        full = m.group(1)
        details[full[len(namespace) + 1:] if full.startswith(namespace + ".") else full.split(".")[-1]] = ax
    discharged = 0
    for n in names:
        if n not in details:
            problems.append("theorem %s: no #print axioms output (%s)" % (n, out.strip()[-300:]))
            continue
        bad = [a for a in details[n] if a not in ALLOWED_AXIOMS]
        if bad:
            problems.append("theorem %s depends on non-standard axioms %s" % (n, bad))
        else:
            discharged += 1
    return len(names), discharged, details, problems


# ---------------------------------------------------------------- correspondence runs

def run_proc(cmd, script_lines, timeout, env=None):
    data = "\n".join(script_lines) + "\n"
    try:
        p = subprocess.run(cmd, input=data, stdout=subprocess.PIPE, stderr=subprocess.PIPE, text=True,
                           timeout=timeout, env=env)
        out = p.stdout.splitlines()
        if p.returncode != 0:
            out.append("CRASHED rc=%d %s" % (p.returncode, " ".join(p.stderr.split()[-30:])))
        return out
    except subprocess.TimeoutExpired as e:
        out = (e.stdout or b"")
        if isinstance(out, bytes):
            out = out.decode(errors="replace")
        return out.splitlines() + ["TIMEOUT"]


def run_model(suite, lines, timeout=120):
    return run_proc([KBMODEL, suite], lines, timeout)


def annotate(lines, model_out):
    """Expected-guided waiting: hand the model's observations of asynchronous state to the harness."""
    res = []
    for ln, mo in zip(lines, model_out + [""] * (len(lines) - len(model_out))):
        t = ln.split()
        if not t:
            res.append(ln)
            continue
        if t[0] == "rev":
            m = mo.split()
            if len(m) == 2:
                ln = ln + " want=" + m[1]
        elif t[0] == "drain":
            m = mo.split()
            if len(m) >= 4:
                n = 0 if m[2] == "-" else len(m[2].split(","))
                ln = ln + " want=%d closed=%s" % (n, m[3].split("=")[1])
        elif t[0] == "bdrain":
            m = mo.split()
            if len(m) >= 3 and m[2].startswith("n="):
                ln = ln + " want=" + m[2][2:]
        elif t[0] == "await":
            m = mo.split()
            if len(m) == 3:
                ln = ln + " want=" + m[2]
        elif t[0] == "sync":
            m = mo.split()
            if len(m) == 2:
                ln = ln + " want=" + m[1]
        elif t[0] == "take":
            m = mo.split()
            if len(m) >= 4 and m[0] == "batch":
                n = 0 if m[2] == "-" else len(m[2].split(","))
                ln = ln + " want=%d closed=%s" % (n, m[3].split("=")[1])
        elif t[0] == "join":
            if mo.startswith("stuck"):
                ln = ln + " want=stuck"
        elif t[0] in ("qlen", "retrywait"):
            m = mo.split()
            if len(m) == 2:
                ln = ln + " want=" + m[1]
        res.append(ln)
    return res


def run_impl(suite, lines, timeout=180, patient=False):
    env = dict(os.environ, KB_TMP=os.environ.get("KB_TMP", "/dev/shm" if os.path.isdir("/dev/shm") else "/tmp"),
               GOMEMLIMIT="2GiB")
    if patient:
        # confirmation re-run of a differing case: alone, with a generous bound on every expected-guided wait
        env["KB_WAIT_MS"] = "20000"
        timeout = 600
    return run_proc([KBHARNESS, "-suite", suite], lines, timeout, env=env)


def first_diff(a, b):
    for i in range(max(len(a), len(b))):
        x = a[i] if i < len(a) else "<missing>"
        y = b[i] if i < len(b) else "<missing>"
        if x != y:
            return i
    return None


class Case:
    """One script: suite, lines, and free-form metadata used by oracles."""

    def __init__(self, suite, lines, meta=None, compare=None, model_suite=None):
        self.suite = suite
        self.model_suite = model_suite or suite
        self.lines = lines
        self.meta = meta or {}
        self.compare = compare  # optional predicate (op_token) -> bool: which lines to compare
        self.model = None
        self.impl = None

    def run(self, patient=False):
        self.model = run_model(self.model_suite, self.lines)
        self.impl = run_impl(self.suite, annotate(self.lines, self.model), patient=patient)
        return self

    def diff(self):
        """Index of the first compared line on which model and implementation differ."""
        a, b = self.model, self.impl
        for i in range(max(len(a), len(b), len(self.lines))):
            x = a[i] if i < len(a) else "<missing>"
            y = b[i] if i < len(b) else "<missing>"
            if x != y:
                if self.compare and i < len(self.lines):
                    t = self.lines[i].split()
                    if t and not self.compare(t[0]):
                        continue
                return i
        return None


class ImplOnlyCase(Case):
    """A script that is run on the implementation only and judged by its oracle alone (no model transcript): for inputs
    whose size is out of reach of the executable model (tens of thousands of events). Supplementary: it can find a
    failing input, it ties nothing to the model."""

    def __init__(self, suite, lines, meta=None, timeout=60):
        super().__init__(suite, lines, meta)
        self.timeout = timeout

    def run(self, patient=False):
        self.model = ["-"] * len(self.lines)
        self.impl = run_impl(self.suite, self.lines, timeout=self.timeout)
        return self

    def diff(self):
        return None


RERUNS = {"n": 0}


def run_cases(cases, workers=10, confirm=True):
    """Run all cases in parallel. A case whose transcripts differ is re-run ALONE (up to twice) before
    anything is concluded from it: a genuine divergence is deterministic and reproduces, a timing
    artefact of a loaded machine (asynchronous observations are waited for with a bound) does not."""
    with ThreadPoolExecutor(max_workers=workers) as ex:
        res = list(ex.map(lambda c: c.run(), cases))
    if confirm:
        def bad(c):
            return c.diff() is not None or any(x in ("TIMEOUT",) or x.startswith("CRASHED") for x in (c.impl or [])[-1:])
        confirmed = 0
        for c in cases:
            if confirmed >= 3:
                break           # three reproduced divergences: the verdict does not need more (a broken tree can make every case slow)
            tries, prev = 0, None
            while tries < 2 and bad(c):
                sig = (c.diff(), tuple((c.impl or [])[-3:]))
                if sig == prev:
                    break       # reproduced identically when run alone: deterministic
                prev = sig
                tries += 1
                RERUNS["n"] += 1
                c.run(patient=True)
            if bad(c):
                confirmed += 1
    return res


def shrink(case, still_bad, budget=60):
    """ddmin-lite over script lines (keeps the cfg line); `still_bad(case)` re-runs and judges."""
    lines = case.lines
    head = [l for l in lines[:1] if l.startswith("cfg")]
    body = lines[len(head):]
    n = 2
    tries = 0
    while len(body) >= 2 and tries < budget:
        chunk = max(1, len(body) // n)
        reduced = False
        for i in range(0, len(body), chunk):
            cand = body[:i] + body[i + chunk:]
            tries += 1
            c2 = Case(case.suite, head + cand, case.meta, case.compare, case.model_suite).run()
            if still_bad(c2):
                body = cand
                n = max(n - 1, 2)
                reduced = True
                break
            if tries >= budget:
                break
        if not reduced:
            if chunk == 1:
                break
            n = min(n * 2, len(body))
    return Case(case.suite, head + body, case.meta, case.compare, case.model_suite).run()


# ---------------------------------------------------------------- verdicts and evidence

def load_known():
    p = os.path.join(VERIF, "known_findings.json")
    if os.path.exists(p):
        return json.load(open(p))
    return {"findings": []}


def write_replay(prop, tag, case=None, text=None):
    os.makedirs(REPLAYS, exist_ok=True)
    path = os.path.join(REPLAYS, "%s-%s.txt" % (prop, tag))
    with open(path, "w") as f:
        if text:
            f.write(text.rstrip() + "\n")
        if case is not None:
            f.write("# suite: %s\n# replay: %s -suite %s < this file (lines starting with # are ignored)\n" %
                    (case.suite, KBHARNESS, case.suite))
            d = case.diff()
            if d is not None:
                f.write("# first differing line %d:\n#   model: %s\n#   impl:  %s\n" % (
                    d + 1, case.model[d] if d < len(case.model) else "<missing>",
                    case.impl[d] if d < len(case.impl) else "<missing>"))
            for ln in case.lines:
                f.write(ln + "\n")
            f.write("# --- implementation transcript\n")
            for ln in case.impl or []:
                f.write("# " + ln + "\n")
    return path


class Report:
    def __init__(self, prop, tier, seed):
        self.prop = prop
        self.tier = tier
        self.seed = seed
        self.t0 = time.time()
        self.violations = []   # (replay_path, suffix)
        self.known = []
        self.cov = {"evaluations": 0, "distinct_nontrivial": 0, "samples": [], "suites": {}, "op_histogram": {},
                    "disagreements_checked": 0}
        self.assumptions = []
        self.seen = set()

    def count_case(self, case, nontrivial=True):
        self.cov["evaluations"] += 1
        key = hashlib.sha1("\n".join(case.lines).encode()).hexdigest()
        if key not in self.seen and nontrivial:
            self.seen.add(key)
            self.cov["distinct_nontrivial"] += 1
        su = self.cov["suites"].setdefault(case.suite, {"scripts": 0, "ops": 0})
        su["scripts"] += 1
        su["ops"] += len(case.lines)
        for ln in case.lines:
            t = ln.split()
            if t:
                self.cov["op_histogram"][t[0]] = self.cov["op_histogram"].get(t[0], 0) + 1
        oc = self.cov.setdefault("outcome_histogram", {})
        for out in (case.impl or []):
            o = out.split()
            if len(o) >= 4 and o[0] == "done":
                o = o[2:]
            if len(o) >= 2 and o[0] in ("create", "update", "delete", "batch", "compact", "watch", "list", "stream"):
                tag = o[1] if (o[1].isalpha() and len(o[1]) < 12) else "data"
                if o[0] == "stream":
                    tag = "error-terminated" if " belowfloor " in out or " other " in out else ("empty" if o[1] == "end" else "data")
                key = o[0] + " " + tag + ((" " + o[2]) if o[1] == "err" and len(o) > 2 else "")
                oc[key] = oc.get(key, 0) + 1
        if len(self.cov["samples"]) < 3:
            self.cov["samples"].append({"suite": case.suite, "script": case.lines[:40],
                                        "impl_transcript": (case.impl or [])[:40]})

    def violation(self, replay, no_input=False):
        self.violations.append((replay, no_input))

    def known_finding(self, text):
        if text not in self.known:
            self.known.append(text)

    def finish(self, proof=None, level="proof", extra=None):
        cov = self.cov
        if proof:
            cov.update(proof)
        if extra:
            cov.update(extra)
        cov["serial_reruns_of_differing_cases"] = RERUNS["n"]
        ev = {
            "property_id": self.prop, "tier": self.tier, "seed": self.seed, "level": level,
            "coverage": cov, "assumptions": self.assumptions, "wall_s": round(time.time() - self.t0, 2),
            "violations": len(self.violations),
        }
        os.makedirs(EVID, exist_ok=True)
        with open(os.path.join(EVID, "%s.json" % self.prop), "w") as f:
            json.dump(ev, f, indent=1, sort_keys=True)
        for k in self.known:
            print("KNOWN-FINDING: property=%s %s" % (self.prop, k))
        for replay, no_input in self.violations:
            print("VIOLATION property=%s replay=%s%s" % (self.prop, replay, " no-failing-input-found" if no_input else ""))
        sys.stdout.flush()
        return 1 if self.violations else 0


def handle_oracle_hit(rep, prop, tag, case, desc, sig, shrink_fn=None):
    """An oracle flagged a concrete failing input: known finding (listed by signature) or violation."""
    for f in load_known().get("findings", []):
        if f.get("property") == prop and f.get("signature") == sig and f.get("status") == "known":
            rep.known_finding("%s [signature %s]" % (f.get("what", desc), sig))
            return False
    if shrink_fn is not None:
        try:
            case = shrink(case, shrink_fn)
        except Exception:
            pass
    rep.violation(write_replay(prop, tag, case=case, text="# oracle: " + desc))
    return True


def leak_hit(case):
    """The harness counts the write batches the code under test begins and brings to Commit (its wrapper begins the engine's batch
    lazily). A sequential script at whose end a begun batch was never committed is a node that, on the in-memory engine (store
    mutex held from BeginBatchWrite to Commit), is wedged for good: every later request blocks."""
    for i, out in enumerate(case.impl or []):
        if out.startswith("LEAKED-BATCH"):
            return ("after the %d requests of this script: %s" % (i, out), "begun-batch-never-committed")
    return None


def judge(rep, prop, cases, oracle, tag="correspondence", shrink_fn=None):
    """Two passes over the cases that were run: FIRST every case is judged by its oracle on the implementation's
    transcript (a concrete failing input is what a violation should name), and only when no oracle objects is the first
    model/implementation difference reported (no failing input found). True = the check should stop."""
    inner = oracle

    def oracle(c):
        return leak_hit(c) or inner(c)
    for c in cases:
        rep.count_case(c)
        hit = oracle(c)
        if hit:
            if handle_oracle_hit(rep, prop, "".join(ch for ch in hit[1] if ch.isalnum() or ch in "-_."), c, hit[0], hit[1], shrink_fn=shrink_fn):
                return True
    for c in cases:
        if oracle(c) is None and c.diff() is not None:
            handle_diff(rep, prop, tag, c)
            return True
    return False


def handle_diff(rep, prop, tag, case):
    """Model and implementation disagree but no oracle found a failing input."""
    rep.cov["disagreements_checked"] += 1
    rep.violation(write_replay(prop, tag, case=case,
                               text="# correspondence broken: the Lean model (KB.Backend / kbmodel) and the implementation differ; "
                                    "the theorems of %s are no longer tied to this code" % prop), no_input=True)
