"""C03 — a read at R is exactly the MVCC snapshot at R: theorems KB.Props.C03, `backend` suite on every engine."""
from .. import core, hist
from ..gen import KEY_POOL, hx, rng_for, PREFIX

ENGINES = ["memkv", "badger", "tikv", "metrics-badger"]
# range bounds of the form key+\x00: order facts (C10) lifted to the range read
EXTRA_PROP_MODULES = [("KB.Props.C03Bounds", "KB.C03Bounds"),
                      # the TiKV adapter iterates at snapshot isolation (shape fact)
                      ("KB.Props.OrderC11", "KB.OrderC11")]


def gen_case(seed, i, engine, n_ops):
    r = rng_for(seed, "c03/%d" % i)
    keys = r.sample(KEY_POOL, r.randint(4, 10))
    sh = hist.Shadow()
    lines = [hist.cfg_line(engine)]
    rounds = r.randint(2, 4)
    floor = hist.INIT
    for _ in range(rounds):
        lines += hist.gen_writes(r, sh, n_ops // rounds, keys)
        lines += hist.gen_reads(r, sh, n_ops // (2 * rounds), keys, succ_b=True)
        if r.random() < 0.5:
            # a client paging through a range (continue key = lastKey+\x00), at the current or at an old revision
            lines += hist.gen_pages(r, sh, keys, rev=r.choice([0, 0, r.randint(floor, sh.dealt)]))
        if r.random() < 0.3:
            # a compaction (increasing revisions only: C08 owns the other orders), then re-reads
            floor = max(floor, r.randint(hist.INIT, sh.dealt))
            lines.append("compact %d" % floor)
    lines += hist.gen_reads(r, sh, n_ops // 2, keys, succ_b=True)
    lines += hist.gen_pages(r, sh, keys)
    return core.Case("backend", lines, {"engine": engine})


def bounds_case(seed, i, engine):
    """Range bounds of the form key+\x00 (/repo 146f0bb), bounds with ANY byte at or below '$' (/repo 23c8b93: key+\x01,
    key+'#', key+'$', key+\x00\x00, key+\x00+'b', bounds starting with a low byte) and writes without a value (/repo f2a549c),
    deterministically:
    paging with every page size through prefix-related keys (a key, its extension, its sibling), at the current and at an
    old revision; the single-key range [k, k\x00) of live, deleted and missing keys; counts over such bounds; empty-value
    creates / updates, which must be refused alike and change nothing."""
    from ..gen import PREFIX
    r = rng_for(seed, "c03b/%d" % i)
    keys = [b"/r/a", b"/r/a/b", b"/r/a0", b"/r/a\xff", b"/r/b", b"/r/b/c", b"/r/c"]
    r.shuffle(keys)
    keys = keys[:r.randint(4, 7)]
    sh = hist.Shadow()
    lines = [hist.cfg_line(engine)]
    lines += hist.gen_writes(r, sh, 14, keys, values=[b"v1", b"v2", b"v3"], p_ok=0.9)
    old = sh.dealt
    lines += hist.gen_writes(r, sh, 8, keys, values=[b"w1", b"w2"], p_ok=0.9)
    lo, hi = PREFIX + b"/", PREFIX + b"0"
    for rev in (0, old):
        for n in (1, 2, 3):
            lines += hist.gen_pages(r, sh, keys, rev=rev, n=n)
        for k in keys + [b"/r/zz"]:
            lines.append("list %s %s %d 0" % (hx(k), hx(hist.succ(k)), rev))              # exactly k (or nothing)
            lines.append("list %s %s %d 0" % (hx(hist.succ(k)), hx(hi), rev))               # everything after k, not k
            lines.append("list %s %s %d 1" % (hx(lo), hx(hist.succ(k)), rev))               # ... up to and including k
    for k in keys:
        lines += ["count %s %s" % (hx(hist.succ(k)), hx(hi)), "count %s %s" % (hx(lo), hx(hist.succ(k))),
                  "count %s %s" % (hx(k), hx(hist.succ(k)))]
    # bounds with other low bytes (/repo 23c8b93): [k, k+low) is exactly k, [k+low, hi) everything after k and not k,
    # [lo, k+low) up to and including k, [k+low1, k+low2) nothing (the two are encoded alike), [k\x00, k+low) nothing;
    # bounds that START with a low byte lie below every key
    for rev in (0, old):
        for k in r.sample(keys, 3) + [b"/r/zz"]:
            lows = hist.low_bounds(k, r, 4)
            for L in lows:
                lines.append("list %s %s %d 0" % (hx(k), hx(L), rev))
                lines.append("list %s %s %d %d" % (hx(L), hx(hi), rev, r.choice([0, 1])))
                lines.append("list %s %s %d %d" % (hx(lo), hx(L), rev, r.choice([0, 2])))
            a, b = sorted(r.sample(lows, 2))
            lines += ["list %s %s %d 0" % (hx(a), hx(b), rev), "list %s %s %d 0" % (hx(hist.succ(k)), hx(max(lows)), rev)]
            k2 = r.choice(keys)
            a, b = sorted([r.choice(lows), r.choice(hist.low_bounds(k2))])
            lines.append("list %s %s %d 0" % (hx(a), hx(b), rev))
        for H in hist.LOW_HEADS:
            lines.append("list %s %s %d %d" % (hx(H), hx(hi), rev, r.choice([0, 0, 2])))
            lines.append("list %s %s %d 0" % (hx(H), hx(r.choice(keys) + r.choice(hist.LOW_TAILS)), rev))
        a, b = sorted(r.sample(hist.LOW_HEADS, 2))
        lines.append("list %s %s %d 0" % (hx(a), hx(b), rev))
    for k in r.sample(keys, 3):
        L = r.choice(hist.low_bounds(k))
        lines += ["count %s %s" % (hx(L), hx(hi)), "count %s %s" % (hx(lo), hx(L)), "count %s %s" % (hx(k), hx(L)),
                  "count %s %s" % (hx(r.choice(hist.LOW_HEADS)), hx(L))]
    # the encoded bounds themselves (GetPartitions of a one-partition engine answers [encodeRangeBound(a), encodeRangeBound(b)])
    for k in r.sample(keys, 2):
        L = r.choice(hist.low_bounds(k))
        lines += ["parts %s %s" % (hx(k), hx(L)), "parts %s %s" % (hx(L), hx(hi))]
    # writes without a value: refused before a revision is dealt, nothing changes (all engines alike)
    live = [k for k in keys if sh.keys.get(k, (0, False))[1]]
    dead = [k for k in keys if k not in live] + [b"/r/zz"]
    lines.append("rev")
    for k in dead[:2]:
        lines += ["create %s -" % hx(k), "rev", "update %s - 0" % hx(k), "rev", "get %s 0" % hx(k)]
    for k in live[:2]:
        lines += ["update %s - %d" % (hx(k), sh.keys[k][0]), "rev", "create %s -" % hx(k), "rev", "get %s 0" % hx(k)]
    lines += ["list %s %s 0 0" % (hx(lo), hx(hi)), "create %s %s" % (hx(b"/r/zz"), hx(b"x")), "rev", "list %s %s 0 0" % (hx(lo), hx(hi))]
    return core.Case("backend", lines, {"engine": engine, "kind": "bounds"})


def iterfault_case(seed, i, engine):
    """a transient iterator error in the middle of a scan (the worker retries its partition after a backoff):
    the answer must be exactly the fault-free one — no duplicates, nothing missing, same order"""
    from ..gen import PREFIX, hx
    r = rng_for(seed, "c03it/%d" % i)
    keys = r.sample([k for k in KEY_POOL if b"events" not in k][:8], r.randint(3, 5))
    sh = hist.Shadow()
    lines = [hist.cfg_line(engine)]
    lines += hist.gen_writes(r, sh, r.randint(8, 16), keys, p_ok=0.9)
    lines.append("rev")
    lo, hi = hx(PREFIX + b"/"), hx(PREFIX + b"0")
    for _ in range(2):
        rev = r.choice([0, 0, r.randint(hist.INIT + 1, max(hist.INIT + 1, sh.dealt))])
        lines += ["iterfault %d" % r.choice([1, 1, r.randint(2, 9)]), r.choice(["list %s %s %d 0" % (lo, hi, rev), "count %s %s" % (lo, hi)])]
    # the node keeps serving afterwards (a fault on the very first fetch of an iterator must not take it down)
    lines += ["create %s %s" % (hx(PREFIX + b"/zz-after"), hx(b"x")), "rev", "list %s %s 0 0" % (lo, hi)]
    return core.Case("backend", lines, {"engine": engine})


def tombstone_witness(engine):
    k = hx(b"/r/a")
    lines = [hist.cfg_line(engine), "create %s %s" % (k, hx(hist.TOMB)), "rev", "get %s 0" % k,
             "list %s %s 0 0" % (hx(b"/r/"), hx(b"/r0")), "create %s %s" % (k, hx(b"v2")), "rev", "get %s 0" % k]
    return core.Case("backend", lines, {"engine": engine, "witness": "tombstone"})


def count_race_case(seed, i, engine):
    """a count (and a limited / unlimited list) PARKED inside its scan while a write in the counted range completes and becomes
    readable: whatever revision the answer names in its header, the number (the keys) it carries is the snapshot AT that
    revision. Implementation only (the scheduling model has no parked count); judged by the MVCC replay."""
    r = rng_for(seed, "c03cr/%d" % i)
    keys = sorted(r.sample([k for k in KEY_POOL if b"events" not in k], r.randint(3, 5)))
    lines = [hist.cfg_line(engine)]
    for k in keys[:-1]:
        lines += ["create %s %s" % (hx(k), hx(b"v")), "settle"]
    a, b = hx(PREFIX + b"/"), hx(PREFIX + b"0")
    op = ["count %s %s" % (a, b), "list %s %s 0 0" % (a, b), "list %s %s 0 2" % (a, b)][i % 3]
    lines += ["gated 1", "start c1 " + op]
    for _ in range(r.randint(0, 2)):
        lines.append("step c1")                     # somewhere inside the read: compaction-record look, partitions, iterator
    # (a create alone, a delete alone, or both: the number of keys must not stay the same by accident in every script)
    w = [["create %s %s" % (hx(keys[-1]), hx(b"late")), "settle"], ["delete %s 0" % hx(keys[0]), "settle"]]
    lines += [w[0], w[1], w[0] + w[1]][(i // 3) % 3]
    lines += ["step c1"] * 8
    return core.ImplOnlyCase("backend", lines, {"engine": engine, "count_race": True}, timeout=60)


def big_page_case(i, engine):
    """a limited range whose limit is as large as the pages newer kube-apiservers ask for (10000) over a directory with a few
    more keys than that: the page holds exactly `limit` keys and says `more`; the next page (continue key = last key + \\0)
    holds the rest and says it is the end. Implementation only (the executable model is not run over 10^4 keys)."""
    n = [10050, 10001, 10000][i % 3]
    lim = [10000, 10000, 10020][i % 3]
    pfx = PREFIX + b"/bp/"
    a, b = hx(pfx), hx(PREFIX + b"/bp0")
    last = pfx + (b"%05d" % (min(lim, n) - 1))
    lines = [hist.cfg_line(engine), "bulk %d %s %s" % (n, hx(pfx), hx(b"v")), "settle", "rev",
             "list %s %s 0 %d" % (a, b, lim), "list %s %s 0 %d" % (hx(last + b"\x00"), b, lim), "count %s %s" % (a, b)]
    return core.ImplOnlyCase("backend", lines, {"engine": engine, "big_page": (n, lim)}, timeout=120)


def fat_page_case(i, engine):
    """a limited range over a handful of LARGE objects (1 MiB each, like big secrets / CRDs): the page holds `limit` keys (or all of
    them) whatever their size, and `more` says exactly whether the limit cut the result short"""
    n, lim = [(7, 5), (7, 10), (6, 6)][i % 3]
    pfx = PREFIX + b"/fp/"
    a, b = hx(pfx), hx(PREFIX + b"/fp0")
    last = pfx + (b"%05d" % (min(lim, n) - 1))
    lines = [hist.cfg_line(engine), "bulk %d %s %s" % (n, hx(pfx), "61" * (1 << 20)), "settle", "rev",
             "list %s %s 0 %d" % (a, b, lim), "list %s %s 0 %d" % (hx(last + b"\x00"), b, lim), "count %s %s" % (a, b)]
    return core.ImplOnlyCase("backend", lines, {"engine": engine, "big_page": (n, lim)}, timeout=120)


def big_page_oracle(case):
    n, lim = case.meta["big_page"]
    out = case.impl or []
    if len(out) < len(case.lines) or any(x == "TIMEOUT" or x.startswith("CRASHED") for x in out):
        return ("the script with a page of %d keys did not finish: %s" % (lim, [x[:80] for x in out][-2:]), "big-page-unanswered")
    def parse(o):
        t = o.split()
        return t[1], t[2], (0 if len(t) < 4 or t[3] == "-" else t[3].count(",") + 1)
    h1, more1, k1 = parse(out[4])
    h2, more2, k2 = parse(out[5])
    if h1 == "err" or h2 == "err":
        return ("a limited range with limit %d over %d keys was refused: %s / %s" % (lim, n, out[4][:80], out[5][:80]), "big-page-refused")
    want1, wmore1 = min(lim, n), "1" if n > lim else "0"
    if k1 != want1 or more1 != wmore1:
        return ("a range with limit %d over %d live keys answered %d keys with more=%s (want %d keys, more=%s): a client that trusts the "
                "flag never asks for the rest" % (lim, n, k1, more1, want1, wmore1), "more-flag-wrong")
    if k2 != n - want1 or more2 != "0":
        return ("the page after the first %d keys answered %d keys with more=%s (want %d, more=0)" % (want1, k2, more2, n - want1), "more-flag-wrong")
    if out[6].split()[2:3] != [str(n)]:
        return ("count over %d live keys answered %s" % (n, out[6][:60]), "range-count")
    return None


def count_race_oracle(case):
    ref = hist.Ref()
    for i, (line, out) in enumerate(zip(case.lines, case.impl)):
        t, o = line.split(), out.split()
        ref.feed(line, out)
        if o[:2] == ["done", "c1"] and len(o) >= 5 and o[3] != "err":
            hdr = int(o[3])
            want = ref.range(PREFIX + b"/", PREFIX + b"0", hdr)
            if o[2] == "count":
                if int(o[4]) != len(want):
                    return ("line %d: a count racing two writes answered %s keys at revision %d; the snapshot at %d holds %d: %s"
                            % (i + 1, o[4], hdr, hdr, len(want), want), "range-count-not-at-header-revision")
            elif o[2] == "list" and len(o) >= 6:
                got = [] if o[5] == "-" else hist.parse_kvs(o[5])
                lim = int(case.lines[[j for j, l in enumerate(case.lines) if l.startswith("start c1")][0]].split()[-1])
                exp = want[:lim] if lim else want
                if sorted(got) != sorted(exp):
                    return ("line %d: a range read racing two writes answered %s at revision %d; the snapshot at %d is %s"
                            % (i + 1, got, hdr, hdr, exp), "snapshot-mismatch")
    return None


def check(rep, tier, seed):
    n_hist, n_ops = (48, 60) if tier == "quick" else (1600, 120)
    # the deterministic bound / empty-value scripts first (cheap and telling): the run stops at the first violation they
    # confirm — an oracle hit that reproduces when the script is run again alone — before the random histories are run at
    # all (on a tree where model and implementation differ every script costs its expected-guided waits)
    first = [bounds_case(seed, i, ENGINES[i % len(ENGINES)]) for i in range(8 if tier == "quick" else 64)]
    core.run_cases(first, confirm=False)
    for c in first:
        hit = hist.check_reads(c)
        if hit:
            c2 = core.Case(c.suite, c.lines, c.meta).run()
            hit2 = hist.check_reads(c2)
            if hit2 and hit2[1] == hit[1]:
                rep.count_case(c2)
                if core.handle_oracle_hit(rep, "C03", hit2[1].replace("=", ""), c2, hit2[0], hit2[1]):
                    return
    for c in first:
        rep.count_case(c)
    differing = [c for c in first if c.diff() is not None][:3]
    if differing:
        core.run_cases(differing)           # re-run alone (a timing artefact does not reproduce)
    for c in differing:
        if c.diff() is not None:
            core.handle_diff(rep, "C03", "correspondence", c)
            return
    # reads THROUGH THE ETCD ENDPOINT at revision 1888 (/repo e617587): the backend has no magic revision, RPCServer.Range has —
    # before the repair every ranged read at explicit revision 1888 (an ordinary revision of a store initialised below it:
    # "all read revisions between the first and the current revision ... all limits") was answered with partition borders
    # instead of the snapshot. The scripts, the suite (`etcd`) and the oracle (a Python etcd on raw keys) are C16's
    # (`c16.magic_revision_case`); here the hits that concern the snapshot itself are C03's.
    from . import c16
    engines16 = ["memkv", "badger"] if tier == "quick" else ["memkv", "badger", "tikv"] * 2
    via_etcd = [c16.magic_revision_case(seed, 100 + i, e) for i, e in enumerate(engines16)]
    core.run_cases(via_etcd)
    snapshot_sigs = {c16.MAGIC_SIG, "range-kvs", "range-header", "range-error", "range-count", "crash"}
    for c in via_etcd:
        rep.count_case(c)
        for (_i, desc, sig) in c16.oracle(c):
            if sig in snapshot_sigs and core.handle_oracle_hit(rep, "C03", sig, c, desc, sig):
                return
    for c in via_etcd:
        if c.diff() is not None:
            core.handle_diff(rep, "C03", "correspondence-etcd", c)
            return
    rep.cov["reads_through_etcd_endpoint_at_magic_revision"] = len(via_etcd)
    cases = [gen_case(seed, i, ENGINES[i % len(ENGINES)], n_ops) for i in range(n_hist)]
    cases += [tombstone_witness(e) for e in ENGINES[:3]]
    # reads while writes are in flight (applied by the engine but not yet readable): scheduled executions
    from .. import sched
    for i in range(16 if tier == "quick" else 400):
        r = rng_for(seed, "c03s/%d" % i)
        cases.append(sched.gen_schedule(r, 4, r.sample(KEY_POOL[:8], 2), ENGINES[i % 3]))
    cases += [iterfault_case(seed, i, (ENGINES + ["metrics-memkv"])[i % 5]) for i in range(10 if tier == "quick" else 90)]
    cases += [count_race_case(seed, i, ENGINES[i % 3]) for i in range(9 if tier == "quick" else 180)]
    cases += [big_page_case(i, ["memkv", "badger", "tikv"][i % 3]) for i in range(2 if tier == "quick" else 6)]
    cases += [fat_page_case(i, ["memkv", "tikv", "badger"][i % 3]) for i in range(2 if tier == "quick" else 6)]
    core.run_cases(cases)
    pick = lambda c: big_page_oracle(c) if c.meta.get("big_page") else count_race_oracle(c) if c.meta.get("count_race") else hist.check_reads(c)
    if core.judge(rep, "C03", cases, pick, shrink_fn=lambda x: not x.meta.get("count_race") and not x.meta.get("big_page") and hist.check_reads(x) is not None):
        return
    rep.assumptions += ["reads at revisions the node has reported readable (<= committed) and >= compaction floor",
                        "through the etcd endpoint (suite `etcd`, scripts and oracle of C16): paginated lists, counts and point reads at "
                        "revision 1888 (RPCServer.Range's partition-listing magic, an ordinary revision of a store initialised at 1880), at "
                        "1887 and 1889; the UNLIMITED plain range at exactly 1888 is the in-band partition request (C16 observation)",
                        "range bounds: ANY byte strings — keys over the alphabet, their successors key+\\x00 (continue key of a paginated "
                        "list, end of a single-key range), and bounds with any other byte at or below '$' behind a key or at their start "
                        "(/repo 23c8b93) — judged on raw keys by the MVCC replay",
                        "non-empty values (a write without a value must be refused on every engine alike, consuming no revision); "
                        "count with EnableEtcdCompatibility=true",
                        "engines: memkv, badger, tikv mock cluster, metrics wrapper over badger"]
