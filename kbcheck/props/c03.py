"""C03 — a read at R is exactly the MVCC snapshot at R: theorems KB.Props.C03, `backend` suite on every engine."""
from .. import core, hist
from ..gen import KEY_POOL, hx, rng_for

ENGINES = ["memkv", "badger", "tikv", "metrics-badger"]


def gen_case(seed, i, engine, n_ops):
    r = rng_for(seed, "c03/%d" % i)
    keys = r.sample(KEY_POOL, r.randint(4, 10))
    sh = hist.Shadow()
    lines = [hist.cfg_line(engine)]
    rounds = r.randint(2, 4)
    for _ in range(rounds):
        lines += hist.gen_writes(r, sh, n_ops // rounds, keys)
        lines += hist.gen_reads(r, sh, n_ops // (2 * rounds), keys)
        if r.random() < 0.3:
            # a compaction (increasing revisions only: C08 owns the other orders), then re-reads
            lines.append("compact %d" % r.randint(hist.INIT, sh.dealt))
    lines += hist.gen_reads(r, sh, n_ops // 2, keys)
    return core.Case("backend", lines, {"engine": engine})


def iterfault_case(seed, i, engine):
    """a transient iterator error in the middle of a scan (the worker retries its partition after a backoff):
    the answer must be exactly the fault-free one — no duplicates, nothing missing, same order"""
    from ..gen import PREFIX, hx
    r = rng_for(seed, "c03it/%d" % i)
    keys = r.sample([k for k in KEY_POOL if b"events" not in k][:8], r.randint(3, 5))
    sh = hist.Shadow()
    lines = [hist.cfg_line(engine)]
    lines += hist.gen_writes(r, sh, r.randint(8, 16), keys, p_ok=0.9)
    lines.append("rev")
    lo, hi = hx(PREFIX + b"/"), hx(PREFIX + b"0")
    for _ in range(2):
        rev = r.choice([0, 0, r.randint(hist.INIT + 1, max(hist.INIT + 1, sh.dealt))])
        lines += ["iterfault %d" % r.choice([1, 1, r.randint(2, 9)]), r.choice(["list %s %s %d 0" % (lo, hi, rev), "count %s %s" % (lo, hi)])]
    # the node keeps serving afterwards (a fault on the very first fetch of an iterator must not take it down)
    lines += ["create %s %s" % (hx(PREFIX + b"/zz-after"), hx(b"x")), "rev", "list %s %s 0 0" % (lo, hi)]
    return core.Case("backend", lines, {"engine": engine})


def tombstone_witness(engine):
    k = hx(b"/r/a")
    lines = [hist.cfg_line(engine), "create %s %s" % (k, hx(hist.TOMB)), "rev", "get %s 0" % k,
             "list %s %s 0 0" % (hx(b"/r/"), hx(b"/r0")), "create %s %s" % (k, hx(b"v2")), "rev", "get %s 0" % k]
    return core.Case("backend", lines, {"engine": engine, "witness": "tombstone"})


def check(rep, tier, seed):
    n_hist, n_ops = (48, 60) if tier == "quick" else (1600, 120)
    cases = [gen_case(seed, i, ENGINES[i % len(ENGINES)], n_ops) for i in range(n_hist)]
    cases += [tombstone_witness(e) for e in ENGINES[:3]]
    # reads while writes are in flight (applied by the engine but not yet readable): scheduled executions
    from .. import sched
    for i in range(16 if tier == "quick" else 400):
        r = rng_for(seed, "c03s/%d" % i)
        cases.append(sched.gen_schedule(r, 4, r.sample(KEY_POOL[:8], 2), ENGINES[i % 3]))
    cases += [iterfault_case(seed, i, (ENGINES + ["metrics-memkv"])[i % 5]) for i in range(10 if tier == "quick" else 90)]
    core.run_cases(cases)
    if core.judge(rep, "C03", cases, hist.check_reads, shrink_fn=lambda x: hist.check_reads(x) is not None):
        return
    rep.assumptions += ["reads at revisions the node has reported readable (<= committed) and >= compaction floor",
                        "non-empty values; count with EnableEtcdCompatibility=true",
                        "engines: memkv, badger, tikv mock cluster, metrics wrapper over badger"]
