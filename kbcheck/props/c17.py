"""C17 — expiry removes only event keys, wholly, and only after the TTL."""
from .. import core, hist
from ..gen import PREFIX, hx, rng_for

TTL_MS = 1000
EVENT_KEYS = [PREFIX + b"/events/e1", PREFIX + b"/events/e2", PREFIX + b"/events/ns/e3"]
LOOKALIKES = [PREFIX + b"/pods/events/p1", PREFIX + b"/eventsx/q", PREFIX + b"/events", PREFIX + b"/a/events/x",
              PREFIX + b"/pods/p2"]


def is_event(k):
    return k.startswith(PREFIX + b"/events/")


def gen_case(seed, i, engine):
    r = rng_for(seed, "c17/%d" % i)
    keys = r.sample(EVENT_KEYS, r.randint(1, 3)) + r.sample(LOOKALIKES, r.randint(2, 4))
    sh = hist.Shadow()
    opts = dict(eventsttl=1, ttl=TTL_MS)
    lines = [hist.cfg_line(engine, **opts), "watch w1 %s 0" % hx(PREFIX + b"/")]
    lines += hist.gen_writes(r, sh, r.randint(4, 12), keys, p_ok=0.9)
    lines.append("compact 0")                 # mark 1
    # young changes after the first mark
    lines += hist.gen_writes(r, sh, r.randint(0, 4), keys, p_ok=0.9)
    if r.random() < 0.5:
        lines += ["sleep 300", "compact 0"]   # a young mark: nothing may expire yet
        lines += ["get %s 0" % hx(k) for k in keys]
    lines += ["sleep 1300", "compact 0", "dellog"]      # marks older than the TTL now exist
    lines.append("echo after-expiry")
    lines += ["get %s 0" % hx(k) for k in keys]
    lines.append("list %s %s 0 0" % (hx(PREFIX + b"/"), hx(PREFIX + b"0")))
    lines.append("dump")
    # expired keys can be created again; everything else keeps normal semantics
    for k in keys:
        if is_event(k):
            lines += ["create %s %s" % (hx(k), hx(b"again")), "rev"]
    lines += hist.gen_writes(r, sh, 3, keys, p_ok=0.5)
    lines += ["drain w1", "list %s %s 0 0" % (hx(PREFIX + b"/"), hx(PREFIX + b"0"))]
    return core.Case("backend", lines, {"engine": engine, "keys": keys})


def native_case(seed, i, engine):
    """engines WITH native TTL (memkv, Badger): the backend hands the TTL to the engine. Judged at the engine
    boundary (every batch's TTLs) and by behaviour: a re-created Event expires wholly and can be created again"""
    r = rng_for(seed, "c17n/%d" % i)
    ev = r.sample(EVENT_KEYS, 2)
    look = r.sample(LOOKALIKES, 2)
    lines = [hist.cfg_line(engine, eventsttl=1), "ttllog on"]
    for k in ev + look:
        lines += ["create %s %s" % (hx(k), hx(b"v1")), "rev"]
    # delete + re-create before any compaction: the creator takes its compare-and-swap path over the deletion record
    lines += ["delete %s 0" % hx(ev[0]), "rev", "create %s %s" % (hx(ev[0]), hx(b"v2")), "rev",
              "delete %s 0" % hx(look[0]), "rev", "create %s %s" % (hx(look[0]), hx(b"v2")), "rev", "ttllog"]
    lines += ["sleep 2600", "echo after-ttl"]
    lines += ["get %s 0" % hx(k) for k in ev + look]
    lines += ["create %s %s" % (hx(ev[0]), hx(b"again")), "rev", "get %s 0" % hx(ev[0])]
    return core.Case("backend", lines, {"engine": engine, "native": True, "ev": ev, "look": look}, compare=lambda op: False)


def renew_case(seed, i, how):
    """in-memory engine (its TTL is a timer per write): an Event changed again within its TTL lives until the TTL of
    its NEWEST change - at the deadline of the first write it must still be there, whole (index and version)"""
    r = rng_for(seed, "c17r/%d" % i)
    e = r.choice(EVENT_KEYS)
    lines = [hist.cfg_line("memkv", eventsttl=1), "mark first", "create %s %s" % (hx(e), hx(b"v1")), "rev", "sleep 550"]
    if how == "update":
        lines += ["mark newest", "update %s %s %d" % (hx(e), hx(b"v2"), hist.INIT + 1), "rev"]
        newest = hist.INIT + 2
    else:
        lines += ["delete %s 0" % hx(e), "rev", "mark newest", "create %s %s" % (hx(e), hx(b"v2")), "rev"]
        newest = hist.INIT + 3
    # the verdict needs real time: the first write's deadline has passed (since first >= 1050 ms BEFORE the probes),
    # the newest write's has not (since newest < 950 ms AFTER them); a run that was starved of CPU is inconclusive
    lines += ["sleep 700", "since first", "echo young", "get %s 0" % hx(e), "create %s %s" % (hx(e), hx(b"dup")), "rev",
              "update %s %s %d" % (hx(e), hx(b"v3"), newest), "rev", "since newest"]
    return core.Case("backend", lines, {"engine": "memkv", "native": True, "renew": True, "ev": [e], "look": []}, compare=lambda op: False)


def renew_conclusive(case):
    t = {}
    for line, out in zip(case.lines, case.impl):
        o = out.split()
        if line.startswith("since ") and len(o) == 3:
            t[o[1]] = int(o[2])
    # the renewing write itself must have landed while the first value was alive
    renewed = True
    for line, out in zip(case.lines, case.impl):
        if line == "echo young":
            break
        if line.split()[0] in ("update", "create", "delete") and out.split()[1:2] != ["ok"]:
            renewed = False
    return renewed and t.get("first", 0) >= 1050 and t.get("newest", 10 ** 9) < 950


def renew_oracle(case):
    if not renew_conclusive(case):
        return None
    young = False
    for i, (line, out) in enumerate(zip(case.lines, case.impl)):
        t, o = line.split(), out.split()
        if t[0] == "echo" and t[1] == "young":
            young = True
            continue
        if not young:
            continue
        if t[0] == "get" and len(o) >= 3 and o[2] == "-":
            return ("line %d: an Event whose newest change is younger than the TTL reads absent (%s)" % (i + 1, out), "young-event-removed")
        if t[0] == "create" and o[1] == "ok":
            return ("line %d: an Event whose newest change is younger than the TTL could be created again (%s): the timer of its "
                    "FIRST write removed the index of the newer one" % (i + 1, out), "young-event-removed")
        if t[0] == "update" and o[1] != "ok":
            return ("line %d: a guarded update with the revision of the newest change of a young Event fails (%s): its index "
                    "was removed by the timer of an older write" % (i + 1, out), "young-event-removed")
    return None


def raw_of(ik):
    b = bytes.fromhex(ik)
    return b[4:-9] if len(b) > 13 and b[:4] == b"\x57\xfb\x80\x8b" else None


def native_oracle(case):
    after = False
    for i, (line, out) in enumerate(zip(case.lines, case.impl)):
        t, o = line.split(), out.split()
        if t[0] == "ttllog" and len(t) == 1 and len(o) == 2 and o[1] != "-":
            for batch in o[1].split(";"):
                ents = [(e.rsplit(":", 1)[0], int(e.rsplit(":", 1)[1])) for e in batch.split(",") if e]
                ttls = {ttl for _, ttl in ents}
                if len(ttls) > 1:
                    return ("one batch hands different TTLs to the engine for the index record and the version of a key: %s "
                            "(they would not expire together)" % batch, "index-version-ttl-differ")
                for ik, ttl in ents:
                    raw = raw_of(ik)
                    if ttl != 0 and (raw is None or not is_event(raw)):
                        return ("a TTL (%d) was handed to the engine for %s, which is not an Event key" % (ttl, raw), "ttl-on-non-event-key")
        if t[0] == "echo" and t[1] == "after-ttl":
            after = True
            continue
        if after and t[0] == "get" and len(o) >= 3:
            k = hist.unhx(t[1])
            if not is_event(k) and o[2] == "-":
                return ("line %d: %s vanished after the TTL but is not an Event key" % (i + 1, k), "non-event-key-removed")
        if after and t[0] == "create" and o[1] != "ok":
            return ("line %d: an Event that reads absent after its TTL cannot be created again (%s -> %s): its index outlived its versions"
                    % (i + 1, line, out), "expired-partially")
    return None


def concurrent_compact_case(variant):
    """two compactions overlap inside the scanner's timeout-revision computation (its head()/pop() of the compaction
    history; yield points = its own log lines): an Event written a moment ago must survive, only the old one may go"""
    e1, e2 = PREFIX + b"/events/old", PREFIX + b"/events/young"
    msg = hx(b"check compact history")
    lines = [hist.cfg_line("tikv", eventsttl=1, ttl=TTL_MS), "gated 1",
             "start p1 create %s 7631" % hx(e1), "stepto p1 none", "start k1 compact 0", "stepto k1 none", "sleep 1300",
             "start p2 create %s 7632" % hx(e2), "stepto p2 none", "logarm " + msg,
             "start k91 compact 0", "stepto k91 log", "start k92 compact 0", "stepto k92 log"]
    if variant == 0:
        lines += ["stepto k91 log", "stepto k91 none", "stepto k92 none"]
    elif variant == 1:
        lines += ["stepto k92 log", "stepto k92 none", "stepto k91 none"]
    else:
        lines += ["stepto k91 log", "stepto k92 log", "stepto k92 none", "stepto k91 none"]
    lines += ["logarm -", "get %s 0" % hx(e2), "get %s 0" % hx(e1)]
    return core.Case("backend", lines, {"engine": "tikv", "concurrent": True, "young": e2}, compare=lambda op: False)


def concurrent_oracle(case):
    for line, out in zip(case.lines, case.impl):
        if line.startswith("get %s " % hx(case.meta["young"])) and out.split()[-1] == "-":
            return ("an Event written a moment ago (TTL %d ms) was removed by two overlapping compactions: %s -> %s" % (TTL_MS, line, out),
                    "expired-too-young")
        if out.startswith("stuck") or "PANIC" in out:
            return ("the overlapping compactions did not finish: %s -> %s" % (line, out), "compaction-stuck")
    return None


def oracle(case):
    ref = hist.Ref()
    clock = 0
    changed_at = {}      # key -> script clock of its newest acknowledged change
    expired = set()
    acked_revs = set()
    for i, (line, out) in enumerate(zip(case.lines, case.impl)):
        t, o = line.split(), out.split()
        ref.feed(line, out)
        if t[0] == "sleep":
            clock += int(t[1])
        if t[0] in ("create", "update", "delete") and o[1] == "ok":
            k = hist.unhx(t[1])
            changed_at[k] = clock
            acked_revs.add(int(o[2]))
            if t[0] == "create" and k in expired:
                expired.discard(k)
        if t[0] == "create" and hist.unhx(t[1]) in expired and o[1] != "ok":
            return ("line %d: an expired event key cannot be created again: %s -> %s" % (i + 1, line, out), "recreate-fails")
        if t[0] == "get" and o[1] != "err":
            k = hist.unhx(t[1])
            exp = ref.snapshot(ref.committed).get(k)
            got = hist.parse_kv(o[2]) if o[2] != "-" else None
            want = (k, exp[0], exp[1]) if exp else None
            if got != want:
                if is_event(k) and got is None and want is not None:
                    # removed by expiry: allowed only if its newest change is old enough
                    age = clock - changed_at.get(k, 0)
                    if age + 600 < TTL_MS:
                        return ("line %d: event key %s expired %d ms (script clock) after its newest change, TTL is %d ms" % (i + 1, k, age, TTL_MS), "expired-too-young")
                    expired.add(k)
                    ref.writes.append((ref.committed, k, None))   # from now on the reference treats it as gone
                else:
                    return ("line %d: %s -> %s but the acknowledged writes give %s%s" % (
                        i + 1, line, out, want, "" if is_event(k) else " (not an event key: must never expire)"), "non-event-key-removed" if not is_event(k) else "event-key-wrong")
        if t[0] == "dump" and len(o) == 2 and o[1] != "-":
            # wholly: an expired key has neither index nor versions left
            raw = {}
            for kv in o[1].split(","):
                ik = bytes.fromhex(kv.split("=")[0])
                if ik.startswith(b"\x57\xfb\x80\x8b"):
                    raw.setdefault(ik[4:-9], []).append(int.from_bytes(ik[-8:], "big"))
            for k in expired:
                if k in raw:
                    return ("expired event key %s still has records at revisions %s" % (k, raw[k]), "expired-partially")
        if t[0] == "drain" and len(o) >= 3 and o[2] != "-":
            for e in o[2].split(","):
                rev = int(e.split(":")[1])
                if rev not in acked_revs:
                    return ("a watch event at revision %d that no acknowledged write produced (expiry must be silent): %s" % (rev, e), "expiry-event")
    return None


def check(rep, tier, seed):
    n = 12 if tier == "quick" else 480
    # engines without native TTL run the scanner's expiry; with native TTL the engine's own clock applies
    cases = [gen_case(seed, i, "tikv") for i in range(n)]
    cases += [concurrent_compact_case(v) for v in range(3)]
    cases += [native_case(seed, i, ["badger", "memkv"][i % 2]) for i in range(4 if tier == "quick" else 96)]
    cases += [renew_case(seed, i, ["update", "recreate"][i % 2]) for i in range(2 if tier == "quick" else 24)]
    core.run_cases(cases, workers=14)
    for c in cases:
        if c.meta.get("renew"):
            for _ in range(3):
                if renew_conclusive(c):
                    break
                c.run()
            rep.cov["renew_cases_conclusive"] = rep.cov.get("renew_cases_conclusive", 0) + (1 if renew_conclusive(c) else 0)
    pick = lambda c: concurrent_oracle(c) if c.meta.get("concurrent") else renew_oracle(c) if c.meta.get("renew") else native_oracle(c) if c.meta.get("native") else oracle(c)
    if core.judge(rep, "C17", cases, pick):
        return
    rep.assumptions += ["events TTL 1 s through the verif setter; model time advances only by the script's sleeps (300 ms = young, 1300 ms = old); "
                        "the oracle allows 600 ms of scheduling slack",
                        "engine without native TTL: tikv mock. On memkv/badger expiry is the engine's own TTL (its clock is assumed); "
                        "what is proved there is that the TTL is passed exactly for keys under <prefix>/events/ (ttl_only_for_event_keys)"]
