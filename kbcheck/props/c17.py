"""C17 — expiry removes only event keys, wholly, and only after the TTL."""
from .. import core, hist
from ..gen import PREFIX, hx, rng_for
from . import c07

TTL_MS = 1000
EVENT_KEYS = [PREFIX + b"/events/e1", PREFIX + b"/events/e2", PREFIX + b"/events/ns/e3"]
LOOKALIKES = [PREFIX + b"/pods/events/p1", PREFIX + b"/eventsx/q", PREFIX + b"/events", PREFIX + b"/a/events/x",
              PREFIX + b"/pods/p2"]
# the ttl timers of the in-memory engine (KB.MemTTL): theorems about the model the `engine` suite runs
EXTRA_PROP_MODULES = [("KB.Props.C17Mem", "KB.C17Mem"), ("KB.Props.C07Expire", "KB.C07Expire"), ("KB.Props.C07Atomic", "KB.C07Atomic")]


def is_event(k):
    return k.startswith(PREFIX + b"/events/")


def gen_case(seed, i, engine):
    r = rng_for(seed, "c17/%d" % i)
    keys = r.sample(EVENT_KEYS, r.randint(1, 3)) + r.sample(LOOKALIKES, r.randint(2, 4))
    sh = hist.Shadow()
    opts = dict(eventsttl=1, ttl=TTL_MS)
    lines = [hist.cfg_line(engine, **opts), "watch w1 %s 0" % hx(PREFIX + b"/")]
    lines += hist.gen_writes(r, sh, r.randint(4, 12), keys, p_ok=0.9)
    lines.append("compact 0")                 # mark 1
    # young changes after the first mark
    lines += hist.gen_writes(r, sh, r.randint(0, 4), keys, p_ok=0.9)
    if r.random() < 0.5:
        lines += ["sleep 300", "compact 0"]   # a young mark: nothing may expire yet
        lines += ["get %s 0" % hx(k) for k in keys]
    lines += ["sleep 1300", "compact 0", "dellog"]      # marks older than the TTL now exist
    lines.append("echo after-expiry")
    lines += ["get %s 0" % hx(k) for k in keys]
    lines.append("list %s %s 0 0" % (hx(PREFIX + b"/"), hx(PREFIX + b"0")))
    lines.append("dump")
    # expired keys can be created again; everything else keeps normal semantics
    for k in keys:
        if is_event(k):
            lines += ["create %s %s" % (hx(k), hx(b"again")), "rev"]
    lines += hist.gen_writes(r, sh, 3, keys, p_ok=0.5)
    lines += ["drain w1", "list %s %s 0 0" % (hx(PREFIX + b"/"), hx(PREFIX + b"0"))]
    return core.Case("backend", lines, {"engine": engine, "keys": keys})


def native_case(seed, i, engine):
    """engines WITH native TTL (memkv, Badger): the backend hands the TTL to the engine. Judged at the engine
    boundary (every batch's TTLs) and by behaviour: a re-created Event expires wholly and can be created again"""
    r = rng_for(seed, "c17n/%d" % i)
    ev = r.sample(EVENT_KEYS, 2)
    look = r.sample(LOOKALIKES, 2)
    lines = [hist.cfg_line(engine, eventsttl=1), "ttllog on"]
    for k in ev + look:
        lines += ["create %s %s" % (hx(k), hx(b"v1")), "rev"]
    # delete + re-create before any compaction: the creator takes its compare-and-swap path over the deletion record
    lines += ["delete %s 0" % hx(ev[0]), "rev", "create %s %s" % (hx(ev[0]), hx(b"v2")), "rev",
              "delete %s 0" % hx(look[0]), "rev", "create %s %s" % (hx(look[0]), hx(b"v2")), "rev", "ttllog"]
    # guarded updates that carry a client LEASE (etcd's put.Lease; a lease id is its ttl): an update takes no ttl from the
    # request - a key that is not an Event must not get one, and the records of one key must share their deadline
    n = hist.INIT + len(ev + look) + 4
    lines += ["update %s %s %d lease=1" % (hx(look[1]), hx(b"v3"), hist.INIT + 4), "rev",
              "update %s %s %d lease=2" % (hx(look[0]), hx(b"v3"), n), "rev", "ttllog"]
    lines += ["sleep 2600", "echo after-ttl"]
    lines += ["get %s 0" % hx(k) for k in ev + look]
    lines += ["create %s %s" % (hx(ev[0]), hx(b"again")), "rev", "get %s 0" % hx(ev[0])]
    return core.Case("backend", lines, {"engine": engine, "native": True, "ev": ev, "look": look}, compare=lambda op: False)


def renew_case(seed, i, how):
    """in-memory engine (its TTL is a timer per write): an Event changed again within its TTL lives until the TTL of
    its NEWEST change - at the deadline of the first write it must still be there, whole (index and version)"""
    r = rng_for(seed, "c17r/%d" % i)
    e = r.choice(EVENT_KEYS)
    lines = [hist.cfg_line("memkv", eventsttl=1), "mark first", "create %s %s" % (hx(e), hx(b"v1")), "rev", "sleep 550"]
    if how == "update":
        lines += ["mark newest", "update %s %s %d" % (hx(e), hx(b"v2"), hist.INIT + 1), "rev"]
        newest = hist.INIT + 2
    else:
        lines += ["delete %s 0" % hx(e), "rev", "mark newest", "create %s %s" % (hx(e), hx(b"v2")), "rev"]
        newest = hist.INIT + 3
    # the verdict needs real time: the first write's deadline has passed (since first >= 1050 ms BEFORE the probes),
    # the newest write's has not (since newest < 950 ms AFTER them); a run that was starved of CPU is inconclusive
    lines += ["sleep 700", "since first", "echo young", "get %s 0" % hx(e), "create %s %s" % (hx(e), hx(b"dup")), "rev",
              "update %s %s %d" % (hx(e), hx(b"v3"), newest), "rev", "since newest"]
    return core.Case("backend", lines, {"engine": "memkv", "native": True, "renew": True, "ev": [e], "look": []}, compare=lambda op: False)


def badger_young_case(i):
    """Badger keeps deadlines in whole seconds: an Event written just before a second boundary must still live for its
    whole ttl (1 s here). Created 850 ms into a second, probed 400 ms later (wall-clock marks make the run conclusive)."""
    e = EVENT_KEYS[i % len(EVENT_KEYS)]
    # (written late in a second and probed across the boundary; and written EARLY in a second and probed just after the next
    # boundary, still younger than its ttl: a deadline rounded to the nearest second would have passed)
    lines = [hist.cfg_line("badger", eventsttl=1), "alignsec %d" % [850, 100, 920, 60, 700][i % 5], "mark c",
             "create %s %s" % (hx(e), hx(b"v1")), "rev", "sleep %d" % [400, 905, 250, 945, 500][i % 5], "echo young",
             "get %s 0" % hx(e), "create %s %s" % (hx(e), hx(b"dup")), "rev", "since c",
             "sleep 2300", "echo after-ttl", "get %s 0" % hx(e), "create %s %s" % (hx(e), hx(b"again")), "rev"]
    return core.Case("backend", lines, {"engine": "badger", "native": True, "byoung": True, "ev": [e], "look": []}, compare=lambda op: False)


def native_updated_case(i, engine):
    """native-ttl engine: an Event that is UPDATED within its ttl. Whatever the engine then does with its records - keep them
    (an update names no ttl) or let them go - it does it to the index record and the versions TOGETHER: after the deadline of
    the create the key is either whole (reads present, a guarded update naming its revision succeeds, a create is refused) or
    gone (reads absent, can be created). Judged only when the wall-clock marks say the deadline has passed."""
    e = EVENT_KEYS[i % len(EVENT_KEYS)]
    lines = [hist.cfg_line(engine, eventsttl=1), "mark c", "create %s %s" % (hx(e), hx(b"v1")), "rev", "sleep %d" % [300, 600, 150][i % 3],
             "update %s %s %d" % (hx(e), hx(b"v2"), hist.INIT + 1), "rev", "sleep 2300", "since c", "echo whole-or-gone",
             "get %s 0" % hx(e), "list %s %s 0 0" % (hx(PREFIX + b"/"), hx(PREFIX + b"0")),
             "update %s %s %d" % (hx(e), hx(b"v3"), hist.INIT + 2), "rev", "create %s %s" % (hx(e), hx(b"dup")), "rev"]
    return core.Case("backend", lines, {"engine": engine, "native": True, "nupdated": True, "ev": [e], "look": []}, compare=lambda op: False)


def native_updated_oracle(case):
    since, mode, present, upd = None, None, None, None
    for i, (line, out) in enumerate(zip(case.lines, case.impl)):
        t, o = line.split(), out.split()
        if line == "since c" and len(o) == 3:
            since = int(o[2])
        if t[0] == "echo":
            mode = t[1]
            continue
        if mode != "whole-or-gone" or since is None or since < 2250:
            continue
        if t[0] == "update" and i > 0 and o[1:2] != ["ok"] and present is None:
            continue
        if t[0] == "get" and len(o) >= 3:
            present = o[2] != "-"
        elif t[0] == "list" and len(o) >= 4 and present is not None:
            listed = hx(case.meta["ev"][0]) in o[3]
            if listed != present:
                return ("line %d: %d ms after its create (ttl 1 s) the updated Event reads %s by Get and is %s by List: its records "
                        "did not go together" % (i + 1, since, "present" if present else "absent", "listed" if listed else "not listed"), "expired-partially")
        elif t[0] == "update" and present is not None:
            upd = o[1]
            if present and upd != "ok":
                return ("line %d: %d ms after its create (ttl 1 s) the updated Event reads present at revision %d, but the update that "
                        "names exactly that revision is answered `%s`: its revision record went without its version" % (i + 1, since, hist.INIT + 2, out[:80]), "expired-partially")
        elif t[0] == "create" and present is not None:
            if not present and o[1] != "ok":
                return ("line %d: the Event reads absent but cannot be created (%s): its revision record outlived its versions" % (i + 1, out[:80]), "expired-partially")
            if present and upd == "ok" and o[1] == "ok":
                return ("line %d: a live Event (just updated) could be created again" % (i + 1), "expired-partially")
    return None


def badger_young_oracle(case):
    since = None
    for line, out in zip(case.lines, case.impl):
        if line == "since c" and len(out.split()) == 3:
            since = int(out.split()[2])
    mode = None
    for i, (line, out) in enumerate(zip(case.lines, case.impl)):
        t, o = line.split(), out.split()
        if t[0] == "echo":
            mode = t[1]
            continue
        if mode == "young" and since is not None and since < 985:
            if t[0] == "get" and len(o) >= 3 and o[2] == "-":
                return ("line %d: an Event created %d ms ago at most (ttl 1000 ms) reads absent on Badger: %s" % (i + 1, since, out), "young-event-removed")
            if t[0] == "create" and o[1] == "ok":
                return ("line %d: an Event created less than %d ms ago (ttl 1000 ms) could be created again on Badger: it had expired early" % (i + 1, since), "young-event-removed")
        if mode == "after-ttl":
            if t[0] == "get" and len(o) >= 3 and o[2] != "-":
                return ("line %d: an Event is still there 2.3 s after a ttl of 1 s (plus one second of rounding): %s" % (i + 1, out), "expired-event-present")
            if t[0] == "create" and o[1] != "ok":
                return ("line %d: an expired Event cannot be created again: %s" % (i + 1, out), "expired-partially")
    return None


def renew_conclusive(case):
    t = {}
    for line, out in zip(case.lines, case.impl):
        o = out.split()
        if line.startswith("since ") and len(o) == 3:
            t[o[1]] = int(o[2])
    # the renewing write itself must have landed while the first value was alive
    renewed = True
    for line, out in zip(case.lines, case.impl):
        if line == "echo young":
            break
        if line.split()[0] in ("update", "create", "delete") and out.split()[1:2] != ["ok"]:
            renewed = False
    return renewed and t.get("first", 0) >= 1050 and t.get("newest", 10 ** 9) < 950


def renew_oracle(case):
    if not renew_conclusive(case):
        return None
    young = False
    for i, (line, out) in enumerate(zip(case.lines, case.impl)):
        t, o = line.split(), out.split()
        if t[0] == "echo" and t[1] == "young":
            young = True
            continue
        if not young:
            continue
        if t[0] == "get" and len(o) >= 3 and o[2] == "-":
            return ("line %d: an Event whose newest change is younger than the TTL reads absent (%s)" % (i + 1, out), "young-event-removed")
        if t[0] == "create" and o[1] == "ok":
            return ("line %d: an Event whose newest change is younger than the TTL could be created again (%s): the timer of its "
                    "FIRST write removed the index of the newer one" % (i + 1, out), "young-event-removed")
        if t[0] == "update" and o[1] != "ok":
            return ("line %d: a guarded update with the revision of the newest change of a young Event fails (%s): its index "
                    "was removed by the timer of an older write" % (i + 1, out), "young-event-removed")
    return None


# ---------------------------------------------------------------- the in-memory engine's ttl timers (engine suite)

ENGINE_TTL_ENGINES = ["memkv", "metrics-memkv"]
ETTL_KEYS = [b"e/idx", b"e/ver", b"k1", b"k2"]
ETTL_GEN_SLACK = 300     # the generator keeps every operation at least this far (ms, script clock) from every deadline
ETTL_SLACK = 250         # the oracle judges a read only when it is at least this far from the key's deadline


def engine_ttl_case(seed, i, engine, tier):
    """`engine` suite on the in-memory engine with a ttl per put and real sleeps: the model (KB.MemTTL: clock in ms,
    every due timer fires before every operation) and the real timers must agree on every read. Real timers fire
    "soon after" their deadline and the script's own operations take a little time, so every operation keeps
    >= 250 ms (script clock) from every armed deadline - also from the deadlines of overwritten values, whose
    timers must do nothing. Variants 0 and 1 are the two renewal shapes (overwrite / delete + put-if-absent of an
    index+version pair written in one batch); the others are random schedules."""
    r = rng_for(seed, "c17e/%d" % i)
    h = lambda b: hx(b)
    lines = ["cfg engine=%s" % engine]
    if i % 10 == 0:
        k, n = b"k1", b"n1"
        lines += ["batch put:%s:%s:1 put:%s:%s" % (h(k), h(b"v1"), h(n), h(b"keep")), "sleep 550",
                  "batch put:%s:%s:1" % (h(k), h(b"v2")), "sleep 700", "get %s" % h(k), "get %s" % h(n), "dump",
                  "sleep 600", "get %s" % h(k), "get %s" % h(n), "dump"]
        return core.Case("engine", lines, {"engine": engine, "engine_ttl": True})
    if i % 10 == 1:
        ix, ver = b"e/idx", b"e/ver"
        lines += ["batch pine:%s:%s:1 pine:%s:%s:1" % (h(ix), h(b"r1"), h(ver), h(b"o1")), "sleep 550",
                  "batch del:%s del:%s" % (h(ix), h(ver)),
                  "batch pine:%s:%s:1 pine:%s:%s:1" % (h(ix), h(b"r2"), h(ver), h(b"o2")), "sleep 700",
                  "get %s" % h(ix), "get %s" % h(ver), "dump", "batch pine:%s:%s:1" % (h(ix), h(b"dup")),
                  "batch cas:%s:%s:%s:1" % (h(ix), h(b"r3"), h(b"r2")), "get %s" % h(ix), "sleep 600", "get %s" % h(ver),
                  "get %s" % h(ix), "sleep 700", "get %s" % h(ix), "dump", "batch pine:%s:%s" % (h(ix), h(b"again")), "get %s" % h(ix)]
        return core.Case("engine", lines, {"engine": engine, "engine_ttl": True})
    keys = r.sample(ETTL_KEYS, r.randint(2, 4))
    vals = [b"v%d" % j for j in range(1, 40)]
    vi = [0]
    clock = 0
    deadlines = []           # every deadline ever armed (script clock)
    shadow = {}              # key -> (val, deadline or None), the generator's idea (only to make conditions hold often)
    phase = 1400 if tier == "quick" else r.choice([1400, 2200, 3000])
    ttls = [0, 1, 1, 1] if tier == "quick" else [0, 1, 1, 1, 2]

    def cur(k):
        e = shadow.get(k)
        if e and e[1] is not None and clock >= e[1]:
            return None
        return e

    def nextval():
        vi[0] += 1
        return vals[vi[0] % len(vals)]

    def sleep_to_safe(lo=100, hi=900):
        nonlocal clock
        cands = [g for g in range(lo, hi + 50, 50) if all(abs(clock + g - d) >= ETTL_GEN_SLACK for d in deadlines)]
        g = r.choice(cands) if cands else max(deadlines) + ETTL_GEN_SLACK - clock
        lines.append("sleep %d" % g)
        clock += g

    while clock <= phase:
        x = r.random() if len(lines) > 1 else 0.0     # the first operation is a write
        if x < 0.6:
            ops = []
            local = dict((k, cur(k)) for k in keys)
            pair = r.random() < 0.25 and len(keys) >= 2
            ttl = r.choice(ttls)
            for j, k in enumerate(r.sample(keys, 2) if pair else [r.choice(keys) for _ in range(r.choice([1, 1, 2, 3]))]):
                if not pair:
                    ttl = r.choice(ttls)
                suffix = ":%d" % ttl if ttl or r.random() < 0.3 else ""
                y = r.random()
                v = nextval()
                e = local.get(k)
                if y < 0.15:
                    ops.append("del:%s" % h(k))
                    local[k] = None
                    continue
                if y < 0.4 and e is None:
                    ops.append("pine:%s:%s%s" % (h(k), h(v), suffix))
                elif y < 0.6 and e is not None:
                    ops.append("cas:%s:%s:%s%s" % (h(k), h(v), h(e[0]), suffix))
                else:
                    ops.append("put:%s:%s%s" % (h(k), h(v), suffix))
                local[k] = (v, clock + 1000 * ttl if ttl else None)
                if ttl:
                    deadlines.append(clock + 1000 * ttl)
            lines.append("batch " + " ".join(ops))
            for k in keys:
                if local[k] is None:
                    shadow.pop(k, None)
                else:
                    shadow[k] = local[k]
        elif x < 0.7:
            k = r.choice(keys)
            lines.append("del %s" % h(k))
            shadow.pop(k, None)
        else:
            lines += ["get %s" % h(k) for k in r.sample(keys, r.randint(1, len(keys)))]
            if r.random() < 0.5:
                lines.append("dump")
        if r.random() < 0.7:
            sleep_to_safe()
    # past every deadline: what had a ttl is gone, what had none is still there
    late = [d for d in deadlines if d + ETTL_GEN_SLACK > clock]
    if late:
        lines.append("sleep %d" % (max(late) + ETTL_GEN_SLACK - clock))
    lines += ["get %s" % h(k) for k in keys] + ["dump"]
    return core.Case("engine", lines, {"engine": engine, "engine_ttl": True})


def engine_ttl_oracle(case):
    """C17 on the engine's own transcript, with the script clock (sum of the sleeps) and the acknowledged batches:
    a value younger than its ttl is there, a value without ttl never vanishes, an expired value is gone (and can be
    put-if-absent again). Reads closer than ETTL_SLACK to the key's deadline are not judged."""
    clock = 0
    ref = {}       # key -> (val, deadline or None, ttl in ms)

    def must_be_present(k):
        e = ref.get(k)
        return e is not None and (e[1] is None or clock <= e[1] - ETTL_SLACK)

    def seen(i, line, out, k, got):
        e = ref.get(k)
        if e is None:
            if got is not None:
                return ("line %d: %s -> %s: %s is present although it was never written / deleted / has expired"
                        % (i + 1, line, out, k), "absent-key-present")
            return None
        v, d, ttl = e
        if d is None:
            if got != v:
                return ("line %d: %s -> %s: %s was last written WITHOUT a ttl (value %s) and must never vanish or change; "
                        "the engine has %s" % (i + 1, line, out, k, v, got), "no-ttl-value-removed")
            return None
        if clock <= d - ETTL_SLACK:
            if got != v:
                return ("line %d: %s -> %s: the newest write of %s (value %s) is %d ms old (script clock) and carries a ttl of "
                        "%d ms, the engine has %s: the timer of an OLDER write removed the newer value"
                        % (i + 1, line, out, k, v, clock - (d - ttl), ttl, got), "young-value-removed")
            return None
        if clock >= d + ETTL_SLACK:
            if got is not None:
                return ("line %d: %s -> %s: %s expired %d ms ago (script clock) and is still there" % (i + 1, line, out, k, clock - d),
                        "expired-value-present")
            del ref[k]
            return None
        if got is None:
            del ref[k]
        return None

    for i, (line, out) in enumerate(zip(case.lines, case.impl)):
        t, o = line.split(), out.split()
        if t and t[0] == "sleep":
            clock += int(t[1])
            continue
        if not t or len(o) < 2:
            continue
        if t[0] == "batch":
            ops = [x.split(":") for x in t[1:] if "=" not in x]
            first = {}
            for f in ops:
                first.setdefault(hist.unhx(f[1]), f)
            for k, f in first.items():
                if f[0] == "pine" and o[1] == "ok" and must_be_present(k):
                    return ("line %d: %s -> %s: put-if-absent of %s succeeded although its value %s is live (%s)"
                            % (i + 1, line, out, k, ref[k][0], "no ttl" if ref[k][1] is None else "younger than its ttl"),
                            "young-value-removed" if ref[k][1] is not None else "no-ttl-value-removed")
                if f[0] == "cas" and len(ops) == 1 and o[1] != "ok" and must_be_present(k) and ref[k][0] == hist.unhx(f[3]):
                    return ("line %d: %s -> %s: compare-and-swap on the live value %s of %s fails" % (i + 1, line, out, ref[k][0], k),
                            "young-value-removed" if ref[k][1] is not None else "no-ttl-value-removed")
            if o[1] == "ok":
                for f in ops:
                    k = hist.unhx(f[1])
                    if f[0] == "del":
                        ref.pop(k, None)
                    else:
                        n = {"pine": 3, "put": 3, "cas": 4}[f[0]]
                        ttl = int(f[n]) * 1000 if len(f) > n else 0
                        ref[k] = (hist.unhx(f[2]), clock + ttl if ttl else None, ttl)
        elif t[0] == "del" and o[1] == "ok":
            ref.pop(hist.unhx(t[1]), None)
        elif t[0] == "get" and o[1] != "err":
            hit = seen(i, line, out, hist.unhx(t[1]), None if o[1] == "nf" else hist.unhx(o[1]))
            if hit:
                return hit
        elif t[0] == "dump" and o[1] != "err":
            got = {} if o[1] == "-" else dict((hist.unhx(x.split("=")[0]), hist.unhx(x.split("=")[1])) for x in o[1].split(","))
            for k in sorted(set(got) | set(ref)):
                hit = seen(i, line, out, k, got.get(k))
                if hit:
                    return hit
    return None



def raw_of(ik):
    b = bytes.fromhex(ik)
    return b[4:-9] if len(b) > 13 and b[:4] == b"\x57\xfb\x80\x8b" else None


def native_oracle(case):
    after = False
    for i, (line, out) in enumerate(zip(case.lines, case.impl)):
        t, o = line.split(), out.split()
        if t[0] == "ttllog" and len(t) == 1 and len(o) == 2 and o[1] != "-":
            for batch in o[1].split(";"):
                ents = [(e.rsplit(":", 1)[0], int(e.rsplit(":", 1)[1])) for e in batch.split(",") if e]
                ttls = {ttl for _, ttl in ents}
                if len(ttls) > 1:
                    return ("one batch hands different TTLs to the engine for the index record and the version of a key: %s "
                            "(they would not expire together)" % batch, "index-version-ttl-differ")
                for ik, ttl in ents:
                    raw = raw_of(ik)
                    if ttl != 0 and (raw is None or not is_event(raw)):
                        return ("a TTL (%d) was handed to the engine for %s, which is not an Event key" % (ttl, raw), "ttl-on-non-event-key")
        if t[0] == "echo" and t[1] == "after-ttl":
            after = True
            continue
        if after and t[0] == "get" and len(o) >= 3:
            k = hist.unhx(t[1])
            if not is_event(k) and o[2] == "-":
                return ("line %d: %s vanished after the TTL but is not an Event key" % (i + 1, k), "non-event-key-removed")
        if after and t[0] == "create" and o[1] != "ok":
            return ("line %d: an Event that reads absent after its TTL cannot be created again (%s -> %s): its index outlived its versions"
                    % (i + 1, line, out), "expired-partially")
    return None


def concurrent_compact_case(variant):
    """two compactions overlap inside the scanner's timeout-revision computation (its head()/pop() of the compaction
    history; yield points = its own log lines): an Event written a moment ago must survive, only the old one may go"""
    e1, e2 = PREFIX + b"/events/old", PREFIX + b"/events/young"
    msg = hx(b"check compact history")
    lines = [hist.cfg_line("tikv", eventsttl=1, ttl=TTL_MS), "gated 1",
             "start p1 create %s 7631" % hx(e1), "stepto p1 none", "start k1 compact 0", "stepto k1 none", "sleep 1300",
             "start p2 create %s 7632" % hx(e2), "stepto p2 none", "logarm " + msg,
             "start k91 compact 0", "stepto k91 log", "start k92 compact 0", "stepto k92 log"]
    if variant == 0:
        lines += ["stepto k91 log", "stepto k91 none", "stepto k92 none"]
    elif variant == 1:
        lines += ["stepto k92 log", "stepto k92 none", "stepto k91 none"]
    else:
        lines += ["stepto k91 log", "stepto k92 log", "stepto k92 none", "stepto k91 none"]
    lines += ["logarm -", "get %s 0" % hx(e2), "get %s 0" % hx(e1)]
    return core.Case("backend", lines, {"engine": "tikv", "concurrent": True, "young": e2}, compare=lambda op: False)


def concurrent_oracle(case):
    for line, out in zip(case.lines, case.impl):
        if line.startswith("get %s " % hx(case.meta["young"])) and out.split()[-1] == "-":
            return ("an Event written a moment ago (TTL %d ms) was removed by two overlapping compactions: %s -> %s" % (TTL_MS, line, out),
                    "expired-too-young")
        if out.startswith("stuck") or "PANIC" in out:
            return ("the overlapping compactions did not finish: %s -> %s" % (line, out), "compaction-stuck")
    return None


# ---------------------------------------------------------------- an Event renewed after the mark (tikv: the ttl pass)

MAGIC = bytes.fromhex("57fb808b")
RENEW_LOOKALIKES = [PREFIX + b"/pods/events/p1", PREFIX + b"/eventsx/q", PREFIX + b"/a/events/x", PREFIX + b"/pods/p2"]


def index_call(lines, key):
    """the position of the expiry batch of `key` (since /repo 74218cc ONE call: the compare-and-delete of its revision
    record together with the deletes of its versions, logged `expire:<ik of the revision record>+<n versions>`) among the
    delete calls of the LAST compaction of `lines` (run unmasked on the model), from the delete-call log; None when that
    compaction makes no such call"""
    out = core.run_model("backend", lines + ["dellog"])
    log = out[-1].split() if out else []
    if len(log) < 2 or log[0] != "dellog" or log[1] == "-":
        return None
    ik = (MAGIC + key + b"\x24" + bytes(8)).hex()
    calls = log[1].split(",")
    # (`delcur:`: the model follows a source tree that still makes per-record calls - regenerated fact expiryCallShape)
    hits = [j for j, c in enumerate(calls) if c.startswith("expire:" + ik + "+") or c == "delcur:" + ik]
    return hits[0] if hits else None


def mark_age_case(i):
    """tikv: an Event is at or below a compaction mark whose age, when the next compaction runs its ttl pass, is a good
    deal below the ttl (650-800 of 1000 ms): it must survive. Wall-clock marks make the run conclusive (the mark was still
    younger than the ttl AFTER the compaction returned); an inconclusive run is repeated, never judged."""
    e = EVENT_KEYS[i % len(EVENT_KEYS)]
    lines = [hist.cfg_line("tikv", eventsttl=1, ttl=TTL_MS), "create %s %s" % (hx(e), hx(b"v1")), "rev", "mark m", "compact 0",
             "sleep %d" % [650, 720, 800][i % 3], "create %s %s" % (hx(PREFIX + b"/pods/p%d" % i), hx(b"p")), "rev", "compact 0",
             "since m", "echo after", "get %s 0" % hx(e), "update %s %s %d" % (hx(e), hx(b"v2"), hist.INIT + 1), "rev"]
    return core.Case("backend", lines, {"engine": "tikv", "markage": True}, compare=lambda op: False)


def mark_age_conclusive(case):
    for line, out in zip(case.lines, case.impl or []):
        if line == "since m" and len(out.split()) == 3:
            return int(out.split()[2]) < 950
    return False


def mark_age_oracle(case):
    if not mark_age_conclusive(case):
        return None
    after = False
    for i, (line, out) in enumerate(zip(case.lines, case.impl)):
        t, o = line.split(), out.split()
        if line == "echo after":
            after = True
            continue
        if after and t[0] == "get" and len(o) >= 3 and o[2] == "-":
            return ("line %d: an Event at a compaction mark younger than the ttl (the mark was %s old after the pass, ttl 1000 ms) "
                    "was removed by the ttl pass" % (i + 1, [x for l, x in zip(case.lines, case.impl) if l == "since m"][0]), "expired-too-young")
        if after and t[0] == "update" and o[1] != "ok":
            return ("line %d: an Event younger than the ttl lost its revision record to the ttl pass: %s" % (i + 1, out), "expired-too-young")
    return None


def straddle_case(i):
    """in-memory engine: a batch that rewrites a key is BEGUN before the deadline of the key's old value and COMMITTED after
    it (the engine holds its mutex from begin to commit, so the old value's timer fires in between and waits): the new
    value - written without ttl, or with a long one - must survive. Whatever the machine's timing, the answer is the new
    value (a batch begun late simply finds the key expired), so the case cannot raise a false alarm."""
    eng = ["memkv", "metrics-memkv"][i % 2]
    ttl2 = ["", ":3600"][(i // 2) % 2]
    k = hx(b"k%d" % i)
    lines = ["cfg engine=%s" % eng, "batch put:%s:7631:1" % k, "sleep 700", "bbegin b1 put:%s:7632%s" % (k, ttl2), "sleep 550",
             "bcommit b1", "sleep 150", "get %s" % k]
    return core.Case("engine", lines, {"engine": eng, "straddle": True})


def straddle_oracle(case):
    out = case.impl[-1] if case.impl else ""
    if out.split()[:2] != ["get", "7632"]:
        return ("a value written by a batch that was begun before and committed after the deadline of the value it replaces is "
                "gone: %s - removed by the expiry of the value it replaced" % out, "young-value-removed")
    return None


def hostile_sibling_case(i):
    """an expired Event e and a YOUNG Event whose name is e + '$' + 8..9 more bytes: its records sort between the versions of
    e. The expiry batch of e must take only e's own versions - the young sibling stays whole and readable."""
    e = EVENT_KEYS[i % len(EVENT_KEYS)]
    h = e + b"$" + [b"zzzzzzzzz", b"aaaaaaaa", b"%%%%%%%%%%"][i % 3]
    lines = [hist.cfg_line("tikv", eventsttl=1, ttl=TTL_MS),
             "create %s %s" % (hx(e), hx(b"v1")), "rev", "compact 0", "sleep 1300",
             "create %s %s" % (hx(h), hx(b"h1")), "rev", "compact 0", "dellog", "echo after",
             "get %s 0" % hx(h), "get %s 0" % hx(e), "create %s %s" % (hx(e), hx(b"again")), "rev", "get %s 0" % hx(h),
             "update %s %s %d" % (hx(h), hx(b"h2"), hist.INIT + 2), "rev"]
    return core.Case("backend", lines, {"engine": "tikv", "sibling": True, "h": h})


def hostile_sibling_oracle(case):
    after = False
    for i, (line, out) in enumerate(zip(case.lines, case.impl)):
        t, o = line.split(), out.split()
        if line == "echo after":
            after = True
            continue
        if not after:
            continue
        if t[0] == "get" and hist.unhx(t[1]) == case.meta["h"] and len(o) >= 3 and o[2] == "-":
            return ("line %d: the expiry of an Event removed ANOTHER, young Event whose name extends it by the separator byte: %s reads absent"
                    % (i + 1, case.meta["h"]), "young-event-removed")
        if t[0] == "update" and o[1] != "ok":
            return ("line %d: the young sibling Event lost its revision record to the expiry of another Event: %s" % (i + 1, out), "young-event-removed")
    return None


def renewed_event_case(seed, i, variant):
    """The ttl pass rides on a compaction at R while an Event's newest change lies ABOVE R and its older version lies at
    or below the timeout revision: create e (v1) and a non-event key; compaction (takes the mark); sleep past the ttl;
    write the non-event key (revision b); update e (revision c > b); reads at revisions in [b, c) BEFORE; `compact R`
    with b <= R < c (timeout revision = the mark: v1 is at or below it, the revision record says c); the same reads AFTER
    must be identical. Then the Event ages: a mark at or above c older than the ttl -> it expires wholly and can be
    created again. Variants `f` / `c`: before that, one pass in which the expiry batch of e (the compare-and-delete of its
    expired revision record + the deletes of its versions: one call, aimed at through the model's delete-call log) fails -
    all its versions were kept by a crashed compaction - must leave e whole and readable (none of its versions expires)."""
    r = rng_for(seed, "c17renewed/%d" % i)
    e = r.choice(EVENT_KEYS)
    n = r.choice(RENEW_LOOKALIKES)
    lo, hi = hx(PREFIX + b"/"), hx(PREFIX + b"0")
    rev = hist.INIT
    lines = [hist.cfg_line("tikv", eventsttl=1, ttl=TTL_MS)]

    def w(line):
        nonlocal rev
        rev += 1
        lines.extend([line, "rev"])
        return rev

    e_rev = w("create %s %s" % (hx(e), hx(b"v1")))
    n_rev = w("create %s %s" % (hx(n), hx(b"n1")))
    for _ in range(r.randint(0, 2)):
        if r.random() < 0.5:
            e_rev = w("update %s %s %d" % (hx(e), hx(b"v1" + bytes([97 + rev % 26])), e_rev))
        else:
            n_rev = w("update %s %s %d" % (hx(n), hx(b"n1" + bytes([97 + rev % 26])), n_rev))
    lines += ["compact 0", "sleep 1300"]                  # the mark: revision `rev`, older than the ttl from here on
    b = None
    for _ in range(r.randint(1, 3)):
        n_rev = w("update %s %s %d" % (hx(n), hx(b"n2" + bytes([97 + rev % 26])), n_rev))
        b = b or n_rev
    c = e_rev = w("update %s %s %d" % (hx(e), hx(b"v2"), e_rev))
    for _ in range(r.randint(0, 2)):
        n_rev = w("update %s %s %d" % (hx(n), hx(b"n3" + bytes([97 + rev % 26])), n_rev))
    R = r.randint(b, c - 1)
    probes = []
    for q in sorted(set([R, c - 1, r.randint(R, c - 1)])):
        probes += ["list %s %s %d 0" % (lo, hi, q), "get %s %d" % (hx(e), q), "get %s %d" % (hx(n), q)]
    lines += ["echo before"] + probes + ["compact %d" % R, "echo after"] + probes + ["dellog", "dump"]
    lines += ["echo latest", "get %s 0" % hx(e), "get %s 0" % hx(n), "list %s %s 0 0" % (lo, hi)]
    meta = {"engine": "tikv", "renewed": True, "ev": e, "other": n, "R": R, "variant": variant}
    if variant in ("f", "c"):
        # one more change, then a "compaction" that takes the mark but dies before its first delete: every version stays
        e_rev = w("update %s %s %d" % (hx(e), hx(b"v3"), e_rev))
        lines += ["compact 0 crash=0", "sleep 1300"]
        j = index_call(lines + ["compact 0"], e)
        if j is None:
            raise RuntimeError("C17: the compaction that should expire %s makes no expiry batch for its revision record" % e)
        meta["index_call"] = j
        lines += ["compact 0 m=%d:%s" % (j, variant), "dellog", "dump", "echo index-delete-failed",
                  "get %s 0" % hx(e), "get %s 0" % hx(n), "sleep 1300"]
    else:
        lines += ["compact 0", "sleep 1300"]
    # the mark at/above the Event's newest change is older than the ttl now: it expires wholly, can be created again
    lines += ["compact 0", "dellog", "dump", "echo expired", "get %s 0" % hx(e), "get %s 0" % hx(n),
              "create %s %s" % (hx(e), hx(b"again")), "rev", "get %s 0" % hx(e), "list %s %s 0 0" % (lo, hi)]
    return core.Case("backend", lines, meta)


def renewed_oracle(case):
    e, n = case.meta["ev"], case.meta["other"]
    # 1. the reads at revisions >= R, before and after the compaction the ttl pass rides on
    sect, cur = {"before": [], "after": []}, None
    for i, (line, out) in enumerate(zip(case.lines, case.impl)):
        t = line.split()
        if t and t[0] == "echo":
            cur = t[1]
        elif t and t[0] == "compact" and cur == "before":
            cur = None
        elif t and cur in ("before", "after") and t[0] in ("get", "list"):
            sect[cur].append((i, line, out))
    for (i, l1, o1), (_, l2, o2) in zip(sect["before"], sect["after"]):
        if l1 == l2 and o1.split()[2:] != o2.split()[2:]:
            return ("line %d: `%s` returned `%s` before the compaction at %d and `%s` after it: the ttl pass that rides on the "
                    "compaction removed a version of an Event whose newest change lies above the compaction revision (and is "
                    "younger than the ttl) - a read at or above the compaction revision changed" % (i + 1, l1, o1[:160], case.meta["R"], o2[:160]),
                    "ttl-pass-removed-live-version")
    # 2. young / wholly / only Events / can be created again
    cur = None
    newest = {}         # key -> (value, revision) of its newest acknowledged change
    compacted = False
    for i, (line, out) in enumerate(zip(case.lines, case.impl)):
        t, o = line.split(), out.split()
        if not t or not o:
            continue
        if t[0] == "echo":
            cur = t[1]
            continue
        if t[0] == "compact":
            compacted = True
        if t[0] in ("create", "update") and o[1] == "ok":
            newest[hist.unhx(t[1])] = (hist.unhx(t[2]), int(o[2]))
        if t[0] == "get" and t[2] == "0" and o[1] != "err":
            k = hist.unhx(t[1])
            got = hist.parse_kv(o[2]) if o[2] != "-" else None
            want = newest.get(k)
            if k == n and (got is None or got[1:] != want):
                return ("line %d: %s -> %s: %s is not an Event and its newest acknowledged change is %s: it must never expire"
                        % (i + 1, line, out, k, want), "non-event-key-removed")
            if k == e and cur in ("latest", "index-delete-failed") and got is None:
                why = ("its newest change is younger than the ttl" if cur == "latest" else
                       "the compare-and-delete of its revision record failed in the only pass since it aged: the key was not "
                       "removed, so none of its versions may be")
                return ("line %d: %s -> %s: the Event reads absent although %s" % (i + 1, line, out, why),
                        "expired-too-young" if cur == "latest" else "expired-partially")
            if k == e and got is not None and want is not None and got[1:] != want:
                return ("line %d: %s -> %s: the newest acknowledged change of the Event is %s" % (i + 1, line, out, want), "event-key-wrong")
        if t[0] == "create" and cur == "expired" and hist.unhx(t[1]) == e and o[1] != "ok":
            prev = next((x for l, x in zip(case.lines[:i][::-1], case.impl[:i][::-1]) if l == "get %s 0" % hx(e)), "")
            if prev.split()[-1:] == ["-"]:
                return ("line %d: the Event reads absent after its ttl but cannot be created again (%s -> %s): a part of it "
                        "outlived the rest" % (i + 1, line, out), "recreate-fails")
        if t[0] == "dump" and compacted and len(o) == 2 and o[1] != "-":
            # wholly: the revision record and the version it names are there together, or the key has no record at all
            revs, named = [], None
            for kv in o[1].split(","):
                ik, val = (bytes.fromhex(x) if x != "-" else b"" for x in kv.split("="))
                if ik.startswith(MAGIC) and ik[4:-9] == e:
                    revs.append(int.from_bytes(ik[-8:], "big"))
                    if revs[-1] == 0:
                        named = int.from_bytes(val[:8], "big")
            if revs and (0 not in revs or named not in revs):
                return ("line %d: after a ttl pass the Event %s has the records %s (0 = revision record%s): the key was "
                        "removed in part" % (i + 1, e, sorted(revs), ", naming revision %d" % named if named else ""), "expired-partially")
    return None


def interrupted_expiry_case(seed, i, engine="tikv", offset=None, kind=None):
    """see c07.interrupted_expiry_case (the same generator, its own random stream): expired Event + non-event keys,
    `compact R crash=n` / `m=n:f|c` for the positions n around the expiry batch, then every key must be writable with
    normal semantics and every Event whole or gone (signature interrupted-ttl-pass-left-unwritable-key)"""
    return c07.interrupted_expiry_case(seed + 7919, i, engine, offset, kind)


def interrupted_expiry_cases(seed, tier):
    if tier == "quick":
        return [interrupted_expiry_case(seed, 0, "tikv", 1, "crash"), interrupted_expiry_case(seed, 5, "tikv", 2, "f"),
                interrupted_expiry_case(seed, 2, "tikv", 0, "c"), interrupted_expiry_case(seed, 3, "metrics-tikv", 1, "crash"),
                interrupted_expiry_case(seed, 6, "metrics-tikv", 0, "iter")]
    return [interrupted_expiry_case(seed, i, "metrics-tikv" if i % 5 == 3 else "tikv") for i in range(60)] + \
        [interrupted_expiry_case(seed, 100 + i, ["metrics-tikv", "tikv"][i % 2], 0, "iter") for i in range(6)]


interrupted_oracle = c07.interrupted_oracle


def oracle(case):
    ref = hist.Ref()
    clock = 0
    changed_at = {}      # key -> script clock of its newest acknowledged change
    expired = set()
    acked_revs = set()
    for i, (line, out) in enumerate(zip(case.lines, case.impl)):
        t, o = line.split(), out.split()
        ref.feed(line, out)
        if t[0] == "sleep":
            clock += int(t[1])
        if t[0] in ("create", "update", "delete") and o[1] == "ok":
            k = hist.unhx(t[1])
            changed_at[k] = clock
            acked_revs.add(int(o[2]))
            if t[0] == "create" and k in expired:
                expired.discard(k)
        if t[0] == "create" and hist.unhx(t[1]) in expired and o[1] != "ok":
            return ("line %d: an expired event key cannot be created again: %s -> %s" % (i + 1, line, out), "recreate-fails")
        if t[0] == "get" and o[1] != "err":
            k = hist.unhx(t[1])
            exp = ref.snapshot(ref.committed).get(k)
            got = hist.parse_kv(o[2]) if o[2] != "-" else None
            want = (k, exp[0], exp[1]) if exp else None
            if got != want:
                if is_event(k) and got is None and want is not None:
                    # removed by expiry: allowed only if its newest change is old enough
                    age = clock - changed_at.get(k, 0)
                    if age + 600 < TTL_MS:
                        return ("line %d: event key %s expired %d ms (script clock) after its newest change, TTL is %d ms" % (i + 1, k, age, TTL_MS), "expired-too-young")
                    expired.add(k)
                    ref.writes.append((ref.committed, k, None))   # from now on the reference treats it as gone
                else:
                    return ("line %d: %s -> %s but the acknowledged writes give %s%s" % (
                        i + 1, line, out, want, "" if is_event(k) else " (not an event key: must never expire)"), "non-event-key-removed" if not is_event(k) else "event-key-wrong")
        if t[0] == "dump" and len(o) == 2 and o[1] != "-":
            # wholly: an expired key has neither index nor versions left
            raw = {}
            for kv in o[1].split(","):
                ik = bytes.fromhex(kv.split("=")[0])
                if ik.startswith(b"\x57\xfb\x80\x8b"):
                    raw.setdefault(ik[4:-9], []).append(int.from_bytes(ik[-8:], "big"))
            for k in expired:
                if k in raw:
                    return ("expired event key %s still has records at revisions %s" % (k, raw[k]), "expired-partially")
        if t[0] == "drain" and len(o) >= 3 and o[2] != "-":
            for e in o[2].split(","):
                rev = int(e.split(":")[1])
                if rev not in acked_revs:
                    return ("a watch event at revision %d that no acknowledged write produced (expiry must be silent): %s" % (rev, e), "expiry-event")
    return None


def check(rep, tier, seed):
    n = 12 if tier == "quick" else 480
    # a ttl pass interrupted around the expiry batch: "removes an expired key's index and versions together" (theorems
    # KB.C07Atomic; generator and oracle shared with C07). First, so that its concrete failing input is what a violation names
    cases = interrupted_expiry_cases(seed, tier)
    # engines without native TTL run the scanner's expiry; with native TTL the engine's own clock applies
    cases += [gen_case(seed, i, "tikv") for i in range(n)]
    cases += [concurrent_compact_case(v) for v in range(3)]
    cases += [native_case(seed, i, ["badger", "memkv"][i % 2]) for i in range(4 if tier == "quick" else 96)]
    # the in-memory engine's own ttl timers, at the engine boundary (model: KB.MemTTL, theorems: KB.Props.C17Mem)
    cases += [engine_ttl_case(seed, i, ENGINE_TTL_ENGINES[i % 2], tier) for i in range(2 if tier == "quick" else 20)]
    cases += [renew_case(seed, i, ["update", "recreate"][i % 2]) for i in range(2 if tier == "quick" else 24)]
    cases += [badger_young_case(i) for i in range(4 if tier == "quick" else 15)]
    cases += [native_updated_case(i, ["badger", "memkv", "metrics-badger"][i % 3]) for i in range(3 if tier == "quick" else 18)]
    cases += [hostile_sibling_case(i) for i in range(2 if tier == "quick" else 9)]
    cases += [straddle_case(i) for i in range(2 if tier == "quick" else 8)]
    cases += [mark_age_case(i) for i in range(2 if tier == "quick" else 9)]
    # tikv: an Event renewed after the mark, compacted below its newest change; and the failed compare-and-delete of an
    # expired revision record (plain / other error / failed-condition error)
    cases += [renewed_event_case(seed, i, ["", "c", "f"][i % 3]) for i in range(3 if tier == "quick" else 42)]
    core.run_cases(cases, workers=14)
    for c in cases:
        if c.meta.get("renew"):
            for _ in range(3):
                if renew_conclusive(c):
                    break
                c.run()
            rep.cov["renew_cases_conclusive"] = rep.cov.get("renew_cases_conclusive", 0) + (1 if renew_conclusive(c) else 0)
    for c in cases:
        if c.meta.get("markage"):
            for _ in range(3):
                if mark_age_conclusive(c):
                    break
                c.run()
            rep.cov["mark_age_cases_conclusive"] = rep.cov.get("mark_age_cases_conclusive", 0) + (1 if mark_age_conclusive(c) else 0)
    pick = lambda c: (mark_age_oracle(c) if c.meta.get("markage") else straddle_oracle(c) if c.meta.get("straddle") else hostile_sibling_oracle(c) if c.meta.get("sibling") else
                      interrupted_oracle(c) if c.meta.get("interrupted") else
                      native_updated_oracle(c) if c.meta.get("nupdated") else badger_young_oracle(c) if c.meta.get("byoung") else renewed_oracle(c) if c.meta.get("renewed")
                      else engine_ttl_oracle(c) if c.meta.get("engine_ttl") else concurrent_oracle(c) if c.meta.get("concurrent")
                      else renew_oracle(c) if c.meta.get("renew") else native_oracle(c) if c.meta.get("native") else oracle(c))
    if core.judge(rep, "C17", cases, pick):
        return
    c07.interrupted_vacuity("C17", cases)
    rep.assumptions += ["events TTL 1 s through the verif setter; model time advances only by the script's sleeps (300 ms = young, 1300 ms = old); "
                        "the oracle allows 600 ms of scheduling slack",
                        "in-memory engine ttl (engine suite, KB.MemTTL / KB.Props.C17Mem): the model clock is the script's sleeps in ms; real "
                        "timers are assumed to fire within 250 ms after their deadline and never before it (every operation of a "
                        "script keeps >= 250 ms from every armed deadline); Badger's own ttl (1 s granularity) is not modelled",
                        "engine without native TTL: tikv mock. On memkv/badger expiry is the engine's own TTL (its clock is assumed); "
                        "what is proved there is that the TTL is passed exactly for keys under <prefix>/events/ (ttl_only_for_event_keys)"]
