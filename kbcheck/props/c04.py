"""C04 — every issued revision is resolved: reads never overtake a write and never stall."""
from .. import core, sched
from ..gen import KEY_POOL, rng_for

EXTRA_PROP_MODULES = [("KB.Props.OrderC04", "KB.OrderC04"), ("KB.Props.C04Window", "KB.C04Window"),
                      # the window of KB.C04Window is tied to tso.Deal by the shape facts and theorems of KB.C18Cas
                      ("KB.Props.C18Cas", "KB.C18Cas")]

ENGINES = ["memkv", "badger", "tikv"]


def gen_case(seed, i, engine, n_clients):
    r = rng_for(seed, "c04/%d" % i)
    keys = r.sample(KEY_POOL[:8], r.randint(1, 3))
    c = sched.gen_schedule(r, n_clients, keys, engine, faults=False)
    # storage errors (not applied) at random commits
    if i % 3 == 2:
        c.lines = [ln + (" f=e" if ln.startswith("step c") and r.random() < 0.2 and "f=" not in ln else "") for ln in c.lines]
    return c


def gone_case(seed, i, engine):
    """requests whose caller is gone before the backend sees them (`gone=1`: the context is already cancelled - the unary
    deadline passed or the client hung up while the request was queued) between ordinary ones, on the engines that ignore the
    context of a commit (in-memory, Badger): whatever such a request is answered, the revision dealt for it is resolved -
    the read revision reaches every revision handed out and later writes become readable"""
    from .. import hist
    from ..gen import PREFIX, hx
    r = rng_for(seed, "c04g/%d" % i)
    keys = r.sample(KEY_POOL[:8], r.randint(2, 4))
    sh = hist.Shadow()
    lines = [hist.cfg_line(engine)]
    for ln in hist.gen_writes(r, sh, r.randint(6, 16), keys, p_ok=0.8):
        if ln.split()[0] in ("create", "update", "delete") and r.random() < 0.35:
            ln += " gone=1"
        lines.append(ln)
    lines += ["rev", "list %s %s 0 0" % (hx(PREFIX + b"/"), hx(PREFIX + b"0"))]
    return core.Case("backend", lines, {"engine": engine, "gone": True})


def gone_oracle(case):
    top = 0
    for i, (line, out) in enumerate(zip(case.lines, case.impl)):
        t, o = line.split(), out.split()
        if t[0] in ("create", "update", "delete") and len(o) >= 3 and o[2].isdigit():
            top = max(top, int(o[2]))
        elif t[0] == "rev" and len(o) == 2 and o[1].isdigit() and int(o[1]) < top:
            return ("line %d: every request has returned and revision %d was handed out, but the read revision stays at %s "
                    "(waited): a dealt revision was never resolved" % (i + 1, top, o[1]), "stalled")
    return None


def check(rep, tier, seed):
    n, n_clients = (45, 4) if tier == "quick" else (6000, 6)
    cases = [gen_case(seed, i, ENGINES[i % 3], n_clients if i % 2 else 3) for i in range(n)]
    # the retry loop's rewrites also allocate revisions that must be resolved (every repair outcome)
    from . import c09
    pl = c09.placements()
    if tier == "quick":
        # every verb x every repair outcome, the first write applied-but-unknown (the repair then has work to do)
        sel = [p for p in pl if p[1] == "ua"]
        rcases = [c09.gen_case(seed, 5000 + i, ["memkv", "tikv"][i % 2], p) for i, p in enumerate(sel)]
    else:
        rcases = [c09.gen_case(seed, 5000 + i, ENGINES[i % 3], pl[i % len(pl)]) for i in range(126)]
    # ... and between the repair's read (+ deal) and its commit the revision it holds is in flight like a client's:
    # client writes placed in between (the repair's compare-and-swap then fails), every outcome of the repair's commit
    scases, n_spl = c09.stepped_cases(seed + 17, tier, base=7000)
    rcases += scases
    for c in rcases:
        c.meta["retry"] = True
    cases += rcases
    cases += [gone_case(seed, i, ["memkv", "badger"][i % 2]) for i in range(8 if tier == "quick" else 400)]
    core.run_cases(cases)
    pick = lambda c: gone_oracle(c) if c.meta.get("gone") else c09.oracle(c, only="stalled") if c.meta.get("retry") else sched.oracle_c04(c)
    if core.judge(rep, "C04", cases, pick):
        return
    rep.cov["stepped_repair_placements"] = n_spl
    rep.assumptions += ["atomicity granularity: one tso.Deal, one engine batch commit, one engine snapshot read, one slot store are single steps "
                        "(the repair loop: its read + deal, and its commit + notification + pop)",
                        "the gated harness schedules storage calls; revision allocation happens together with the preceding step",
                        "sequencer goroutine free-running (eager in the model); observations of the committed revision are waited for (bounded)",
                        "the dealing window (a dealt revision always has a slot in the sequencer's ring of 100000) cannot be filled through the "
                        "harness: it is covered by KB.C04Window (invariant of the LTS), the shape facts of tso.Deal (KB.C18Cas) and the dynamic "
                        "test TestTsoWindow on the real allocator"]
    if not rep.violations:
        from .. import tsocas
        tsocas.run_dynamic(rep, "C04", seed)
