"""C09 — indeterminate storage outcomes are repaired, never mis-reported."""
from .. import core, hist
from ..gen import KEY_POOL, PREFIX, hx, rng_for

EXTRA_PROP_MODULES = [("KB.Props.OrderC09", "KB.OrderC09")]

ENGINES = ["memkv", "badger", "tikv"]


def gen_case(seed, i, engine, placement=None):
    r = rng_for(seed, "c09/%d" % i)
    keys = r.sample([k for k in KEY_POOL if b"events" not in k][:8], r.randint(2, 4))
    sh = hist.Shadow()
    lines = [hist.cfg_line(engine, retry=0, check=5), "arm retry.step", "watch w1 %s 0" % hx(PREFIX + b"/")]
    lines += hist.gen_writes(r, sh, r.randint(2, 8), keys, p_ok=0.9)
    n_faulted = 1 if placement else r.randint(1, 2)
    for j in range(n_faulted):
        k = r.choice(keys)
        cur = sh.keys.get(k)
        verb = placement[0] if placement else r.choice(["create", "update", "delete"])
        fault = placement[1] if placement else r.choice(["ua", "un"])
        if verb == "create":
            if cur and cur[1]:
                ks = [q for q in keys if not (sh.keys.get(q) and sh.keys[q][1])]
                k = r.choice(ks) if ks else k
            lines.append("create %s %s f=%s" % (hx(k), hx(b"unc-c"), fault))
        elif verb == "update":
            ks = [q for q in keys if sh.keys.get(q) and sh.keys[q][1]]
            if ks:
                k = r.choice(ks)
            exp = sh.keys[k][0] if sh.keys.get(k) else 0
            lines.append("update %s %s %d f=%s" % (hx(k), hx(b"unc-u"), exp, fault))
        else:
            ks = [q for q in keys if sh.keys.get(q) and sh.keys[q][1]]
            if ks:
                k = r.choice(ks)
            lines.append("delete %s 0 f=%s" % (hx(k), fault))
        sh.dealt += 1        # the revision is consumed whatever happened
        sh.keys.pop(k, None)  # unknown to the shadow from now on
        lines += ["rev", "await retry.step"]
        # a compaction while the write is still unresolved and still the newest revision (the cap is then
        # exactly at the boundary), or later, after more requests
        immediate = placement is not None and i % 2 == 0
        if immediate:
            lines.append("compact 0")
        if r.random() < 0.5:
            # later requests keep flowing, on the same and on other keys
            lines += hist.gen_writes(r, sh, r.randint(1, 4), keys, p_ok=0.6)
        if not immediate and r.random() < 0.4:
            lines.append("compact 0")
    repairs = placement[2] if placement else [r.choice(["-", "-", "ua", "un", "e"]) for _ in range(r.randint(1, 3))]
    for f in repairs:
        lines.append("retry" + ("" if f == "-" else " f=" + f))
        lines += ["rev", "await retry.step"]
    # let the queue drain completely (the engine "answers again")
    for _ in range(6):
        lines += ["retry", "rev", "await retry.step"]
    lines += hist.gen_writes(r, sh, r.randint(1, 3), keys, p_ok=0.6)
    lines += ["rev", "drain w1", "list %s %s 0 0" % (hx(PREFIX + b"/"), hx(PREFIX + b"0")), "dump"]
    return core.Case("backend", lines, {"engine": engine})


# ------------------------------------------------------------------ the repair stepped through its storage calls
#
# The async repair is not atomic: retry() reads the key's latest value, takes a fresh revision from the TSO and
# only then commits [CAS(revKey, new, prev), Put(objKey_new, val)]. With cfg retrysteps=1 (gated mode) the harness
# parks the retry loop's goroutine at each of its storage calls as pseudo client R (`retry` -> `at R iter`,
# `step R` -> `at R commit` | `done R retry unnecessary`, `step R [f=]` -> `done R retry success|failed_put|
# unknown_put`), so that client requests can be placed BETWEEN the repair's read and its commit; the model side is
# the `sched` driver over KB.Sys (Action.retryRead / Action.retryCommit).

K1, K2, K3 = b"/r/a", b"/r/b", b"/r/a/b"

FIRST = ("create", "update", "delete")
BETWEEN = ("upd", "del", "recreate", "other", "none", "race-client-first", "race-repair-first", "compact")
COMMITS = ("-", "e", "un", "ua")


def stepped_placements():
    """(first verb, what runs between the repair's read and its commit, fault on the repair's commit, second
    unresolved write queued behind: None | "same" | "other")"""
    res = []
    for verb in FIRST:
        for btw in BETWEEN:
            if btw == "recreate" and verb != "delete":
                continue
            if btw in ("upd", "del", "race-client-first", "race-repair-first") and verb == "delete":
                continue
            for cf in (COMMITS if btw in ("upd", "del", "other", "none", "recreate") else ("-",)):
                res.append((verb, btw, cf, None))
    for verb in ("create", "update"):
        for second in ("same", "other"):
            for btw in ("upd", "del", "none"):
                res.append((verb, btw, "-", second))
    return res


def gen_stepped(seed, i, engine, placement=None, rdfault=False):
    r = rng_for(seed, "c09s/%d" % i)
    sh = hist.Shadow()
    others = [K2, K3]
    verb, btw, cfault, second = placement or (r.choice(FIRST), r.choice(BETWEEN), r.choice(COMMITS), r.choice([None, None, "same", "other"]))
    if placement is None:
        if verb == "delete" and btw in ("upd", "del", "race-client-first", "race-repair-first"):
            btw = "recreate"
        if verb != "delete" and btw == "recreate":
            btw = "upd"
    lines = [hist.cfg_line(engine, retry=0, check=5, retrysteps=1), "gated 1", "arm retry.step",
             "watch w1 %s 0" % hx(PREFIX + b"/")]
    # some history on the other keys, and the target key in the state the first write needs
    lines += hist.gen_writes(r, sh, r.randint(0, 3), others, p_ok=0.9)
    if verb in ("update", "delete"):
        lines += ["create %s %s" % (hx(K1), hx(b"v0")), "rev"]
        sh.write("create", K1)
    base = sh.keys.get(K1, (0, False))[0]
    # the write whose outcome is unknown but which did land (f=ua)
    if verb == "create":
        lines.append("create %s %s f=ua" % (hx(K1), hx(b"unc-c")))
    elif verb == "update":
        lines.append("update %s %s %d f=ua" % (hx(K1), hx(b"unc-u"), base))
    else:
        lines.append("delete %s %d f=ua" % (hx(K1), r.choice([0, base])))
    sh.dealt += 1
    landed = sh.dealt
    lines += ["rev", "await retry.step"]
    if second == "same" and verb != "delete":
        # a second unresolved write queued behind, on the same key (conditioned on the first one)
        lines.append("update %s %s %d f=ua" % (hx(K1), hx(b"unc-2"), landed))
        sh.dealt += 1
        landed2 = sh.dealt
        lines += ["rev", "await retry.step"]
        # the head is no longer the newest version of its key: its repair is unnecessary
        lines += ["retry", "step R", "rev", "await retry.step"]
        landed = landed2
    elif second == "other":
        lines.append("create %s %s f=ua" % (hx(b"/r/c"), hx(b"unc-o")))
        sh.dealt += 1
        lines += ["rev", "await retry.step"]
    if rdfault:
        # the repair's READ of the key fails once (transient engine error): nothing may be concluded from it - the entry stays
        # queued (and keeps capping compaction) and is repaired at a later tick
        lines += ["retry", "step R f=rd", "rev", "await retry.step"]
    # the repair of the head, up to just before its commit: it has read the key and holds a fresh revision
    if btw == "race-client-first":
        # a client is dealt its revision BEFORE the repair is dealt its own, and commits while the repair is parked
        lines += ["start c1 update %s %s %d" % (hx(K1), hx(b"cli"), landed), "retry", "step R", "rev", "step c1", "rev"]
        sh.dealt += 2
    elif btw == "race-repair-first":
        # both hold a revision; the repair commits first, the client's compare-and-swap then fails
        lines += ["start c1 update %s %s %d" % (hx(K1), hx(b"cli"), landed), "retry", "step R", "rev"]
        sh.dealt += 2
    else:
        lines += ["retry", "step R", "rev"]
        sh.dealt += 1
        if btw == "upd":
            lines.append("update %s %s %d" % (hx(K1), hx(b"cli"), landed))
        elif btw == "del":
            lines.append("delete %s %d" % (hx(K1), r.choice([0, landed])))
        elif btw == "recreate":
            lines.append("create %s %s" % (hx(K1), hx(b"again")))
        elif btw == "other":
            lines += hist.gen_writes(r, sh, r.randint(1, 2), others, p_ok=0.8, sync=False)
            sh.dealt -= 1
        elif btw == "compact":
            lines.append("compact 0")
            sh.dealt -= 1
        else:
            sh.dealt -= 1
        sh.dealt += 1
        lines.append("rev")
    # the repair's commit
    lines.append("step R" + ("" if cfault == "-" else " f=" + cfault))
    lines += ["rev", "await retry.step"]
    if btw.startswith("race"):
        lines += ["step c1", "step c1", "rev"]
    sh.keys.pop(K1, None)
    # the engine "answers again": the queue drains (a repair that is not needed ends at its read)
    for _ in range(5):
        lines += ["retry", "step R", "step R", "rev", "await retry.step"]
    lines += hist.gen_writes(r, sh, r.randint(1, 2), [K1] + others, p_ok=0.5)
    lines += ["rev", "drain w1", "list %s %s 0 0" % (hx(PREFIX + b"/"), hx(PREFIX + b"0")), "dump"]
    return core.Case("backend", lines, {"engine": engine, "stepped": placement or "random"}, model_suite="sched")


def stepped_cases(seed, tier, base=3000):
    pl = stepped_placements()
    engines = ["memkv", "tikv"] if tier == "quick" else ENGINES
    cases = [gen_stepped(seed, base + i, engines[i % len(engines)], p) for i, p in enumerate(pl)]
    # the same with the repair's first read failing (every first verb x what follows, no second unresolved write)
    rd = [p for p in pl if p[3] is None and p[2] == "-" and p[1] in ("upd", "none", "recreate", "compact", "other")]
    cases += [gen_stepped(seed, base + 300 + i, ENGINES[i % 3], p, rdfault=True) for i, p in enumerate(rd)]
    # ... and with a SECOND unresolved write (another key) queued behind the head whose read fails, then a compaction request:
    # the head stays the head (the queue is in revision order: its first entry caps compaction)
    rd2 = [(verb, "compact", "-", "other") for verb in ("delete", "update", "create")]
    cases += [gen_stepped(seed, base + 400 + i, ENGINES[i % 3], p, rdfault=True) for i, p in enumerate(rd2)]
    n_rand = 12 if tier == "quick" else 900
    cases += [gen_stepped(seed, base + 500 + i, ENGINES[i % 3]) for i in range(n_rand)]
    return cases, len(pl)


def oracle(case, only=None):
    snap = {}
    queue_empty = False
    max_acked = hist.INIT
    final_rev = None
    n_events = 0
    for i, (line, out) in enumerate(zip(case.lines, case.impl)):
        t, o = line.split(), out.split()
        if t[0] in ("start", "step") and len(o) >= 4 and o[0] == "done" and o[2] in ("create", "update", "delete"):
            # a stepped client returned: judge its response like a sequential one's
            t, o = [o[2]] + [x for x in t if x.startswith("f=")], o[2:]
        if t[0] in ("create", "update", "delete") and len(o) >= 2:
            faulted = [x for x in t if x.startswith("f=")]
            if faulted and faulted[0] in ("f=ua", "f=un") and o[1] in ("ok", "cf", "nf"):
                # a conflict can legitimately pre-empt the fault (the condition failed before commit)
                pass
            if faulted and faulted[0] in ("f=ua", "f=un") and o[1] == "ok" and only is None:
                return ("line %d: `%s` was answered `%s` although the engine reported an unknown outcome" % (i + 1, line, out), "uncertain-as-success")
            if o[1] == "ok":
                max_acked = max(max_acked, int(o[2]))
        if t[0] == "await" and len(o) == 3:
            queue_empty = o[2] == "0"
        if t[0] == "rev" and len(o) == 2:
            final_rev = int(o[1])
        if t[0] == "compact" and len(o) == 2 and o[1].isdigit() and not queue_empty:
            pass
        if t[0] == "drain" and len(o) >= 3:
            if o[2] != "-":
                for e in o[2].split(","):
                    typ, rev, kv = e.split(":", 2)
                    k, v, kr = hist.parse_kv(kv)
                    n_events += 1
                    if typ == "D":
                        snap.pop(k, None)
                    else:
                        snap[k] = (v, int(rev))
        if t[0] == "list" and o[1] != "err":
            got = dict((k, (v, rev)) for k, v, rev in hist.parse_kvs(o[3] if len(o) > 3 else "-"))
            if queue_empty and got != snap and only is None:
                return ("after the retry queue drained, replaying the %d delivered events gives %s but the store reads %s" % (n_events, snap, got), "no-convergence")
    if final_rev is not None and final_rev < max_acked:
        return ("the read revision %d stayed below an acknowledged write %d" % (final_rev, max_acked), "stalled")
    return None


def placements():
    res = []
    for verb in ("create", "update", "delete"):
        for f in ("ua", "un"):
            for rep in (["-"], ["e"], ["ua"], ["un"], ["un", "un"], ["ua", "un"], ["un", "ua"]):
                res.append((verb, f, rep))
    return res


def check(rep, tier, seed):
    cases = []
    pl = placements()
    for i, p in enumerate(pl):
        cases.append(gen_case(seed, i, ENGINES[i % 3] if tier != "quick" else ["memkv", "tikv"][i % 2], p))
    n_rand = 18 if tier == "quick" else 3000
    for i in range(n_rand):
        cases.append(gen_case(seed, 1000 + i, ENGINES[i % 3]))
    scases, n_spl = stepped_cases(seed, tier)
    cases += scases
    # a later CREATE of the key whose delete landed with an unknown outcome, racing the repair of that delete (/repo
    # eb6d1d1; generator and oracle are C01's: "followed by arbitrary further writes to the same keys" - the answer to
    # that further write must not be a failed condition the key never justified)
    from . import c01
    cvr = [c01.create_vs_repair_case(seed, 50, "badger", "early"), c01.create_vs_repair_case(seed, 51, "memkv", "late")]
    if tier != "quick":
        cvr += [c01.create_vs_repair_case(seed, 60 + i, ENGINES[i % 3], "random") for i in range(12)]
    cases += cvr
    core.run_cases(cases)
    if core.judge(rep, "C09", cases, lambda c: c01.create_vs_repair_oracle(c) if c.meta.get("cvr") else oracle(c)):
        return
    if tier != "quick":
        # the real TiKV client's own "result undetermined" (the answer of the commit request is lost after the mock
        # cluster executed it; ~80 s of client back-off): it must be reported as an unknown outcome, not a definite error
        lines = ["cfg engine=tikv undet=1", "batch put:6b2f756e646574:7631", "get 6b2f756e646574"]
        out = core.run_impl("engine", lines, timeout=400)
        c = core.Case("engine", lines, {"engine": "tikv"})
        c.impl, c.model = out, ["cfg ok", "batch err uncertain", "get 7631"]
        rep.count_case(c)
        if len(out) >= 3 and out[2] == "get 7631" and out[1] not in ("batch err uncertain", "batch ok"):
            if core.handle_oracle_hit(rep, "C09", "tikv-undetermined-commit-definite-error", c,
                                      "the TiKV adapter answered `%s` for a commit whose answer was lost although the batch was applied (%s): "
                                      "an unknown outcome reported as a definite failure" % (out[1], out[2]), "tikv-undetermined-commit-definite-error"):
                return
    rep.cov["fault_placements"] = len(pl)
    rep.cov["stepped_repair_placements"] = n_spl
    rep.cov["create_vs_repair_scripts"] = len(cvr)
    rep.assumptions += ["unknown-outcome faults injected at the KvStorage boundary (applied / not applied), incl. on the repair write",
                        "retry interval 0 / check interval 5 ms through the verif setter; each retry step released by the script (hook gate retry.step)",
                        "sequential client requests around the faults; in the stepped-repair cases the repair's own storage calls (read, commit) "
                        "are scheduled by the script (pseudo client R: goroutine of the retry loop, identified at its hook gate) and client "
                        "requests run between them"]
