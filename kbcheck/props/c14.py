"""C14 — the leader lock is taken by at most one candidate per observed state.

Correspondence: the Lean model KB.Election (kbmodel election) against N real `resourceLock`s of
/repo/pkg/backend/election over one shared engine (kbharness -suite election), on
  * ALL sequences of get / create / update steps of 2 (and 3) candidates up to a length bound on memkv
    (every shorter sequence is a prefix of a maximal one, so only maximal ones are run), in two record
    regimes: "fresh" (every write carries a new record) and "const" (candidate i always writes the same
    record: exercises byte-equal rewrites / ABA),
  * random longer sequences on badger and the tikv mock cluster (and all three in thorough).
After every step the script reads the raw stored record (`stored`), so the oracle below decides the
property on the implementation's transcript alone.
A Case batches many sequences (each introduced by its own `cfg` line = fresh engine + fresh locks).
"""
import functools
import itertools
import os
import subprocess
import tempfile
from concurrent.futures import ThreadPoolExecutor

from .. import core
from ..gen import rng_for

PROP = "C14"
# who acts on the lock in a node: facts regenerated from election.go / leader.go (kbextract lockcalls.go)
EXTRA_PROP_MODULES = [("KB.Props.OrderC14", "KB.OrderC14")]
BATCH = {"memkv": 1500, "badger": 12, "tikv": 12}


@functools.lru_cache(maxsize=None)
def rec(holder, n):
    """Canonical JSON of a resourcelock.LeaderElectionRecord (what json.Marshal prints), as hex."""
    s = ('{"holderIdentity":"c%d","leaseDurationSeconds":8,"acquireTime":"2022-01-01T00:00:00Z",'
         '"renewTime":"2022-01-01T%02d:%02d:%02dZ","leaderTransitions":%d}' % (holder, n // 3600, n // 60 % 60, n % 60, n))
    return s.encode().hex()


@functools.lru_cache(maxsize=None)
def rel(n):
    """A RELEASE record (client-go's release() under ReleaseOnCancel: no holder), canonical JSON, as hex. The elector
    writes it with Update WITHOUT a Get in front of it."""
    s = ('{"holderIdentity":"","leaseDurationSeconds":1,"acquireTime":"2022-01-01T00:00:00Z",'
         '"renewTime":"2022-01-01T%02d:%02d:%02dZ","leaderTransitions":%d}' % (n // 3600, n // 60 % 60, n % 60, n))
    return s.encode().hex()


def seq_lines(engine, n, steps, probes=False):
    """steps: list of (op, i, rechex|None)."""
    lines = ["cfg engine=%s n=%d" % (engine, n), "stored"]
    for op, i, r in steps:
        if op == "race":
            # ("race", kind, [rec_0 .. rec_{n-1}]): last op, all candidates at once (goroutines in the harness)
            lines.append("race %s %s" % (i, " ".join(r)))
            continue
        lines.append("%s %d" % (op, i) if op == "get" else "%s %d %s" % (op, i, r))
        lines.append("stored")
        if probes:
            lines.append("init %d" % i)
            # the node's read-only endpoints (leader.GetElectionInfo / GetLeaderInfo / IsLeader) may be asked between any
            # two steps of the elector: they are no step of the lock
            lines += ["info %d" % j for j in range(n)]
    return lines


def race_step(n, kind):
    """Pairwise different records that no step of any script ever wrote (so the number of winners is 0 or 1
    whatever the order)."""
    return ("race", kind, [rec(k, 7000 + k) for k in range(n)])


def enum_sequences(n, length, regime):
    """All length-`length` sequences over {get,create,update} x candidates."""
    alphabet = [(op, i) for i in range(n) for op in ("get", "create", "update")]
    for combo in itertools.product(alphabet, repeat=length):
        if regime == "release":
            # every update is a release (holder-less record): the step the elector takes without a Get in front of it
            yield [(op, i, None if op == "get" else (rel(pos + 1) if op == "update" else rec(i, pos + 1)))
                   for pos, (op, i) in enumerate(combo)]
            continue
        yield [(op, i, None if op == "get" else rec(i, 0 if regime == "const" else pos + 1))
               for pos, (op, i) in enumerate(combo)]


def random_sequence(r, n, length):
    steps = []
    written = []
    for pos in range(length):
        i = r.randrange(n)
        x = r.random()
        op = "get" if x < 0.35 else ("create" if x < 0.5 else "update")
        rr = None
        if op != "get":
            if written and r.random() < 0.3:
                rr = r.choice(written)          # byte-equal rewrite of an earlier record (ABA)
            elif op == "update" and r.random() < 0.15:
                rr = rel(pos + 1)               # a release
            else:
                rr = rec(i, pos + 1)
            written.append(rr)
        steps.append((op, i, rr))
    x = r.random()
    if x < 0.7:
        steps.append(race_step(n, "update" if x < 0.5 else "create"))
    return steps


def race_scenarios(r, n):
    """Short prefixes that make several candidates eligible, then a real race."""
    k = r.randrange(4)
    if k == 0:
        return [race_step(n, "create")]
    pre = [("create", 0, rec(0, 1))] + [("get", i, None) for i in range(1, n)]
    if k == 2:
        pre.append(("update", r.randrange(n), rec(0, 2)))      # everybody else is stale now
        pre += [("get", i, None) for i in range(n) if r.random() < 0.5]
    if k == 3:
        pre = [("create", r.randrange(n), rec(0, 1))]          # only the creator is eligible
    return pre + [race_step(n, "update")]


def oracle(lines, outs, tally=None):
    """The property on ONE sequence of the implementation transcript. Returns (desc, signature) or None.
    `tally` (optional dict) receives the count of every step outcome seen ("create ok", ...).
    Tracks: S = stored record as last observed by `stored`; last[i] = the record candidate i last read
    (`get i ok <rec>`) or created itself; wrote[i] = the record of its last successful update."""
    if len(outs) < len(lines):
        return ("transcript ends early after %d of %d lines: %s" % (len(outs), len(lines), outs[-1:] or ""), "harness-died")
    S = None
    have_s = False
    if len(lines) < 2 or lines[1].split()[0] != "stored":
        return None     # not a C14 script (every sequence starts `cfg`, `stored`)
    last = {}
    wrote = {}
    creates_ok = 0
    initially_present = None
    pending = None   # (line_no, step tokens, outcome) awaiting the `stored` probe that follows it
    for k, (ln, out) in enumerate(zip(lines, outs)):
        t, o = ln.split(), out.split()
        if t[0] == "cfg":
            continue
        if not o or o[0] != t[0] or "PANIC" in o or "bad-op" in o or "bad-record" in o or "bad-index" in o:
            return ("line %d: %s answered %r" % (k + 1, ln[:60], out[:120]), "malformed-answer")
        if t[0] == "stored":
            if o[1] == "err":
                return ("line %d: raw read of the election key failed" % (k + 1), "engine-error")
            now = None if o[1] == "nf" else o[1]
            if not have_s:
                have_s, S, initially_present = True, now, now is not None
            elif pending is not None:
                pk, pt, pout = pending
                if pout == "ok" and pt[0] in ("create", "update"):
                    if now != pt[2]:
                        return ("line %d: %s %s answered ok but the stored record afterwards is not the record written"
                                % (pk + 1, pt[0], pt[1]), "lost-write")
                elif now != S:
                    return ("line %d: the stored record changed across '%s %s' which answered %s (not a successful write)"
                            % (pk + 1, pt[0], pt[1], pout), "silent-change")
                S = now
            elif now != S:
                return ("line %d: stored record changed without any step" % (k + 1), "silent-change")
            pending = None
            continue
        if t[0] == "init":
            continue
        if t[0] == "info":
            # what the endpoint answers is not C14's business (the model/implementation comparison sees it); what it may
            # have done to the lock shows in the steps that follow
            continue
        if t[0] == "race":
            if len(o) != 4 or not o[2].isdigit():
                return ("line %d: race answered %r" % (k + 1, out[:80]), "malformed-answer")
            oks = int(o[2])
            if tally is not None:
                tally["race %s %d" % (t[1], oks)] = tally.get("race %s %d" % (t[1], oks), 0) + 1
            if oks > 1:
                return ("line %d: %d candidates racing with different records were all told their %s succeeded"
                        % (k + 1, oks, t[1]), "race-double-acquire")
            if o[3] != "1":
                return ("line %d: after the race the stored record is not the winner's (or changed without a winner)"
                        % (k + 1), "race-inconsistent")
            if t[1] == "create" and (oks == 1) != (S is None):
                return ("line %d: racing creates: %d succeeded although the record was %s"
                        % (k + 1, oks, "absent" if S is None else "present"), "race-create")
            if t[1] == "update" and oks == 1 and (S is None or not any(S == last.get(c) or S == wrote.get(c)
                                                                      for c in set(last) | set(wrote))):
                return ("line %d: a racing update succeeded although no candidate had observed the stored record"
                        % (k + 1), "update-on-changed-record")
            continue
        i = t[1]
        outcome = o[2] if len(o) > 2 else "?"
        if outcome == "err":
            return ("line %d: %s answered err (engine failure outside the model)" % (k + 1, ln[:40]), "engine-error")
        if tally is not None:
            key = t[0] + " " + outcome
            tally[key] = tally.get(key, 0) + 1
        if t[0] == "get":
            if outcome == "ok":
                if o[3] != S:
                    return ("line %d: get %s returned a record different from the stored one" % (k + 1, i), "get-not-stored")
                last[i] = o[3]
            elif outcome == "nf":
                if S is not None:
                    return ("line %d: get %s answered not-found although a record is stored" % (k + 1, i), "get-not-stored")
            else:
                return ("line %d: get %s answered %s" % (k + 1, i, outcome), "malformed-answer")
        elif t[0] == "create":
            if outcome == "ok":
                creates_ok += 1
                if S is not None:
                    return ("line %d: create %s succeeded over an existing record" % (k + 1, i), "create-over-existing")
                if creates_ok > 1 or initially_present:
                    return ("line %d: create succeeded %d times in one run" % (k + 1, creates_ok), "double-create")
                last[i] = t[2]
        elif t[0] == "update":
            if outcome == "ok":
                if i not in last:
                    return ("line %d: update %s succeeded although candidate %s never read or created the record"
                            % (k + 1, i, i), "update-uninitialised")
                # `last[i]` = last read/created; `wrote[i]` = its own last successful update. The present code
                # compares with the former only (Update leaves lastVal alone); a lock that remembered its own
                # write would still be acting on an unchanged record, so both count as "what i last observed".
                if S is None or (S != last[i] and S != wrote.get(i)):
                    return ("line %d: update %s succeeded although the stored record is not what candidate %s last observed"
                            % (k + 1, i, i), "update-on-changed-record")
                wrote[i] = t[2]
        pending = (k, t, outcome)
    return None


def run_via_files(cmd, lines, timeout, env=None):
    """core.run_proc with the child's stdin/stdout on files instead of pipes: both programs answer line by line
    (one write per line), which through a pipe costs one wake-up of the python reader per line."""
    tmp = os.environ.get("KB_TMP", "/dev/shm" if os.path.isdir("/dev/shm") else None)
    with tempfile.TemporaryFile("w+", dir=tmp) as fin, tempfile.TemporaryFile("w+", dir=tmp) as fout, \
            tempfile.TemporaryFile("w+", dir=tmp) as ferr:
        fin.write("\n".join(lines) + "\n")
        fin.flush()
        fin.seek(0)
        try:
            p = subprocess.run(cmd, stdin=fin, stdout=fout, stderr=ferr, timeout=timeout, env=env)
            rc = p.returncode
        except subprocess.TimeoutExpired:
            rc = None
        fout.seek(0)
        out = fout.read().splitlines()
        if rc is None:
            out.append("TIMEOUT")
        elif rc != 0:
            ferr.seek(0)
            out.append("CRASHED rc=%d %s" % (rc, " ".join(ferr.read().split()[-30:])))
        return out


class BigCase(core.Case):
    """A Case whose (large) script is run through files; same two programs, same arguments as core.Case.run."""

    def run(self, patient=False):
        self.model = run_via_files([core.KBMODEL, self.suite], self.lines, 300)
        env = dict(os.environ, KB_TMP=os.environ.get("KB_TMP", "/dev/shm" if os.path.isdir("/dev/shm") else "/tmp"),
                   GOMEMLIMIT="2GiB")
        if patient:
            env["KB_WAIT_MS"] = "20000"
        self.impl = run_via_files([core.KBHARNESS, "-suite", self.suite], core.annotate(self.lines, self.model), 600, env=env)
        return self


class Batch:
    def __init__(self, engine, n, seqs, probes=False):
        self.engine, self.n, self.seqs, self.probes = engine, n, seqs, probes
        lines = []
        self.offsets = []
        for s in seqs:
            self.offsets.append(len(lines))
            lines += seq_lines(engine, n, s, probes)
        self.offsets.append(len(lines))
        self.distinct_by_construction = not probes     # enumerated: every script of the run is different
        self.case = BigCase("election", lines, {"engine": engine, "n": n})


def single_case(lines):
    return core.Case("election", list(lines), {}).run()


def shrink_sequence(lines, bad, budget=60):
    """Drop whole steps (a step line with the `stored` / `init` probes that follow it) while `bad(case)` still
    holds on a fresh run. The `cfg` line and the first probe stay. Returns the smallest bad case or None."""
    head, units = [], []
    for ln in lines:
        op = ln.split()[0]
        if op in ("get", "create", "update", "race"):
            units.append([ln])
        elif units:
            units[-1].append(ln)
        else:
            head.append(ln)
    best = None
    k = len(units) - 1
    while k >= 0 and budget > 0:
        cand = units[:k] + units[k + 1:]
        one = single_case(head + [l for u in cand for l in u])
        budget -= 1
        if bad(one):
            units, best = cand, one
        k -= 1
    return best


def same_hit(sig):
    def bad(case):
        hit = oracle(case.lines, case.impl)
        return hit is not None and hit[1] == sig
    return bad


def report_hit(rep, b, sl, so, hit):
    desc = hit[0]
    one = single_case(sl)
    again = oracle(one.lines, one.impl)
    if again is None or again[1] != hit[1]:
        one = core.Case("election", list(sl), {})
        one.model, one.impl = [], list(so)      # not reproduced alone: keep the transcript that showed it
    else:
        small = shrink_sequence(sl, same_hit(hit[1]))
        if small:
            one = small
        desc = oracle(one.lines, one.impl)[0]
    return core.handle_oracle_hit(rep, PROP, hit[1], one, desc + " [engine %s]" % b.engine, hit[1])


def judge_batch(rep, b, stats):
    """Oracle (and coverage accounting) on every sequence of the batch, then model/implementation comparison.
    True = a violation was recorded, stop."""
    c = b.case
    impl = c.impl or []
    model = c.model or []
    cov = rep.cov
    su = cov["suites"].setdefault("election", {"scripts": 0, "ops": 0})
    su["ops"] += len(c.lines)
    su["scripts"] += len(b.seqs)
    cov["evaluations"] += len(b.seqs)
    eng = cov.setdefault("sequences_per_engine", {})
    eng[b.engine] = eng.get(b.engine, 0) + len(b.seqs)
    oh = cov["op_histogram"]
    nsteps = sum(len([x for x in q if x[0] != "race"]) for q in b.seqs)
    oh["cfg"] = oh.get("cfg", 0) + len(b.seqs)
    oh["stored"] = oh.get("stored", 0) + len(b.seqs) + nsteps
    if b.probes:
        oh["init"] = oh.get("init", 0) + nsteps
        oh["info"] = oh.get("info", 0) + nsteps * b.n
    for q in b.seqs:
        for op, _, _ in q:
            oh[op] = oh.get(op, 0) + 1
    oc = cov.setdefault("outcome_histogram", {})
    for k in range(len(b.seqs)):
        lo, hi = b.offsets[k], b.offsets[k + 1]
        sl, so = c.lines[lo:hi], impl[lo:hi]
        tally = {}
        hit = oracle(sl, so, tally)
        if hit:
            if report_hit(rep, b, sl, so, hit):
                return True
            continue
        for key, v in tally.items():
            oc[key] = oc.get(key, 0) + v
        okw = tally.get("create ok", 0) + tally.get("update ok", 0) + tally.get("race create 1", 0) + \
            tally.get("race update 1", 0)
        if okw >= 1:
            if not b.distinct_by_construction:
                key = "\n".join(sl)
                if key in rep.seen:
                    continue
                rep.seen.add(key)
            cov["distinct_nontrivial"] += 1
            if okw >= 2:
                stats["two_writes"] += 1
                if len(cov["samples"]) < 3 and (b.engine != "memkv" or not cov["samples"]):
                    cov["samples"].append({"suite": "election", "script": sl, "impl_transcript": so})
    if model != impl or len(impl) != len(c.lines):
        # find the sequence that differs and report it alone
        for k in range(len(b.seqs)):
            lo, hi = b.offsets[k], b.offsets[k + 1]
            sl, so, mo = c.lines[lo:hi], impl[lo:hi], model[lo:hi]
            if mo != so or len(so) != len(sl):
                one = single_case(sl)
                if one.diff() is None:
                    one = core.Case("election", list(sl), {})
                    one.model, one.impl = list(mo), list(so)
                else:
                    one = shrink_sequence(sl, lambda cs: cs.diff() is not None and oracle(cs.lines, cs.impl) is None) or one
                core.handle_diff(rep, PROP, "correspondence", one)
                return True
        core.handle_diff(rep, PROP, "correspondence", c)
        return True
    return False


def chunks(it, size):
    buf = []
    for x in it:
        buf.append(x)
        if len(buf) == size:
            yield buf
            buf = []
    if buf:
        yield buf


ORACLE_SELFTEST = [
    # (script, deliberately wrong implementation transcript, signature the oracle must report)
    (["cfg engine=x n=2", "stored", "create 0 aa", "stored", "get 1", "stored", "update 1 bb", "stored", "update 0 cc", "stored"],
     ["cfg ok", "stored nf", "create 0 ok", "stored aa", "get 1 ok aa", "stored aa", "update 1 ok", "stored bb", "update 0 ok", "stored cc"],
     "update-on-changed-record"),
    (["cfg engine=x n=2", "stored", "create 0 aa", "stored", "create 1 bb", "stored"],
     ["cfg ok", "stored nf", "create 0 ok", "stored aa", "create 1 ok", "stored bb"], "create-over-existing"),
    (["cfg engine=x n=2", "stored", "create 0 aa", "stored", "update 1 bb", "stored"],
     ["cfg ok", "stored nf", "create 0 ok", "stored aa", "update 1 cf", "stored bb"], "silent-change"),
    (["cfg engine=x n=2", "stored", "create 0 aa", "stored", "update 1 bb", "stored"],
     ["cfg ok", "stored nf", "create 0 ok", "stored aa", "update 1 ok", "stored bb"], "update-uninitialised"),
    (["cfg engine=x n=2", "stored", "create 0 aa", "stored", "update 0 bb", "stored"],
     ["cfg ok", "stored nf", "create 0 ok", "stored aa", "update 0 ok", "stored aa"], "lost-write"),
    (["cfg engine=x n=2", "stored", "create 0 aa", "stored", "get 1", "stored"],
     ["cfg ok", "stored nf", "create 0 ok", "stored aa", "get 1 nf", "stored aa"], "get-not-stored"),
    (["cfg engine=x n=2", "stored", "create 0 aa", "stored", "get 1", "stored", "update 1 bb", "stored", "get 0", "stored", "update 0 cc", "stored"],
     ["cfg ok", "stored nf", "create 0 ok", "stored aa", "get 1 ok aa", "stored aa", "update 1 ok", "stored bb", "get 0 ok bb", "stored bb",
      "update 0 ok", "stored cc"], None),
]


ORACLE_SELFTEST += [
    (["cfg engine=x n=2", "stored", "create 0 aa", "stored", "get 1", "stored", "race update bb cc"],
     ["cfg ok", "stored nf", "create 0 ok", "stored aa", "get 1 ok aa", "stored aa", "race update 2 1"], "race-double-acquire"),
    (["cfg engine=x n=2", "stored", "race create bb cc"], ["cfg ok", "stored nf", "race create 2 1"], "race-double-acquire"),
    (["cfg engine=x n=2", "stored", "race create bb cc"], ["cfg ok", "stored nf", "race create 1 0"], "race-inconsistent"),
    (["cfg engine=x n=2", "stored", "race create bb cc"], ["cfg ok", "stored nf", "race create 1 1"], None),
]


def oracle_selftest():
    for lines, outs, want in ORACLE_SELFTEST:
        got = oracle(lines, outs)
        if (got[1] if got else None) != want:
            raise RuntimeError("C14 oracle self-test: expected %s, got %s on %s" % (want, got, outs))


def plan(tier, seed):
    """(enumeration descriptions, generator of batches)."""
    if tier == "quick":
        enums = [("memkv", 2, 6, "fresh"), ("memkv", 2, 6, "const"), ("memkv", 2, 5, "release"), ("memkv", 3, 5, "fresh"),
                 ("badger", 2, 3, "fresh"), ("tikv", 2, 3, "fresh")]
        randoms = [("memkv", 300), ("badger", 150), ("tikv", 150)]
        rlen = (8, 24)
    else:
        enums = [("memkv", 2, 7, "fresh"), ("memkv", 2, 7, "const"), ("memkv", 2, 6, "release"), ("memkv", 3, 6, "fresh"), ("memkv", 3, 5, "const"),
                 ("badger", 2, 4, "fresh"), ("badger", 2, 4, "const"), ("tikv", 2, 4, "fresh"), ("tikv", 2, 4, "const"),
                 ("badger", 3, 3, "fresh"), ("tikv", 3, 3, "fresh")]
        randoms = [("memkv", 3000), ("badger", 1500), ("tikv", 1500)]
        rlen = (8, 40)
    enum_info = [{"engine": e, "candidates": n, "length": ln, "records": rg, "sequences": 0, "expected": (3 * n) ** ln}
                 for (e, n, ln, rg) in enums]

    def gen():
        # slow engines first so that their batches overlap with the cheap ones
        for engine, count in randoms:
            seqs = []
            for k in range(count):
                r = rng_for(seed, "c14/%s/%d" % (engine, k))
                n = r.choice([2, 3, 3, 4])
                seqs.append((n, random_sequence(r, n, r.randint(*rlen))))
            for k in range(count // 2):
                r = rng_for(seed, "c14race/%s/%d" % (engine, k))
                n = r.choice([2, 3, 4, 6])
                seqs.append((n, race_scenarios(r, n)))
            for n in (2, 3, 4, 6):
                for ch in chunks([s for (m, s) in seqs if m == n], BATCH[engine]):
                    yield None, Batch(engine, n, ch, probes=True)
        order = sorted(range(len(enums)), key=lambda k: enums[k][0] == "memkv")
        for k in order:
            engine, n, length, regime = enums[k]
            for ch in chunks(enum_sequences(n, length, regime), BATCH[engine]):
                yield enum_info[k], Batch(engine, n, ch)
    return enum_info, gen(), rlen


def check(rep, tier, seed):
    oracle_selftest()
    enum_info, batches, rlen = plan(tier, seed)
    stats = {"two_writes": 0}
    stopped = False
    # waves bound the memory (scripts and transcripts of a wave are dropped once judged); while a wave runs
    # (core.run_cases, in a helper thread) the previous one is judged and the next one is generated
    def judge(wave):
        for info, b in wave:
            if info is not None:
                info["sequences"] += len(b.seqs)
            if judge_batch(rep, b, stats):
                return True
        return False

    waves = chunks(batches, 42)
    with ThreadPoolExecutor(max_workers=1) as bg:
        prev = None
        cur = next(waves, None)
        while cur is not None and not stopped:
            fut = bg.submit(core.run_cases, [b.case for (_, b) in cur])
            nxt = next(waves, None)
            if prev is not None:
                stopped = judge(prev)
            fut.result()
            prev, cur = cur, nxt
        if prev is not None and not stopped:
            stopped = judge(prev)
    complete = (not stopped) and all(e["sequences"] == e["expected"] for e in enum_info)
    rep.cov["enumerations"] = enum_info
    rep.cov["sequences_with_two_or_more_successful_writes"] = stats["two_writes"]
    rep.cov["exhaustive"] = bool(complete)
    rep.cov["traces_validated_against_impl"] = rep.cov["evaluations"]
    rep.cov["oracle_selftest_transcripts"] = len(ORACLE_SELFTEST)
    rep.cov["rule"] = ("every sequence of get/create/update steps of the stated number of candidates of exactly the stated "
                       "length is run (shorter ones are its prefixes) against model and implementation, `stored` probed after "
                       "every step; plus seeded random sequences of %d..%d steps of 2..4 candidates with byte-equal rewrites, most of them "
                       "ending in a real race (all candidates call Create / Update at once from goroutines), and short "
                       "race scenarios of 2..6 candidates; "
                       "a sequence is non-trivial when at least one create/update succeeded; distinct = distinct script text"
                       % rlen)
    rep.assumptions += [
        "calls of different candidates are atomic with respect to each other at the granularity of one engine call "
        "(Get = one store.Get, Create/Update = one batch commit): interleavings are sequences of whole Get/Create/Update "
        "calls; atomicity of a single-op batch commit is the engine contract (KB.commit, properties C11/C19)",
        "no engine failures / timeouts (every call answers ok, not-found, condition-failed or not-initialised)",
        "engine timestamps are non-zero once a commit has happened (observed through Describe() by the `init` probe)",
        "records are canonical JSON of LeaderElectionRecord (the harness refuses bytes that do not round-trip)",
        "no_double_acquire needs records not to be restored byte-for-byte (ABA); client-go's records carry renewTime and "
        "leaderTransitions",
    ]
    return stopped
