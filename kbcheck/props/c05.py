"""C05 — a watch delivers exactly the matching changes, once, in order — or is closed.

Correspondence (model suite `watch` = the LTS of KB.Watch under a script-controlled scheduler, harness suite
`backend` with cfg probe=1 / harness suite `ring`):
  (i)   ring: random add/find sequences, capacities 1,2,3,7 (wrap-around) — literal FindEvents vs ring.go;
  (ii)  registration races: gate position x start revision x cache size x write mix (+ the two sequencer
        yield points: committed-but-not-cached, cached-but-not-broadcast);
  (iii) slow consumer: a watcher that never drains while 10000+100+1(+1) one-event batches are written;
        the script of corpus/C05-async-delete.txt (deletion of the slow subscriber held at "hub.delete");
  (iv)  prefix filtering with prefix-related keys, several watchers on one history.
Oracle (on the IMPLEMENTATION transcript alone): the successful writes (from the write responses) give the
expected event list for (S, P); what a watcher drained must be a prefix of it (kind, revision, key, value,
previous kv of a delete), complete when drained at quiescence and not closed; closed only after an
overflow; refused only when the start revision was below the cached window or the cache was empty and S
not in the future at some moment of the registration."""
import os

from .. import core, hist
from ..gen import KEY_POOL, hx, rng_for

EXTRA_PROP_MODULES = [("KB.Props.OrderC05", "KB.OrderC05")]

INIT = hist.INIT
WATCH_BUFFER = 10000
RESULT_CHAN = 100
PREFIXES = [b"/r/", b"/r/a", b"/r/a/", b"/r/ab", b"/r/events/", b"/r/b", b""]
VALUES = [b"v1", b"v2", b"v3", b"x" * 20, b"\x00\x01"]


# ------------------------------------------------------------------ (i) ring

def ring_ref(cap, adds, s):
    """FindEvents by its specification (independent of the model)."""
    win = adds[-cap:] if adds else []
    if not win:
        return "find empty"
    if s > win[-1]:
        return "find high"
    if s < win[0]:
        return "find low %d" % win[0]
    evs = [r for r in win if r >= s]
    return "find events %d %s" % (win[-1], ",".join(map(str, evs)) if evs else "-")


def gen_ring(seed, i, cap, n):
    r = rng_for(seed, "c05/ring/%d/%d" % (cap, i))
    lines = ["cfg cap=%d" % cap]
    rev = r.randint(1, 50)
    adds = []
    for _ in range(n):
        if r.random() < 0.55 or not adds:
            rev += r.choice([1, 1, 1, 2, 3, 10])
            adds.append(rev)
            lines.append("add %d" % rev)
        else:
            win = adds[-cap:]
            cands = [0, win[0] - 1, win[0], win[-1], win[-1] + 1, win[-1] + 7, r.choice(win), r.choice(win) + 1,
                     r.choice(win) - 1, adds[0], adds[0] - 1]
            lines.append("find %d" % max(0, r.choice(cands)))
    for s in sorted(set([0, adds[0], adds[-1], adds[-1] + 1] + adds[-cap - 1:])):
        lines.append("find %d" % s)
    return core.Case("ring", lines, {"cap": cap, "kind": "ring"}, model_suite="watch")


def oracle_ring(case):
    cap = case.meta["cap"]
    adds = []
    for line, out in zip(case.lines, case.impl):
        t = line.split()
        if t[0] == "add":
            adds.append(int(t[1]))
        elif t[0] == "find":
            want = ring_ref(cap, adds, int(t[1]))
            if out != want:
                return ("ring capacity %d after adds %s: FindEvents(%s) answered '%s', specification '%s'" % (
                    cap, adds[-cap - 2:], t[1], out, want), "ring-find")
    return None


# ------------------------------------------------------------------ script building

class Script:
    """lines + a shadow that predicts which writes succeed (only used to pick interesting arguments)"""

    def __init__(self, r, cache, keys, engine="memkv"):
        self.r = r
        self.cache = cache
        self.keys = keys
        self.sh = hist.Shadow()
        self.lines = [hist.cfg_line(engine, cache=cache, probe=1)]
        self.seq_parked = False
        self.fresh = 0

    def write(self, p_ok=0.7, fault=0.08, force_ok=False):
        """one write; followed by rev + sync while the sequencer is free"""
        before = len(self.sh.revs)
        if force_ok:
            # a create of a fresh key: certain to succeed
            self.fresh += 1
            k = self.r.choice([b"/r/a/", b"/r/ab", b"/r/b/", b"/r/events/"]) + b"n%d" % self.fresh
            ln = "create %s %s" % (hx(k), hx(self.r.choice(VALUES)))
            self.sh.write("create", k)
        else:
            ln = hist.gen_writes(self.r, self.sh, 1, self.keys, values=VALUES, p_ok=p_ok, sync=False)[0]
            if self.r.random() < fault:
                # plain storage error: the revision is dealt, the write is not applied, no event
                ln += " f=e"
                if len(self.sh.revs) > before:
                    # undo the shadow's optimism
                    rev = self.sh.revs.pop()
                    for k, v in list(self.sh.keys.items()):
                        if v[0] == rev:
                            del self.sh.keys[k]
        self.lines.append(ln)
        self.lines.append("rev")
        if not self.seq_parked:
            self.lines.append("sync")
        return len(self.sh.revs) > before

    def writes(self, n, **kw):
        for _ in range(n):
            self.write(**kw)

    def events(self):
        return self.sh.revs[1:]

    def pick_start(self, cls):
        evs = self.events()
        win = evs[-self.cache:]
        if cls == "zero":
            return 0
        if not win:
            return {"below": INIT, "inside": INIT, "newest": self.sh.dealt, "above": self.sh.dealt + self.r.randint(1, 3)}[cls]
        if cls == "below":
            return max(1, win[0] - self.r.choice([1, 1, 2, 5]))
        if cls == "inside":
            x = self.r.choice(win)
            return self.r.choice([x, x, max(win[0], x - 1), win[0]])
        if cls == "newest":
            return win[-1]
        return self.sh.dealt + self.r.randint(1, 3)


def gen_race(seed, i, pos, start_cls, cache, seqgate=None):
    r = rng_for(seed, "c05/race/%d/%s/%s/%d/%s" % (i, pos, start_cls, cache, seqgate))
    keys = r.sample(KEY_POOL[:10], r.randint(2, 4))
    pfx = r.choice(PREFIXES)
    sc = Script(r, cache, keys)
    # phase A: history before the registration (sometimes none: empty cache)
    n_a = r.choice([0, 1, 2, 4, 6, 9]) if cache < 1024 else r.choice([0, 3, 8])
    if start_cls in ("below", "inside") and n_a == 0:
        n_a = 3
    sc.writes(n_a)
    if seqgate:
        # the last write before the registration is held inside the sequencer
        sc.lines.append("arm " + seqgate)
        sc.seq_parked = True
        sc.write(force_ok=True)
        sc.lines.append("await " + seqgate)
        if r.random() < 0.4:
            sc.write()      # a further slot filled behind the parked sequencer
    s = sc.pick_start(start_cls)
    gate = {"sub_read": "watch.subscribed", "read_decide": "watch.cache_read"}.get(pos)
    if gate:
        sc.lines.append("arm " + gate)
    sc.lines.append("startw c1 w1 %s %d" % (hx(pfx), s))
    if gate:
        sc.lines.append("await " + gate)
        # phase B: writes racing with the registration
        if seqgate and r.random() < 0.5:
            sc.lines.append("disarm " + seqgate)
            sc.seq_parked = False
            sc.lines.append("sync")
            seqgate = None
        sc.writes(r.randint(1, 4))
        sc.lines.append("release " + gate)
        sc.lines.append("disarm " + gate)
    sc.lines.append("join c1")
    if seqgate:
        sc.lines.append("disarm " + seqgate)
        sc.seq_parked = False
        sc.lines.append("sync")
    if pos == "after" or r.random() < 0.7:
        # phase C
        if r.random() < 0.3:
            sc.lines.append("drain w1")
        sc.writes(r.randint(1, 5))
    sc.lines.append("sync")
    sc.lines.append("drain w1")
    return core.Case("backend", sc.lines, {"kind": "race", "pos": pos, "start": start_cls, "cache": cache,
                                           "seqgate": seqgate, "quiescent": True}, model_suite="watch")


def gen_prefix(seed, i, cache):
    r = rng_for(seed, "c05/prefix/%d/%d" % (i, cache))
    keys = r.sample(KEY_POOL, r.randint(5, 9))
    sc = Script(r, cache, keys)
    sc.writes(r.randint(2, 8), fault=0.03)
    ws = []
    for j in range(r.randint(2, 4)):
        pfx = r.choice(PREFIXES + [r.choice(keys), r.choice(keys)[:-1]])
        cls = r.choice(["zero", "inside", "inside", "newest", "above", "below"])
        s = sc.pick_start(cls)
        sc.lines.append("startw c%d w%d %s %d" % (j + 1, j + 1, hx(pfx), s))
        sc.lines.append("join c%d" % (j + 1))
        ws.append("w%d" % (j + 1))
        sc.writes(r.randint(1, 4), fault=0.03)
    sc.writes(r.randint(3, 10), fault=0.03)
    sc.lines.append("sync")
    for w in ws:
        sc.lines.append("drain " + w)
    return core.Case("backend", sc.lines, {"kind": "prefix", "cache": cache, "quiescent": True}, model_suite="watch")


def gen_shared_batch(seed, i, cache):
    """several watchers of DIFFERENT directories registered, then a burst of writes across those directories that the
    sequencer hands to the hub as ONE batch (the write in front of them is held inside the sequencer while their slots fill):
    the hub gives every subscriber the same batch, each watcher filters it for itself - what one watcher does with the batch
    must not change what the others see"""
    r = rng_for(seed, "c05/shared/%d/%d" % (i, cache))
    keys = r.sample(KEY_POOL, r.randint(4, 8))
    sc = Script(r, cache, keys)
    sc.writes(r.randint(1, 4), fault=0.0)
    ws = []
    dirs = [b"/r/a/", b"/r/ab", b"/r/b/", b"/r/events/"]
    pf = r.sample(dirs, r.randint(2, 4)) + ([b"/r/"] if r.random() < 0.5 else [])
    r.shuffle(pf)
    for j, pfx in enumerate(pf):
        s0 = sc.pick_start(r.choice(["zero", "newest", "inside"]))
        sc.lines.append("startw c%d w%d %s %d" % (j + 1, j + 1, hx(pfx), s0))
        sc.lines.append("join c%d" % (j + 1))
        ws.append("w%d" % (j + 1))
    for _ in range(r.randint(1, 3)):
        sg = r.choice(["seq.before_cache", "seq.before_broadcast"])
        sc.lines.append("arm " + sg)
        sc.seq_parked = True
        sc.write(force_ok=True)
        sc.lines.append("await " + sg)
        for _ in range(r.randint(2, 7)):
            if r.random() < 0.75:
                sc.write(force_ok=True)
            else:
                sc.write(fault=0.0)
        sc.lines.append("disarm " + sg)
        sc.seq_parked = False
        sc.lines.append("sync")
        if r.random() < 0.4:
            sc.lines.append("drain " + r.choice(ws))
    sc.writes(r.randint(0, 3), fault=0.0)
    sc.lines.append("sync")
    for w in ws:
        sc.lines.append("drain " + w)
    return core.Case("backend", sc.lines, {"kind": "prefix", "cache": cache, "quiescent": True}, model_suite="watch")


def gen_slow(variant):
    """the never-draining watcher w1 (and, variant "pos", a draining watcher w2 on the same hub)"""
    n = WATCH_BUFFER + RESULT_CHAN + 2          # one more than fits: 10000 + 100 + 1 in hand
    lines = [hist.cfg_line("memkv", cache=1024, probe=1)]
    if variant == "zero":
        lines += ["startw c1 w1 %s 0" % hx(b"/r/"), "join c1",
                  "fill %d %s %s" % (n, hx(b"/r/f/"), hx(b"f")), "sync"]
    else:
        lines += ["create %s %s" % (hx(b"/r/a"), hx(b"v1")), "rev", "sync",
                  "startw c1 w1 %s %d" % (hx(b"/r/"), INIT + 1), "join c1",      # one catch-up batch
                  "startw c2 w2 %s %d" % (hx(b"/r/"), INIT + 2), "join c2",
                  "fill 5000 %s %s" % (hx(b"/r/f/"), hx(b"f")), "sync", "drain w2",
                  "fill %d %s %s" % (n - 5000, hx(b"/r/g/"), hx(b"g")), "sync", "drain w2"]
    lines += ["create %s %s" % (hx(b"/r/z"), hx(b"v2")), "rev", "sync", "drain w1"]
    if variant != "zero":
        lines += ["drain w2"]
        # the dropped watcher's client goes away only now (its context ends: a second DeleteWatcher of a subscriber that is
        # no longer registered): the hub must stay usable - the healthy watcher keeps receiving, a new watch registers
        lines += ["cancel w1", "create %s %s" % (hx(b"/r/zz"), hx(b"v3")), "rev", "sync", "drain w2",
                  "startw c3 w3 %s 0" % hx(b"/r/"), "join c3",
                  "create %s %s" % (hx(b"/r/zzz"), hx(b"v4")), "rev", "sync", "drain w2", "drain w3"]
    return core.Case("backend", lines, {"kind": "slow", "variant": variant, "quiescent": True}, model_suite="watch")


def corpus_case(name):
    path = os.path.join(core.VERIF, "corpus", name)
    lines = [l.strip() for l in open(path) if l.strip() and not l.startswith("#")]
    return core.Case("backend", lines, {"kind": "corpus", "name": name, "quiescent": True}, model_suite="watch")


# ------------------------------------------------------------------ the oracle

def parse_events(s):
    return [] if s == "-" else s.split(",")


def ev_rev(e):
    return int(e.split(":")[1])


def ev_key(e):
    return hist.unhx(e.split(":")[2])


class WatchObs:
    def __init__(self, wid, cid, pfx, start, line):
        self.wid, self.cid, self.pfx, self.start = wid, cid, pfx, start
        self.started = line      # index of the startw line
        self.subscribed = None   # index of the line after which the watcher is known to be subscribed
        self.joined = None
        self.outcome = None      # ok | refused
        self.got = []
        self.closed = False
        self.last_drain = None
        self.n_low = 0           # events certainly cached when Watch began
        self.committed_hi = INIT


def oracle_watch(case):
    """Evaluates C05 on the implementation transcript. Returns (description, signature) or None."""
    events = []        # (line index, event string) of every successful write, in revision order
    dealt_hi = INIT
    armed = set()
    maybe_uncached = 0
    ws = {}
    by_cid = {}
    fill_batches = 0
    for i, (line, out) in enumerate(zip(case.lines, case.impl)):
        t, o = line.split(), out.split()
        if not t or not o:
            continue
        op = t[0]
        if op in ("create", "update", "delete") and len(o) >= 3:
            if o[1] in ("ok", "cf", "nf") and o[2].isdigit():
                dealt_hi = max(dealt_hi, int(o[2]))
            if o[1] == "ok":
                rev = int(o[2])
                if op == "create" or (op == "update" and t[3] == "0"):
                    ev = "C:%d:%s:%s@%d" % (rev, t[1], t[2], rev)
                elif op == "update":
                    ev = "P:%d:%s:%s@%d" % (rev, t[1], t[2], rev)
                else:
                    ev = "D:%d:%s" % (rev, o[3])      # previous kv as reported by the delete itself
                events.append((i, ev))
                if "seq.before_cache" in armed:
                    maybe_uncached += 1
        elif op == "rev" and len(o) == 2 and o[1].isdigit():
            dealt_hi = max(dealt_hi, int(o[1]))      # failed writes (errors) deal revisions too
        elif op == "fill" and len(o) == 3 and o[1] == "ok":
            n, last = int(t[1]), int(o[2])
            for j in range(n):
                rev = last - n + 1 + j
                key = hist.unhx(t[2]) + (b"%05d" % j)
                events.append((i, "C:%d:%s:%s@%d" % (rev, hx(key), t[3], rev)))
            dealt_hi = max(dealt_hi, last)
            fill_batches += n
        elif op == "arm":
            armed.add(t[1])
        elif op == "disarm":
            armed.discard(t[1])
            if t[1] == "seq.before_cache":
                maybe_uncached = 0
        elif op == "startw":
            w = WatchObs(t[2], t[1], hist.unhx(t[3]), int(t[4]), i)
            w.n_low = len(events) - maybe_uncached
            ws[t[2]] = w
            by_cid[t[1]] = w
            if "watch.subscribed" not in armed and "watch.cache_read" not in armed:
                pass
        elif op == "await" and t[1] in ("watch.subscribed", "watch.cache_read") and o[-1] == "1":
            for w in ws.values():
                if w.subscribed is None and w.joined is None:
                    w.subscribed = i
        elif op == "join" and o[0] == "done":
            w = by_cid.get(t[1])
            if w is not None:
                w.joined = i
                w.outcome = o[-1]
                w.n_high = len(events)
                w.committed_hi = dealt_hi
                if w.subscribed is None:
                    w.subscribed = i
        elif op in ("drain", "take") and o[0] in ("events", "batch") and len(o) == 4:
            w = ws.get(t[1])
            if w is not None:
                w.got += parse_events(o[2])
                if o[3] == "closed=1":
                    w.closed = True
                if op == "drain":
                    w.last_drain = i
    all_evs = [e for (_, e) in events]
    revs = [ev_rev(e) for e in all_evs]
    if revs != sorted(set(revs)):
        return ("write responses carry non-increasing revisions %s" % revs[:20], "revisions-not-increasing")
    cache = int(case.meta.get("cache", 1024))
    for w in ws.values():
        matching = [(i, e) for (i, e) in events if ev_key(e).startswith(w.pfx)]
        if w.outcome == "refused":
            if w.got:
                return ("watch %s was refused but delivered %s" % (w.wid, w.got[:3]), "refused-but-delivered")
            if w.start == 0:
                return ("watch %s from revision 0 was refused" % w.wid, "refused-zero")
            ok = False
            for n in range(max(0, w.n_low), w.n_high + 1):
                win = revs[:n][-cache:]
                if (not win and w.start <= w.committed_hi) or (win and w.start < win[0]):
                    ok = True
            if not ok:
                return ("watch %s (start %d, prefix %s) was refused although at every moment of its registration the "
                        "cache (size %d, revisions %s) was non-empty and reached back to %d" % (
                            w.wid, w.start, hx(w.pfx), cache, revs[:w.n_high][-cache:][:6], w.start), "refused-not-allowed")
            continue
        if w.outcome != "ok":
            continue
        if w.start > 0:
            exp = [e for (_, e) in matching if ev_rev(e) >= w.start]
            base = 0
        else:
            # revision 0: a contiguous run that begins no later than the first event written after subscription
            exp_all = [e for (_, e) in matching]
            if w.got:
                if w.got[0] not in exp_all:
                    return ("watch %s (revision 0, prefix %s) delivered %s which is no successful matching write" % (
                        w.wid, hx(w.pfx), w.got[0]), "wrong-event")
                base = exp_all.index(w.got[0])
            else:
                base = len([1 for (i, _) in matching if i < w.subscribed])
            first_after = len([1 for (i, _) in matching if i < w.subscribed])
            if base > first_after:
                return ("watch %s (revision 0) started at matching event #%d (%s) although event #%d was written after "
                        "it had subscribed" % (w.wid, base, w.got[:1], first_after), "zero-start-missed")
            exp = exp_all[base:]
        # prefix check
        for j, g in enumerate(w.got):
            if j >= len(exp):
                return ("watch %s (start %d, prefix %s) delivered %s beyond the %d expected events" % (
                    w.wid, w.start, hx(w.pfx), g, len(exp)), "extra-event")
            if g != exp[j]:
                gr, er = ev_rev(g), ev_rev(exp[j])
                if j > 0 and gr <= ev_rev(w.got[j - 1]):
                    return ("watch %s delivered revision %d after %d (duplicate / out of order)" % (
                        w.wid, gr, ev_rev(w.got[j - 1])), "duplicate-or-reordered")
                if gr > er:
                    return ("watch %s (start %d, prefix %s): after %s the stream skipped revision %d (%s) and continued "
                            "with revision %d — a stream must never continue past an event it did not deliver" % (
                                w.wid, w.start, hx(w.pfx), ("revision %d" % ev_rev(w.got[j - 1])) if j else "its start",
                                er, exp[j], gr), "gap-then-continue")
                if gr == er:
                    return ("watch %s delivered %s, the write was %s" % (w.wid, g, exp[j]), "wrong-event")
                return ("watch %s (start %d, prefix %s) delivered %s which it must not see" % (
                    w.wid, w.start, hx(w.pfx), g), "extra-event")
        if w.closed:
            # closing is legitimate only for a watcher that cannot keep up
            if fill_batches + len(events) < WATCH_BUFFER:
                return ("watch %s was closed after %d events although only %d batches were ever written (buffer %d)" % (
                    w.wid, len(w.got), len(events), WATCH_BUFFER), "closed-without-overflow")
        elif case.meta.get("quiescent") and w.last_drain is not None and w.last_drain > max([i for (i, _) in events] or [0]):
            if len(w.got) != len(exp):
                return ("watch %s (start %d, prefix %s) is open and was drained at quiescence but %d of %d expected "
                        "events arrived; first missing %s" % (w.wid, w.start, hx(w.pfx), len(w.got), len(exp),
                                                              exp[len(w.got)]), "incomplete-at-quiescence")
    return None


# ------------------------------------------------------------------ check

POSITIONS = ["before", "sub_read", "read_decide", "after"]
STARTS = ["below", "inside", "newest", "above", "zero"]
CACHES = [1, 2, 3, 7, 1024]


def etcd_created_case(seed, i, engine):
    """the etcd Watch handler: `Created` is the only registration moment a client can observe. A watch from "now"
    (start revision 0) is acknowledged, THEN the client writes: every such write must be delivered. The handler's call of
    Backend.Watch is slowed down (cfg watchdelay) so that a handler which acknowledges first and subscribes second has
    not subscribed yet when the write arrives; the script does not wait for anything but `Created` (nowait=1)."""
    from . import c16
    r = rng_for(seed, "c05created/%d" % i)
    keys = [c16.PREFIX + b"/w%d" % j for j in range(3)]
    lines = [c16.cfg_line(engine) + " watchdelay=%d" % r.choice([60, 120]),
             c16.render_txn(c16.t_create(keys[0], b"v0")), "rev",
             "watch w1 %s - 0 nowait=1" % hx(c16.PREFIX + b"/")]
    n = r.randint(1, 3)
    for j in range(n):
        lines += [c16.render_txn(c16.t_create(keys[1] + b"%d" % j, b"v")), "rev"]
    lines += ["wevents w1"]
    return c16.EtcdCase("etcd", lines, {"kind": "etcd-created", "engine": engine, "n": n})


def big_catchup_case(n, cache=40000):
    """a watch whose catch-up from the event cache is larger than resultChanLength x eventBatchSize events (the code
    re-batches such a backlog to fit its result channel): it must be served (or refused), never hang, and deliver every
    event once, in order. Implementation only: the executable model needs minutes for tens of thousands of writes."""
    # (cache >= n: from the first event; a smaller cache - any size, not only round ones: --watch-cache-size is the operator's -
    # has wrapped, the watch starts at the oldest event still cached and its catch-up is the WHOLE cache)
    start = hist.INIT + 1 + max(0, n - cache)
    lines = ["cfg engine=memkv prefix=2f72 cache=%d" % cache, "bulk %d %s 76" % (n, hx(b"/r/b")), "rev",
             "watch w1 %s %d" % (hx(b"/r/"), start), "drain w1", "create %s 77" % hx(b"/r/zlive"), "rev", "drain w1"]
    return core.ImplOnlyCase("backend", lines, {"kind": "bigcatchup", "n": n, "start": start}, timeout=60)


def oracle_bigcatchup(case):
    n = case.meta["n"]
    out = case.impl or []
    if len(out) < len(case.lines) or any(x == "TIMEOUT" or x.startswith("CRASHED") for x in out):
        return ("a watch from inside the event cache with a backlog of %d events was neither served nor refused: the request "
                "hangs (transcript: %s)" % (n, [x[:60] for x in out][-3:]), "watch-catchup-hangs")
    if out[3].split()[2:3] == ["refused"]:
        return None
    evs = out[4].split()[2]
    revs = [int(e.split(":")[1]) for e in evs.split(",")] if evs != "-" else []
    if revs != list(range(case.meta.get("start", hist.INIT + 1), hist.INIT + 1 + n)):
        return ("the catch-up of a watch with a backlog of %d events delivered %d events, not every event once in order "
                "(first %s, last %s)" % (n, len(revs), revs[:3], revs[-3:]), "watch-catchup-wrong")
    live = out[7].split()[2]
    if not live.startswith("C:%d:" % (hist.INIT + n + 1)):
        return ("after a large catch-up the live event was not delivered: %s" % out[7][:120], "watch-catchup-wrong")
    return None


def etcd_cancel_once_case(seed, i, engine):
    """a client cancels a running watch while writes go on: the watch is answered with exactly ONE `canceled` response and
    nothing names it afterwards (etcd's contract, which clientv3 - kube-apiserver, a follower's proxy - relies on: a second
    `canceled`, or an event after it, closes a closed channel in the client process)"""
    from . import c16
    r = rng_for(seed, "c05cancel/%d" % i)
    lines = [c16.cfg_line(engine), c16.render_txn(c16.t_create(c16.PREFIX + b"/c0", b"v")), "rev",
             "watch w1 %s - %d" % (hx(c16.PREFIX + b"/"), c16.INIT + 1)]
    n = 0
    for _ in range(r.randint(1, 4)):
        n += 1
        lines += [c16.render_txn(c16.t_create(c16.PREFIX + b"/c%d" % n, b"v")), "rev"]
    lines += ["wevents w1", "wcancel w1"]
    for _ in range(r.randint(1, 3)):
        n += 1
        lines += [c16.render_txn(c16.t_create(c16.PREFIX + b"/c%d" % n, b"v")), "rev"]
    lines += ["wcanceled w1", "wevents w1", "wcanceled w1"]

    class CancelCase(c16.EtcdCase):
        """`wcancel` only SENDS the client's cancel; the server's receive loop handles it whenever it is scheduled. Events of
        writes acknowledged between the request and its `canceled` answer may or may not still be delivered (both are what the
        property allows, and under load both happen): the events of a `wevents` AFTER the cancel request are not compared,
        only its flags - the judgement (exactly one `canceled`, nothing naming the watch after it) is the oracle's, on the
        `wcanceled` lines."""

        def run(self, patient=False):
            c16.EtcdCase.run(self, patient=patient)
            seen = False
            for i, ln in enumerate(self.lines):
                if ln.startswith("wcancel "):
                    seen = True
                elif seen and ln.startswith("wevents "):
                    for tr in (self.model, self.impl):
                        if i < len(tr):
                            t = tr[i].split()
                            if len(t) >= 4 and t[0] == "wevents":
                                tr[i] = " ".join(t[:2] + ["*"] + t[3:])
            return self

    return CancelCase("etcd", lines, {"kind": "etcd-cancel", "engine": engine})


def oracle_cancel_once(case):
    for i, (line, out) in enumerate(zip(case.lines, case.impl)):
        o = out.split()
        if line.startswith("wcanceled") and len(o) == 4:
            n, extra = int(o[2][2:]), int(o[3][6:])
            if n > 1 or extra > 0:
                return ("line %d: a cancelled watch was answered with %d `canceled` responses and %d response(s) naming it after the "
                        "first: %s" % (i + 1, n, extra, out), "watch-cancel-answered-twice")
    return None


def oracle_created(case):
    n = case.meta["n"]
    for i, (line, out) in enumerate(zip(case.lines, case.impl)):
        o = out.split()
        if line.startswith("wevents") and len(o) >= 3:
            got = 0 if o[2] == "-" else len(o[2].split(","))
            if got < n and "canceled=1" not in out and "compact=1" not in out:
                return ("line %d: a watch from `now` was acknowledged (Created) before %d acknowledged writes, its stream is open, "
                        "and it delivered %d of them: %s" % (i + 1, n, got, out[:300]), "created-before-subscribed")
    return None


def build_cases(tier, seed):
    cases = []
    reps = 1 if tier == "quick" else 40
    for cap in [1, 2, 3, 7] + ([16, 100] if tier != "quick" else []):
        for i in range(3 if tier == "quick" else 40):
            cases.append(gen_ring(seed, i, cap, 40 if tier == "quick" else 120))
    slow = [gen_slow("pos"), corpus_case("C05/async-delete.txt")]
    if tier != "quick":
        slow.append(gen_slow("zero"))
    cases += slow       # long-running ones first in the pool
    i = 0
    for rep in range(reps):
        for pos in POSITIONS:
            for st in STARTS:
                for cache in CACHES:
                    i += 1
                    cases.append(gen_race(seed, i, pos, st, cache))
        for sg in ["seq.before_cache", "seq.before_broadcast"]:
            for st in STARTS:
                for cache in CACHES:
                    i += 1
                    cases.append(gen_race(seed, i, ["before", "sub_read", "read_decide"][i % 3], st, cache, seqgate=sg))
    for j in range(12 if tier == "quick" else 800):
        cases.append(gen_prefix(seed, j, CACHES[j % len(CACHES)]))
    for j in range(10 if tier == "quick" else 600):
        cases.append(gen_shared_batch(seed, j, [7, 1024, 1024, 3][j % 4]))
    for j in range(3 if tier == "quick" else 60):
        cases.append(etcd_created_case(seed, j, ["memkv", "badger", "tikv"][j % 3]))
    for j in range(3 if tier == "quick" else 60):
        cases.append(etcd_cancel_once_case(seed, j, ["memkv", "badger", "tikv"][j % 3]))
    cases.append(big_catchup_case(30001))
    cases.append(big_catchup_case(32768 + 10, cache=32768))     # a wrapped cache of a size that is no multiple of anything round
    if tier != "quick":
        cases += [big_catchup_case(n) for n in (30000, 30099, 35017)]
        cases += [big_catchup_case(c + 7, cache=c) for c in (30011, 31999, 65536, 39999)]
    return cases


def check(rep, tier, seed):
    cases = build_cases(tier, seed)
    # the 10 000-write scripts run first and among themselves only: every harness process has a busy-spinning
    # sequencer goroutine, and with all cores taken each of their 10 000 hand-overs costs a scheduler quantum
    big = [c for c in cases if c.meta.get("kind") in ("slow", "corpus")]
    rest = [c for c in cases if c.meta.get("kind") not in ("slow", "corpus")]
    rest.sort(key=lambda c: -len(c.lines))
    core.run_cases(big, workers=4)
    core.run_cases(rest)
    cases = big + rest
    kinds = {}
    outcomes = {"accepted": 0, "refused": 0, "streams_closed": 0, "events_delivered": 0, "parked_registrations": 0,
                "parked_sequencer": 0, "by_start_class": {}}
    for c in cases:
        rep.count_case(c)
        k = c.meta.get("kind")
        kinds[k] = kinds.get(k, 0) + 1
        for line, out in zip(c.lines, c.impl or []):
            o = out.split()
            if len(o) == 5 and o[0] == "done" and o[2] == "watch":
                outcomes["accepted" if o[4] == "ok" else "refused"] += 1
                if k == "race":
                    d = outcomes["by_start_class"].setdefault(c.meta["start"], {"ok": 0, "refused": 0})
                    d[o[4]] += 1
            elif len(o) == 4 and o[0] in ("events", "batch"):
                outcomes["events_delivered"] += len(parse_events(o[2]))
                outcomes["streams_closed"] += o[3] == "closed=1"
            elif len(o) == 3 and o[0] == "await" and o[2] == "1":
                outcomes["parked_registrations" if o[1].startswith("watch.") else "parked_sequencer"] += 1
        hit = (oracle_ring(c) if k == "ring" else oracle_created(c) if k == "etcd-created" else oracle_cancel_once(c) if k == "etcd-cancel" else
               oracle_bigcatchup(c) if k == "bigcatchup" else oracle_watch(c))
        if hit:
            if core.handle_oracle_hit(rep, "C05", hit[1], c, hit[0], hit[1]):
                return True
            continue
        if c.diff() is not None:
            core.handle_diff(rep, "C05", "correspondence", c)
            return False
    # the samples of the evidence file should not be the 10 000-event transcripts
    rep.cov["samples"] = [{"suite": c.suite, "script": c.lines[:40], "impl_transcript": [x[:300] for x in (c.impl or [])[:40]]}
                          for c in cases if c.meta.get("kind") in ("race", "prefix")][:3]
    rep.cov["c05_cases_by_kind"] = kinds
    rep.cov["c05_outcomes"] = outcomes
    rep.cov["c05_grid"] = {"gate_positions": POSITIONS + ["seq.before_cache", "seq.before_broadcast"],
                           "start_revisions": STARTS, "cache_sizes": CACHES}
    rep.assumptions += [
        "atomicity: each LTS action is one channel send/receive or one mutex-protected section of the Go code "
        "(Ring.Add / FindEvents under the ring lock; AddWatcher / DeleteWatcher under the hub lock; one fan-out pass "
        "under the hub read lock, merged with the synchronous deletions that follow it)",
        "sort.Search is used by its contract (first index at which the predicate holds); the literal binary search "
        "is proved equivalent for monotone predicates (sort_search_contract)",
        "context cancellation by the client is not modelled (the property speaks of the stream up to its closing)",
        "watchChan (capacity 100000) is treated as unbounded; eventBatchSize only bounds batches (any batching is "
        "covered by the LTS)",
        "correspondence runs are sequential writes with script-controlled yield points (hook gates); the harness waits "
        "for the real pipeline with a probe watcher (`sync`), the committed revision (`rev`) and parked goroutines (`await`)",
        "flow control of a real gRPC stream exists only in the dynamic test TestWatchesSharingAStreamSurviveAConsumerPause (several "
        "watches on one stream, a consumer that pauses): the in-process streams of the suites have none",
    ]
    # several watches on ONE real gRPC stream, a consumer that pauses and resumes: every watch must go on delivering
    from .. import dyntest
    if dyntest.run_go_test(rep, "C05", "TestWatchesSharingAStreamSurviveAConsumerPause", "watch-stream-stalled",
                           "watches sharing one gRPC stream stopped delivering after a pause of the consumer although the stream "
                           "is open and nothing was cancelled (answers must be sent one at a time: gRPC wakes only one blocked sender)",
                           env={"KB_WATCH_STREAM": "1"}):
        return True
    # watch ids of several watches on one real stream (never the id of a live watch, events under the id of their own watch),
    # and exactly one `canceled` per watch when the server's refusal of a range stream overlaps the client's cancel
    return dyntest.run_go_test(rep, "C05", "TestWatchIdsAndCancelsOnOneStream", "watch-ids-or-cancels-on-one-stream",
                               "several watches on ONE gRPC stream: a new watch was given the id of a watch that is still live (its events "
                               "arrive under the wrong watch), or a watch was ended with more than one `canceled` response",
                               env={"KB_WATCH_STREAM": "1"})
