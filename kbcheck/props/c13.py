"""C13 — range results do not depend on how the engine partitions the key space."""
import struct

from .. import core, hist
from ..gen import KEY_POOL, PREFIX, hx, rng_for

MAGIC = b"\x57\xfb\x80\x8b"

# "each stream ends with exactly one terminator": for a range stream served over the etcd Watch API the terminator is the
# `canceled` / eof answer of the watch server - one per watch (KB.OrderC05.watch_forgotten_under_the_lookup_lock)
EXTRA_PROP_MODULES = [("KB.Props.OrderC05", "KB.OrderC05")]


def enc(k, r):
    return MAGIC + k + b"$" + struct.pack(">Q", r)


def gen_case(seed, i, engine, real_regions):
    r = rng_for(seed, "c13/%d" % i)
    keys = r.sample(KEY_POOL, r.randint(3, 8))
    sh = hist.Shadow()
    body = hist.gen_writes(r, sh, r.randint(10, 40), keys, p_ok=0.85)
    # borders: stored keys and well-formed internal keys — on index records, mid-versions, absent keys
    cands = []
    for k in keys + [PREFIX + b"/a1", PREFIX + b"/b0", PREFIX + b"/m"]:
        cands.append(enc(k, 0))
        for rev in r.sample(range(hist.INIT, sh.dealt + 2), min(3, sh.dealt + 2 - hist.INIT)):
            cands.append(enc(k, rev))
    borders = sorted(set(r.sample(cands, r.randint(0, min(4, len(cands))))))
    opt = {}
    if borders:
        opt["regions" if real_regions else "splits"] = ",".join(hx(b) for b in borders)
    lines = [hist.cfg_line(engine, **opt)] + body
    a, b = PREFIX + b"/", PREFIX + b"0"
    revs = sorted(set([0, sh.dealt] + [r.randint(hist.INIT, sh.dealt) for _ in range(2)]))
    for R in revs:
        lines.append("list %s %s %d 0" % (hx(a), hx(b), R))
        lines.append("echo whole %d" % R)
        lines.append("stream %s %s %d" % (hx(enc(a, 0)), hx(enc(b, 0)), R))
    lines.append("count %s %s" % (hx(a), hx(b)))
    lines.append("parts %s %s" % (hx(a), hx(b)))
    # per advertised partition: the borders GetPartitions returns are known only at run time; the
    # generator predicts them (engine borders inside the range, as advertised) and the oracle checks
    # the prediction against the `parts` line
    inner = [x for x in borders if enc(a, 0) < x < enc(b, 0)]
    # GetPartitions advertises borders aligned to the index record of the raw key they fall in
    inner = [x[:-8] + bytes(8) for x in inner]
    adv = [enc(a, 0)] + inner + [enc(b, 0)]
    for R in revs:
        lines.append("echo perpart %d" % R)
        for s, e in zip(adv, adv[1:]):
            lines.append("stream %s %s %d" % (hx(s), hx(e), R))
        lines.append("echo endperpart")
        # the same over the pieces the implementation ITSELF advertises (no prediction): a partition-parallel client
        lines.append("streamadv %s %s %d" % (hx(a), hx(b), R))
    return core.Case("backend", lines, {"engine": engine, "borders": borders, "adv": adv})


def parse_stream(out):
    """-> (list of (hdr, kv), list of terminators (hdr, err, pos), ends)"""
    t = out.split()
    # stream <entries|-> end <hdr> <err> <pos>; ... ends=<n>
    entries = []
    if len(t) > 1 and t[1] != "-" and not t[1].startswith("end"):
        for e in t[1].split(","):
            kv, hdr = e.rsplit("|", 1)
            entries.append((int(hdr), hist.parse_kv(kv)))
    terms = []
    rest = out.split(" ", 2)[2] if len(t) > 2 else ""
    for part in [p.strip() for p in rest.split(";") if p.strip().startswith("end ")]:
        x = part.split()
        terms.append((int(x[1]), x[2], x[3]))
    ends = int(out.rsplit("ends=", 1)[1]) if "ends=" in out else 0
    return entries, terms, ends


def oracle(case):
    ref = hist.Ref()
    mode = None
    acc = []
    for i, (line, out) in enumerate(zip(case.lines, case.impl)):
        t, o = line.split(), out.split()
        ref.feed(line, out)
        if t[0] == "echo":
            if t[1] == "perpart":
                mode, acc, accR = "perpart", [], int(t[2])
            elif t[1] == "endperpart":
                R = accR or ref.committed
                want = ref.range(PREFIX + b"/", PREFIX + b"0", R)
                if sorted(acc) != want:
                    return ("concatenation of the streams over the advertised partitions at revision %d is %s, "
                            "the unpartitioned read is %s (borders %s)" % (R, acc, want, [hx(b) for b in case.meta["borders"]]),
                            "perpartition-stream")
                mode = None
            continue
        if t[0] == "parts" and len(o) == 2:
            got = o[1].split(",")
            # advertised borders may be re-aligned by the implementation; the per-partition streams of this
            # script use the predicted ones — if they differ the per-partition oracle is skipped
            if got != [hx(x) for x in case.meta["adv"]]:
                case.meta["adv_mismatch"] = True
        if t[0] == "streamadv" and len(o) == 4 and o[1].startswith("pieces="):
            R = int(t[3]) or ref.committed
            want = ref.range(PREFIX + b"/", PREFIX + b"0", R)
            got = [] if o[3] == "-" else [hist.parse_kv(x) for x in o[3].split(",")]
            if ref.floor <= R <= ref.committed:
                if o[2] != "errs=0" or sorted(got) != want:   # every qualifying key exactly once (a multiset comparison)
                    return ("line %d: streaming the ADVERTISED partitions one by one, in the advertised order, at revision %d gives "
                            "%s (%s) - the unpartitioned read gives %s" % (i + 1, R, got, o[2], want), "advertised-partitions-stream")
        if t[0] == "stream" and o and o[0] == "stream" and "err" not in o[1:2]:
            R = int(t[3]) or ref.committed
            batches, terms, ends = parse_stream(out)
            if ends != 1 or len(terms) != 1 or terms[0][2] != "last":
                return ("line %d: stream has %d terminators / not last: %s" % (i + 1, ends, out[:200]), "stream-terminator")
            for hdr, _kv in batches:
                if hdr != R:
                    return ("line %d: streamed batch names revision %d, read revision is %d" % (i + 1, hdr, R), "stream-batch-revision")
            kvs = [kv for _, kv in batches]
            if mode == "perpart":
                acc += kvs
            elif terms[0][1] == "-":
                want = ref.range(PREFIX + b"/", PREFIX + b"0", R)
                if sorted(kvs) != want and R <= ref.committed:
                    return ("line %d: whole-range stream at %d gives %s, snapshot is %s" % (i + 1, R, kvs, want), "stream-whole")
    return hist.check_reads(case)


def fault_case(seed, i, engine):
    """one partition's iterator fails persistently (its worker exhausts its retries) while the other partitions
    are healthy: List and Count must answer with an error, the stream must end with exactly one terminator that
    carries the error — never a partial answer presented as complete"""
    r = rng_for(seed, "c13fault/%d" % i)
    keys = sorted(r.sample([k for k in KEY_POOL if b"events" not in k], 5))
    sh = hist.Shadow()
    body = []
    for k in keys:
        body += hist.gen_writes(r, sh, 2, [k], p_ok=1.0)
    a, b = PREFIX + b"/", PREFIX + b"0"
    border = enc(keys[2], 0)
    lines = [hist.cfg_line(engine, splits=hx(border))] + body + ["rev"]
    lines += ["list %s %s 0 0" % (hx(a), hx(b))]
    for side in ("from", "notfrom"):
        lines += ["iterfault 1 %s=%s" % (side, hx(enc(a, 0))),
                  "list %s %s 0 0" % (hx(a), hx(b)), "count %s %s" % (hx(a), hx(b)),
                  "echo faulted-stream", "stream %s %s %d" % (hx(enc(a, 0)), hx(enc(b, 0)), sh.dealt),
                  "iterfault 0"]
    lines += ["list %s %s 0 0" % (hx(a), hx(b)), "count %s %s" % (hx(a), hx(b))]
    return core.Case("backend", lines, {"engine": engine, "borders": [border], "adv": [], "fault": True},
                     compare=lambda op: op != "stream")


def slow_partner_case(seed, i, engine):
    """one partition's worker fails for good (after its three attempts, ~5 s) WHILE the worker of the other partition is still
    scanning (a slow region: every Next takes 900 ms): the stream's terminator - exactly one, carrying the error - comes after
    the last batch of every worker; nothing is sent on the stream afterwards (a worker that outlives the stream would send on
    a closed channel: the process dies) and the node keeps serving."""
    r = rng_for(seed, "c13slow/%d" % i)
    keys = sorted(r.sample([k for k in KEY_POOL if b"events" not in k], 5))
    sh = hist.Shadow()
    body = []
    for k in keys:
        body += hist.gen_writes(r, sh, 1, [k], p_ok=1.0)
    a, b = PREFIX + b"/", PREFIX + b"0"
    border = enc(keys[2], 0)
    lines = [hist.cfg_line(engine, splits=hx(border))] + body + ["rev",
             "iterfault 1 from=%s" % hx(enc(a, 0)), "iterslow 900 from=%s" % hx(border),
             "echo faulted-stream", "stream %s %s %d" % (hx(enc(a, 0)), hx(enc(b, 0)), sh.dealt),
             "iterslow 0 from=00", "iterfault 0", "sleep 2500", "list %s %s 0 0" % (hx(a), hx(b)), "count %s %s" % (hx(a), hx(b))]
    return core.Case("backend", lines, {"engine": engine, "borders": [border], "adv": [], "fault": True, "slowpartner": True},
                     compare=lambda op: op != "stream")


def fault_oracle(case):
    for i, out in enumerate(case.impl or []):
        if out.startswith("CRASHED") or out == "TIMEOUT":
            return ("the node process died / hung at line %d (`%s`) of a script in which one partition of a streamed range cannot be "
                    "read: %s" % (i + 1, case.lines[i] if i < len(case.lines) else "?", out[:300]), "process-died-after-faulted-stream")
    faulted = False
    for i, (line, out) in enumerate(zip(case.lines, case.impl)):
        t, o = line.split(), out.split()
        if t[0] == "iterfault":
            faulted = t[1] != "0"
            continue
        if not faulted:
            continue
        if t[0] in ("list", "count") and len(o) > 1 and o[1] != "err":
            return ("line %d: `%s` answered %s although one partition of the scan could not be read: a partial result "
                    "was presented as complete" % (i + 1, line, out[:200]), "partial-answer-no-error")
        if t[0] == "stream":
            batches, terms, ends = parse_stream(out)
            if ends != 1 or len(terms) != 1:
                return ("line %d: faulted stream has %d terminators: %s" % (i + 1, ends, out[:200]), "stream-terminator")
            if terms[0][1] == "-":
                return ("line %d: the stream over a partition that could not be read ended with a clean terminator after %d kvs: %s"
                        % (i + 1, len(batches), out[:200]), "stream-clean-terminator-after-fault")
    return None


def big_case(seed, i, engine):
    """a partition with more than rangeStreamBatch (300) live keys: full batches are flushed from append()"""
    r = rng_for(seed, "c13big/%d" % i)
    # (keys, border index): one worker must see >= 300 live keys for a full batch to be flushed from append()
    n, bi = [(650, 20), (301, 300), (650, 325), (299, 150)][i % 4]
    pfx = PREFIX + b"/big/"
    border = enc(pfx + (b"%05d" % bi), r.choice([0, 0, hist.INIT + 5]))
    lines = [hist.cfg_line(engine, splits=hx(border)), "bulk %d %s %s" % (n, hx(pfx), hx(b"v")), "rev"]
    a, b = PREFIX + b"/", PREFIX + b"0"
    for R in (0, hist.INIT + n, hist.INIT + n // 2):
        lines.append("stream %s %s %d" % (hx(enc(a, 0)), hx(enc(b, 0)), R))
    lines.append("count %s %s" % (hx(a), hx(b)))
    return core.Case("backend", lines, {"engine": engine, "borders": [border], "adv": []})


def many_regions_case(seed, i):
    """A key space spread over more regions than any plausible batch size of the engine's region listing (1100..1300 real
    mock-cluster regions under ONE listed range), a handful of keys in regions far apart: unary list, count, the whole-range
    stream and the streams over the advertised partitions must all see every key. Implementation only (the executable model
    is not run over a thousand partitions); judged by the python reference (`oracle`)."""
    r = rng_for(seed, "c13many/%d" % i)
    nreg = r.randint(1100, 1300)
    pfx = PREFIX + b"/mr/"
    borders = [enc(pfx + (b"%04d" % j), 0) for j in range(nreg)]
    spots = sorted(set([3, r.randint(4, 1000), 1030 + r.randint(0, 40), nreg - r.randint(2, 20), nreg - 1]))
    lines = [hist.cfg_line("tikv", regions=",".join(hx(b) for b in borders))]
    for j in spots:
        lines.append("create %s %s" % (hx(pfx + (b"%04dx" % j)), hx(b"v%d" % j)))
    lines += ["settle", "rev"]
    a, b = PREFIX + b"/", PREFIX + b"0"
    lines += ["list %s %s 0 0" % (hx(a), hx(b)), "count %s %s" % (hx(a), hx(b)),
              "stream %s %s 0" % (hx(enc(a, 0)), hx(enc(b, 0))), "streamadv %s %s 0" % (hx(a), hx(b)),
              "list %s %s 0 2" % (hx(a), hx(b))]
    return core.ImplOnlyCase("backend", lines, {"engine": "tikv", "borders": [], "adv": [], "many": nreg}, timeout=180)


def many_batches_case(seed, i):
    """more batches than the stream's buffer holds (1000): one injected partition per key, each flushing its own partial batch, and a
    consumer that starts reading late - the buffer is full when the scan ends. The terminator is still there, exactly one, last."""
    r = rng_for(seed, "c13mb/%d" % i)
    # (exactly as many batches as the buffer holds: the scan ends without ever blocking, with the buffer FULL, and the terminator
    # has to wait for the consumer; and more than that)
    n = [1000, 1000, r.randint(1001, 1200), 999][i % 4]
    pfx = PREFIX + b"/mb/"
    borders = [enc(pfx + (b"%05d" % j), 0) for j in range(1, n)]
    lines = [hist.cfg_line("memkv", splits=",".join(hx(b) for b in borders)), "bulk %d %s %s" % (n, hx(pfx), hx(b"v")), "settle", "rev"]
    a, b = PREFIX + b"/", PREFIX + b"0"
    lines += ["stream %s %s 0 slow=700" % (hx(enc(a, 0)), hx(enc(b, 0))), "count %s %s" % (hx(a), hx(b))]
    return core.ImplOnlyCase("backend", lines, {"engine": "memkv", "borders": [], "adv": [], "many_batches": n}, timeout=180)


def reopen_case(seed, i, engine):
    """the node is restarted over the same data in the middle of a history (Badger: the store is closed - its memtable becomes an
    sst table - and opened again): however the engine cuts a scanned interval afterwards, unlimited and limited lists, counts,
    the whole-range stream and the streams over the advertised partitions see every key once, in its newest version."""
    r = rng_for(seed, "c13reopen/%d" % i)
    keys = sorted(r.sample([k for k in KEY_POOL if b"events" not in k], r.randint(3, 6)))
    sh = hist.Shadow()
    lines = [hist.cfg_line(engine)]
    lines += hist.gen_writes(r, sh, r.randint(6, 14), keys, p_ok=0.9)
    lines += ["rev", "reopen"]
    # the largest key (the border of the table the close has written) and others are written again
    lines += hist.gen_writes(r, sh, r.randint(2, 4), [keys[-1]], p_ok=1.0)
    lines += hist.gen_writes(r, sh, r.randint(2, 6), keys, p_ok=0.9)
    lines.append("rev")
    a, b = PREFIX + b"/", PREFIX + b"0"
    for R in (0, sh.dealt):
        lines += ["list %s %s %d 0" % (hx(a), hx(b), R), "list %s %s %d 2" % (hx(a), hx(b), R),
                  "stream %s %s %d" % (hx(enc(a, 0)), hx(enc(b, 0)), R), "streamadv %s %s %d" % (hx(a), hx(b), R)]
    lines += ["count %s %s" % (hx(a), hx(b)), "reopen"]
    lines += hist.gen_writes(r, sh, r.randint(1, 3), [keys[-1], keys[0]], p_ok=1.0)
    lines += ["rev", "compact %d" % sh.dealt, "list %s %s 0 0" % (hx(a), hx(b)), "count %s %s" % (hx(a), hx(b)),
              "streamadv %s %s 0" % (hx(a), hx(b))]
    return core.Case("backend", lines, {"engine": engine, "borders": [], "adv": [], "reopen": True})


def check(rep, tier, seed):
    n = 40 if tier == "quick" else 900
    cases = []
    for i in range(n):
        m = i % 4
        if m == 0:
            cases.append(gen_case(seed, i, "tikv", True))        # real mock-cluster region splits
        else:
            cases.append(gen_case(seed, i, ["memkv", "badger", "tikv"][m - 1], False))  # injected, shuffled
    cases += [big_case(seed, i, ["memkv", "tikv", "badger"][i % 3]) for i in range(4 if tier == "quick" else 12)]
    faults = [fault_case(seed, i, ["memkv", "tikv", "badger"][i % 3]) for i in range(3 if tier == "quick" else 18)]
    cases += faults
    cases += [slow_partner_case(seed, i, ["memkv", "tikv", "badger"][i % 3]) for i in range(1 if tier == "quick" else 6)]
    cases += [many_regions_case(seed, i) for i in range(1 if tier == "quick" else 4)]
    cases += [reopen_case(seed, i, ["badger", "metrics-badger", "memkv", "tikv"][i % 4]) for i in range(6 if tier == "quick" else 120)]
    cases += [many_batches_case(seed, i) for i in range(1 if tier == "quick" else 4)]
    core.run_cases(cases)
    def pick(c):
        hit = fault_oracle(c) if c.meta.get("fault") else oracle(c)
        return hit if hit and not (hit[1] == "perpartition-stream" and c.meta.get("adv_mismatch")) else None
    if core.judge(rep, "C13", cases, pick):
        return
    rep.assumptions += ["partition borders are stored keys or well-formed internal keys (any raw key over the alphabet, any revision)",
                        "injected partitions are handed to the scanner in reversed order; real splits come from the tikv mock cluster"]
