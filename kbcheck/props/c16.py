"""C16 — the etcd-facing API answers Kubernetes' requests as etcd would.

Theorems: KB.Props.C16 over KB.EtcdShim (model of kv.go / backendshim.go / watch event shaping) and
KB.EtcdRef (reference etcd Txn / Range semantics).  Correspondence: suite `etcd` (the real RPCServer over
a real backend, requests passed through protobuf marshal/unmarshal) against `kbmodel etcd`.

Oracle (this file, independent of the Lean model): a small Python etcd (MVCC dict + write log) replays the
writes ACKNOWLEDGED in the implementation transcript and, for every request, evaluates what etcd
prescribes on that state:
  * transactions of the supported shapes (create-if-absent, guarded update, guarded / unguarded delete,
    with compare key = op key, no range_end, plain failure Get): success flag, the key-values of the
    range responses of the executed branch, the write revision (fresh, and visible in later reads);
  * every other structurally valid transaction: must be answered with an error, and the following
    full-range read must show the unchanged state — in particular a transaction guarded by the compare of
    Kubernetes' compaction probe, Version(compact_rev_key) == n, that is not EXACTLY the probe (one plain put and one
    plain Get, both on compact_rev_key): answered without an error it is `txn-near-compact-probe-swallowed` (before
    /repo 2870609 it got the probe's canned answer: neither rejected nor executed); the probe itself gets the canned
    answer (deliberate emulation, correspondence only) and must not be refused (`txn-compact-probe-refused`);
    a supported DELETE shape whose delete op asks for prev_kv is such an "other shape" too (/repo c09cadc: its answer would
    have to be a delete response carrying prev_kvs; before, it was executed as the plain delete and answered with a range
    response): answered without an error it is `txn-delete-prev-kv-executed` (`delete_prev_kv_misses`, witness scripts
    `delete_with_prev_kv_rejected`, `old_delete_prev_kv_executed`, `delete_prev_kv_deleted_key`);
  * point and range reads: kvs in key order, more, count, header revision — on bounds (incl. empty,
    inverted, from-key, and bounds of the form key+\x00: the continue key of a paginated list, the end of a
    single-key range — judged on RAW keys), limits, count_only (also at an explicit revision: the count of
    THAT revision), explicit revisions <= the committed one — INCLUDING revision 1888, the partition-listing magic
    of RPCServer.Range, whenever the request carries a limit or count_only (a page of a paginated list whose first
    page had header revision 1888, a count at 1888: `range-at-magic-revision-answered-with-borders`, /repo e617587;
    `magic_revision_case`, also C03's "all read revisions ... all limits" through the etcd endpoint); the UNLIMITED
    plain range at revision exactly 1888 is still the in-band partition request: recorded as an observation
    (`range-unlimited-at-magic-revision-is-partition-listing`), not condemned; a read below the compaction floor
    (`bcompact`) must be refused, not answered;
  * a write without a value (create / update shape with an empty put value): refused with an error on every
    engine alike, nothing written, no revision consumed;
  * a watch-create in range-stream shape (negative start revision) without key or range_end: cancelled at
    once, and the process survives (multi-region tikv);
  * prefix watches: the PUT / DELETE events (key, value, mod revision, previous key-value on deletes)
    of the acknowledged writes from the start revision on, in revision order;
  * scripted backend answers (`inject …` lines: the next backend write call of the real RPCServer is
    answered with a scripted proto response / error — every answer pkg/backend/txn.go can produce, incl.
    the ones only a race produces): what etcd prescribes on the state the backend reports (`judge_injected`):
    success flag = "the success branch took effect", the key-value the backend reports in the range
    response, the header the backend gave (not below that key-value's revision), errors passed through;
    the request the backend was called with (`injected` line).
"""
from .. import core, hist
from ..gen import KEY_POOL, PREFIX, VALUES, hx, rng_for

INIT = hist.INIT
ENGINES = ["memkv", "badger", "tikv"]
# range bounds of the form key+\x00: order facts (KB.Props.C10) lifted to the range read
EXTRA_PROP_MODULES = [("KB.Props.C03Bounds", "KB.C03Bounds"),
                      # the watch clause: one `canceled` per watch (the etcd watch server forgets a watch under the lock it found it under)
                      ("KB.Props.OrderC05", "KB.OrderC05")]
MAGIC = 1888
COMPACT_KEY = b"compact_rev_key"

# oracle hits that do not change the store: evaluation of the script continues after them
FLAG_ONLY = {"range-count-limited", "range-count-bounds-unchecked", "txn-delete-lost-to-delete-stale-kv",
             "range-unlimited-at-magic-revision-is-partition-listing"}

# deviations seen only under a real race that are RECORDED (evidence: coverage.observations) but not condemned by
# this check unless known_findings.json lists their signature for C16 (then they are printed as KNOWN-FINDING):
#   txn-delete-lost-to-delete-stale-kv — a delete (guarded or unguarded) that loses its compare-and-swap to a
#   concurrent DELETE of the same key is answered Succeeded=false with the key-value it had read before
#   (backend.Delete: `if getErr != nil { resp.Kv = old }`), although the key no longer exists; etcd's failure
#   branch would answer the empty read (guarded) / Succeeded=true with the empty read (unguarded).
#   range-unlimited-at-magic-revision-is-partition-listing — an UNLIMITED, non-count range (range_end given) at
#   revision exactly 1888 (GetPartitionMagic) is answered with the engine's partition borders (internal keys, empty
#   values, mod revision 0) although 1888 is a committed revision of the store: the kubebrain-client partition
#   protocol's own in-band signalling (theorem unlimited_plain_range_at_magic_is_partition_listing). Everything
#   else at revision 1888 (limit > 0, count_only) must be an ordinary read since /repo e617587 and IS condemned
#   otherwise (`range-at-magic-revision-answered-with-borders`).
OBSERVED = {"txn-delete-lost-to-delete-stale-kv", "range-unlimited-at-magic-revision-is-partition-listing"}
MAGIC_SIG = "range-at-magic-revision-answered-with-borders"
MAGIC_OBS = "range-unlimited-at-magic-revision-is-partition-listing"


def unhx(s):
    return b"" if s in ("-", "") else bytes.fromhex(s)


# ------------------------------------------------------------------ requests as data

def cmp_(key, arg=0, target="mod", result="eq", end=b""):
    return {"target": target, "key": key, "result": result, "arg": arg, "end": end}


def put(key, val, lease=0, flags=""):
    return {"t": "put", "key": key, "val": val, "lease": lease, "flags": flags}


def rng(key, end=b"", limit=0, rev=0, flags=""):
    return {"t": "range", "key": key, "end": end, "limit": limit, "rev": rev, "flags": flags}


def dele(key, end=b"", flags=""):
    return {"t": "del", "key": key, "end": end, "flags": flags}


NEST = {"t": "nest"}
NONE = {"t": "none"}


def txn(compares, success, failure):
    return {"cmp": compares, "then": success, "else": failure}


def t_create(k, v, lease=0):
    return txn([cmp_(k, 0)], [put(k, v, lease)], [])


def t_update(k, v, exp):
    return txn([cmp_(k, exp)], [put(k, v)], [rng(k)])


def t_gdelete(k, exp):
    return txn([cmp_(k, exp)], [dele(k)], [rng(k)])


def t_udelete(k):
    return txn([], [rng(k), dele(k)], [])


def render_cmp(c):
    arg = hx(c["arg"]) if c["target"] == "val" else str(c["arg"])
    s = "%s:%s:%s:%s" % (c["target"], hx(c["key"]), c["result"], arg)
    if c["end"]:
        s += ":" + hx(c["end"])
    return s


def render_op(o):
    t = o["t"]
    if t == "put":
        s = "put:%s:%s" % (hx(o["key"]), hx(o["val"]))
        if o["lease"] or o["flags"]:
            s += ":%d:%s" % (o["lease"], o["flags"] or "-")
        return s
    if t == "range":
        s = "range:%s" % hx(o["key"])
        if o["end"] or o["limit"] or o["rev"] or o["flags"]:
            s += ":%s:%d:%d:%s" % (hx(o["end"]), o["limit"], o["rev"], o["flags"] or "-")
        return s
    if t == "del":
        s = "del:%s" % hx(o["key"])
        if o["end"] or o["flags"]:
            s += ":%s:%s" % (hx(o["end"]), o["flags"] or "-")
        return s
    return t


def render_txn(t):
    def lst(xs, f):
        return ";".join(f(x) for x in xs) if xs else "-"
    return "txn cmp=%s then=%s else=%s" % (lst(t["cmp"], render_cmp), lst(t["then"], render_op), lst(t["else"], render_op))


def render_range(key, end=b"", limit=0, rev=0, flags="", extra=""):
    s = "range %s %s" % (hx(key), hx(end))
    if limit:
        s += " limit=%d" % limit
    if rev:
        s += " rev=%d" % rev
    if flags:
        s += " flags=%s" % flags
    return s + extra


# ------------------------------------------------------------------ parsing the script back (the oracle
# works from the script text + implementation transcript only)

def parse_cmp(x):
    f = x.split(":")
    target = f[0]
    arg = unhx(f[3]) if target == "val" else int(f[3])
    return cmp_(unhx(f[1]), arg, target, f[2], unhx(f[4]) if len(f) > 4 else b"")


def parse_op(x):
    f = x.split(":")
    g = lambda i, d: f[i] if len(f) > i and f[i] != "" else d
    if f[0] == "put":
        fl = g(4, "-")
        return put(unhx(g(1, "-")), unhx(g(2, "-")), int(g(3, "0")), "" if fl == "-" else fl)
    if f[0] == "range":
        fl = g(5, "-")
        return rng(unhx(g(1, "-")), unhx(g(2, "-")), int(g(3, "0")), int(g(4, "0")), "" if fl == "-" else fl)
    if f[0] == "del":
        fl = g(3, "-")
        return dele(unhx(g(1, "-")), unhx(g(2, "-")), "" if fl == "-" else fl)
    return {"t": f[0]}


def parse_opts(toks):
    pos, opts = [], {}
    for t in toks:
        if "=" in t:
            k, v = t.split("=", 1)
            opts[k] = v
        else:
            pos.append(t)
    return pos, opts


def parse_txn_line(line):
    _, o = parse_opts(line.split())
    def lst(v, f):
        return [] if v in (None, "-", "") else [f(x) for x in v.split(";")]
    return txn(lst(o.get("cmp"), parse_cmp), lst(o.get("then"), parse_op), lst(o.get("else"), parse_op))


def parse_kv(s):
    if s == "-":
        return None
    kv, rev = s.rsplit("@", 1)
    k, v = kv.split(":")
    return (unhx(k), unhx(v), int(rev))


def parse_kvs(s):
    return [] if s == "-" else [parse_kv(x) for x in s.split(",")]


def parse_txn_out(out):
    """-> ("err", cls) | ("ok", ok, hdr, resps) with resps = [("put",) | ("range", kvs) | ("del",) | ("other",)]"""
    o = out.split()
    if len(o) >= 3 and o[1] == "err":
        return ("err", o[2])
    if len(o) < 4 or not o[1].startswith("ok="):
        return ("bad", out)
    ok = o[1] == "ok=1"
    hdr = int(o[2].split("=")[1])
    body = o[3][len("resp=["):-1]
    resps = []
    if body != "-":
        for r in body.split(";"):
            if r.startswith("range@"):
                resps.append(("range", parse_kvs(r.split(":", 3)[3])))
            elif r.startswith("put@"):
                resps.append(("put",))
            elif r.startswith("del@"):
                resps.append(("del",))
            else:
                resps.append(("other",))
    return ("ok", ok, hdr, resps)


def reads_of(tx, ok, resps):
    """The answers to the reads the client asked for: for every range op of the executed branch, the
    key-values of the response at the same position (None when there is no range response there)."""
    reads = []
    for i, op in enumerate(tx["then"] if ok else tx["else"]):
        if op["t"] == "range":
            reads.append(resps[i][1] if i < len(resps) and resps[i][0] == "range" else None)
    return reads


# ------------------------------------------------------------------ the reference: a small etcd

def in_interval(key, end, k):
    if not end:
        return k == key
    if end == b"\x00":
        return k >= key
    return key <= k < end


class PyEtcd:
    """MVCC state: key -> (value, mod, create, version); current revision; write log for watches and
    old-revision reads. Transactions are evaluated purely (`eval_txn`) and applied separately at the
    revision the implementation acknowledged."""

    def __init__(self, rev=INIT):
        self.rev = rev          # revision of the last applied write
        self.kv = {}
        self.log = []           # (rev, key, value | None, prev (k, v, mod) | None)

    def snapshot(self, R):
        snap = {}
        for rev, k, v, _ in self.log:
            if rev <= R:
                if v is None:
                    snap.pop(k, None)
                else:
                    snap[k] = (v, rev)
        return snap

    def compare_kv(self, c, e):
        val, mod, create, ver = e
        t = c["target"]
        if t == "val":
            a, b = val, c["arg"]
        elif t == "mod":
            a, b = mod, c["arg"]
        elif t == "create":
            a, b = create, c["arg"]
        elif t == "ver":
            a, b = ver, c["arg"]
        else:
            a, b = 0, c["arg"]
        return {"eq": a == b, "ne": a != b, "gt": a > b, "lt": a < b}[c["result"]]

    def eval_compare(self, kv, c):
        es = [kv[k] for k in sorted(kv) if in_interval(c["key"], c["end"], k)]
        if not es:
            return False if c["target"] == "val" else self.compare_kv(c, (b"", 0, 0, 0))
        return all(self.compare_kv(c, e) for e in es)

    def eval_txn(self, t):
        """-> None when outside this single-level reference, else (ok, reads, writes) with
        writes = [("put", k, v) | ("del", k)] in execution order."""
        for o in t["then"] + t["else"]:
            if o["t"] in ("nest", "none"):
                return None
            if not o["key"]:
                return None
        if any(not c["key"] for c in t["cmp"]):
            return None
        kv = dict(self.kv)
        ok = all(self.eval_compare(kv, c) for c in t["cmp"])
        reads, writes = [], []
        w = self.rev + 1
        for o in (t["then"] if ok else t["else"]):
            if o["t"] == "put":
                old = kv.get(o["key"])
                if old is None and ("v" in o["flags"] or "l" in o["flags"]):
                    return None
                val = old[0] if (old and "v" in o["flags"]) else o["val"]
                kv[o["key"]] = (val, w, old[2] if old else w, (old[3] + 1) if old else 1)
                writes.append(("put", o["key"], val))
            elif o["t"] == "range":
                if o["rev"] != 0:
                    return None
                ks = [k for k in sorted(kv) if in_interval(o["key"], o["end"], k)]
                if o["limit"] > 0:
                    ks = ks[:o["limit"]]
                if "c" in o["flags"]:
                    ks = []
                reads.append([(k, b"" if "k" in o["flags"] else kv[k][0], kv[k][1]) for k in ks])
            elif o["t"] == "del":
                for k in [k for k in sorted(kv) if in_interval(o["key"], o["end"], k)]:
                    del kv[k]
                    writes.append(("del", k))
        return ok, reads, writes

    def apply(self, writes, rev):
        for w in writes:
            old = self.kv.get(w[1])
            prev = (w[1], old[0], old[1]) if old else None
            if w[0] == "put":
                self.kv[w[1]] = (w[2], rev, old[2] if old else rev, (old[3] + 1) if old else 1)
                self.log.append((rev, w[1], w[2], prev))
            else:
                self.kv.pop(w[1], None)
                self.log.append((rev, w[1], None, prev))
        if writes:
            # (under a real race a transaction dealt an earlier revision may commit after one dealt a later one)
            self.rev = max(self.rev, rev)
            self.log.sort(key=lambda e: e[0])

    def range(self, key, end, R, limit, count_only):
        snap = self.snapshot(R)
        full = [(k, snap[k][0], snap[k][1]) for k in sorted(snap) if in_interval(key, end, k)]
        cut = full[:limit] if limit > 0 else full
        more = (not count_only) and limit > 0 and len(full) > limit
        return ([] if count_only else cut), len(full), more

    def events(self, pfx, start, upto):
        evs = []
        for rev, k, v, prev in self.log:
            if start <= rev <= upto and k.startswith(pfx):
                if v is None:
                    evs.append(("D", (k, b"", rev), prev))
                else:
                    evs.append(("P", (k, v, rev), None))
        return evs


# ------------------------------------------------------------------ well-shapedness (independent restatement
# of `KB.C16.Canonical`, plus the zero-guard delete which the property's quantifier names)

def plain_get(o, k):
    return o["t"] == "range" and o["key"] == k and not o["end"] and o["rev"] == 0 and not (set(o["flags"]) & set("ck"))


def mod_eq(c, neg=False):
    return c["target"] == "mod" and c["result"] == "eq" and not c["end"] and (neg or c["arg"] >= 0)


def shape_of(t, neg=False):
    """neg: also a negative expectation (the recognisers of kv.go accept it, the real backend then refuses the
    uint64 it is cast to as a revision drift; only a scripted backend answers such a call)"""
    c, s, f = t["cmp"], t["then"], t["else"]
    if len(c) == 1 and mod_eq(c[0], neg):
        k = c[0]["key"]
        if c[0]["arg"] == 0 and not f and len(s) == 1 and s[0]["t"] == "put" and s[0]["key"] == k and not s[0]["flags"]:
            return ("create", k)
        if len(f) == 1 and plain_get(f[0], k) and len(s) == 1:
            if s[0]["t"] == "put" and s[0]["key"] == k and not s[0]["flags"]:
                return ("update", k)
            if s[0]["t"] == "del" and s[0]["key"] == k and not s[0]["end"] and "p" not in s[0]["flags"]:
                return ("gdelete0" if c[0]["arg"] <= 0 else "gdelete", k)
    if not c and not f and len(s) == 2 and s[1]["t"] == "del" and not s[1]["end"] and "p" not in s[1]["flags"] and \
            plain_get(s[0], s[1]["key"]):
        return ("udelete", s[1]["key"])
    return None


def delete_prev_kv_shape(t):
    """A supported delete shape (guarded or unguarded; kv.go pointDelete) EXCEPT that its delete op asks for prev_kv: the shape
    the transaction would have with the flag dropped, else None. Such a transaction is none of the supported shapes (/repo
    c09cadc; `KB.C16.delete_with_prev_kv_rejected`): etcd answers its delete op with a DeleteRangeResponse carrying prev_kvs,
    the supported delete shapes are answered with a range response."""
    dels = [o for o in t["then"] + t["else"] if o["t"] == "del"]
    if len(dels) != 1 or "p" not in dels[0]["flags"]:
        return None
    strip = lambda o: dict(o, flags=o["flags"].replace("p", "")) if o["t"] == "del" else o
    shp = shape_of(txn(t["cmp"], [strip(o) for o in t["then"]], [strip(o) for o in t["else"]]), True)
    return shp if shp is not None and shp[0] in ("gdelete", "udelete") else None


def has_probe_compare(t):
    """The transaction is guarded by the compare of Kubernetes' compaction probe, Version(compact_rev_key) == n — all that
    kv.go's isCompact looked at (besides the KIND of the two ops) before /repo 2870609."""
    c = t["cmp"]
    return len(c) == 1 and c[0]["target"] == "ver" and c[0]["key"] == COMPACT_KEY


def is_compact_probe(t):
    """EXACTLY Kubernetes' compaction probe (k8s.io/apiserver/pkg/storage/etcd3/compact.go), independent restatement of
    `KB.Etcd.CompactProbe`: If(Version(compact_rev_key) = n) Then(Put compact_rev_key v) Else(Get compact_rev_key) — one
    compare without range_end, ONE put on that key without flags, ONE plain Get of that key. kubebrain answers it with a
    canned "not your turn" without executing anything (kv.go: compact()); NOTHING ELSE may be answered that way."""
    c, s, f = t["cmp"], t["then"], t["else"]
    return has_probe_compare(t) and c[0]["result"] == "eq" and not c[0]["end"] and \
        len(s) == 1 and s[0]["t"] == "put" and s[0]["key"] == COMPACT_KEY and not s[0]["flags"] and \
        len(f) == 1 and plain_get(f[0], COMPACT_KEY)


def is_canned_probe_answer(res):
    """RPCServer.compact(): Succeeded=false, header 0, one range response holding one EMPTY key-value"""
    return res[0] == "ok" and not res[1] and res[2] == 0 and res[3] == [("range", [(b"", b"", 0)])]


def near_miss_category(t):
    """Which kind of sloppiness lets a non-canonical transaction through (used only to name the hit)."""
    ops = t["then"] + t["else"]
    keys = set(c["key"] for c in t["cmp"]) | set(o["key"] for o in ops if "key" in o)
    if len(keys) > 1:
        return "txn-key-mismatch-executed"
    if any(o["t"] == "del" and o["end"] for o in ops):
        return "txn-ranged-delete-executed-as-point"
    if any(o["t"] == "put" and o["flags"] for o in ops):
        return "txn-update-put-flags-ignored"
    if delete_prev_kv_shape(t) is not None:
        return "txn-delete-prev-kv-executed"
    return "txn-op-options-ignored"



# ------------------------------------------------------------------ scripted backend answers (`inject`)
# an answer of backend.Create / Update / Delete as data: ("resp", succeeded, hdr, kv | None) | ("err", class)

U64 = 1 << 64


def render_inject(a):
    if a[0] == "err":
        return "inject err=%s" % a[1]
    _, succ, hdr, kv = a
    return "inject succeeded=%d hdr=%d kv=%s" % (1 if succ else 0, hdr, "-" if kv is None else "%s:%s@%d" % (hx(kv[0]), hx(kv[1]), kv[2]))


def parse_inject_line(line):
    pos, o = parse_opts(line.split())
    if len(pos) > 1:
        return None                                   # `inject clear`
    if "err" in o:
        return ("err", o["err"])
    return ("resp", o.get("succeeded") == "1", int(o.get("hdr", "0")), parse_kv(o.get("kv", "-")))


def expected_call(tx, shp):
    """The backend call backendshim.go makes for a transaction of a supported shape (independent restatement)."""
    k = shp[1]
    if shp[0] == "create":
        p = tx["then"][0]
        return "create %s %s lease=%d" % (hx(k), hx(p["val"]), p["lease"])
    if shp[0] == "update":
        p = tx["then"][0]
        return "update %s %s rev=%d lease=%d" % (hx(k), hx(p["val"]), tx["cmp"][0]["arg"] % U64, p["lease"])
    if shp[0] == "gdelete":
        return "delete %s rev=%d" % (hx(k), tx["cmp"][0]["arg"] % U64)
    return "delete %s rev=0" % hx(k)


def judge_injected(tx, shp, a, res):
    """What etcd semantics prescribe for the answer to a supported transaction, GIVEN what the backend
    reports about its own execution (`a`): if it succeeded, the write of the success branch was committed
    at `hdr`; if not, nothing was written and the key currently holds `kv` (None: absent) — the state of
    the linearisation in which whoever changed the key came first.
      * guarded shapes (create, update, guarded delete): the compare held iff the backend succeeded;
        the failure branch's Get answers the current key-value;
      * the unguarded delete has no compare: etcd always takes the success branch, i.e. AFTER the
        transaction the key is absent. `Succeeded = true` is therefore right iff the backend deleted the key
        or found it missing; a delete that was not carried out although the key exists (lost its
        compare-and-swap to a concurrent writer) must not be answered `Succeeded = true` — the answer then
        is the one of the delete guarded by the revision the backend had read: failure, current key-value;
      * the Get of the unguarded delete / the prev-kv of a delete: the key-value the backend reports;
      * header: the revision the backend gave, never below the revision of a returned key-value;
      * an error of the backend is an error of the transaction.
    -> None | (description, signature)"""
    if a[0] == "err":
        if res[0] != "err":
            return ("the backend call failed (%s) but the transaction was answered %s" % (a[1], res[1:]), "txn-backend-error-swallowed")
        if res[1] != a[1]:
            return ("the backend call failed with %s, the transaction with %s" % (a[1], res[1]), "txn-backend-error-class")
        return None
    if res[0] != "ok":
        return ("a supported transaction whose backend call answered was answered with %s" % (res,), "txn-canonical-error")
    _, succ, hdr, kv = a
    _, ok, got_hdr, resps = res
    kind = shp[0]
    if kind == "udelete":
        exp_ok = succ or kv is None
    else:
        exp_ok = succ
    if ok != exp_ok:
        if kind == "udelete" and not succ and kv is not None:
            return ("the backend did NOT delete the key (it reports Succeeded=false and the current key-value %s: a concurrent writer "
                    "won the compare-and-swap) but the transaction is answered Succeeded=true, as if %s had been deleted at header %d; "
                    "in etcd a delete transaction that took its success branch leaves the key absent" % (kv, kv, hdr),
                    "txn-unguarded-delete-lost-race-flag")
        return ("etcd prescribes succeeded=%d for the backend answer %s" % (exp_ok, a), "txn-success-flag")
    if got_hdr != hdr:
        return ("header revision %d, the backend gave %d" % (got_hdr, hdr), "txn-header")
    cur = [kv] if kv is not None else []
    if kind in ("update", "gdelete") and not ok:
        exp_reads = [cur]
        reads = reads_of(tx, ok, resps)
        if reads != exp_reads:
            return ("etcd prescribes the failure-branch key-values %s" % (exp_reads,), "txn-branch-kvs")
    if kind in ("udelete", "gdelete") and (ok or kind == "udelete"):
        # the client reads Responses[0]: the Get of the unguarded delete / the deleted key-value
        if not resps or resps[0][0] != "range" or resps[0][1] != cur:
            return ("the range response must carry the key-value the backend reports: %s" % (cur,), "txn-branch-kvs")
    for r in resps:
        if r[0] == "range":
            for x in r[1]:
                if x[2] > got_hdr:
                    return ("header revision %d below the revision of the returned key-value %s" % (got_hdr, x), "txn-header-below-kv")
    return None


def judge_parked(tx, res, ref, start_kv, committed):
    """A transaction that ran as a parked client while other transactions committed (a REAL race on the real
    backend): its answer must be etcd's answer in the linearisation in which the transactions that committed
    meanwhile come first (`ref` holds them). A success is applied to `ref` at its header revision. The
    unguarded delete, which etcd can never fail, may answer Succeeded=false only as a lost race: the key was
    changed since the transaction started, nothing is deleted, the range response carries the key's current
    key-value (or, when the key is gone now, the one the delete had read: backend.Delete's fallback — observed,
    see DESIGN-C16.md). -> None | (description, signature)"""
    shp = shape_of(tx)
    if shp is None or shp[0] == "gdelete0":
        return None if res[0] == "err" else ("a transaction outside the supported shapes was executed", near_miss_category(tx))
    if res[0] != "ok":
        return ("a supported transaction was answered with %s" % (res,), "txn-canonical-error")
    _, ok, hdr, resps = res
    k = shp[1]
    cur = ref.kv.get(k)
    cur_kv = (k, cur[0], cur[1]) if cur else None
    st = start_kv.get(k)
    st_kv = (k, st[0], st[1]) if st else None
    exp = ref.eval_txn(tx)
    if exp is None:
        return None
    exp_ok, exp_reads, exp_writes = exp
    for r in resps:
        if r[0] == "range":
            for x in r[1]:
                if x[2] > hdr:
                    return ("header revision %d below the revision of the returned key-value %s" % (hdr, x), "txn-header-below-kv")
    if ok:
        if not exp_ok:
            return ("etcd prescribes succeeded=0 after the concurrent writers", "txn-success-flag")
        if reads_of(tx, ok, resps) != exp_reads:
            return ("etcd prescribes the range key-values %s" % (exp_reads,), "txn-branch-kvs")
        if exp_writes:
            last = max([e[0] for e in ref.log if e[1] == k] or [0])
            if hdr <= last or any(e[0] == hdr for e in ref.log):
                return ("answered Succeeded=true at header %d, but the key was last written at %d by a concurrent transaction that "
                        "committed first: the write this answer claims cannot have happened" % (hdr, last), "txn-write-revision")
            ref.apply(exp_writes, hdr)
        return None
    if shp[0] == "udelete":
        carried = resps[0][1] if resps and resps[0][0] == "range" else None
        if cur_kv == st_kv:
            return ("the unguarded delete failed although nobody changed the key", "txn-success-flag")
        if cur_kv is None and carried == [st_kv]:
            return ("lost to a concurrent delete: answered Succeeded=false with the key-value read before, the key is gone "
                    "(etcd: Succeeded=true, empty read)", "txn-delete-lost-to-delete-stale-kv")
        if carried != ([cur_kv] if cur_kv else []):
            return ("a lost unguarded delete must carry the key's current key-value %s" % (cur_kv,), "txn-branch-kvs")
        return None
    if exp_ok:
        return ("etcd prescribes succeeded=1", "txn-success-flag")
    if shp[0] != "create" and reads_of(tx, ok, resps) != exp_reads:
        if shp[0] == "gdelete" and cur_kv is None and st_kv is not None and reads_of(tx, ok, resps) == [[st_kv]]:
            return ("lost to a concurrent delete: the failure branch carries the key-value read before, the key is gone "
                    "(etcd: the empty read)", "txn-delete-lost-to-delete-stale-kv")
        return ("etcd prescribes the failure-branch key-values %s" % (exp_reads,), "txn-branch-kvs")
    return None

# ------------------------------------------------------------------ the oracle

class Hit(Exception):
    def __init__(self, line_no, desc, sig):
        Exception.__init__(self, desc)
        self.line_no, self.desc, self.sig = line_no, desc, sig


def oracle(case, tolerated=()):
    """Yields nothing; returns the list of hits [(line index, description, signature)] found on the
    implementation transcript. Evaluation stops at the first hit whose signature is not flag-only."""
    ref = PyEtcd(case.meta.get("init", INIT))
    committed = ref.rev
    watches = {}        # name -> dict(pfx, start, seen, refused)
    hits = []
    need_unchanged = None   # (line index of an unsupported txn) awaiting its state check
    pending = None          # scripted backend answer armed by an `inject` line
    last_call = None        # (line index, expected `injected` text) of the last intercepted call
    claim = None            # (key, header, line index): an injected delete answered Succeeded=true (consistent scripts only)
    parked = {}             # cid -> (transaction, key-values of the reference when it started): real races (start / step)
    floor = 0               # compaction floor raised by `bcompact` lines
    frozen = None           # (line index, committed revision) after a refused empty-value write: the next `rev` must show it unchanged

    def hit(i, desc, sig):
        hits.append((i, "line %d: %s -> %s: %s" % (i + 1, case.lines[i][:200], case.impl[i][:300], desc), sig))
        return sig in FLAG_ONLY

    for i, (line, out) in enumerate(zip(case.lines, case.impl)):
        t = line.split()
        if not t:
            continue
        if out.startswith("CRASHED") or out == "TIMEOUT" or " PANIC " in out:
            hits.append((i, "line %d: %s -> %s" % (i + 1, line, out[:300]), "crash"))
            break
        if t[0] == "rev":
            o = out.split()
            if len(o) == 2 and o[1].isdigit():
                if frozen is not None and int(o[1]) != frozen[1]:
                    hit(i, "the write without a value of line %d was refused, yet it consumed a revision: the committed revision went from %d to %s "
                           "(a refused request must change nothing; on the other engines the same request consumes none)" % (frozen[0] + 1, frozen[1], o[1]),
                        "txn-empty-value-consumed-revision")
                    break
                frozen = None
                committed = int(o[1])
        elif t[0] == "bcompact":
            o = out.split()
            if len(o) == 2 and o[1].isdigit():
                floor = max(floor, int(o[1]))
        elif t[0] in ("start", "step"):
            if t[0] == "start" and len(t) > 2 and t[2] == "txn":
                parked[t[1]] = (parse_txn_line(line), dict(ref.kv))
            o = out.split(None, 2)
            if t[0] == "start" and (len(o) < 3 or o[0] not in ("at", "done")):
                hit(i, "a parked transaction did not start (script or harness error)", "script-error")
                break
            if len(o) == 3 and o[0] == "done" and o[2].startswith("txn") and o[1] in parked:
                tx, start_kv = parked.pop(o[1])
                res = parse_txn_out(o[2])
                if res[0] == "err" and res[1] in ("uncertain", "unavailable"):
                    case.meta["inconclusive"] = True
                    break
                bad = judge_parked(tx, res, ref, start_kv, committed)
                if bad is not None and not hit(i, bad[0], bad[1]):
                    break
        elif t[0] == "inject":
            if out == "inject ok":
                pending = parse_inject_line(line)
                if pending is None:
                    last_call = None
        elif t[0] == "injected":
            want = "injected %s pending=%d" % (last_call[1] if last_call else "none", 1 if pending is not None else 0)
            if out != want:
                hit(i, "the backend must have been called with: %s" % want, "txn-backend-request")
                break
        elif t[0] == "txn" and pending is not None and (shape_of(parse_txn_line(line), True) or ("x",))[0] in ("create", "update", "gdelete", "udelete"):
            # scripted-backend mode: this transaction's backend call is answered with `pending`
            tx = parse_txn_line(line)
            res = parse_txn_out(out)
            shp = shape_of(tx, True)
            a, pending = pending, None
            last_call = (i, expected_call(tx, shp))
            bad = judge_injected(tx, shp, a, res)
            if bad is not None:
                hit(i, bad[0], bad[1])
                break
            if case.meta.get("consistent") and res[0] == "ok" and res[1] and shp[0] in ("gdelete", "udelete"):
                claim = (shp[1], res[2], i)
        elif t[0] == "txn":
            tx = parse_txn_line(line)
            res = parse_txn_out(out)
            shp = shape_of(tx)
            if res[0] == "err" and res[1] in ("uncertain", "unavailable"):
                # the 1 s unary deadline of RPCServer.Txn expired under load (storage answered "uncertain result"):
                # whether the write was applied is unknown, the rest of this script cannot be judged
                case.meta["inconclusive"] = True
                break
            if is_compact_probe(tx):
                # deliberate emulation (the canned "not your turn"; kubebrain compacts on its own): what it answers is checked for
                # model/implementation correspondence only — but kube-apiserver's compactor must not be REFUSED
                if res[0] == "err":
                    hit(i, "Kubernetes' compaction probe (compare, put and plain Get on compact_rev_key) was refused with an error: "
                           "kube-apiserver's compactor sends exactly this transaction and expects the canned 'not your turn'", "txn-compact-probe-refused")
                    break
                continue
            if shp is not None and shp[0] == "gdelete0" and res[0] == "err":
                continue        # a zero-guarded delete is refused as an unsupported shape (kv.go after 4c41c58)
            if shp is None:
                # any other shape: rejected with an error, never executed as something else
                if res[0] != "err" and has_probe_compare(tx):
                    # (before /repo 2870609 isCompact compared only the compare and the KIND of the two ops)
                    hit(i, "answered as the compaction probe (%s) although it is NOT the probe — the probe is If(Version(compact_rev_key)=n) "
                           "Then(ONE plain Put compact_rev_key) Else(ONE plain Get compact_rev_key): this transaction was neither rejected nor "
                           "executed (its put silently dropped, an invented key-value as the answer of its read); it must be rejected with an error"
                           % ("the canned answer" if is_canned_probe_answer(res) else "no error"), "txn-near-compact-probe-swallowed")
                    break
                if res[0] != "err" and near_miss_category(tx) == "txn-delete-prev-kv-executed":
                    # (before /repo c09cadc pointDelete looked only at range_end)
                    dk = delete_prev_kv_shape(tx)[1]
                    old = ref.kv.get(dk)
                    hit(i, "a %s delete whose delete op asks for prev_kv was executed as the plain delete and answered with %s — no delete "
                           "response, no prev_kvs: etcd answers the delete op with a DeleteRangeResponse whose prev_kvs = %s (that is where a "
                           "client that sets prev_kv reads the deleted key-value); it is none of the supported shapes and must be rejected with "
                           "an error, not executed as something else"
                        % ("guarded" if tx["cmp"] else "unguarded", "/".join(x[0] for x in res[3]) + " response(s)" if res[0] == "ok" else res,
                           [(dk, old[0], old[1])] if old else []), "txn-delete-prev-kv-executed")
                    break
                if res[0] != "err":
                    hit(i, "a transaction outside the supported shapes was executed instead of being rejected", near_miss_category(tx))
                    break
                continue
            if shp[0] in ("create", "update") and not tx["then"][0]["val"]:
                # a write WITHOUT A VALUE: refused by backend.Create / Update before a revision is dealt, on every engine
                # alike (TiKV cannot store it; on the other engines the key would read as absent in point reads while range
                # reads list it). The reference is not advanced: every later read must show the store unchanged.
                if res[0] != "err":
                    hit(i, "a write without a value was accepted (%s): it must be refused on every engine alike — the key then reads as absent "
                           "in point reads while range reads list it (TiKV refuses the same request)" % (out[:120],), "txn-empty-value-accepted")
                    break
                frozen = (i, max(ref.rev, committed))
                continue
            exp = ref.eval_txn(tx)
            if res[0] == "err" and res[1] == "drift" and tx["cmp"] and tx["cmp"][0]["arg"] >= max(ref.rev, committed) + 1:
                continue        # an expectation at or above the next revision: refused with a drift error (shim_sound: "error or etcd's answer")
            if res[0] != "ok":
                hit(i, "a supported transaction was answered with %s" % (res,), "txn-canonical-error")
                break
            _, ok, hdr, resps = res
            reads = reads_of(tx, ok, resps)
            exp_ok, exp_reads, exp_writes = exp
            if ok != exp_ok:
                if shp[0] == "udelete" and not exp_writes:
                    sig = "txn-unguarded-delete-missing-flag"
                elif shp[0] == "gdelete0":
                    sig = "txn-delete-mod0-unconditional"
                else:
                    sig = "txn-success-flag"
                if not hit(i, "etcd prescribes succeeded=%d" % exp_ok, sig):
                    break
                continue
            if reads != exp_reads:
                hit(i, "etcd prescribes the range key-values %s" % (exp_reads,), "txn-branch-kvs")
                break
            if exp_writes:
                if hdr <= max(ref.rev, committed):
                    hit(i, "write revision %d is not fresh (last %d)" % (hdr, max(ref.rev, committed)), "txn-write-revision")
                    break
                ref.apply(exp_writes, hdr)
        elif t[0] == "range":
            pos, opts = parse_opts(t)
            key, end = unhx(pos[1]), unhx(pos[2])
            limit, rev, flags = int(opts.get("limit", "0")), int(opts.get("rev", "0")), opts.get("flags", "")
            plain = not (set(flags) & set("k")) and not any(k in opts for k in ("sort", "minmod", "maxmod", "mincreate", "maxcreate"))
            R = committed if rev <= 0 else rev
            # the in-band partition request of kv.go (/repo e617587): range_end, revision 1888, NO limit, NOT count_only.
            # Every other request at revision 1888 (a page of a paginated list, a count) is an ordinary read: in the domain
            partition_request = bool(end) and rev == MAGIC and limit == 0 and "c" not in flags
            in_domain = plain and key and R <= committed and not partition_request and \
                not ("c" in flags and rev < 0) and not ("c" in flags and not end)
            o = out.split()
            compacted = in_domain and rev > 0 and R < floor
            if len(o) >= 3 and o[1] == "err":
                refusal = o[2] == "invalid" and end and (key >= end or end == b"\x00")
                if compacted and o[2] == "belowfloor":
                    continue        # etcd: ErrCompacted
                if in_domain and not refusal:
                    hit(i, "a read in the domain was answered with an error", "range-error")
                    break
                continue
            if partition_request and plain and key and R <= committed and R >= floor and not (key >= end or end == b"\x00"):
                # the remaining ambiguity: 1888 IS a committed revision of this store, the answer is the partition listing
                f = dict(x.split("=", 1) for x in o[1:])
                kvs, count, more = ref.range(key, end, R, 0, False)
                if parse_kvs(f["kvs"]) != kvs:
                    hit(i, "an unlimited plain range at revision %d (a committed revision of this store) is answered with the partition "
                           "borders %s, etcd prescribes kvs=%s: the in-band partition protocol of kubebrain-client (observation, not condemned)"
                        % (R, f["kvs"][:160], kvs), MAGIC_OBS)
                continue
            if not in_domain:
                continue
            if compacted and end:
                # (a point read below the floor is C08's subject; ranges and counts are refused there)
                sig = "range-count-compacted-revision-served" if "c" in flags else "range-compacted-revision-served"
                hit(i, "revision %d is below the compaction floor %d: etcd answers ErrCompacted and the same range without count_only is refused, "
                       "but this read was answered with data" % (R, floor), sig)
                break
            if compacted:
                continue
            f = dict(x.split("=", 1) for x in o[1:])
            got_kvs, got_count, got_more, got_hdr = parse_kvs(f["kvs"]), int(f["count"]), f["more"] == "1", int(f["hdr"])
            if claim is not None and not end and key == claim[0]:
                alive = [x for x in got_kvs if x[2] <= claim[1]]
                if alive:
                    hit(i, "line %d answered the delete of this key Succeeded=true at header %d, yet the key is still there with the "
                           "older revision %d: no etcd history has both" % (claim[2] + 1, claim[1], alive[0][2]), "txn-delete-succeeded-key-alive")
                    break
                claim = None
            kvs, count, more = ref.range(key, end, R, limit if end else 0, "c" in flags)
            if end and key >= end and end != b"\x00":
                kvs, count, more = [], 0, False
            if got_kvs != kvs or got_more != more:
                if end and rev == MAGIC and got_kvs and all(v == b"" and m == 0 for (_, v, m) in got_kvs):
                    # (before /repo e617587 kv.go tested the revision before it looked at limit / count_only)
                    hit(i, "a %s at revision %d — an ordinary committed revision of this store — was answered with the engine's partition borders "
                           "(internal keys, empty values, mod revision 0, more=0, count = number of borders) instead of being read: etcd prescribes "
                           "kvs=%s more=%d count=%d. Only the UNLIMITED, non-count range at the magic revision is the partition request; this is %s"
                        % ("count" if "c" in flags else "limited range (limit=%d)" % limit, R, kvs, more, count,
                           "a count at an explicit revision" if "c" in flags else
                           "what kube-apiserver sends for the next page of a paginated list whose first page carried header revision %d" % R),
                        MAGIC_SIG)
                    break
                hit(i, "etcd prescribes kvs=%s more=%d at revision %d" % (kvs, more, R), "range-kvs")
                break
            if got_hdr != committed:
                hit(i, "header revision %d, current revision %d" % (got_hdr, committed), "range-header")
                break
            if got_count != count:
                sig = "range-count-limited" if got_more else "range-count"
                if "c" in flags and (end == b"\x00" or key >= end):
                    sig = "range-count-bounds-unchecked"
                elif "c" in flags and rev > 0:
                    sig = "range-count-revision-ignored" if got_count == ref.range(key, end, committed, 0, True)[1] else "range-count"
                if not hit(i, "etcd prescribes count=%d (all keys of the range at revision %d)" % (count, R), sig):
                    break
        elif t[0] == "watch":
            watches[t[1]] = {"pfx": unhx(t[2]), "start": int(t[4]), "seen": [], "refused": False, "end": unhx(t[3])}
        elif t[0] == "wevents":
            w = watches.get(t[1])
            o = out.split()
            if w is None or len(o) < 5:
                continue
            if w["start"] < 0:
                # range-stream shape (watcher.List): its data is not judged here; WITHOUT key or range_end it must be
                # cancelled at once and nothing streamed (before /repo 5b8c053 it reached ListByStream unvalidated)
                if (not w["pfx"] or not w["end"]) and not (o[2] == "-" and o[3] == "canceled=1"):
                    hit(i, "a watch-create in range-stream shape (start revision %d) without %s was not refused: it must be cancelled at once, "
                           "nothing may be streamed (on a multi-region TiKV engine the unvalidated request crashes the process)"
                        % (w["start"], "key" if not w["pfx"] else "range_end"), "range-stream-unbounded-accepted")
                    break
                continue
            if o[2] != "-":
                for e in o[2].split(","):
                    typ, rest = e.split(":", 1)
                    kv, prev = rest.split("/")
                    w["seen"].append((typ, parse_kv(kv), parse_kv(prev)))
            if o[3] == "canceled=1" and o[4] != "compact=0" and not w["seen"]:
                w["refused"] = True       # refused at registration (cache does not reach back): a relist, not an event stream
            if w["refused"] or "canceled=1" == o[3]:
                continue
            exp = ref.events(w["pfx"], w["start"], committed)
            if w["seen"] != exp:
                hit(i, "events seen %s, acknowledged writes from revision %d give %s" % (w["seen"], w["start"], exp), "watch-events")
                break
    return hits


# ------------------------------------------------------------------ running (own annotation of `wevents`)

def annotate16(lines, model_out):
    res = core.annotate(lines, model_out)
    out = []
    for ln, mo in zip(res, model_out + [""] * (len(res) - len(model_out))):
        t = ln.split()
        if t and t[0] == "wevents":
            m = mo.split()
            if len(m) >= 5:
                n = 0 if m[2] == "-" else len(m[2].split(","))
                ln += " want=%d canceled=%s" % (n, m[3].split("=")[1])
        out.append(ln)
    return out


class EtcdCase(core.Case):
    def run(self, patient=False):
        self.model = core.run_model(self.suite, self.lines)
        self.impl = core.run_impl(self.suite, annotate16(self.lines, self.model), patient=patient)
        return self


def cfg_line(engine, init=INIT):
    return "cfg engine=%s prefix=%s cache=2048 init=%d" % (engine, hx(PREFIX), init)


# ------------------------------------------------------------------ generators

GOOD_VALUES = [v for v in VALUES if v != hist.TOMB]


class Shadow:
    """prediction of the store used only to aim the generator (which expectation is correct / stale)"""

    def __init__(self, init=INIT):
        self.dealt = init
        self.live = {}      # key -> mod
        self.old = {}       # key -> list of earlier mods
        self.first_event = None
        self.snaps = {init: []}   # revision -> sorted live keys at that revision

    def run(self, t):
        """predict a recognised transaction of a supported shape"""
        shp = shape_of(t)
        self.dealt += 1
        rev = self.dealt
        k = shp[1]
        cur = self.live.get(k)
        exp = t["cmp"][0]["arg"] if t["cmp"] else 0
        ok = False
        if shp[0] == "create":
            ok = cur is None
        elif shp[0] == "update":
            ok = (cur is None) if exp == 0 else (cur == exp)
        elif shp[0] == "gdelete":
            ok = cur is not None and cur == exp
        elif shp[0] == "udelete":
            ok = cur is not None
        if ok:
            if cur is not None:
                self.old.setdefault(k, []).append(cur)
            if shp[0] in ("create", "update"):
                self.live[k] = rev
            else:
                self.live.pop(k, None)
            if self.first_event is None:
                self.first_event = rev
        self.snaps[rev] = sorted(self.live)
        return ok

    def live_at(self, rev):
        """sorted live keys at revision `rev` (0 = now)"""
        if rev == 0:
            rev = self.dealt
        return self.snaps[max(x for x in self.snaps if x <= rev)]


def pick_exp(r, sh, k, allow_zero=True):
    cur = sh.live.get(k)
    olds = sh.old.get(k, [])
    x = r.random()
    if cur is not None and x < 0.55:
        return cur                                  # correct
    if x < 0.75 and allow_zero:
        return 0                                    # zero
    if olds and x < 0.9:
        return r.choice(olds)                       # stale: a revision the key once had
    if cur is not None:
        return max(1, cur - r.randint(1, 3))        # stale: below the current one
    return r.randint(max(1, INIT - 2), sh.dealt)    # some revision for a missing key


def gen_write(r, sh, keys):
    k = r.choice(keys)
    live = k in sh.live
    x = r.random()
    if live:
        kind = "create" if x < 0.1 else ("update" if x < 0.55 else ("gdelete" if x < 0.85 else "udelete"))
    else:
        kind = "create" if x < 0.5 else ("update" if x < 0.7 else ("gdelete" if x < 0.85 else "udelete"))
    v = r.choice(GOOD_VALUES)
    if kind in ("create", "update") and r.random() < 0.06:
        # a write WITHOUT A VALUE: refused before a revision is dealt (the prediction is not advanced)
        t = t_create(k, b"") if kind == "create" else t_update(k, b"", pick_exp(r, sh, k))
        return [render_txn(t), "rev"]
    if kind == "create":
        t = t_create(k, v, lease=r.choice([0, 0, 0, 30]))
    elif kind == "update":
        t = t_update(k, v, pick_exp(r, sh, k))
    elif kind == "gdelete":
        e = pick_exp(r, sh, k, allow_zero=False)
        t = t_gdelete(k, e if e > 0 else 1)
    else:
        t = t_udelete(k)
    sh.run(t)
    return [render_txn(t), "rev"]


def bound_pool(keys):
    return hist.bound_pool(keys)


def gen_read(r, sh, keys, bounds):
    x = r.random()
    rev = 0 if r.random() < 0.5 else r.randint(INIT, sh.dealt)
    if x < 0.3:
        return render_range(r.choice(keys + bounds[:3]), rev=rev)
    a, b = r.choice(bounds), r.choice(bounds)
    y = r.random()
    if y < 0.75 and a > b:
        a, b = b, a                                  # mostly proper intervals; the rest inverted / empty
    if y > 0.95:
        b = b"\x00"                                  # etcd's "from key"
    if r.random() < 0.3:
        a, b = PREFIX + b"/", PREFIX + b"0"
    if y <= 0.95:
        a, b = hist.succ_bounds(r, keys, a, b)       # one in four: a continued page / a range ending just after a key
    if x < 0.85:
        lim = r.randint(1, len(keys) + 1) if r.random() < 0.6 else 0
        if rev == MAGIC and lim == 0:
            rev = 0                                  # (the unlimited plain range at the magic revision is the partition request)
        return render_range(a, b, limit=lim, rev=rev)
    # count_only as Kubernetes issues it (current revision), and at an explicit revision (the count of THAT revision)
    return render_range(a, b, rev=r.choice([0, rev]), flags="c")


def gen_pages(r, sh, rev=0, n=None, lo=None, hi=None):
    """a client paging through [lo, hi) with page size n: range with limit n, then continue from lastKey+\x00 while the
    page says more (the start keys are computed on raw keys from the predicted snapshot), then the unpaginated range and
    its count: the concatenation of the pages must be the unpaginated list — no key twice, none missing"""
    lo, hi = lo or PREFIX + b"/", hi or PREFIX + b"0"
    n = n or r.randint(1, 3)
    lines = [render_range(st, hi, limit=n, rev=rev) for st in hist.page_starts(sh.live_at(rev), lo, hi, n)]
    # (the unlimited plain range at the magic revision is the partition request: recorded as an observation by the oracle)
    return lines + [render_range(lo, hi, rev=rev), render_range(lo, hi, rev=rev, flags="c")]


def region_opt(keys, init=INIT):
    """`regions=` for a tikv engine split into several regions at internal keys of the key pool"""
    import struct
    ks = sorted(keys)[1:3]
    return " regions=" + ",".join(hx(b"\x57\xfb\x80\x8b" + k + b"$" + struct.pack(">Q", rv)) for k, rv in zip(ks, (0, init + 3)))


def bounds_case(seed, i, engine):
    """The repairs of /repo 146f0bb, 23c8b93 (bounds with any byte at or below '$'), 5f2847c, f2a549c, 5b8c053,
    deterministically on every engine (tikv: split into
    regions): paging with every page size through prefix-related keys (a key, its extension, its sibling) at the current
    and at an old revision; the single-key range [k, k\x00) of live / deleted / missing keys; counts over such bounds;
    count_only at explicit revisions — current, old, and (after the node's own compaction) below the floor, where it must
    be refused like the range read; writes without a value, which must be refused alike and change nothing; the
    range-stream watch-create without range_end / key, which must be cancelled (and the process must live on)."""
    r = rng_for(seed, "c16/b/%d" % i)
    keys = [b"/r/a", b"/r/a/b", b"/r/a0", b"/r/a\xff", b"/r/b", b"/r/b/c", b"/r/c"]
    r.shuffle(keys)
    keys = sorted(keys[:r.randint(4, 7)])
    sh = Shadow()
    cfg = cfg_line(engine) + (region_opt(keys) if engine == "tikv" else "")
    lines = [cfg]
    for _ in range(12):
        lines += gen_write_plain(r, sh, keys)
    old = sh.dealt
    for _ in range(8):
        lines += gen_write_plain(r, sh, keys)
    lo, hi = PREFIX + b"/", PREFIX + b"0"
    S = hist.succ
    for rev in (0, old):
        for n in (1, 2, 3):
            lines += gen_pages(r, sh, rev=rev, n=n)
        for k in r.sample(keys, 3) + [b"/r/zz"]:
            lines += [render_range(k, S(k), rev=rev), render_range(k, S(k), rev=rev, flags="c"),      # exactly k (or nothing)
                      render_range(S(k), hi, rev=rev), render_range(S(k), hi, rev=rev, flags="c"),    # everything after k, not k
                      render_range(lo, S(k), rev=rev, limit=1), render_range(lo, S(k), rev=rev, flags="c")]   # up to and including k
        a, b = sorted(r.sample(keys, 2))
        lines += [render_range(S(a), S(b), rev=rev), render_range(S(a), S(b), rev=rev, flags="c")]
        # bounds with OTHER bytes at or below '$' (/repo 23c8b93): k+\x01, k+'#', k+'$', k+\x00\x00, k+\x00+'b', ...:
        # [k, k+low) is exactly k; [k+low, hi) everything after k, not k; [lo, k+low) up to and including k;
        # [k+low1, k+low2) and [k\x00, k+low) nothing; a bound STARTING with a low byte lies below every key
        for k in r.sample(keys, 2) + [b"/r/zz"]:
            lows = hist.low_bounds(k, r, 3)
            for L in lows:
                lines += [render_range(k, L, rev=rev), render_range(k, L, rev=rev, flags="c"),
                          render_range(L, hi, rev=rev, limit=r.choice([0, 1])), render_range(L, hi, rev=rev, flags="c"),
                          render_range(lo, L, rev=rev, limit=r.choice([0, 2])), render_range(lo, L, rev=rev, flags="c")]
            a, b = sorted(r.sample(lows, 2))
            lines += [render_range(a, b, rev=rev), render_range(S(k), max(lows), rev=rev, flags="c")]
            a, b = sorted([r.choice(lows), r.choice(hist.low_bounds(r.choice(keys)))])
            lines += [render_range(a, b, rev=rev), render_range(a, b, rev=rev, flags="c")]
        for H in r.sample(hist.LOW_HEADS, 3):
            lines += [render_range(H, hi, rev=rev, limit=r.choice([0, 2])), render_range(H, hi, rev=rev, flags="c"),
                      render_range(H, r.choice(keys) + r.choice(hist.LOW_TAILS), rev=rev)]
    # count_only at explicit revisions: every revision of the history once
    for rev in r.sample(range(INIT + 1, sh.dealt + 1), 6) + [sh.dealt]:
        lines.append(render_range(lo, hi, rev=rev, flags="c"))
    # writes without a value
    live = [k for k in keys if k in sh.live]
    dead = [k for k in keys if k not in sh.live] + [b"/r/zz"]
    for k in dead[:2]:
        lines += [render_txn(t_create(k, b"")), "rev", render_txn(t_update(k, b"", 0)), "rev", render_range(k)]
    for k in live[:2]:
        lines += [render_txn(t_update(k, b"", sh.live[k])), "rev", render_txn(t_create(k, b"", lease=5)), "rev", render_range(k)]
    lines += [FULL]
    # the node's own compaction raises the floor: count_only below it is refused like the range read
    F = r.randint(old, sh.dealt)
    lines += ["bcompact %d" % F]
    for rev in (F - 1, max(INIT + 1, F - 3), F, sh.dealt):
        lines += [render_range(lo, hi, rev=rev, flags="c"), render_range(lo, hi, rev=rev)]
    lines += gen_pages(r, sh, rev=0, n=2) + gen_pages(r, sh, rev=F, n=1)
    # range-stream shape without range_end / without key
    lines += ["watch s1 %s - %d" % (hx(lo), -sh.dealt), "wevents s1", "watch s2 - %s %d" % (hx(hi), -sh.dealt), "wevents s2"]
    lines += gen_write_plain(r, sh, keys) + [FULL]
    return EtcdCase("etcd", lines, {"engine": engine, "kind": "bounds"})


MAGIC_KEYS = [b"/r/a", b"/r/a/b", b"/r/a0", b"/r/a\xff", b"/r/b", b"/r/b/c", b"/r/c", b"/r/d", b"/r/e", b"/r/f/g", b"/r/h", b"/r/z"]


def magic_revision_case(seed, i, engine):
    """/repo e617587 (C16; C03 through the etcd endpoint: "all read revisions between the first and the current revision ...
    all limits"): RPCServer.Range took EVERY ranged read at explicit revision 1888 (GetPartitionMagic) for the partition
    request of a kubebrain-aware client — an ordinary revision on engines whose revisions count commits and in every store
    initialised below it. The store is initialised at 1880, so the 8th write commits revision 1888: a dozen keys; then
      * the natural form — page 1 of a paginated list at "latest" (header revision 1888), and kube-apiserver's continue
        requests (start key lastKey+\x00, the same limit, revision 1888) for page sizes 1..3;
      * paginated lists, counts (whole range, single-key ranges, low-byte bounds), a negative limit and point reads AT 1888,
        and the same at 1887 (and 1889, once it exists) for contrast;
      * more writes, so that 1888 becomes an OLD revision, and everything again.
    Oracle: the Python reference on RAW keys — revision 1888 is INSIDE its domain whenever the request carries a limit or
    count_only (signature `range-at-magic-revision-answered-with-borders`); the unlimited plain range at 1888, issued once
    while 1888 is current and once when it is old, is the in-band partition request (recorded as an observation)."""
    r = rng_for(seed, "c16/magic/%d" % i)
    keys = sorted(MAGIC_KEYS)
    init = MAGIC - 8
    sh = Shadow(init)
    lines = [cfg_line(engine, init) + (region_opt(keys, init) if engine == "tikv" and i % 2 == 1 else "")]
    for k in r.sample(keys, 5):                      # 1881..1885: five keys exist
        t = t_create(k, r.choice([b"v1", b"v2", b"v3"]))
        sh.run(t)
        lines += [render_txn(t), "rev"]
    while sh.dealt < MAGIC:                          # 1886..1888
        lines += gen_write_plain(r, sh, keys)
    lo, hi = PREFIX + b"/", PREFIX + b"0"
    S = hist.succ

    def reads_at(rev):
        live = sh.live_at(rev)
        out = []
        for n in (1, 2, 3):
            out += [render_range(st, hi, limit=n, rev=rev) for st in hist.page_starts(live, lo, hi, n)]
        out += [render_range(lo, hi, rev=rev, flags="c"), render_range(lo, hi, limit=len(live) + 1, rev=rev),
                render_range(lo, hi, limit=-1, rev=rev)]
        for k in r.sample(keys, 3):
            out += [render_range(k, rev=rev), render_range(k, S(k), limit=1, rev=rev), render_range(k, S(k), rev=rev, flags="c"),
                    render_range(S(k), hi, limit=2, rev=rev), render_range(S(k), hi, rev=rev, flags="c"),
                    render_range(lo, k + b"\x01", limit=r.randint(1, 3), rev=rev), render_range(lo, k + b"#", rev=rev, flags="c")]
        a, b = sorted(r.sample(keys, 2))
        out += [render_range(a, b, limit=r.randint(1, 3), rev=rev), render_range(a, b, rev=rev, flags="c"),
                render_range(b, a, limit=1, rev=rev)]
        # the unlimited plain range: at revision 1888 the in-band partition request (observation), anywhere else a read
        out.append(render_range(lo, hi, rev=rev))
        return out
    # the natural form: the committed revision IS 1888 — page 1 at "latest", the continue requests at revision 1888
    for n in (1, 2, 3):
        starts = hist.page_starts(sh.live_at(MAGIC), lo, hi, n)
        lines.append(render_range(starts[0], hi, limit=n))
        lines += [render_range(st, hi, limit=n, rev=MAGIC) for st in starts[1:]]
    lines += reads_at(MAGIC) + reads_at(MAGIC - 1) + [FULL]
    for _ in range(r.randint(2, 5)):                 # 1888 becomes an old revision
        lines += gen_write_plain(r, sh, keys)
    for rev in (MAGIC, MAGIC - 1, MAGIC + 1, 0):
        lines += reads_at(rev)
    lines += [FULL]
    return EtcdCase("etcd", lines, {"engine": engine, "kind": "magic", "init": init, "properties": ["C16", "C03"]})


def gen_write_plain(r, sh, keys):
    """a write of one of the four shapes with a value (mostly succeeding)"""
    k = r.choice(keys)
    v = r.choice([b"v1", b"v2", b"v3"])
    cur = sh.live.get(k)
    x = r.random()
    if cur is None:
        t = t_create(k, v) if x < 0.8 else (t_update(k, v, 0) if x < 0.9 else t_udelete(k))
    else:
        t = t_update(k, v, cur) if x < 0.55 else (t_gdelete(k, cur) if x < 0.8 else (t_udelete(k) if x < 0.9 else t_create(k, v)))
    sh.run(t)
    return [render_txn(t), "rev"]


def gen_history(seed, i, engine, n_ops):
    r = rng_for(seed, "c16/h/%d" % i)
    keys = r.sample(KEY_POOL, r.randint(3, 8))
    bounds = bound_pool(keys)
    sh = Shadow()
    # a first write before the watch is registered: the registration then goes through the event cache
    # (the empty-cache path of backend.Watch compares the start revision with the committed revision AFTER
    # subscribing, i.e. it races with the next write — that race belongs to C06, not to this suite)
    seed_key = PREFIX + b"/00seed"
    t0 = t_create(seed_key, b"s")
    sh.run(t0)
    lines = [cfg_line(engine), render_txn(t0), "rev", "watch w1 %s - %d" % (hx(PREFIX + b"/"), INIT + 2)]
    rounds = r.randint(2, 4)
    late = None
    for rnd in range(rounds):
        for _ in range(n_ops // rounds):
            lines += gen_write(r, sh, keys)
            if r.random() < 0.45:
                lines.append(gen_read(r, sh, keys, bounds))
        lines.append("wevents w1")
        if late is None and sh.first_event is not None and r.random() < 0.6:
            # a watch that starts in the past: replay from the event cache, then live events
            # (ASCII prefixes only: closing a watch whose prefix is not valid UTF-8 panics the process in
            # backend.processEvents -> prometheus CounterVec.With(label "prefix") — observed, not C16's subject)
            k = r.choice([x for x in keys if all(b < 0x80 for b in x)] or [PREFIX + b"/"])
            late = "w2"
            lines.append("watch w2 %s - %d" % (hx(k[:r.randint(3, len(k))]), r.randint(sh.first_event, sh.dealt + 1)))
    for _ in range(n_ops // 3):
        lines.append(gen_read(r, sh, keys, bounds))
    lines += gen_pages(r, sh, rev=r.choice([0, 0, r.randint(INIT + 1, sh.dealt)]))
    lines.append("wevents w1")
    if late:
        lines.append("wevents w2")
    lines.append(render_range(PREFIX + b"/", PREFIX + b"0"))
    return EtcdCase("etcd", lines, {"engine": engine, "kind": "history"})


def far_unsupported(r, keys):
    """A structurally valid transaction that is none of the supported shapes by any reading."""
    k, k2 = r.choice(keys), r.choice(keys)
    v = r.choice(GOOD_VALUES)
    n = r.randint(INIT - 1, INIT + 30)
    x = r.randint(0, 17)
    if x == 0:      # wrong compare target
        tgt = r.choice(["ver", "create", "lease"])
        return txn([cmp_(k, r.choice([0, n]), tgt)], [put(k, v)], r.choice([[], [rng(k)]]))
    if x == 1:      # value compare
        return txn([cmp_(k, v, "val")], [r.choice([put(k, v), dele(k)])], [rng(k)])
    if x == 2:      # wrong compare result
        return txn([cmp_(k, r.choice([0, n]), "mod", r.choice(["gt", "lt", "ne"]))], [r.choice([put(k, v), dele(k)])], r.choice([[], [rng(k)]]))
    if x == 3:      # several compares
        return txn([cmp_(k, n), cmp_(r.choice([k, k2]), r.choice([0, n]))], [r.choice([put(k, v), dele(k)])], [rng(k)])
    if x == 4:      # unconditional put
        return txn([], [put(k, v)], [])
    if x == 5:      # unconditional delete without the read
        return txn([], [dele(k)], [])
    if x == 6:      # read-only transaction
        return txn([], [rng(k)], [])
    if x == 7:      # nested / empty ops
        return txn([cmp_(k, r.choice([0, n]))], [r.choice([NEST, NONE])], r.choice([[], [rng(k)], [NEST]]))
    if x == 8:      # several writes
        return txn([cmp_(k, r.choice([0, n]))], [put(k, v), r.choice([put(k2, v), dele(k2)])], r.choice([[], [rng(k)]]))
    if x == 9:      # failure branch with several ops / a write
        return txn([cmp_(k, n)], [put(k, v)], r.choice([[rng(k), rng(k2)], [put(k, v)], [dele(k)]]))
    if x == 10:     # create shape with put flags: refused field by field
        return txn([cmp_(k, 0)], [put(k, v, flags=r.choice(["p", "v", "l", "pv"]))], [])
    if x == 11:     # empty transaction
        return txn([], [], [])
    if x == 12:     # delete then read (wrong order)
        return txn([], [dele(k), rng(k)], [])
    if x == 13:     # guarded op without failure branch
        return txn([cmp_(k, n)], [r.choice([put(k, v), dele(k)])], [])
    if x == 14:     # create with a non-zero guard and no failure branch + extra success op
        return txn([cmp_(k, 0)], [put(k, v), rng(k)], [])
    if x == 15:     # unguarded delete with a failure branch
        return txn([], [rng(k), dele(k)], [rng(k)])
    if x == 16:     # compares only
        return txn([cmp_(k, n)], [], [])
    return txn([cmp_(k, n)], [rng(k)], [rng(k)])    # guarded read


def near_misses(r, keys, sh):
    """Near misses of the supported shapes (the recognisers of kv.go let them through before 4c41c58)."""
    k = r.choice(keys)
    k2 = r.choice([x for x in keys if x != k])
    v = r.choice(GOOD_VALUES)
    cur = sh.live.get(k, 0)
    cur2 = sh.live.get(k2, 0)
    out = [
        txn([cmp_(k2, 0)], [put(k, v)], []),                                    # create: compare key != put key
        txn([cmp_(k, cur)], [put(k2, v)], [rng(k)]),                            # update: put key != compare key
        txn([cmp_(k, cur)], [put(k, v)], [rng(k2)]),                            # update: failure Get of another key
        txn([cmp_(k, cur)], [dele(k2)], [rng(k)]),                              # delete: compare key != delete key
        txn([cmp_(k2, cur2)], [dele(k2)], [rng(k)]),                            # delete: failure Get of another key
        txn([], [rng(k2), dele(k)], []),                                        # unguarded: Get of another key
        txn([cmp_(k, cur)], [dele(k, PREFIX + b"0")], [rng(k)]),                # guarded ranged delete
        txn([], [rng(k), dele(k, PREFIX + b"0")], []),                          # unguarded ranged delete
        txn([cmp_(k, cur)], [put(k, v, flags="p")], [rng(k)]),                  # update with prev_kv
        txn([cmp_(k, cur)], [put(k, v, flags="v")], [rng(k)]),                  # update with ignore_value (non-empty value: tikv refuses empty ones)
        txn([cmp_(k, cur)], [put(k, v, flags="l")], [rng(k)]),                  # update with ignore_lease
        txn([cmp_(k, cur, end=PREFIX + b"0")], [put(k, v)], [rng(k)]),          # compare over a range
        txn([cmp_(k, cur + 1)], [put(k, v)], [rng(k, rev=max(INIT, cur - 1))]), # failure Get at an old revision
        txn([cmp_(k, cur + 1)], [dele(k)], [rng(k, flags="c")]),                # failure Get count_only
        txn([cmp_(k, cur + 1)], [dele(k)], [rng(k, PREFIX + b"0")]),            # failure branch ranged read
        txn([cmp_(k, 0)], [dele(k)], [rng(k)]),                                 # guarded delete with a zero guard
        txn([cmp_(k, cur + 1)], [dele(k)], [rng(k, flags="k")]),                # failure Get keys_only
    ]
    return out


def delete_prev_kv_misses(r, keys, sh):
    """The supported delete shapes with prev_kv on the delete op (/repo c09cadc; before: executed as the plain delete, answered
    with a range response): guarded and unguarded; on an existing, a deleted and a never-written key; with the correct, a
    stale (a revision the key once had / below the current one) and a far expectation; the point Get with a harmless limit.
    All must be refused with an error and leave the store unchanged (theorem delete_with_prev_kv_rejected)."""
    live = [k for k in keys if k in sh.live]
    gone = [k for k in keys if k not in sh.live and sh.old.get(k)]
    never = [k for k in keys if k not in sh.live and not sh.old.get(k)] or [PREFIX + b"/zz/never"]
    out = []
    P = lambda k: dele(k, flags="p")
    for k in live:
        cur = sh.live[k]
        out += [txn([cmp_(k, cur)], [P(k)], [rng(k)]),                           # guarded, correct expectation: would delete
                txn([cmp_(k, max(1, cur - r.randint(1, 3)))], [P(k)], [rng(k)]), # guarded, stale: below the current revision
                txn([cmp_(k, sh.dealt + r.randint(1, 40))], [P(k)], [rng(k)]),   # guarded, far expectation
                txn([], [rng(k), P(k)], []),                                     # unguarded: would delete
                txn([], [rng(k, limit=1), P(k)], []),                            # unguarded, the Get with a limit (still plain)
                txn([cmp_(k, cur)], [P(k)], [rng(k, limit=r.randint(1, 3))])]    # guarded, the failure Get with a limit
        for o in sh.old.get(k, [])[-1:]:
            out.append(txn([cmp_(k, o)], [P(k)], [rng(k)]))                      # guarded, stale: a revision the key once had
    for k in gone:
        out += [txn([cmp_(k, sh.old[k][-1])], [P(k)], [rng(k)]),                 # deleted key, the revision it had
                txn([], [rng(k), P(k)], [])]                                     # deleted key, unguarded
    for k in never[:2]:
        out += [txn([cmp_(k, r.randint(INIT, sh.dealt))], [P(k)], [rng(k)]),     # missing key, some revision
                txn([], [rng(k), P(k)], [])]                                     # missing key, unguarded
    return out


def probe(n=0, v=b"1", lease=0, limit=0):
    """Kubernetes' compaction probe (compact.go): the compared version n, the new compact revision as the value"""
    return txn([cmp_(COMPACT_KEY, n, "ver")], [put(COMPACT_KEY, v, lease)], [rng(COMPACT_KEY, limit=limit)])


def near_probe_misses(r, keys):
    """Near misses of the compaction probe: the probe's compare, Version(compact_rev_key) == n, but not the probe's ops — before
    /repo 2870609 isCompact let every [put], [range] pair through and answered it with the canned probe answer (neither
    rejected nor executed). All must be refused with an error and leave the store unchanged (theorem near_probe_rejected)."""
    k = r.choice(keys)
    k2 = r.choice([x for x in keys if x != k])
    v = r.choice(GOOD_VALUES)
    n = r.choice([0, 0, 1, r.randint(2, 60)])
    K = COMPACT_KEY
    c = cmp_(K, n, "ver")
    return [
        txn([c], [put(k, v)], [rng(K)]),                                    # put on another key
        txn([c], [put(K, v)], [rng(k)]),                                    # put on the key, read of another key
        txn([c], [put(k, v)], [rng(k2)]),                                   # both on other keys (the transaction of the refutation)
        txn([c], [put(k, v)], [rng(k)]),                                    # an "update" guarded by the probe's compare
        txn([c], [put(K, v)], [rng(K, K + b"\x00")]),                       # ranged read
        txn([c], [put(K, v)], [rng(PREFIX + b"/", PREFIX + b"0")]),         # ranged read over the user keys
        txn([c], [put(K, v)], [rng(K, flags="c")]),                         # read count_only
        txn([c], [put(K, v)], [rng(K, flags="k")]),                         # read keys_only
        txn([c], [put(K, v)], [rng(K, rev=INIT + r.randint(1, 3))]),        # read at a revision
        txn([c], [put(K, v, flags="p")], [rng(K)]),                         # put with prev_kv
        txn([c], [put(K, v, flags="v")], [rng(K)]),                         # put with ignore_value
        txn([c], [put(K, v, flags="l")], [rng(K)]),                         # put with ignore_lease
        txn([cmp_(K, n, "ver", end=K + b"\x00")], [put(K, v)], [rng(K)]),   # compare with range_end
        txn([c], [put(K, v), put(k, v)], [rng(K)]),                         # two puts
        txn([c], [put(K, v)], []),                                          # no failure branch
        txn([c], [put(K, v)], [rng(K), rng(k)]),                            # two reads
        txn([c], [dele(k)], [rng(K)]),                                      # a delete guarded by the probe's compare
        txn([cmp_(K, n, "ver", "ne")], [put(K, v)], [rng(K)]),              # another compare result
        txn([c, cmp_(k, 0)], [put(K, v)], [rng(K)]),                        # a second compare
    ]


def gen_unsupported(seed, i, engine, n_far, with_near=True):
    r = rng_for(seed, "c16/u/%d" % i)
    keys = r.sample(KEY_POOL, r.randint(3, 6))
    sh = Shadow()
    lines = [cfg_line(engine)]
    for _ in range(r.randint(3, 8)):
        lines += gen_write(r, sh, keys)
    full = render_range(PREFIX + b"/", PREFIX + b"0")
    lines.append(full)
    for _ in range(n_far):
        # a transaction of no supported shape, or (1 in 4) a near miss of a supported one: key mismatch,
        # range_end, zero guard, put flags, Get options — all must be refused and leave the store unchanged
        x = r.random()
        if with_near and x < 0.25:
            t = r.choice(near_misses(r, keys, sh))
        elif with_near and x < 0.40:
            # a near miss of the COMPACTION PROBE (its compare, other ops): refused like the others ...
            t = r.choice(near_probe_misses(r, keys))
        elif with_near and x < 0.44:
            # ... and the probe itself: the canned answer (not refused), nothing executed
            t = probe(r.choice([0, 1, r.randint(2, 60)]), r.choice(GOOD_VALUES), r.choice([0, 0, 5]), r.choice([0, 0, 1]))
        elif with_near and x < 0.52:
            # a supported delete shape whose delete op asks for prev_kv (/repo c09cadc): refused like the others
            t = r.choice(delete_prev_kv_misses(r, keys, sh))
        else:
            t = far_unsupported(r, keys)
        lines += [render_txn(t), "rev", full]
        if r.random() < 0.2:
            lines += gen_write(r, sh, keys)
    return EtcdCase("etcd", lines, {"engine": engine, "kind": "unsupported"})


# ------------------------------------------------------------------ witnesses: the scripts of the concrete
# theorems of KB.Props.C16 (same keys, values and revisions), replayed on every run

A, B, C_, D = b"/r/a", b"/r/b", b"/r/c", b"/r/d"
V1, V2, V3, V9 = b"v1", b"v2", b"v3", b"v9"
FULL = render_range(PREFIX + b"/", PREFIX + b"0")
HI = PREFIX + b"0"


def witness_cases(engine):
    pre = [cfg_line(engine), render_txn(t_create(A, V1)), "rev", render_txn(t_create(B, V2)), "rev",
           render_txn(t_create(C_, V3)), "rev"]

    def refused(txns):
        # every one must be answered with an error; the full-range read after it must show the three keys unchanged
        return pre + [x for t in txns for x in (render_txn(t), "rev", FULL)]
    w = {}
    # theorem key_mismatch_rejected (formerly: executed as a create of /r/d, an update of the COMPARE key, ...)
    w["key_mismatch_rejected"] = refused([
        txn([cmp_(A, 0)], [put(D, V9)], []),
        txn([cmp_(A, INIT + 1)], [put(B, V9)], [rng(A)]),
        txn([cmp_(A, INIT + 1)], [put(A, V9)], [rng(B)]),
        txn([cmp_(A, INIT + 1)], [dele(B)], [rng(A)]),
        txn([], [rng(B), dele(A)], [])])
    # theorem ranged_delete_rejected (formerly: executed as a point delete)
    w["ranged_delete_rejected"] = refused([
        txn([cmp_(B, INIT + 2)], [dele(B, HI)], [rng(B)]),
        txn([], [rng(B), dele(B, HI)], [])])
    # theorem mod0_delete_rejected (formerly: an unconditional delete of an existing key)
    w["mod0_delete_rejected"] = refused([t_gdelete(C_, 0), t_gdelete(D, 0)])
    # theorem update_put_flags_rejected (formerly: ignore_value overwrote the value with the empty one)
    w["update_put_flags_rejected"] = refused([
        txn([cmp_(A, INIT + 1)], [put(A, b"", flags="v")], [rng(A)]),
        txn([cmp_(A, INIT + 1)], [put(A, V9, flags="p")], [rng(A)]),
        txn([cmp_(A, INIT + 1)], [put(A, V9, flags="l")], [rng(A)])])
    # theorem op_options_rejected (formerly: executed as the plain shape)
    w["op_options_rejected"] = refused([
        txn([cmp_(A, INIT + 1, end=HI)], [put(A, V9)], [rng(A)]),
        txn([cmp_(A, INIT + 2)], [put(A, V2)], [rng(A, flags="c")]),
        txn([cmp_(A, INIT + 1)], [put(A, V2)], [rng(A, rev=INIT + 3)]),
        txn([cmp_(A, INIT + 2)], [dele(A)], [rng(A, HI)]),
        txn([cmp_(A, INIT + 2)], [dele(A)], [rng(A, flags="k")])])
    # theorems delete_with_prev_kv_rejected / delete_with_prev_kv_rejected_witness (/repo c09cadc; formerly: executed as the plain delete
    # and answered with a range response): guarded with the correct / a stale expectation on the existing /r/b, guarded on the missing
    # /r/d, unguarded on /r/b and on /r/d — all with prev_kv on the delete op; same five transactions, same order
    DP = lambda k: dele(k, flags="p")
    w["delete_with_prev_kv_rejected"] = refused([
        txn([cmp_(B, INIT + 2)], [DP(B)], [rng(B)]),
        txn([cmp_(B, INIT + 1)], [DP(B)], [rng(B)]),
        txn([cmp_(D, INIT + 2)], [DP(D)], [rng(D)]),
        txn([], [rng(B), DP(B)], []),
        txn([], [rng(D), DP(D)], [])])
    # theorem old_delete_prev_kv_executed: the two transactions of the refutation (`delPrevG`, `delPrevU`; before c09cadc the first
    # deleted /r/b at 1004 and answered a range response holding /r/b=v2@1002) — now refused; then the same deletes WITHOUT prev_kv
    # are still the supported shapes (the plain guarded delete deletes /r/b, the plain unguarded one finds it missing)
    w["old_delete_prev_kv_executed"] = refused([txn([cmp_(B, INIT + 2)], [DP(B)], [rng(B)]), txn([], [rng(B), DP(B)], [])]) + \
        [render_txn(t_gdelete(B, INIT + 2)), "rev", FULL, render_txn(t_udelete(B)), "rev", FULL]
    # ... and on a DELETED key (its old revision, a newer one, unguarded), a re-created key (old and new revision), with a limit on
    # the point Get: every state, every expectation (the general theorem), deterministic on every engine
    w["delete_prev_kv_deleted_key"] = pre + [render_txn(t_gdelete(C_, INIT + 3)), "rev", FULL] + \
        [x for t in [txn([cmp_(C_, INIT + 3)], [DP(C_)], [rng(C_)]), txn([cmp_(C_, INIT + 4)], [DP(C_)], [rng(C_)]),
                     txn([], [rng(C_), DP(C_)], []), txn([], [rng(C_, limit=1), DP(C_)], [])]
         for x in (render_txn(t), "rev", FULL)] + \
        [render_txn(t_create(C_, V9)), "rev", FULL] + \
        [x for t in [txn([cmp_(C_, INIT + 3)], [DP(C_)], [rng(C_)]), txn([cmp_(C_, INIT + 5)], [DP(C_)], [rng(C_, limit=2)]),
                     txn([], [rng(C_), DP(C_)], []), txn([cmp_(A, INIT + 1)], [dele(A, HI, flags="p")], [rng(A)])]
         for x in (render_txn(t), "rev", FULL)] + \
        [render_txn(t_gdelete(C_, INIT + 5)), "rev", FULL]
    PC = cmp_(COMPACT_KEY, 0, "ver")
    K = COMPACT_KEY
    # theorem old_probe_recogniser_swallowed_put: the transaction of the refutation alone (etcd: Version(compact_rev_key) = 0 holds,
    # /r/a := v9 at the next revision; kubebrain before 2870609: the canned answer, nothing written) — now refused
    w["old_probe_recogniser_swallowed_put"] = refused([txn([PC], [put(A, V9)], [rng(B)])])
    # theorems near_probe_rejected / near_probe_rejected_witness (formerly, /repo before 2870609: answered with the canned answer of
    # the compaction probe — neither rejected nor executed); same thirteen transactions, same order
    w["near_probe_rejected"] = refused([
        txn([PC], [put(A, V9)], [rng(K)]),
        txn([PC], [put(K, V9)], [rng(B)]),
        txn([PC], [put(A, V9)], [rng(B)]),
        txn([PC], [put(K, V9)], [rng(K, HI)]),
        txn([PC], [put(K, V9)], [rng(K, flags="c")]),
        txn([PC], [put(K, V9)], [rng(K, flags="k")]),
        txn([PC], [put(K, V9)], [rng(K, rev=INIT + 3)]),
        txn([PC], [put(K, V9, flags="p")], [rng(K)]),
        txn([PC], [put(K, V9, flags="v")], [rng(K)]),
        txn([PC], [put(K, V9, flags="l")], [rng(K)]),
        txn([cmp_(K, 0, "ver", end=HI)], [put(K, V9)], [rng(K)]),
        txn([PC], [put(K, V9), put(A, V9)], [rng(K)]),
        txn([PC], [put(K, V9)], [])])
    # theorem compact_probe_recognised: the probe itself (any compared version, value, lease, a limit on the point Get) gets the
    # canned answer — it must not be refused — and nothing is executed
    w["compact_probe_recognised"] = pre + [x for t in [probe(0, b"1"), probe(3, V9), probe(1, b"1007", lease=5), probe(0, b"1", limit=1)]
                                           for x in (render_txn(t), "rev", FULL, render_range(COMPACT_KEY))]
    # theorems unguarded_delete_missing_flag / unguarded_delete_missing_witness: Succeeded=true now, as etcd
    w["unguarded_delete_missing"] = pre + [render_txn(t_udelete(D)), "rev", FULL, render_txn(t_udelete(A)), "rev", FULL]
    # a point Get with a limit is still the plain shape (kv.go isPlainGet, KB.Etcd.PlainGet): answered as etcd answers
    w["plain_get_with_limit"] = pre + [render_txn(txn([cmp_(A, INIT + 2)], [put(A, V2)], [rng(A, limit=5)])), "rev", FULL,
                                       render_txn(txn([cmp_(A, INIT + 1)], [put(A, V2)], [rng(A, limit=1)])), "rev", FULL]
    # expectations outside 0..dealt+1 on well-shaped transactions (shim_sound: a drift error or etcd's answer)
    w["far_expectations"] = pre + [render_txn(t_update(A, V9, INIT + 4)), "rev", FULL,        # = dealt+1: compare fails
                                   render_txn(t_update(A, V9, INIT + 500)), "rev", FULL,      # future: drift error
                                   render_txn(txn([cmp_(A, -5)], [put(A, V9)], [rng(A)])), "rev", FULL,   # negative: drift error
                                   render_txn(t_gdelete(D, INIT + 500)), "rev", FULL,         # missing key: not found
                                   render_txn(t_gdelete(A, INIT + 500)), "rev", FULL]         # existing key: drift error
    # theorem count_bounds_unchecked
    w["count_bounds"] = pre + [render_range(PREFIX + b"/", b"\x00", flags="c"), render_range(C_, A, flags="c"),
                               render_range(PREFIX + b"/", b"\x00"), render_range(C_, A)]
    # theorem limited_count_wrong
    w["limited_count"] = pre + [render_range(PREFIX + b"/", PREFIX + b"0", limit=1), render_range(PREFIX + b"/", PREFIX + b"0", limit=2),
                                render_range(PREFIX + b"/", PREFIX + b"0", limit=3)]
    # theorem count_only_counts_revision (formerly the observation count_only_ignores_revision)
    w["count_only_counts_revision"] = pre + [render_txn(t_gdelete(A, INIT + 1)), "rev",
                                             render_range(PREFIX + b"/", PREFIX + b"0", rev=INIT + 3, flags="c"),
                                             render_range(PREFIX + b"/", PREFIX + b"0", rev=INIT + 3),
                                             render_range(PREFIX + b"/", PREFIX + b"0", flags="c"),
                                             "bcompact %d" % (INIT + 4),
                                             render_range(PREFIX + b"/", PREFIX + b"0", rev=INIT + 3, flags="c"),
                                             render_range(PREFIX + b"/", PREFIX + b"0", rev=INIT + 3),
                                             render_range(PREFIX + b"/", PREFIX + b"0", flags="c")]
    # theorem pagination_witness
    S = hist.succ
    w["pagination_witness"] = pre + [render_range(PREFIX + b"/", HI, limit=1), render_range(S(A), HI, limit=1), render_range(S(B), HI, limit=1),
                                     render_range(A, S(A)), render_range(S(A), HI, flags="c"), render_range(PREFIX + b"/", S(B), flags="c"),
                                     render_range(S(A), HI, rev=INIT + 2, flags="c")]
    # theorems empty_value_refused / empty_value_refused_k8s
    w["empty_value_refused"] = pre + [render_txn(t_create(D, b"")), "rev", FULL, render_txn(t_create(A, b"")), "rev", FULL,
                                      render_txn(t_update(A, b"", INIT + 1)), "rev", FULL, render_range(A),
                                      render_txn(t_update(D, b"", 0)), "rev", FULL, render_range(D),
                                      render_txn(t_create(D, V9)), "rev", FULL]
    # theorem range_stream_needs_borders
    w["range_stream_needs_borders"] = pre + ["watch s1 %s - %d" % (hx(PREFIX + b"/"), -(INIT + 3)), "wevents s1",
                                             "watch s2 - %s %d" % (hx(HI), -(INIT + 3)), "wevents s2",
                                             render_txn(t_create(D, V9)), "rev", FULL]
    w["obs_range_options"] = pre + [render_range(PREFIX + b"/", PREFIX + b"0", flags="k"),
                                    render_range(PREFIX + b"/", PREFIX + b"0", extra=" sort=2:0"),
                                    render_range(A, flags="c"), render_range(A, flags="k"),
                                    render_range(PREFIX + b"/", PREFIX + b"0", rev=INIT + 500),
                                    render_range(PREFIX + b"/", PREFIX + b"0", rev=-1),
                                    render_range(A, rev=-1), render_range(A, rev=INIT + 500),
                                    render_range(PREFIX + b"0", PREFIX + b"/"), render_range(PREFIX + b"/", b"\x00"),
                                    render_range(PREFIX + b"/", PREFIX + b"0", limit=-2),
                                    "put %s %s" % (hx(A), hx(V1)), "delrange %s -" % hx(A), "compact 5",
                                    render_txn(txn([cmp_(COMPACT_KEY, 0, "ver")], [put(COMPACT_KEY, b"1")], [rng(COMPACT_KEY)])), "rev", FULL]
    if engine == "tikv":
        # the same on a tikv engine split into three regions (at the index keys of /r/b and /r/c): before /repo 5b8c053 the
        # unvalidated request crashed the process there; the follow-up transaction and range show it is still serving
        w["range_stream_needs_borders_regions"] = [pre[0] + region_opt([A, B, C_, D][0:3] + [D])] + w["range_stream_needs_borders"][1:]
    cases = [EtcdCase("etcd", lines, {"engine": engine, "kind": "witness", "witness": name}) for name, lines in w.items()]
    # the magic revision (state sm3 of the theorems: the same three creates from revision 1885; the committed revision IS 1888)
    pre_m = [cfg_line(engine, MAGIC - 3), render_txn(t_create(A, V1)), "rev", render_txn(t_create(B, V2)), "rev",
             render_txn(t_create(C_, V3)), "rev"]
    # theorems unlimited_plain_range_at_magic_is_partition_listing / magic_revision_hijacked: the UNLIMITED plain range at revision
    # 1888 is still answered with partition borders (observation); at 1887 and as a point read it is a read
    magic = pre_m + [render_range(PREFIX + b"/", PREFIX + b"0", rev=MAGIC), render_range(PREFIX + b"/", PREFIX + b"0", rev=MAGIC - 1),
                     render_range(C_, rev=MAGIC), render_range(A, rev=MAGIC), FULL]
    cases.append(EtcdCase("etcd", magic, {"engine": engine, "kind": "witness", "witness": "obs_magic_revision", "init": MAGIC - 3}))
    # theorem old_magic_swallowed_page_two (before /repo e617587: the continue request and the count at revision 1888 were answered
    # with border keys): page 1 at "latest" (header 1888, more), the continue request, the count — same requests, same order
    page2 = pre_m + [render_range(PREFIX + b"/", HI, limit=1), render_range(S(A), HI, limit=1, rev=MAGIC),
                     render_range(PREFIX + b"/", HI, rev=MAGIC, flags="c"), render_range(S(B), HI, limit=1, rev=MAGIC),
                     render_range(PREFIX + b"/", HI, limit=2, rev=MAGIC), render_range(S(A), HI, rev=MAGIC, flags="c"), FULL]
    cases.append(EtcdCase("etcd", page2, {"engine": engine, "kind": "witness", "witness": "old_magic_swallowed_page_two", "init": MAGIC - 3,
                                          "properties": ["C16", "C03"]}))
    return cases



# ------------------------------------------------------------------ scripted backend answers: shape x answer table

BIG = 1 << 63


def backend_answers(k):
    """Every KIND of answer backend.Create / Update / Delete can hand to backendshim.go (pkg/backend/txn.go),
    over the response type (succeeded x kv present) with the header relations the backend produces, plus the
    error kinds. (A CreateResponse has no kv: the harness drops it there.)"""
    H = INIT + 7
    return [
        ("resp", True, H, None),                        # create / update succeeded
        ("resp", True, H, (k, V1, INIT + 1)),           # delete succeeded: the deleted key-value
        ("resp", False, H, None),                       # create: exists; update: key gone; delete: key missing
        ("resp", False, H, (k, V2, INIT + 6)),          # stale expectation / LOST RACE: the writer's current kv, header above it
        ("resp", False, INIT + 6, (k, V2, INIT + 6)),   # ... the writer was dealt a later revision: header = max(rev, mod) = mod
        ("resp", False, H, (k, b"", INIT + 6)),         # ... an empty value
        ("resp", False, H, (k, V1, INIT + 1)),          # delete: the key vanished between the read and the commit: the kv that was read
        ("resp", False, BIG + 5, (k, V2, BIG + 1)),     # revisions above 2^63 (int64 casts of backendshim.go)
        ("err", "drift"), ("err", "uncertain"), ("err", "notfound"), ("err", "unavailable"), ("err", "other"),
    ]


def inject_shapes(k):
    """every recognised transaction shape (and the ones that make no backend call: the armed answer stays)"""
    return [
        ("create", t_create(k, V9, lease=7)),
        ("create_flags", txn([cmp_(k, 0)], [put(k, V9, flags="p")], [])),
        ("update", t_update(k, V9, INIT + 1)),
        ("update_zero", t_update(k, V9, 0)),
        ("update_negative", txn([cmp_(k, -5)], [put(k, V9, lease=3)], [rng(k, limit=1)])),
        ("gdelete", t_gdelete(k, INIT + 1)),
        ("udelete", t_udelete(k)),
        ("compact", txn([cmp_(COMPACT_KEY, 0, "ver")], [put(COMPACT_KEY, b"1")], [rng(COMPACT_KEY)])),
        ("unsupported", txn([], [put(k, V9)], [])),
        # the delete shapes with prev_kv on the delete op (/repo c09cadc): no backend call, the armed answer stays
        ("gdelete_prev_kv", txn([cmp_(k, INIT + 1)], [dele(k, flags="p")], [rng(k)])),
        ("udelete_prev_kv", txn([], [rng(k), dele(k, flags="p")], [])),
    ]


def inject_cases(engine):
    """shape x backend answer, exhaustively: each scripted answer is pushed through the real RPCServer.Txn
    for each shape; `injected` shows the request the backend was called with; the full-range read shows the
    store untouched."""
    pre = [cfg_line(engine), render_txn(t_create(A, V1)), "rev", render_txn(t_create(B, V2)), "rev"]
    cases = []
    for k in (A, D):                    # an existing and a missing key (the scripted answer does not depend on it)
        for name, t in inject_shapes(k):
            if k == D and name not in ("udelete", "create", "gdelete", "udelete_prev_kv"):
                continue
            lines = list(pre)
            for a in backend_answers(k):
                lines += [render_inject(a), render_txn(t), "injected", "rev", FULL]
            lines += ["inject clear", "injected", render_txn(t), "rev", FULL]   # and the same transaction on the real backend
            cases.append(EtcdCase("etcd", lines, {"engine": engine, "kind": "inject", "witness": "inject_%s_%s" % (name, hx(k))}))
    return cases


def race_cases(engine):
    """The answers of a LOST RACE on a store that is consistent with them (`consistent`: the oracle also holds
    the answer against the following real read): a concurrent writer has rewritten / deleted /r/a after the
    transaction's backend call had read it at revision 1001 and before its commit — the backend then answers
    what is injected here (pkg/backend/txn.go: ErrCASFailed -> re-read)."""
    pre = [cfg_line(engine), render_txn(t_create(A, V1)), "rev", render_txn(t_create(B, V2)), "rev"]
    W = INIT + 3        # the writer's revision; the losing call was dealt W + 1
    upd = pre + [render_txn(t_update(A, V9, INIT + 1)), "rev"]
    gone = pre + [render_txn(t_gdelete(A, INIT + 1)), "rev"]
    w = {}
    # theorem unguarded_delete_lost_race / unguarded_delete_matches_ref (3): Succeeded=false with the writer's kv
    w["race_udelete_lost_to_update"] = upd + [render_inject(("resp", False, W + 1, (A, V9, W))), render_txn(t_udelete(A)), "injected", "rev",
                                              render_range(A), FULL, render_txn(t_udelete(A)), "rev", render_range(A)]
    # the key vanished between the read and the commit: the backend reports the kv it had read
    w["race_udelete_key_vanished"] = gone + [render_inject(("resp", False, W + 1, (A, V1, INIT + 1))), render_txn(t_udelete(A)), "injected", "rev",
                                             render_range(A), FULL]
    # theorem lost_race_matches_ref: guarded delete / update / create that lost to the writer
    w["race_gdelete_lost_to_update"] = upd + [render_inject(("resp", False, W + 1, (A, V9, W))), render_txn(t_gdelete(A, INIT + 1)), "injected",
                                              "rev", render_range(A), FULL]
    w["race_update_lost_to_update"] = upd + [render_inject(("resp", False, W + 1, (A, V9, W))), render_txn(t_update(A, V3, INIT + 1)), "injected",
                                             "rev", render_range(A), FULL]
    w["race_update_lost_to_delete"] = gone + [render_inject(("resp", False, W + 1, None)), render_txn(t_update(A, V3, INIT + 1)), "injected",
                                              "rev", render_range(A), FULL]
    w["race_gdelete_lost_to_delete"] = gone + [render_inject(("resp", False, W + 1, None)), render_txn(t_gdelete(A, INIT + 1)), "injected",
                                               "rev", render_range(A), FULL]
    # the writer was dealt its revision AFTER the losing call but committed first: header = the kv's revision
    w["race_update_writer_dealt_later"] = upd + [render_inject(("resp", False, W, (A, V9, W))), render_txn(t_update(A, V3, INIT + 1)), "injected",
                                                 "rev", render_range(A), FULL]
    w["race_create_lost_to_create"] = pre + [render_txn(t_create(D, V3)), "rev", render_inject(("resp", False, W + 1, None)),
                                             render_txn(t_create(D, V9)), "injected", "rev", render_range(D), FULL]
    return [EtcdCase("etcd", lines, {"engine": engine, "kind": "inject", "witness": name, "consistent": True}) for name, lines in w.items()]


def real_race_cases(engine):
    """REAL races on the real backend (cfg sched=1: the engine behind the gating wrapper of wrap.go): the
    transaction `c1` runs as a parked client, one storage call per `step`; the writer's transaction commits
    between c1's read and c1's commit. Model: KB.Sys (the interleaving transition system) + `shapeTxn`."""
    cfg = cfg_line(engine) + " sched=1"
    pre = [cfg, render_txn(t_create(A, V1)), "rev", render_txn(t_create(B, V2)), "rev", "gated 1"]
    tail = ["step c1", "step c1", "step c1", "step c1", "rev", render_range(A), render_range(D), FULL]

    def race(parked, n_before, writers):
        lines = pre + ["start c1 " + render_txn(parked)] + ["step c1"] * n_before
        for wtx in writers:
            lines += [render_txn(wtx), "rev"]
        return lines + tail
    w = {}
    w["real_udelete_lost_to_update"] = race(t_udelete(A), 1, [t_update(A, V9, INIT + 1)])
    w["real_udelete_lost_to_delete"] = race(t_udelete(A), 1, [t_gdelete(A, INIT + 1)])
    w["real_udelete_lost_to_recreate"] = race(t_udelete(A), 1, [t_gdelete(A, INIT + 1), t_create(A, V3)])
    w["real_udelete_no_race"] = race(t_udelete(A), 1, [t_update(B, V9, INIT + 2)])
    w["real_udelete_missing_no_race"] = race(t_udelete(D), 0, [])
    w["real_gdelete_lost_to_update"] = race(t_gdelete(A, INIT + 1), 1, [t_update(A, V9, INIT + 1)])
    w["real_gdelete_lost_to_delete"] = race(t_gdelete(A, INIT + 1), 1, [t_udelete(A)])
    w["real_update_lost_to_update"] = race(t_update(A, V3, INIT + 1), 0, [t_update(A, V9, INIT + 1)])
    w["real_update_lost_to_delete"] = race(t_update(A, V3, INIT + 1), 0, [t_gdelete(A, INIT + 1)])
    w["real_create_lost_to_create"] = race(t_create(D, V3), 0, [t_create(D, V9)])
    # two parked clients: the writer c2 was dealt the EARLIER revision and commits first (header above the kv's revision)
    w["real_udelete_lost_to_earlier_writer"] = pre + [
        "start c2 " + render_txn(t_update(A, V9, INIT + 1)), "start c1 " + render_txn(t_udelete(A)), "step c1",
        "step c2", "step c2", "rev"] + tail
    return [EtcdCase("etcd", lines, {"engine": engine, "kind": "race", "witness": name}) for name, lines in w.items()]

# ------------------------------------------------------------------ check

def histogram(rep, case):
    oc = rep.cov.setdefault("outcome_histogram", {})
    for out in case.impl or []:
        o = out.split()
        if len(o) < 2:
            continue
        if o[0] == "txn":
            key = "txn " + (o[1] if o[1].startswith("ok=") else "err " + (o[2] if len(o) > 2 else "?"))
        elif o[0] == "range":
            key = "range " + ("err " + o[2] if o[1] == "err" and len(o) > 2 else ("more" if "more=1" in o else "complete"))
        elif o[0] == "wevents":
            key = "wevents " + ("refused" if "compact=1" in o else ("events" if o[2] != "-" else "none"))
        elif o[0] == "injected":
            key = "injected " + o[1]
        else:
            continue
        oc[key] = oc.get(key, 0) + 1


def check(rep, tier, seed):
    if tier == "quick":
        n_hist, n_ops, n_uns, n_far = 24, 40, 16, 10
    else:
        n_hist, n_ops, n_uns, n_far = 2400, 100, 1200, 24
    cases = [gen_history(seed, i, ENGINES[i % len(ENGINES)], n_ops) for i in range(n_hist)]
    cases += [gen_unsupported(seed, i, ENGINES[i % len(ENGINES)], n_far, with_near=(i % 4 != 0)) for i in range(n_uns)]
    wit = []
    for e in ENGINES:
        wit += race_cases(e)
    for e in ENGINES:
        wit += real_race_cases(e)
    wit += inject_cases("memkv")
    if tier != "quick":
        wit += inject_cases("badger") + inject_cases("tikv")
    for e in ENGINES:
        wit += witness_cases(e)
    wit += [bounds_case(seed, i, ENGINES[i % len(ENGINES)]) for i in range(6 if tier == "quick" else 60)]
    # the cheap, most telling scripts first; then batches — the run stops at the first confirmed violation
    # (a tree on which model and implementation differ must not cost one timeout per remaining script)
    # (a crash says most; then the short scripts of the refutation of /repo c09cadc, so that a tree without it is reported with
    # the ten-line witness and a real deletion rather than with a row of the scripted-backend table)
    FIRST = {"range_stream_needs_borders_regions": 0, "old_delete_prev_kv_executed": 1, "delete_with_prev_kv_rejected": 1}
    wit.sort(key=lambda c: FIRST.get(c.meta.get("witness"), 2))
    # reads at the partition-listing magic revision 1888 (/repo e617587; C03 through the etcd endpoint as well)
    n_magic = 2 if tier == "quick" else 21
    magic_engines = ["memkv", "badger"] if tier == "quick" else ENGINES
    wit = [magic_revision_case(seed, i, magic_engines[i % len(magic_engines)]) for i in range(n_magic)] + wit
    cases = wit + cases
    shapes = {}
    found = False
    hits_by_sig = {}
    observations = {}
    known_sigs = set(f.get("signature") for f in core.load_known().get("findings", [])
                     if f.get("property") == "C16" and f.get("status") == "known")
    inconclusive = 0
    BATCH = 28 if tier == "quick" else 280
    for lo in range(0, len(cases), BATCH):
        batch = cases[lo:lo + BATCH]
        core.run_cases(batch)
        for c in batch:
            rep.count_case(c)
            histogram(rep, c)
            for ln in c.lines:
                if ln.startswith("txn "):
                    tx = parse_txn_line(ln)
                    s = shape_of(tx)
                    k = s[0] if s else ("compact_probe" if is_compact_probe(tx) else "near_compact_probe" if has_probe_compare(tx) else
                                        "delete_prev_kv" if delete_prev_kv_shape(tx) else "other")
                    shapes[k] = shapes.get(k, 0) + 1
        for c in batch:
            hits = oracle(c)
            for (i, desc, sig) in hits:
                if sig in OBSERVED and sig not in known_sigs:
                    observations[sig] = observations.get(sig, 0) + 1
                    continue
                hits_by_sig[sig] = hits_by_sig.get(sig, 0) + 1
                if core.handle_oracle_hit(rep, "C16", sig, c, desc, sig):
                    found = True
                    break
            if found:
                break
            if c.meta.get("inconclusive"):
                inconclusive += 1
                continue
            if c.diff() is not None:
                core.handle_diff(rep, "C16", "correspondence", c)
                found = True
                break
        if found:
            break
    rep.cov["txn_shapes_issued"] = shapes
    rep.cov["rule"] = ("scripts for the `etcd` suite: the fixed witness scripts of the concrete theorems; random histories of the four "
                       "Kubernetes transaction shapes (correct / stale / zero expectations over existing, missing and deleted keys) "
                       "interleaved with point, range, limited and count_only reads and prefix watches; scripts of grammar-generated "
                       "unsupported transactions and near misses of the supported shapes (incl. the delete shapes with prev_kv on the delete op) and of the compaction probe (its compare, other ops), each followed by a full-range read; "
                       "the probe itself (canned answer, must not be refused); the table "
                       "transaction shape x backend answer (scripted backend: `inject`), the lost-race answers on a consistent store, and real "
                       "races (a transaction parked at its storage calls while a writer commits). A script "
                       "is counted as distinct by the hash of its text; all generated scripts contain writes and reads (non-trivial).")
    rep.cov["oracle_hits_by_signature"] = hits_by_sig
    rep.cov["observations"] = observations
    OBS_TEXT = {
        MAGIC_OBS: "an UNLIMITED, non-count range (range_end given) at revision exactly 1888 (GetPartitionMagic) is answered with the engine's "
                   "partition borders although 1888 is a committed revision of the store: the in-band partition request of kubebrain-client "
                   "(theorem unlimited_plain_range_at_magic_is_partition_listing); every request at revision 1888 with a limit or count_only is "
                   "an ordinary read (/repo e617587) and is judged as one",
        "txn-delete-lost-to-delete-stale-kv": "a delete that loses its compare-and-swap to a concurrent delete of the same key carries the key-value it had read",
    }
    rep.cov["observation_texts"] = {sig: OBS_TEXT.get(sig, "") for sig in observations}
    for sig in sorted(observations):
        print("OBSERVATION: property=C16 %s [signature %s, %d time(s); recorded in coverage.observations, not condemned]"
              % (OBS_TEXT.get(sig, ""), sig, observations[sig]))
    rep.cov["scripts_cut_short_by_rpc_deadline"] = inconclusive
    rep.assumptions += [
        "this node is the leader and revision sync succeeds (production peer service over an election stub)",
        "sequential requests, plus: every answer backend.Create/Update/Delete can give (pkg/backend/txn.go, enumerated by reading it) scripted "
        "into the real RPCServer, and two-client races stepped at the storage calls; values other than the literal 'tombstone' (C03 finding)",
        "an unguarded delete that loses a race is answered Succeeded=false with the current key-value (etcd never fails a compare-less "
        "transaction): accepted as the answer of the delete guarded by the revision read (theorem unguarded_delete_matches_ref); a delete "
        "lost to a concurrent delete carries the key-value it had read: recorded in coverage.observations, not condemned",
        "expected revisions correct / stale / zero; an expectation above the next revision or a negative one may be refused with a drift error (a refusal, not a wrong answer)",
        "reads at revisions <= the committed one; a refusal (error) of inverted bounds or range_end=\\0 is not counted as a wrong answer",
        "range bounds: keys over the alphabet and their successors key+\\x00 (continue key of a paginated list, end of a single-key range); "
        "count_only at the current or an explicit revision; a range / count below the compaction floor must be refused; a write without a "
        "value must be refused (consuming no revision); a range-stream watch-create without key or range_end must be cancelled",
        "outside the quantifier, checked for model/implementation correspondence only: keys_only, sort order, min/max revision filters, "
        "the UNLIMITED plain range at the partition-listing magic revision 1888 (recorded in coverage.observations; every request at "
        "revision 1888 that carries a limit or count_only is INSIDE the quantifier — C16 and C03 through the etcd endpoint, "
        "`magic_revision_case`), header revisions of failed transactions, "
        "create_revision / version / lease of returned key-values, the number and kind of response ops",
        "a transaction answered 'uncertain' because the server's own 1 s deadline expired under load ends the judgement of its script (counted in scripts_cut_short_by_rpc_deadline)",
        "a watch refused at registration (event cache does not reach back to the start revision) is a forced relist, not a wrong event stream",
    ]
    if not found:
        # an acknowledged write that a range at "latest" does not return yet (parked earlier writer): known finding
        from . import c16ack
        found = c16ack.check(rep, tier)
    if not found:
        found = follower_watch_check(rep, tier)
    return found


def follower_watch_check(rep, tier):
    """The watch clause through a FOLLOWER (suite `roles`, `fwd watch`): kube-apiserver may be connected to a node that is not
    the leader; its prev_kv prefix watch is forwarded by the follower's etcd proxy to the leader. A create, an update and a
    delete at the leader must reach the client as PUT / PUT / DELETE events, the DELETE with the previous key-value."""
    from . import c18
    lines = ["cfg init=%d" % c18.INIT] + ["fwd watch k=%d%s" % (k, d) for k, d in ((1, ""), (2, " delay=60"), (3, ""))][:2 if tier == "quick" else 3]
    c = core.Case(c18.SUITE, lines, {"part": "forward"})
    core.run_cases([c])
    rep.count_case(c)
    for i, (line, out) in enumerate(zip(c.lines, c.impl or [])):
        o = out.split()
        if o[:3] == ["fwd", "watch", "created"] and "delivered=1" in o and "prev=1" not in o:
            desc = ("line %d: %s -> %s: a prev_kv watch served through a follower (forwarded to the leader by the etcd proxy): the update / "
                    "delete at the leader reached the client %s" % (i + 1, line, out, "not at all" if "prev=lost" in o else
                                                                    "as events WITHOUT the previous key-value"))
            return core.handle_oracle_hit(rep, "C16", "follower-watch-event-without-prev-kv", c, desc, "follower-watch-event-without-prev-kv")
    if c.diff() is not None:
        core.handle_diff(rep, "C16", "correspondence-follower-watch", c)
        return True
    return False
